package worlds

import (
	"math/big"

	"github.com/MinterTeam/minter-go-node/coreV2/transaction"
	"github.com/MinterTeam/minter-go-node/coreV2/types"

	"verif/lab"
)

// World "bookties": the committed book holds one order at the best price (1.0); the menu adds
// three orders of three makers at one and the same worse price (0.8) and a taker who, in the
// same block, eats the best order, moves the pool to 0.8 and stops inside that price level.
// Orders added in a block sit in an unsorted set until the book is next read: which of the tied
// orders is filled first must be decided by their ids, not by the order in which a map yields them.
func booktiesGenesis() *types.AppState {
	g := NewG()
	c14Accounts(g, e18(1000), nil)
	h := uint64(BaseHeight + 1)
	g.Pool(1, 0, c14Tok, c14Reserve, c14Reserve, []types.Order{
		{IsSale: true, Volume0: e18(1000).String(), Volume1: e18(1000).String(), ID: 1, Owner: K("m1").Addr, Height: h},
	})
	g.S.NextOrderID = 2
	return g.Build()
}

func init() {
	Register("bookties", func() *World {
		m1, m2, m3, tk := K("m1"), K("m2"), K("m3"), K("taker")
		sale := func(name string, by *Key, sell, buy *big.Int) Tx {
			return Tx{Name: name, Type: transaction.TypeAddLimitOrder, Signer: by, Tags: []string{"add"},
				Data: transaction.AddLimitOrderData{CoinToSell: c14Tok, ValueToSell: sell, CoinToBuy: 0, ValueToBuy: buy}}
		}
		sellBip := func(name string, x *big.Int) Tx {
			return Tx{Name: name, Type: transaction.TypeSellSwapPool, Signer: tk, Tags: []string{"trade"},
				Data: transaction.SellSwapPoolDataV260{Coins: []types.CoinID{0, c14Tok}, ValueToSell: x, MinimumValueToBuy: big.NewInt(0)}}
		}
		return &World{
			P:        lab.Params{StakePeriod: 12, OrdersPeriod: 4, InitialHeight: BaseHeight + 2},
			Genesis:  booktiesGenesis,
			Envs:     c14Envs(),
			Accounts: []*Key{m1, m2, m3, tk, K("vown")},
			Menu: []Tx{
				sale("m1 sale 800/1000 (price 0.8)", m1, e18(800), e18(1000)),
				sale("m2 sale 1600/2000 (price 0.8)", m2, e18(1600), e18(2000)),
				sale("m3 sale 400/500 (price 0.8)", m3, e18(400), e18(500)),
				sellBip("taker sells 3700 BIP (best order, pool down to 0.8, part of the 0.8 level)", e18(3700)),
				sellBip("taker sells 2900 BIP (stops earlier in the 0.8 level)", e18(2900)),
			},
			Notes: "three equal-priced orders added in one block behind a better resting order",
		}
	})
}
