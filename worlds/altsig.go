package worlds

import (
	"bytes"
	"crypto/ecdsa"
	"crypto/sha256"
	"math/big"

	"github.com/MinterTeam/minter-go-node/crypto"
)

// altSign returns a valid secp256k1 signature (R || S || V, V in {0,1}, low S) of hash by priv
// that differs from the deterministic (RFC 6979) one the node's own signer produces: the ECDSA
// nonce is derived from another seed. Two different valid signatures of one key over one hash
// are what a listed owner of a multisig wallet can produce at will.
func altSign(hash []byte, priv *ecdsa.PrivateKey) []byte {
	c := crypto.S256()
	n := c.Params().N
	halfN := new(big.Int).Rsh(n, 1)
	z := new(big.Int).SetBytes(hash)
	for ctr := byte(0); ; ctr++ {
		seed := sha256.Sum256(append(append([]byte("verif-alt-nonce"), ctr), append(hash, priv.D.Bytes()...)...))
		k := new(big.Int).Mod(new(big.Int).SetBytes(seed[:]), n)
		if k.Sign() == 0 {
			continue
		}
		rx, ry := c.ScalarBaseMult(k.Bytes())
		r := new(big.Int).Mod(rx, n)
		if r.Sign() == 0 || rx.Cmp(n) >= 0 {
			continue
		}
		s := new(big.Int).Mul(r, priv.D)
		s.Add(s, z)
		s.Mul(s, new(big.Int).ModInverse(k, n))
		s.Mod(s, n)
		if s.Sign() == 0 {
			continue
		}
		v := byte(ry.Bit(0))
		if s.Cmp(halfN) > 0 {
			s.Sub(n, s)
			v ^= 1
		}
		sig := make([]byte, 65)
		r.FillBytes(sig[:32])
		s.FillBytes(sig[32:64])
		sig[64] = v
		// it must verify, and it must not be the deterministic signature
		pub, err := crypto.Ecrecover(hash, sig)
		if err != nil || !bytes.Equal(pub, crypto.FromECDSAPub(&priv.PublicKey)) {
			continue
		}
		if det, err := crypto.Sign(hash, priv); err == nil && bytes.Equal(det, sig) {
			continue
		}
		return sig
	}
}
