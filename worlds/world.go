package worlds

import (
	"fmt"
	"sync"
	"time"

	"github.com/MinterTeam/minter-go-node/coreV2/types"

	"verif/lab"
	"verif/vdb"
)

// EnvSpec is one block-environment alternative.
type EnvSpec struct {
	Name string
	Env  lab.Env
	// Dyn, when set, computes the environment from the node just before BeginBlock.
	Dyn func(n *lab.Node) lab.Env
	// FF > 0: a fast-forward macro step — FF empty blocks (all validators present, +5 s each)
	// are executed before the block itself.
	FF int
}

// World is a closed driver: genesis, constructor parameters, menus.
type World struct {
	Name    string
	P       lab.Params
	Genesis func() *types.AppState
	Menu    []Tx
	Envs    []EnvSpec
	// HistoryKey adds history-dependent information to the canonical state key
	// (needed when menu items refer to the history, e.g. replays).
	UsesReplay bool
	// Universe: accounts, coins the world can touch (for probes and reports).
	Accounts []*Key
	Notes    string

	// Warmup > 0: every history starts from a checkpoint taken after Warmup empty blocks
	// (executed once per world object; each execution reopens a node over a copy of the
	// checkpoint's databases). WarmupEnv optionally chooses the environment of warm-up block i.
	Warmup    int
	WarmupEnv func(n *lab.Node, i int) lab.Env
	CkOnce    sync.Once
	CkSet     *vdb.Set
	CkHeight  int64
	CkTime    time.Time
	CkFault   *lab.Fault
}

var registry = map[string]func() *World{}

// Register adds a world constructor.
func Register(name string, f func() *World) { registry[name] = f }

// Get builds a registered world.
func Get(name string) *World {
	f, ok := registry[name]
	if !ok {
		panic(fmt.Sprintf("unknown world %q", name))
	}
	w := f()
	w.Name = name
	if len(w.Envs) == 0 {
		w.Envs = []EnvSpec{{Name: "default"}}
	}
	return w
}

// Names lists registered worlds.
func Names() []string {
	var out []string
	for k := range registry {
		out = append(out, k)
	}
	return out
}
