package worlds

import (
	"fmt"
	"math/big"

	"github.com/MinterTeam/minter-go-node/coreV2/transaction"
	"github.com/MinterTeam/minter-go-node/coreV2/types"

	"verif/lab"
)

// World "book" (property C14): one pool BIP/TOK with reserves 10^22 / 10^22
// (pool price exactly 1), three makers and one taker. The order book is empty
// at genesis and is built by AddLimitOrder transactions.
//
// World "bookdisk": the same accounts, but the book (6 sale orders, 3 buy
// orders) is part of the GENESIS pool and every history starts from a
// checkpoint taken after one empty block, i.e. on a node object that was
// re-opened over the databases: all orders are paged in lazily from disk.
//
// Heights: StakePeriod 12, OrdersPeriod 2, BaseHeight%12 == 0. The first block
// of a history has height BaseHeight+3, so blocks 1..3 have heights +3,+4,+5
// and the empty block that closes a 3-block history is the expiry boundary +6
// (it expires orders whose height is <= +4: those of blocks 1 and 2, and all
// genesis orders of bookdisk). Environment 1 ("ff2") fast-forwards two empty
// blocks first: used as the second block it puts a transaction-bearing block
// on the boundary +6.
//
// Orientation. Pool coin0 = BIP (0), coin1 = TOK (1).
//
//	sale order (export IsSale=true):  maker sells TOK (Volume1), wants BIP (Volume0);
//	     it is consumed by a taker who sells BIP / buys TOK.
//	buy order  (export IsSale=false): maker sells BIP (Volume0), wants TOK (Volume1);
//	     it is consumed by a taker who sells TOK / buys BIP.
//
// AddLimitOrder is accepted when reserve(sell)/reserve(buy)/5 <= ValueToSell/ValueToBuy
// <= reserve(sell)/reserve(buy) (add_order.go), i.e. here 0.2 <= sell/buy <= 1.
const (
	c14Tok = 1
	c14LP  = 2
)

var (
	c14Reserve = e18(10000) // 10^22 on both sides
	c14Min     = big.NewInt(10000000000)
)

// ---- reference arithmetic for the sizes of taker trades (own integer arithmetic;
// the three commission roundings are the ones order.go documents: 0.1 % rounded up).

func c14CeilDiv(a *big.Int, d int64) *big.Int {
	q, r := new(big.Int).QuoRem(a, big.NewInt(d), new(big.Int))
	if r.Sign() > 0 {
		q.Add(q, big.NewInt(1))
	}
	return q
}

// c14SellReach: the part of a SellSwapPool of x that reaches an order standing at the
// pool price after the orders with the given wanted volumes were filled completely:
//
//	a = x - ceil(x/1000);  for each full fill: a -= want + ceil(want/1000);  amount0 = a - ceil(a/1001).
func c14SellReach(x *big.Int, filled ...*big.Int) *big.Int {
	a := new(big.Int).Sub(x, c14CeilDiv(x, 1000))
	for _, w := range filled {
		a.Sub(a, w)
		a.Sub(a, c14CeilDiv(w, 1000))
	}
	if a.Sign() <= 0 {
		return new(big.Int)
	}
	return a.Sub(a, c14CeilDiv(a, 1001))
}

// c14BuyReach: the part of a BuySwapPool of y that is taken from an order standing at the
// pool price after the orders with the given sold volumes were emptied:
//
//	for each full fill: y -= sell - ceil(sell/1000);  amount1 = y + ceil(y/999).
func c14BuyReach(y *big.Int, emptied ...*big.Int) *big.Int {
	o := new(big.Int).Set(y)
	for _, s := range emptied {
		o.Sub(o, new(big.Int).Sub(s, c14CeilDiv(s, 1000)))
	}
	if o.Sign() <= 0 {
		return new(big.Int)
	}
	return o.Add(o, c14CeilDiv(o, 999))
}

// c14Solve returns the smallest x with f(x) >= target (f monotone, f(hi) >= target).
func c14Solve(f func(*big.Int) *big.Int, target *big.Int) *big.Int {
	lo, hi := big.NewInt(1), new(big.Int).Mul(target, big.NewInt(4))
	hi.Add(hi, big.NewInt(1000000))
	for lo.Cmp(hi) < 0 {
		mid := new(big.Int).Add(lo, hi)
		mid.Rsh(mid, 1)
		if f(mid).Cmp(target) >= 0 {
			hi = mid
		} else {
			lo = mid.Add(mid, big.NewInt(1))
		}
	}
	return lo
}

func c14Plus(a *big.Int, d int64) *big.Int { return new(big.Int).Add(a, big.NewInt(d)) }

func c14Accounts(g *G, tokEscrow, tokPoolExtra *big.Int) {
	m1, m2, m3, tk, V := K("m1").Addr, K("m2").Addr, K("m3").Addr, K("taker").Addr, K("vown").Addr
	for _, a := range []types.Address{m1, m2, m3} {
		g.Bal(a, 0, e18(100000)).Bal(a, c14Tok, e18(100000))
	}
	g.Bal(tk, 0, e18(1000000)).Bal(tk, c14Tok, e18(5000))
	g.Bal(V, 0, e18(1000000))
	vol := new(big.Int).Add(e18(305000), c14Reserve)
	vol.Add(vol, tokEscrow)
	g.Token(c14Tok, "TOK", vol, I("1000000000000000000000000000000000"), true, true, &V)
	g.Token(c14LP, "LP-1", c14Reserve, I("1000000000000000000000000000000000"), true, true, nil)
	g.Bal(types.Address{}, c14LP, big.NewInt(1000)).Bal(V, c14LP, new(big.Int).Sub(c14Reserve, big.NewInt(1000)))
	g.Candidate(1, Pub(1), V, V, V, 10, true, true, []types.Stake{Stake(V, e18(10000))})
	_ = tokPoolExtra
}

func c14BookGenesis() *types.AppState {
	g := NewG()
	c14Accounts(g, new(big.Int), nil)
	g.Pool(1, 0, c14Tok, c14Reserve, c14Reserve, nil)
	return g.Build()
}

// c14DiskOrders is the genesis book of world "bookdisk". Ids are deliberately NOT in
// price order. Sale side, best first: 2,4,5 (prices 1, 1 and 1-10^-21: equal at 53 bits,
// so by id), then 1,6 (0.8 twice), then 3 (0.5). Buy side, best first: 7,8 (1 twice), 9 (0.8).
func c14DiskOrders() []types.Order {
	m1, m2, m3 := K("m1").Addr, K("m2").Addr, K("m3").Addr
	h := uint64(BaseHeight + 1)
	o := func(id uint64, sale bool, v0, v1 string, own types.Address) types.Order {
		return types.Order{IsSale: sale, Volume0: v0, Volume1: v1, ID: id, Owner: own, Height: h}
	}
	return []types.Order{
		o(1, true, "1000000000000000000000", "800000000000000000000", m2),
		o(2, true, "1000000000000000000000", "1000000000000000000000", m1),
		o(3, true, "1000000000000000000000", "500000000000000000000", m3),
		o(4, true, "2000000000000000000000", "2000000000000000000000", m2),
		o(5, true, "1000000000000000000000", "999999999999999999999", m3),
		o(6, true, "500000000000000000000", "400000000000000000000", m1),
		o(7, false, "1000000000000000000000", "1000000000000000000000", m1),
		o(8, false, "500000000000000000000", "500000000000000000000", m3),
		o(9, false, "800000000000000000000", "1000000000000000000000", m2),
	}
}

func c14DiskGenesis() *types.AppState {
	g := NewG()
	tok := new(big.Int)
	for _, o := range c14DiskOrders() {
		if o.IsSale {
			tok.Add(tok, I(o.Volume1))
		}
	}
	c14Accounts(g, tok, nil)
	g.Pool(1, 0, c14Tok, c14Reserve, c14Reserve, c14DiskOrders())
	g.S.NextOrderID = 10
	return g.Build()
}

func c14Menu() []Tx {
	m1, m2, m3, tk := K("m1"), K("m2"), K("m3"), K("taker")
	e := func(s string) *big.Int { return I(s) }
	// sale: maker sells `sell` TOK and wants `buy` BIP; buyo: maker sells BIP and wants TOK
	sale := func(name string, by *Key, sell, buy *big.Int) Tx {
		return Tx{Name: name, Type: transaction.TypeAddLimitOrder, Signer: by, Tags: []string{"add"},
			Data: transaction.AddLimitOrderData{CoinToSell: c14Tok, ValueToSell: sell, CoinToBuy: 0, ValueToBuy: buy}}
	}
	buyo := func(name string, by *Key, sell, buy *big.Int) Tx {
		return Tx{Name: name, Type: transaction.TypeAddLimitOrder, Signer: by, Tags: []string{"add"},
			Data: transaction.AddLimitOrderData{CoinToSell: 0, ValueToSell: sell, CoinToBuy: c14Tok, ValueToBuy: buy}}
	}
	rm := func(name string, by *Key, id uint32) Tx {
		return Tx{Name: name, Type: transaction.TypeRemoveLimitOrder, Signer: by, Tags: []string{"remove"}, Data: transaction.RemoveLimitOrderData{ID: id}}
	}
	sellBip := func(name string, x *big.Int) Tx {
		return Tx{Name: fmt.Sprintf("taker sells %s BIP (%s)", x, name), Type: transaction.TypeSellSwapPool, Signer: tk, Tags: []string{"trade"},
			Data: transaction.SellSwapPoolDataV260{Coins: []types.CoinID{0, c14Tok}, ValueToSell: x, MinimumValueToBuy: big.NewInt(0)}}
	}
	sellTok := func(name string, x *big.Int) Tx {
		return Tx{Name: fmt.Sprintf("taker sells %s TOK (%s)", x, name), Type: transaction.TypeSellSwapPool, Signer: tk, Tags: []string{"trade"},
			Data: transaction.SellSwapPoolDataV260{Coins: []types.CoinID{c14Tok, 0}, ValueToSell: x, MinimumValueToBuy: big.NewInt(0)}}
	}
	huge := I("1000000000000000000000000000000000")
	buyTok := func(name string, y *big.Int) Tx {
		return Tx{Name: fmt.Sprintf("taker buys %s TOK (%s)", y, name), Type: transaction.TypeBuySwapPool, Signer: tk, Tags: []string{"trade"},
			Data: transaction.BuySwapPoolDataV260{Coins: []types.CoinID{c14Tok, 0}, ValueToBuy: y, MaximumValueToSell: huge}}
	}
	buyBip := func(name string, y *big.Int) Tx {
		return Tx{Name: fmt.Sprintf("taker buys %s BIP (%s)", y, name), Type: transaction.TypeBuySwapPool, Signer: tk, Tags: []string{"trade"},
			Data: transaction.BuySwapPoolDataV260{Coins: []types.CoinID{0, c14Tok}, ValueToBuy: y, MaximumValueToSell: huge}}
	}
	k := e18(1000) // 10^21: the volume of the reference order
	half := e18(500)
	// sizes of taker sales that reach exactly `target` of the first order at the pool price
	sellFor := func(target *big.Int, filled ...*big.Int) *big.Int {
		return c14Solve(func(x *big.Int) *big.Int { return c14SellReach(x, filled...) }, target)
	}
	buyFor := func(target *big.Int, emptied ...*big.Int) *big.Int {
		return c14Solve(func(y *big.Int) *big.Int { return c14BuyReach(y, emptied...) }, target)
	}
	xExact := sellFor(k)
	yExact := buyFor(k)
	menu := []Tx{
		// ---- makers, sale side (levels 1, 0.8, 0.5; 0 and 1 tie exactly, 2 ties with them at 53 bits only)
		sale("m1 sale 1000/1000 (price 1)", m1, k, k),
		sale("m2 sale 2000/2000 (price 1, equal)", m2, e18(2000), e18(2000)),
		sale("m3 sale (10^21-1)/10^21 (equal at 53 bits only)", m3, e("999999999999999999999"), k),
		sale("m2 sale 800/1000 (price 0.8)", m2, e18(800), k),
		sale("m3 sale 500/1000 (price 0.5)", m3, half, k),
		sale("m1 sale minimum volume 10^10/10^10", m1, c14Min, c14Min),
		sale("m1 sale 10^10-1 (below minimum)", m1, c14Plus(c14Min, -1), c14Min),
		sale("m1 sale 1001/1000 (better than the pool: rejected)", m1, e18(1001), k),
		// ---- makers, buy side
		buyo("m1 buy-order 1000/1000 (price 1)", m1, k, k),
		buyo("m3 buy-order 500/500 (price 1, equal)", m3, half, half),
		buyo("m2 buy-order 800/1000 (price 0.8)", m2, e18(800), k),
		// ---- cancel: own / foreign / twice / after a fill come from the combinations
		rm("m1 cancels order 1", m1, 1),
		rm("m2 cancels order 1", m2, 1),
		rm("m2 cancels order 2", m2, 2),
		rm("m3 cancels order 5", m3, 5),
		// ---- taker against the sale side (sells BIP / buys TOK)
		sellBip("dust", big.NewInt(3000)),
		sellBip("half of the 1000 order", sellFor(half)),
		sellBip("order-1pip", c14Plus(xExact, -1)),
		sellBip("exactly the 1000 order", xExact),
		sellBip("order+1pip", c14Plus(xExact, 1)),
		sellBip("leaves less than the minimum", sellFor(new(big.Int).Sub(k, big.NewInt(5000000000)))),
		sellBip("1000 order and half of the next 2000", sellFor(k, k)),
		sellBip("everything", e18(20000)),
		buyTok("exactly the 1000 order", yExact),
		buyTok("order+1pip", c14Plus(yExact, 1)),
		buyTok("1000 order and half of the next", buyFor(k, k)),
		// ---- taker against the buy side (sells TOK / buys BIP)
		sellTok("half of the 1000 buy-order", sellFor(half)),
		sellTok("exactly the 1000 buy-order", xExact),
		sellTok("order+1pip", c14Plus(xExact, 1)),
		{Name: "taker sells ALL TOK", Type: transaction.TypeSellAllSwapPool, Signer: tk, Tags: []string{"trade"},
			Data: transaction.SellAllSwapPoolDataV260{Coins: []types.CoinID{c14Tok, 0}, MinimumValueToBuy: big.NewInt(0)}},
		buyBip("exactly the 1000 buy-order", yExact),
		// appended later (indexes above are used by the core / open tables below)
		rm("m1 cancels order 2", m1, 2), // on bookdisk: the owner cancels the BEST sale order
	}
	// "core": the items the quick tier combines three deep; "open": items allowed as the very first transaction there
	core := map[int]bool{0: true, 1: true, 2: true, 3: true, 8: true, 9: true, 11: true, 12: true, 13: true,
		16: true, 18: true, 19: true, 20: true, 21: true, 22: true, 23: true, 26: true, 29: true, 31: true}
	open := map[int]bool{0: true, 1: true, 2: true, 3: true, 8: true, 9: true, 11: true, 18: true}
	for i := range menu {
		if core[i] {
			menu[i].Tags = append(menu[i].Tags, "core")
		}
		if open[i] {
			menu[i].Tags = append(menu[i].Tags, "open")
		}
	}
	return menu
}

func c14Envs() []EnvSpec {
	return []EnvSpec{{Name: "next"}, {Name: "ff2", FF: 2}}
}

func init() {
	accounts := []*Key{K("m1"), K("m2"), K("m3"), K("taker"), K("vown")}
	Register("book", func() *World {
		return &World{
			P:        lab.Params{StakePeriod: 12, OrdersPeriod: 2, InitialHeight: BaseHeight + 3},
			Genesis:  c14BookGenesis,
			Menu:     c14Menu(),
			Envs:     c14Envs(),
			Accounts: accounts,
			Notes:    "order book built by transactions; closing block of a 3-block history is the expiry boundary",
		}
	})
	Register("bookdisk", func() *World {
		return &World{
			P:        lab.Params{StakePeriod: 12, OrdersPeriod: 2, InitialHeight: BaseHeight + 2},
			Genesis:  c14DiskGenesis,
			Menu:     c14Menu(),
			Envs:     c14Envs(),
			Accounts: accounts,
			Warmup:   1,
			Notes:    "order book in the genesis pool, node re-opened after one block: orders are paged in from disk",
		}
	})
}
