package worlds

import (
	"math/big"

	"github.com/MinterTeam/minter-go-node/coreV2/transaction"
	"github.com/MinterTeam/minter-go-node/coreV2/types"

	"verif/lab"
)

// Coin ids of the coin world.
const (
	CoinCoinA = 1 // bancor crr 50, owner alice
	CoinTokB  = 2 // token mintable+burnable, owner alice, pool with BIP
	CoinMaxed = 3 // bancor crr 100, volume 1 pip below max supply, reserve at the minimum
	CoinLP1   = 4
	CoinLP2   = 5 // pool 2: BIP/COINA, COINA dear in the pool (pool route cheaper for fees)
	CoinLP3   = 6 // pool 3: BIP/MAXED, MAXED cheap in the pool (reserve route cheaper for fees)
)

func coinGenesis() *types.AppState {
	g := NewG()
	A, B, V := K("alice").Addr, K("bob").Addr, K("vown").Addr
	g.Bal(A, 0, e18(3000000)).Bal(B, 0, e18(3000000)).Bal(V, 0, e18(1000000))
	g.Coin(CoinCoinA, "COINA", e18(1000000), e18(100000), 50, e18(2000000), &A)
	g.Bal(A, CoinCoinA, e18(499000)).Bal(B, CoinCoinA, e18(500000))
	g.Pool(2, 0, CoinCoinA, e18(1000), e18(1000), nil)
	g.Token(CoinTokB, "TOKB", e18(1000000), e18(1000010), true, true, &A)
	g.Bal(A, CoinTokB, e18(450000)).Bal(B, CoinTokB, e18(450000))
	g.Pool(1, 0, CoinTokB, e18(100000), e18(100000), nil)
	// MAXED: crr 100, volume = max supply - 5 BIP-units, reserve exactly the minimum + 5 BIP
	g.Coin(CoinMaxed, "MAXED", e18(10005), e18(10005), 100, e18(10010), &A)
	g.Bal(A, CoinMaxed, e18(4005)).Bal(B, CoinMaxed, e18(5000))
	g.Pool(3, 0, CoinMaxed, e18(100), e18(1000), nil)
	g.Token(CoinLP1, "LP-1", e18(100000), I("1000000000000000000000000000000000"), true, true, nil)
	g.Bal(types.Address{}, CoinLP1, big.NewInt(1000)).Bal(V, CoinLP1, new(big.Int).Sub(e18(100000), big.NewInt(1000)))
	g.Token(CoinLP2, "LP-2", e18(1000), I("1000000000000000000000000000000000"), true, true, nil)
	g.Bal(types.Address{}, CoinLP2, big.NewInt(1000)).Bal(V, CoinLP2, new(big.Int).Sub(e18(1000), big.NewInt(1000)))
	g.Token(CoinLP3, "LP-3", e18(300), I("1000000000000000000000000000000000"), true, true, nil)
	g.Bal(types.Address{}, CoinLP3, big.NewInt(1000)).Bal(V, CoinLP3, new(big.Int).Sub(e18(300), big.NewInt(1000)))
	g.Candidate(1, Pub(1), V, V, V, 10, true, true, []types.Stake{Stake(V, e18(10000))})
	return g.Build()
}

func tx(name string, ty transaction.TxType, by *Key, data interface{}, gas types.CoinID) Tx {
	return Tx{Name: name, Type: ty, Data: data, GasCoin: gas, Signer: by}
}

func sym(s string) types.CoinSymbol { return types.StrToCoinSymbol(s) }

func init() {
	Register("coin", func() *World {
		A, B := K("alice"), K("bob")
		huge := I("1000000000000000000000000000000000")
		w := &World{
			P:        lab.Params{StakePeriod: 12, OrdersPeriod: 4, InitialHeight: BaseHeight + 1},
			Genesis:  coinGenesis,
			Envs:     stdEnvs(),
			Accounts: []*Key{A, B, K("vown")},
		}
		cc := func(s string, amount, reserve *big.Int, crr uint32, max *big.Int) transaction.CreateCoinData {
			return transaction.CreateCoinData{Name: s, Symbol: sym(s), InitialAmount: amount, InitialReserve: reserve, ConstantReserveRatio: crr, MaxSupply: max}
		}
		w.Menu = []Tx{
			tx("B create coin NEWCOIN(7)", transaction.TypeCreateCoin, B, cc("NEWCOIN", e18(1000), e18(10000), 40, e18(100000)), 0),
			tx("B create coin AAA(3)", transaction.TypeCreateCoin, B, cc("AAA", e18(1000), e18(10000), 10, e18(100000)), 0),
			tx("B create coin COINA duplicate", transaction.TypeCreateCoin, B, cc("COINA", e18(1000), e18(10000), 40, e18(100000)), 0),
			tx("B create coin reserve below min", transaction.TypeCreateCoin, B, cc("LOWRSRV", e18(1000), e18(9999), 40, e18(100000)), 0),
			tx("A create token TOKENXX(7)", transaction.TypeCreateToken, A, transaction.CreateTokenData{Name: "t", Symbol: sym("TOKENXX"), InitialAmount: e18(100), MaxSupply: e18(1000), Mintable: true, Burnable: false}, 0),
			tx("A recreate COINA", transaction.TypeRecreateCoin, A, transaction.RecreateCoinData{Name: "re", Symbol: sym("COINA"), InitialAmount: e18(2000), InitialReserve: e18(20000), ConstantReserveRatio: 60, MaxSupply: e18(200000)}, 0),
			tx("B recreate COINA (stranger)", transaction.TypeRecreateCoin, B, transaction.RecreateCoinData{Name: "re", Symbol: sym("COINA"), InitialAmount: e18(2000), InitialReserve: e18(20000), ConstantReserveRatio: 60, MaxSupply: e18(200000)}, 0),
			tx("A recreate token TOKB", transaction.TypeRecreateToken, A, transaction.RecreateTokenData{Name: "re", Symbol: sym("TOKB"), InitialAmount: e18(5), MaxSupply: e18(50), Mintable: false, Burnable: true}, 0),
			tx("B recreate token TOKB (stranger)", transaction.TypeRecreateToken, B, transaction.RecreateTokenData{Name: "re", Symbol: sym("TOKB"), InitialAmount: e18(5), MaxSupply: e18(50), Mintable: false, Burnable: true}, 0),
			tx("A edit owner COINA->B", transaction.TypeEditCoinOwner, A, transaction.EditCoinOwnerData{Symbol: sym("COINA"), NewOwner: B.Addr}, 0),
			tx("B edit owner COINA->B (stranger)", transaction.TypeEditCoinOwner, B, transaction.EditCoinOwnerData{Symbol: sym("COINA"), NewOwner: B.Addr}, 0),
			tx("B edit owner TOKB->B (stranger)", transaction.TypeEditCoinOwner, B, transaction.EditCoinOwnerData{Symbol: sym("TOKB"), NewOwner: B.Addr}, 0),
			tx("A mint 10 TOKB (to max)", transaction.TypeMintToken, A, transaction.MintTokenData{Coin: CoinTokB, Value: e18(10)}, 0),
			tx("A mint 10+1pip TOKB (over max)", transaction.TypeMintToken, A, transaction.MintTokenData{Coin: CoinTokB, Value: pip("10000000000000000001")}, 0),
			tx("B mint TOKB (stranger)", transaction.TypeMintToken, B, transaction.MintTokenData{Coin: CoinTokB, Value: e18(1)}, 0),
			tx("A mint LP-1 (pool token)", transaction.TypeMintToken, A, transaction.MintTokenData{Coin: CoinLP1, Value: e18(1)}, 0),
			tx("B burn 100 TOKB", transaction.TypeBurnToken, B, transaction.BurnTokenDataV260{Coin: CoinTokB, Value: e18(100)}, 0),
			tx("B burn more TOKB than owned", transaction.TypeBurnToken, B, transaction.BurnTokenDataV260{Coin: CoinTokB, Value: e18(450001)}, 0),
			tx("B buy 100 COINA", transaction.TypeBuyCoin, B, transaction.BuyCoinData{CoinToBuy: CoinCoinA, ValueToBuy: e18(100), CoinToSell: 0, MaximumValueToSell: huge}, 0),
			tx("B buy 100 COINA max too low", transaction.TypeBuyCoin, B, transaction.BuyCoinData{CoinToBuy: CoinCoinA, ValueToBuy: e18(100), CoinToSell: 0, MaximumValueToSell: e18(1)}, 0),
			tx("B buy COINA beyond max supply", transaction.TypeBuyCoin, B, transaction.BuyCoinData{CoinToBuy: CoinCoinA, ValueToBuy: e18(1000001), CoinToSell: 0, MaximumValueToSell: huge}, 0),
			tx("B sell 100 COINA", transaction.TypeSellCoin, B, transaction.SellCoinData{CoinToSell: CoinCoinA, ValueToSell: e18(100), CoinToBuy: 0, MinimumValueToBuy: big.NewInt(0)}, 0),
			tx("B sell 100 COINA gas COINA", transaction.TypeSellCoin, B, transaction.SellCoinData{CoinToSell: CoinCoinA, ValueToSell: e18(100), CoinToBuy: 0, MinimumValueToBuy: big.NewInt(0)}, CoinCoinA),
			tx("B sell 100 COINA min too high", transaction.TypeSellCoin, B, transaction.SellCoinData{CoinToSell: CoinCoinA, ValueToSell: e18(100), CoinToBuy: 0, MinimumValueToBuy: e18(1000)}, 0),
			tx("B sell all COINA", transaction.TypeSellAllCoin, B, transaction.SellAllCoinData{CoinToSell: CoinCoinA, CoinToBuy: 0, MinimumValueToBuy: big.NewInt(0)}, 0),
			tx("B sell 100 BIP for COINA", transaction.TypeSellCoin, B, transaction.SellCoinData{CoinToSell: 0, ValueToSell: e18(100), CoinToBuy: CoinCoinA, MinimumValueToBuy: big.NewInt(0)}, 0),
			tx("B sell 6 MAXED (reserve underflow)", transaction.TypeSellCoin, B, transaction.SellCoinData{CoinToSell: CoinMaxed, ValueToSell: e18(6), CoinToBuy: 0, MinimumValueToBuy: big.NewInt(0)}, 0),
			tx("B sell 5 MAXED (to min reserve)", transaction.TypeSellCoin, B, transaction.SellCoinData{CoinToSell: CoinMaxed, ValueToSell: e18(5), CoinToBuy: 0, MinimumValueToBuy: big.NewInt(0)}, 0),
			tx("B buy 5 MAXED (to max supply)", transaction.TypeBuyCoin, B, transaction.BuyCoinData{CoinToBuy: CoinMaxed, ValueToBuy: e18(5), CoinToSell: 0, MaximumValueToSell: huge}, 0),
			tx("B buy 5+1pip MAXED (over max supply)", transaction.TypeBuyCoin, B, transaction.BuyCoinData{CoinToBuy: CoinMaxed, ValueToBuy: pip("5000000000000000001"), CoinToSell: 0, MaximumValueToSell: huge}, 0),
			tx("B sell 100 COINA for MAXED", transaction.TypeSellCoin, B, transaction.SellCoinData{CoinToSell: CoinCoinA, ValueToSell: e18(100), CoinToBuy: CoinMaxed, MinimumValueToBuy: big.NewInt(0)}, 0),
			tx("B sell all MAXED gas MAXED", transaction.TypeSellAllCoin, B, transaction.SellAllCoinData{CoinToSell: CoinMaxed, CoinToBuy: 0, MinimumValueToBuy: big.NewInt(0)}, CoinMaxed),
			tx("A create pool COINA/TOKB", transaction.TypeCreateSwapPool, A, transaction.CreateSwapPoolData{Coin0: CoinCoinA, Coin1: CoinTokB, Volume0: e18(1000), Volume1: e18(1000)}, 0),
			tx("A create pool BIP/TOKB duplicate", transaction.TypeCreateSwapPool, A, transaction.CreateSwapPoolData{Coin0: 0, Coin1: CoinTokB, Volume0: e18(1000), Volume1: e18(1000)}, 0),
			tx("A create pool COINA/COINA", transaction.TypeCreateSwapPool, A, transaction.CreateSwapPoolData{Coin0: CoinCoinA, Coin1: CoinCoinA, Volume0: e18(1000), Volume1: e18(1000)}, 0),
			tx("A send 10 TOKB gas TOKB (pool route)", transaction.TypeSend, A, transaction.SendData{Coin: CoinTokB, To: B.Addr, Value: e18(10)}, CoinTokB),
			tx("A send 1 BIP gas COINA (both routes, pool cheaper)", transaction.TypeSend, A, transaction.SendData{Coin: 0, To: B.Addr, Value: e18(1)}, CoinCoinA),
			tx("B send 1 BIP gas MAXED (both routes, reserve cheaper)", transaction.TypeSend, B, transaction.SendData{Coin: 0, To: A.Addr, Value: e18(1)}, CoinMaxed),
			// the bought coin pays the fee through its pool (nothing is burnt from the curve): the supply bound is judged on the real volume
			tx("B buy COINA exactly to max supply, gas COINA (fee through pool)", transaction.TypeBuyCoin, B, transaction.BuyCoinData{CoinToBuy: CoinCoinA, ValueToBuy: e18(1000000), CoinToSell: 0, MaximumValueToSell: huge}, CoinCoinA),
			// ticker prices by length (3 letters is in the menu above, 7 too) and the shortest ticker
			tx("B create coin ABCD(4)", transaction.TypeCreateCoin, B, cc("ABCD", e18(1000), e18(10000), 40, e18(100000)), 0),
			tx("B create coin ABCDE(5)", transaction.TypeCreateCoin, B, cc("ABCDE", e18(1000), e18(10000), 40, e18(100000)), 0),
			tx("B create coin ABCDEF(6)", transaction.TypeCreateCoin, B, cc("ABCDEF", e18(1000), e18(10000), 40, e18(100000)), 0),
			tx("B create coin AB(2: too short)", transaction.TypeCreateCoin, B, cc("AB", e18(1000), e18(10000), 40, e18(100000)), 0),
			// the minimum liquidity of a new pool: sqrt(v0*v1) must exceed the 1000 units that are locked for good
			tx("A create pool COINA/MAXED 1000/1000 pip (liquidity = the locked minimum)", transaction.TypeCreateSwapPool, A, transaction.CreateSwapPoolData{Coin0: CoinCoinA, Coin1: CoinMaxed, Volume0: big.NewInt(1000), Volume1: big.NewInt(1000)}, 0),
			tx("A create pool COINA/MAXED 1001/1001 pip (one unit above it)", transaction.TypeCreateSwapPool, A, transaction.CreateSwapPoolData{Coin0: CoinCoinA, Coin1: CoinMaxed, Volume0: big.NewInt(1001), Volume1: big.NewInt(1001)}, 0),
			// a ticker creation with a gas price above 1 (the ticker fee is multiplied, the price table is not)
			func() Tx {
				t := tx("B create coin GASPRIC(7) at gas price 3", transaction.TypeCreateCoin, B, cc("GASPRIC", e18(1000), e18(10000), 40, e18(100000)), 0)
				t.GasPrice = 3
				return t
			}(),
			// a sale of BIP into a coin cheaper than 1 BIP: the coins minted (not the BIP paid) are what the supply bound is about
			tx("B sell 300001 BIP for COINA (mints just past max supply)", transaction.TypeSellCoin, B, transaction.SellCoinData{CoinToSell: 0, ValueToSell: e18(300001), CoinToBuy: CoinCoinA, MinimumValueToBuy: big.NewInt(0)}, 0),
			tx("B sell 299999 BIP for COINA (mints just below max supply)", transaction.TypeSellCoin, B, transaction.SellCoinData{CoinToSell: 0, ValueToSell: e18(299999), CoinToBuy: CoinCoinA, MinimumValueToBuy: big.NewInt(0)}, 0),
			tx("B buy COINA to max supply+1pip, gas COINA (fee through pool)", transaction.TypeBuyCoin, B, transaction.BuyCoinData{CoinToBuy: CoinCoinA, ValueToBuy: pip("1000000000000000000000001"), CoinToSell: 0, MaximumValueToSell: huge}, CoinCoinA),
		}
		return w
	})
}
