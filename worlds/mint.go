package worlds

import (
	"fmt"
	"math/big"
	"time"

	"github.com/MinterTeam/minter-go-node/coreV2/transaction"
	"github.com/MinterTeam/minter-go-node/coreV2/types"

	"verif/lab"
)

// The mint family (C28, node level): one validator, a BIP/USDT pool (token id 1993) or none,
// StakePeriod 4, first block at height BaseHeight+4 (≡0 mod 4: a payout block, off the
// boundary), second block ≡1 (the first block of a stake period), third ≡2.
// Environments are times of day; the block time is the NEXT occurrence of that time of day
// after the previous block (so block times always increase): C28XMintBlockTime.

const (
	C28XMintUSDT   = 1993 // types.USDTID
	C28XMintLP     = 1994
	C28XMintPeriod = 4
)

// C28XMintCap is the emission cap (10^10 BIP).
func C28XMintCap() *big.Int { return new(big.Int).Mul(big.NewInt(10000000000), c20P10(18)) }

// C28XMintGenesisTime is the genesis time of all mint worlds.
var C28XMintGenesisTime = time.Date(2022, 5, 1, 8, 0, 0, 0, time.UTC)

// C28XMintSpec describes one world of the family.
type C28XMintSpec struct {
	Name      string
	Pool      bool
	Emission  *big.Int
	PrevTime  time.Time // time of the previous reward update recorded in genesis
	PrevOff   bool
	PrevLast  *big.Int // PrevReward.Reward
	Trades    bool
	Note      string
	poolR0    *big.Int
	poolR1    *big.Int
	prevR0    *big.Int
	prevR1    *big.Int
}

// c28xMintTimes are the times of day offered as environments (index 0 = previous block + 5 s).
var c28xMintTimes = [][3]int{{-1, 0, 0}, {11, 59, 59}, {12, 0, 0}, {12, 0, 1}, {14, 59, 59}, {15, 0, 0}}

// C28XMintEnvName names environment i.
func C28XMintEnvName(i int) string {
	if i == 0 {
		return "+5s"
	}
	return fmt.Sprintf("next %02d:%02d:%02d", c28xMintTimes[i][0], c28xMintTimes[i][1], c28xMintTimes[i][2])
}

// C28XMintBlockTime is the header time of a block with environment env that follows a block (or genesis) at time last.
func C28XMintBlockTime(env int, last time.Time) time.Time {
	last = last.UTC()
	if env == 0 {
		return last.Add(5 * time.Second)
	}
	m := c28xMintTimes[env]
	c := time.Date(last.Year(), last.Month(), last.Day(), m[0], m[1], m[2], 0, time.UTC)
	if !c.After(last) {
		c = c.AddDate(0, 0, 1)
	}
	return c
}

func c28xMintSpecs() []C28XMintSpec {
	day := func(h, m, s int) time.Time { return time.Date(2022, 5, 1, h, m, s, 0, time.UTC) }
	far := BipI(200000000)
	r74 := BipI(74)
	capv := C28XMintCap()
	return []C28XMintSpec{
		{Name: "mint", Pool: true, Emission: far, PrevTime: day(9, 0, 0), PrevLast: r74, Trades: true, Note: "previous update 09:00:00: 12:00:00 is exactly 3 h later"},
		{Name: "mint-day", Pool: true, Emission: far, PrevTime: day(13, 0, 0).AddDate(0, 0, -1), PrevLast: r74, Note: "previous update the day before: only the 12:00-14:59 window decides"},
		{Name: "mint-sameday", Pool: true, Emission: far, PrevTime: day(12, 0, 0), PrevLast: r74, Note: "previous update today 12:00:00: nothing more today, 15:00:00 is exactly 3 h later but outside the window"},
		{Name: "mint-rec", Pool: true, Emission: far, PrevTime: day(13, 0, 0).AddDate(0, 0, -1), PrevOff: true, PrevLast: BipI(50), Trades: true, Note: "validators' share switched off, recovering from 50 BIP (+10 per update, level about 74.01 BIP)"},
		{Name: "mint-rec70", Pool: true, Emission: far, PrevTime: day(13, 0, 0).AddDate(0, 0, -1), PrevOff: true, PrevLast: BipI(70), Note: "recovering from 70 BIP: +10 would exceed the level, the share is capped at the level"},
		{Name: "mint-nopool", Pool: false, Emission: far, PrevTime: day(9, 0, 0), PrevLast: r74, Note: "no BIP/USDT pool"},
		{Name: "mint-cap0", Pool: true, Emission: capv, PrevTime: day(9, 0, 0), PrevLast: r74, Note: "emission at the cap"},
		{Name: "mint-cap1", Pool: true, Emission: c20AddI(capv, -1), PrevTime: day(9, 0, 0), PrevLast: r74, Note: "emission 1 pip below the cap"},
		{Name: "mint-capR", Pool: true, Emission: new(big.Int).Sub(capv, r74), PrevTime: day(9, 0, 0), PrevLast: r74, Note: "emission exactly one (genesis) block reward below the cap"},
	}
}

// sqrtRatio returns round(x * (sqrt(num/den) - 1)) for num > den, computed with 256-bit floats.
func c28xSqrtGrow(x *big.Int, num, den int64) *big.Int {
	f := new(big.Float).SetPrec(256).Quo(new(big.Float).SetPrec(256).SetInt64(num), new(big.Float).SetPrec(256).SetInt64(den))
	f.Sqrt(f)
	f.Sub(f, new(big.Float).SetPrec(256).SetInt64(1))
	f.Mul(f, new(big.Float).SetPrec(256).SetInt(x))
	out, _ := f.Int(nil)
	return out
}

func c28xMintGenesis(sp C28XMintSpec) func() *types.AppState {
	return func() *types.AppState {
		g := NewG()
		T, V, L := K("trader").Addr, K("vown").Addr, K("lpown").Addr
		g.Bal(T, 0, e18(10000000)).Bal(V, 0, e18(1000000)).Bal(K("bob").Addr, 0, e18(1))
		if sp.Pool {
			usdtHeld := e18(1000000)
			g.Token(C28XMintUSDT, "USDTE", new(big.Int).Add(sp.poolR1, usdtHeld), I("1000000000000000000000000000000000"), true, true, &T)
			g.Bal(T, C28XMintUSDT, usdtHeld)
			g.Pool(1, 0, C28XMintUSDT, sp.poolR0, sp.poolR1, nil)
			lp := new(big.Int).Sqrt(new(big.Int).Mul(sp.poolR0, sp.poolR1))
			g.Token(C28XMintLP, "LP-1", lp, I("1000000000000000000000000000000000"), true, true, nil)
			g.Bal(types.Address{}, C28XMintLP, big.NewInt(1000)).Bal(L, C28XMintLP, new(big.Int).Sub(lp, big.NewInt(1000)))
		}
		g.Candidate(1, Pub(1), V, V, V, 10, true, true, []types.Stake{Stake(V, e18(10000))})
		g.S.Emission = sp.Emission.String()
		g.S.PrevReward = types.RewardPrice{Time: uint64(sp.PrevTime.UnixNano()), AmountBIP: sp.prevR0.String(), AmountUSDT: sp.prevR1.String(), Off: sp.PrevOff, Reward: sp.PrevLast.String()}
		return g.Build()
	}
}

func c28xMintWorld(sp C28XMintSpec) *World {
	// pool: 1 000 000 BIP : 2 000 USDT, price 0.002 USDT per BIP, price-derived reward 350·0.002^(1/4) ≈ 74.01 BIP
	sp.poolR0, sp.poolR1 = e18(1000000), e18(2000)
	sp.prevR0, sp.prevR1 = sp.poolR0, sp.poolR1
	w := &World{
		P:        lab.Params{StakePeriod: C28XMintPeriod, OrdersPeriod: 4, InitialHeight: BaseHeight + 4, GenesisTime: C28XMintGenesisTime},
		Genesis:  c28xMintGenesis(sp),
		Accounts: []*Key{K("trader"), K("vown"), K("lpown")},
		Notes:    sp.Note,
	}
	for i := range c28xMintTimes {
		i := i
		w.Envs = append(w.Envs, EnvSpec{Name: C28XMintEnvName(i), Dyn: func(n *lab.Node) lab.Env { return lab.Env{Time: C28XMintBlockTime(i, n.LastTime)} }})
	}
	T := K("trader")
	if sp.Pool && sp.Trades {
		// selling x BIP moves the price r1/r0 by about (r0/(r0+x))^2 - 1; selling y USDT by ((r1+y)/r1)^2 - 1
		// (the 0.2 % pool fee shifts this slightly; the monitor computes the exact change from the reserves)
		sellBip := func(name string, num, den int64) Tx {
			x := c28xSqrtGrow(sp.poolR0, num, den)
			return Tx{Name: name, Type: transaction.TypeSellSwapPool, Signer: T, Data: transaction.SellSwapPoolDataV260{Coins: []types.CoinID{0, C28XMintUSDT}, ValueToSell: x, MinimumValueToBuy: big.NewInt(1)}}
		}
		w.Menu = append(w.Menu,
			sellBip("sell BIP: price about -11.5 %", 1000, 885),
			sellBip("sell BIP: price about -9.6 % (rounds down to -10)", 1000, 904),
			sellBip("sell BIP: price about -8.9 % (rounds down to -9)", 1000, 911),
			Tx{Name: "sell USDT: price about +5 %", Type: transaction.TypeSellSwapPool, Signer: T,
				Data: transaction.SellSwapPoolDataV260{Coins: []types.CoinID{C28XMintUSDT, 0}, ValueToSell: c28xSqrtGrow(sp.poolR1, 105, 100), MinimumValueToBuy: big.NewInt(1)}},
		)
	} else {
		w.Menu = append(w.Menu, send("trader->bob 1 BIP", T, K("bob").Addr, 0, e18(1), 0))
	}
	return w
}

func init() {
	for _, sp := range c28xMintSpecs() {
		sp := sp
		Register(sp.Name, func() *World { return c28xMintWorld(sp) })
	}
}
