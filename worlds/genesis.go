package worlds

import (
	"math/big"
	"reflect"
	"sort"

	"github.com/MinterTeam/minter-go-node/coreV2/types"
)

// Base height of most worlds: above the LockStake gate (10197360).
const BaseHeight = 10200000

// G builds a genesis state.
type G struct {
	S     types.AppState
	bals  map[types.Address]map[uint64]*big.Int
	ord   []types.Address
	extra []types.Account
}

// Acc sets nonce / multisig data / stake lock of an account (which must also get a balance entry, possibly 0).
func (g *G) Acc(a types.Address, nonce uint64, ms *types.Multisig, lockUntil uint64) *G {
	g.Bal(a, 0, new(big.Int))
	g.extra = append(g.extra, types.Account{Address: a, Nonce: nonce, MultisigData: ms, LockStakeUntilBlock: lockUntil})
	return g
}

func defaultCommission() types.Commission {
	return types.Commission{
		Coin:                    0,
		PayloadByte:             "2000000000000000",
		Send:                    "10000000000000000",
		BuyBancor:               "100000000000000000",
		SellBancor:              "100000000000000000",
		SellAllBancor:           "100000000000000000",
		BuyPoolBase:             "100000000000000000",
		BuyPoolDelta:            "50000000000000000",
		SellPoolBase:            "100000000000000000",
		SellPoolDelta:           "50000000000000000",
		SellAllPoolBase:         "100000000000000000",
		SellAllPoolDelta:        "50000000000000000",
		CreateTicker3:           "1000000000000000000000000",
		CreateTicker4:           "100000000000000000000000",
		CreateTicker5:           "10000000000000000000000",
		CreateTicker6:           "1000000000000000000000",
		CreateTicker7_10:        "100000000000000000000",
		CreateCoin:              "0",
		CreateToken:             "0",
		RecreateCoin:            "10000000000000000000000",
		RecreateToken:           "10000000000000000000000",
		DeclareCandidacy:        "10000000000000000000",
		Delegate:                "200000000000000000",
		Unbond:                  "200000000000000000",
		RedeemCheck:             "30000000000000000",
		SetCandidateOn:          "100000000000000000",
		SetCandidateOff:         "100000000000000000",
		CreateMultisig:          "100000000000000000",
		MultisendBase:           "10000000000000000",
		MultisendDelta:          "5000000000000000",
		EditCandidate:           "10000000000000000000",
		SetHaltBlock:            "1000000000000000000",
		EditTickerOwner:         "10000000000000000000000",
		EditMultisig:            "1000000000000000000",
		EditCandidatePublicKey:  "100000000000000000000000",
		CreateSwapPool:          "1000000000000000000",
		AddLiquidity:            "100000000000000000",
		RemoveLiquidity:         "100000000000000000",
		EditCandidateCommission: "10000000000000000000",
		MintToken:               "100000000000000000",
		BurnToken:               "100000000000000000",
		VoteCommission:          "1000000000000000000",
		VoteUpdate:              "1000000000000000000",
		FailedTx:                "10000000000000000",
		AddLimitOrder:           "100000000000000000",
		RemoveLimitOrder:        "100000000000000000",
		MoveStake:               "100000000000000000",
		LockStake:               "100000000000000000",
		Lock:                    "100000000000000000",
	}
}

// NewG returns a builder with the default commission table and all known
// versions activated long before the start height.
func NewG() *G {
	g := &G{bals: map[types.Address]map[uint64]*big.Int{}}
	g.S = types.AppState{
		Commission:   DistinctCommission(),
		TotalSlashed: "0",
		Emission:     Bip(200000000),
		PrevReward: types.RewardPrice{
			Time:       0,
			AmountBIP:  "350",
			AmountUSDT: "1",
			Off:        false,
			Reward:     Bip(74),
		},
		Version: "v330",
		Versions: []types.Version{
			{Height: 1, Name: "v300"}, {Height: 2, Name: "v310"}, {Height: 3, Name: "v320"}, {Height: 4, Name: "v330"},
		},
	}
	return g
}

// Bal gives an account a balance (added to what it already has).
func (g *G) Bal(a types.Address, coin uint64, v *big.Int) *G {
	m, ok := g.bals[a]
	if !ok {
		m = map[uint64]*big.Int{}
		g.bals[a] = m
		g.ord = append(g.ord, a)
	}
	if m[coin] == nil {
		m[coin] = new(big.Int)
	}
	m[coin].Add(m[coin], v)
	return g
}

// Coin adds a bancor coin; holders must add up to volume minus pool/stake amounts (caller's job).
func (g *G) Coin(id uint64, sym string, volume, reserve *big.Int, crr uint64, maxSupply *big.Int, owner *types.Address) *G {
	g.S.Coins = append(g.S.Coins, types.Coin{ID: id, Name: sym, Symbol: types.StrToCoinSymbol(sym), Volume: volume.String(), Crr: crr,
		Reserve: reserve.String(), MaxSupply: maxSupply.String(), OwnerAddress: owner})
	return g
}

// Token adds a token (no reserve).
func (g *G) Token(id uint64, sym string, volume, maxSupply *big.Int, mintable, burnable bool, owner *types.Address) *G {
	g.S.Coins = append(g.S.Coins, types.Coin{ID: id, Name: sym, Symbol: types.StrToCoinSymbol(sym), Volume: volume.String(),
		MaxSupply: maxSupply.String(), OwnerAddress: owner, Mintable: mintable, Burnable: burnable})
	return g
}

// Candidate adds a candidate (and a validator entry if validator is true).
func (g *G) Candidate(id uint64, pub types.Pubkey, owner, control, reward types.Address, commission uint64, online, validator bool, stakes []types.Stake) *G {
	total := new(big.Int)
	for _, s := range stakes {
		total.Add(total, I(s.BipValue))
	}
	st := uint64(1)
	if online {
		st = 2
	}
	g.S.Candidates = append(g.S.Candidates, types.Candidate{ID: id, RewardAddress: reward, OwnerAddress: owner, ControlAddress: control,
		TotalBipStake: total.String(), PubKey: pub, Commission: commission, Stakes: stakes, Status: st})
	if validator {
		g.S.Validators = append(g.S.Validators, types.Validator{TotalBipStake: total.String(), PubKey: pub, AccumReward: "0", AbsentTimes: types.NewBitArray(24)})
	}
	return g
}

// Stake is a base-coin stake helper.
func Stake(owner types.Address, v *big.Int) types.Stake {
	return types.Stake{Owner: owner, Coin: 0, Value: v.String(), BipValue: v.String()}
}

// Pool adds a swap pool; the LP token coin must be added by the caller via PoolWithToken.
func (g *G) Pool(id uint64, c0, c1 uint64, r0, r1 *big.Int, orders []types.Order) *G {
	g.S.Pools = append(g.S.Pools, types.Pool{Coin0: c0, Coin1: c1, Reserve0: r0.String(), Reserve1: r1.String(), ID: id, Orders: orders})
	return g
}

// Build finalises accounts (sorted by insertion) and returns the state.
func (g *G) Build() *types.AppState {
	g.S.Accounts = nil
	for _, a := range g.ord {
		acc := types.Account{Address: a}
		var coins []uint64
		for c := range g.bals[a] {
			coins = append(coins, c)
		}
		sort.Slice(coins, func(i, j int) bool { return coins[i] < coins[j] })
		for _, c := range coins {
			acc.Balance = append(acc.Balance, types.Balance{Coin: c, Value: g.bals[a][c].String()})
		}
		for _, x := range g.extra {
			if x.Address == a {
				acc.Nonce, acc.MultisigData, acc.LockStakeUntilBlock = x.Nonce, x.MultisigData, x.LockStakeUntilBlock
			}
		}
		g.S.Accounts = append(g.S.Accounts, acc)
	}
	s := g.S
	return &s
}

// DistinctCommission is the default table with every price made distinct
// (field number i gets +i·10^13 pip), so that a mix-up of two prices is observable.
func DistinctCommission() types.Commission {
	c := defaultCommission()
	v := reflect.ValueOf(&c).Elem()
	for i := 0; i < v.NumField(); i++ {
		f := v.Field(i)
		if f.Kind() != reflect.String {
			continue
		}
		n := I(f.String())
		n.Add(n, new(big.Int).Mul(big.NewInt(int64(i)), big.NewInt(10000000000000)))
		f.SetString(n.String())
	}
	return c
}
