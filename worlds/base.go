// Package worlds holds the small closed drivers: genesis states built in code
// with fixed keys, menus of transaction templates, block-environment menus.
package worlds

import (
	"crypto/ecdsa"
	"crypto/sha256"
	"fmt"
	"math/big"
	"sync"

	"github.com/MinterTeam/minter-go-node/coreV2/check"
	"github.com/MinterTeam/minter-go-node/coreV2/transaction"
	"github.com/MinterTeam/minter-go-node/coreV2/types"
	"github.com/MinterTeam/minter-go-node/crypto"
	"github.com/MinterTeam/minter-go-node/rlp"
	"github.com/tendermint/tendermint/crypto/ed25519"
)

func init() { types.CurrentChainID = types.ChainTestnet }

// Key is a fixed account key.
type Key struct {
	Priv *ecdsa.PrivateKey
	Addr types.Address
	Name string
}

var (
	keyCache = map[string]*Key{}
	keyMu    sync.Mutex
)

// K returns the deterministic key with the given name.
func K(name string) *Key {
	keyMu.Lock()
	defer keyMu.Unlock()
	if k, ok := keyCache[name]; ok {
		return k
	}
	for ctr := 0; ; ctr++ {
		h := sha256.Sum256([]byte(fmt.Sprintf("verif-key-%s-%d", name, ctr)))
		p, err := crypto.ToECDSA(h[:])
		if err != nil {
			continue
		}
		k := &Key{Priv: p, Addr: crypto.PubkeyToAddress(p.PublicKey), Name: name}
		keyCache[name] = k
		return k
	}
}

// Pub returns the deterministic candidate public key number i.
func Pub(i int) types.Pubkey {
	h := sha256.Sum256([]byte(fmt.Sprintf("verif-validator-%d", i)))
	var p types.Pubkey
	copy(p[:], h[:])
	return p
}

// TmAddr is the tendermint address of a candidate public key.
func TmAddr(p types.Pubkey) types.TmAddress {
	var a types.TmAddress
	copy(a[:], ed25519.PubKey(p[:]).Address().Bytes())
	return a
}

// Bip returns n·10^18 as decimal string.
func Bip(n int64) string { return BipI(n).String() }

// BipI returns n·10^18.
func BipI(n int64) *big.Int {
	return new(big.Int).Mul(big.NewInt(n), new(big.Int).Exp(big.NewInt(10), big.NewInt(18), nil))
}

// I parses a decimal string.
func I(s string) *big.Int {
	v, ok := new(big.Int).SetString(s, 10)
	if !ok {
		panic("bad int " + s)
	}
	return v
}

// Tx is a transaction template; the nonce is filled in at execution time.
type Tx struct {
	Name       string
	Type       transaction.TxType
	Data       interface{}
	RawData    []byte // used instead of Data when non-nil
	GasCoin    types.CoinID
	GasPrice   uint32 // 0 => 1
	Payload    []byte
	Service    []byte
	ChainID    types.ChainID // 0 => current
	Signer     *Key          // single signature
	Multisig   *types.Address
	Signers    []*Key   // multisig signers (in order, duplicates allowed)
	AltSig     []int    // indexes into Signers that sign with another ECDSA nonce: a second, different valid signature of the same key
	NonceOff   int64    // added to the expected nonce
	FixedBytes []byte   // deliver exactly these bytes
	Replay     int      // k>0: deliver again the bytes of the k-th most recent delivery of this history
	StealSig   bool     // forge: keep this body (nonce filled in as usual) but carry the signature data of the most recent single-signature transaction of the same signer delivered in this history
	Tags       []string // free-form classification used by monitors (e.g. "adversarial")
}

// Sender is the account whose nonce the transaction uses.
func (t *Tx) Sender() types.Address {
	if t.Multisig != nil {
		return *t.Multisig
	}
	return t.Signer.Addr
}

// Render builds the signed bytes for the given current nonce of the sender.
func (t *Tx) Render(curNonce uint64) []byte {
	if t.FixedBytes != nil {
		return t.FixedBytes
	}
	data := t.RawData
	if data == nil {
		var err error
		data, err = rlp.EncodeToBytes(t.Data)
		if err != nil {
			panic(err)
		}
	}
	gp := t.GasPrice
	if gp == 0 {
		gp = 1
	}
	cid := t.ChainID
	if cid == 0 {
		cid = types.CurrentChainID
	}
	tx := transaction.Transaction{
		Nonce:         uint64(int64(curNonce) + 1 + t.NonceOff),
		ChainID:       cid,
		GasPrice:      gp,
		GasCoin:       t.GasCoin,
		Type:          t.Type,
		Data:          data,
		Payload:       t.Payload,
		ServiceData:   t.Service,
		SignatureType: transaction.SigTypeSingle,
	}
	if t.Multisig != nil {
		tx.SignatureType = transaction.SigTypeMulti
		tx.SetMultisigAddress(*t.Multisig)
		for i, k := range t.Signers {
			alt := false
			for _, a := range t.AltSig {
				alt = alt || a == i
			}
			if alt {
				h := tx.Hash()
				tx.SetSignature(altSign(h[:], k.Priv))
				continue
			}
			if err := tx.Sign(k.Priv); err != nil {
				panic(err)
			}
		}
	} else {
		if err := tx.Sign(t.Signer.Priv); err != nil {
			panic(err)
		}
	}
	b, err := rlp.EncodeToBytes(tx)
	if err != nil {
		panic(err)
	}
	return b
}

// IssueCheck builds a signed check and the proof for the redeemer.
func IssueCheck(issuer *Key, nonce string, chain types.ChainID, due uint64, coin types.CoinID, value *big.Int, gasCoin types.CoinID, pass string) []byte {
	c := &check.Check{Nonce: []byte(nonce), ChainID: chain, DueBlock: due, Coin: coin, Value: value, GasCoin: gasCoin}
	pp := sha256.Sum256([]byte(pass))
	pk, err := crypto.ToECDSA(pp[:])
	if err != nil {
		panic(err)
	}
	lock, err := crypto.Sign(c.HashWithoutLock().Bytes(), pk)
	if err != nil {
		panic(err)
	}
	c.Lock = big.NewInt(0).SetBytes(lock)
	if err := c.Sign(issuer.Priv); err != nil {
		panic(err)
	}
	raw, err := rlp.EncodeToBytes(c)
	if err != nil {
		panic(err)
	}
	return raw
}

// CheckProof makes the redeemer's proof for a check password.
func CheckProof(pass string, redeemer types.Address) [65]byte {
	pp := sha256.Sum256([]byte(pass))
	pk, err := crypto.ToECDSA(pp[:])
	if err != nil {
		panic(err)
	}
	var senderHash types.Hash
	b, err := rlp.EncodeToBytes([]interface{}{redeemer})
	if err != nil {
		panic(err)
	}
	copy(senderHash[:], crypto.Keccak256(b))
	sig, err := crypto.Sign(senderHash[:], pk)
	if err != nil {
		panic(err)
	}
	var proof [65]byte
	copy(proof[:], sig)
	return proof
}
