package worlds

import (
	"math/big"

	"github.com/MinterTeam/minter-go-node/coreV2/transaction"
	"github.com/MinterTeam/minter-go-node/coreV2/types"

	"verif/lab"
)

// Coin ids of the pool world.
const (
	PoolTokA = 1 // pool 1: BIP/TOKA 100k/100k (commission pool for gas coin TOKA, holds resting orders)
	PoolTokB = 2 // pool 2: TOKA/TOKB 50k/100k
	PoolTokC = 3 // pool 3: TOKB/TOKC 10k/40k
	PoolLP1  = 4
	PoolLP2  = 5
	PoolLP3  = 6
)

func poolGenesis() *types.AppState {
	g := NewG()
	A, B, C, V := K("alice").Addr, K("bob").Addr, K("carol").Addr, K("vown").Addr
	huge := I("1000000000000000000000000000000000")
	g.Bal(A, 0, e18(1000000)).Bal(B, 0, e18(1000000)).Bal(C, 0, e18(1000000)).Bal(V, 0, e18(1000000))
	// TOKA: 1,000,000 = A 300k + B 300k + C 200k (incl. escrow below) + pool1 100k + pool2 50k + order escrow 50k
	g.Token(PoolTokA, "TOKA", e18(1000000), e18(100000000), true, true, &A)
	g.Bal(A, PoolTokA, e18(300000)).Bal(B, PoolTokA, e18(300000)).Bal(C, PoolTokA, e18(199000)).Bal(V, PoolTokA, e18(50000))
	// TOKB: 1,000,000 = A 400k + B 390k + pool2 100k + pool3 10k + ... remainder V
	g.Token(PoolTokB, "TOKB", e18(1000000), e18(100000000), true, true, &A)
	g.Bal(A, PoolTokB, e18(400000)).Bal(B, PoolTokB, e18(390000)).Bal(V, PoolTokB, e18(100000))
	// TOKC: 100,000 = A 30k + B 30k + pool3 40k
	g.Token(PoolTokC, "TOKC", e18(100000), e18(100000000), true, true, &A)
	g.Bal(A, PoolTokC, e18(30000)).Bal(B, PoolTokC, e18(30000))
	// resting orders of carol in pool 1 (coin0 = BIP, coin1 = TOKA):
	//  order 1 sells 1000 TOKA for 1010 BIP (IsSale: escrow Volume1 of coin1)
	//  order 2 buys TOKA with 1000 BIP, wants 1010 TOKA (escrow Volume0 of coin0)
	orders := []types.Order{
		{IsSale: true, Volume0: e18(1010).String(), Volume1: e18(1000).String(), ID: 1, Owner: C, Height: BaseHeight},
		{IsSale: false, Volume0: e18(1000).String(), Volume1: e18(1010).String(), ID: 2, Owner: C, Height: BaseHeight},
		// order 3: a tiny order buying 0.05 TOKA at 1-10^-6 BIP, right below the pool price: the first
		// TOKA->BIP swap of commission size (0.1 TOKA moves the pool price by 2*10^-6) consumes it completely
		{IsSale: false, Volume0: "49999950000000000", Volume1: "50000000000000000", ID: 3, Owner: C, Height: BaseHeight},
	}
	g.Pool(1, 0, PoolTokA, e18(100000), e18(100000), orders)
	g.S.NextOrderID = 4
	// carol's balances already exclude the escrow: BIP 1,000,000-1000 handled here
	g.Bal(C, 0, new(big.Int).Neg(e18(1000)))
	g.Bal(C, 0, new(big.Int).Neg(I("49999950000000000")))
	g.Pool(2, PoolTokA, PoolTokB, e18(50000), e18(100000), nil)
	g.Pool(3, PoolTokB, PoolTokC, e18(10000), e18(40000), nil)
	g.Token(PoolLP1, "LP-1", e18(100000), huge, true, true, nil)
	g.Bal(types.Address{}, PoolLP1, big.NewInt(1000)).Bal(V, PoolLP1, new(big.Int).Sub(e18(100000), big.NewInt(1000)))
	lp2 := I("70710678118654752440084") // floor(sqrt(50k*100k))*1e18 approx; any positive supply is consistent
	g.Token(PoolLP2, "LP-2", lp2, huge, true, true, nil)
	g.Bal(types.Address{}, PoolLP2, big.NewInt(1000)).Bal(V, PoolLP2, new(big.Int).Sub(lp2, big.NewInt(1000)))
	g.Token(PoolLP3, "LP-3", e18(20000), huge, true, true, nil)
	g.Bal(types.Address{}, PoolLP3, big.NewInt(1000)).Bal(A, PoolLP3, new(big.Int).Sub(e18(20000), big.NewInt(1000)))
	g.Candidate(1, Pub(1), V, V, V, 10, true, true, []types.Stake{Stake(V, e18(10000))})
	return g.Build()
}

func init() {
	Register("pool", func() *World {
		A, B, C := K("alice"), K("bob"), K("carol")
		huge := I("1000000000000000000000000000000000")
		zero := big.NewInt(0)
		ids := func(c ...types.CoinID) []types.CoinID { return c }
		sell := func(name string, by *Key, route []types.CoinID, v, min *big.Int, gas types.CoinID) Tx {
			return tx(name, transaction.TypeSellSwapPool, by, transaction.SellSwapPoolDataV260{Coins: route, ValueToSell: v, MinimumValueToBuy: min}, gas)
		}
		buy := func(name string, by *Key, route []types.CoinID, v, max *big.Int, gas types.CoinID) Tx {
			return tx(name, transaction.TypeBuySwapPool, by, transaction.BuySwapPoolDataV260{Coins: route, ValueToBuy: v, MaximumValueToSell: max}, gas)
		}
		sellAll := func(name string, by *Key, route []types.CoinID, min *big.Int, gas types.CoinID) Tx {
			return tx(name, transaction.TypeSellAllSwapPool, by, transaction.SellAllSwapPoolDataV260{Coins: route, MinimumValueToBuy: min}, gas)
		}
		w := &World{
			P:        lab.Params{StakePeriod: 12, OrdersPeriod: 4, InitialHeight: BaseHeight + 1},
			Genesis:  poolGenesis,
			Envs:     stdEnvs(),
			Accounts: []*Key{A, B, C, K("vown")},
		}
		// selling 100 BIP into pool 1 (100k/100k) returns floor-ish 99.7 TOKA; exact quote at genesis:
		// out = r1 - k*1e6/((r0+in)*1000-in*2)/1000 - 1, computed by the node; limits around it are
		// taken from a dry run value known for the genesis state (see monitors: the slippage oracle
		// does not depend on these constants, they only steer acceptance).
		w.Menu = []Tx{
			sell("B sell 100 BIP->TOKA", B, ids(0, PoolTokA), e18(100), zero, 0),
			sell("B sell 100 BIP->TOKA min too high", B, ids(0, PoolTokA), e18(100), e18(100), 0),
			sell("B sell 2000 BIP->TOKA (crosses order 1)", B, ids(0, PoolTokA), e18(2000), zero, 0),
			sell("B sell 2000 TOKA->BIP (crosses order 2)", B, ids(PoolTokA, 0), e18(2000), zero, 0),
			sell("B sell 100 TOKA->BIP gas TOKA (route = commission pool)", B, ids(PoolTokA, 0), e18(100), zero, PoolTokA),
			sell("B sell 100 BIP->TOKA->TOKB->TOKC (3 hops)", B, ids(0, PoolTokA, PoolTokB, PoolTokC), e18(100), zero, 0),
			sell("B sell 100 TOKB->TOKA gas TOKA", B, ids(PoolTokB, PoolTokA), e18(100), zero, PoolTokA),
			sell("C sell 100 TOKA->BIP gas TOKA (maker in commission pool)", C, ids(PoolTokA, 0), e18(100), zero, PoolTokA),
			sell("D (no funds) sell 100 TOKA->BIP gas TOKA (rejected after the commission swap was simulated)", K("dave"), ids(PoolTokA, 0), e18(100), zero, PoolTokA),
			sell("B sell 1 TOKA->BIP gas TOKA, minimum too high (rejected after the simulation)", B, ids(PoolTokA, 0), e18(1), e18(5), PoolTokA),
			buy("B buy 100 TOKA with BIP", B, ids(0, PoolTokA), e18(100), huge, 0),
			buy("B buy 100 TOKA with BIP max too low", B, ids(0, PoolTokA), e18(100), e18(100), 0),
			buy("B buy 1500 TOKA with BIP (crosses order 1)", B, ids(0, PoolTokA), e18(1500), huge, 0),
			buy("B buy 10 TOKC via 3 hops", B, ids(0, PoolTokA, PoolTokB, PoolTokC), e18(10), huge, 0),
			buy("B buy 100 BIP with TOKA gas TOKA", B, ids(PoolTokA, 0), e18(100), huge, PoolTokA),
			buy("B buy more TOKC than pool holds", B, ids(PoolTokB, PoolTokC), e18(40000), huge, 0),
			buy("B buy exactly pool1 reserve + order 1 volume of TOKA", B, ids(0, PoolTokA), e18(101000), huge, 0),
			buy("B buy exactly pool1 reserve + order 1 volume - 1 pip", B, ids(0, PoolTokA), new(big.Int).Sub(e18(101000), big.NewInt(1)), huge, 0),
			buy("B buy exactly pool1 reserve of TOKA", B, ids(0, PoolTokA), e18(100000), huge, 0),
			buy("B buy exactly pool1 BIP reserve + order 2 escrow", B, ids(PoolTokA, 0), e18(101000), huge, 0),
			sell("B sell 10^9 BIP->TOKA (drain attempt)", B, ids(0, PoolTokA), e18(900000), zero, 0),
			sellAll("B sell all TOKC->TOKB", B, ids(PoolTokC, PoolTokB), zero, 0),
			sellAll("B sell all TOKA->BIP (gas = TOKA implied)", B, ids(PoolTokA, 0), zero, 0),
			sellAll("B sell all TOKC->TOKB->TOKA->BIP", B, ids(PoolTokC, PoolTokB, PoolTokA, 0), zero, 0),
			tx("B add liquidity pool3 100 TOKB", transaction.TypeAddLiquidity, B, transaction.AddLiquidityDataV260{Coin0: PoolTokB, Coin1: PoolTokC, Volume0: e18(100), MaximumVolume1: huge}, 0),
			tx("B add liquidity pool3 max too low", transaction.TypeAddLiquidity, B, transaction.AddLiquidityDataV260{Coin0: PoolTokB, Coin1: PoolTokC, Volume0: e18(100), MaximumVolume1: e18(1)}, 0),
			tx("B add liquidity pool1 1 pip", transaction.TypeAddLiquidity, B, transaction.AddLiquidityDataV260{Coin0: 0, Coin1: PoolTokA, Volume0: big.NewInt(1), MaximumVolume1: huge}, 0),
			tx("A remove 100 LP-3", transaction.TypeRemoveLiquidity, A, transaction.RemoveLiquidityV240{Coin0: PoolTokB, Coin1: PoolTokC, Liquidity: e18(100), MinimumVolume0: zero, MinimumVolume1: zero}, 0),
			tx("A remove all own LP-3", transaction.TypeRemoveLiquidity, A, transaction.RemoveLiquidityV240{Coin0: PoolTokB, Coin1: PoolTokC, Liquidity: new(big.Int).Sub(e18(20000), big.NewInt(1000)), MinimumVolume0: zero, MinimumVolume1: zero}, 0),
			tx("A remove more LP-3 than owned", transaction.TypeRemoveLiquidity, A, transaction.RemoveLiquidityV240{Coin0: PoolTokB, Coin1: PoolTokC, Liquidity: e18(20000), MinimumVolume0: zero, MinimumVolume1: zero}, 0),
			tx("A remove 100 LP-3 min too high", transaction.TypeRemoveLiquidity, A, transaction.RemoveLiquidityV240{Coin0: PoolTokB, Coin1: PoolTokC, Liquidity: e18(100), MinimumVolume0: e18(100), MinimumVolume1: zero}, 0),
			tx("B remove LP-3 (owns none)", transaction.TypeRemoveLiquidity, B, transaction.RemoveLiquidityV240{Coin0: PoolTokB, Coin1: PoolTokC, Liquidity: e18(1), MinimumVolume0: zero, MinimumVolume1: zero}, 0),
			tx("B create pool BIP/TOKC", transaction.TypeCreateSwapPool, B, transaction.CreateSwapPoolData{Coin0: 0, Coin1: PoolTokC, Volume0: e18(1000), Volume1: e18(100)}, 0),
			tx("B create pool minimal (1001 x 1001 pip)", transaction.TypeCreateSwapPool, B, transaction.CreateSwapPoolData{Coin0: PoolTokA, Coin1: PoolTokC, Volume0: big.NewInt(1001), Volume1: big.NewInt(1001)}, 0),
			tx("B send 1 BIP gas TOKA (fee through pool with orders)", transaction.TypeSend, B, transaction.SendData{Coin: 0, To: A.Addr, Value: e18(1)}, PoolTokA),
			tx("A send LP-3 to zero address", transaction.TypeSend, A, transaction.SendData{Coin: PoolLP3, To: types.Address{}, Value: e18(1)}, 0),
			// cancelling an order of the fee pool while paying the fee in TOKA: the fee conversion itself fills the
			// order first (order 3 completely: nothing is left to cancel; order 2 only after order 3)
			tx("C cancels tiny order 3, gas TOKA (the fee conversion consumes the order)", transaction.TypeRemoveLimitOrder, C, transaction.RemoveLimitOrderData{ID: 3}, PoolTokA),
			tx("C cancels order 2, gas TOKA", transaction.TypeRemoveLimitOrder, C, transaction.RemoveLimitOrderData{ID: 2}, PoolTokA),
			tx("C cancels order 1, gas TOKA", transaction.TypeRemoveLimitOrder, C, transaction.RemoveLimitOrderData{ID: 1}, PoolTokA),
			// reference failures (tag failref): a Send of more than the payer owns, fee in TOKA
			func() Tx {
				t := tx("B sends 10^9 BIP, gas TOKA (reference failure of B)", transaction.TypeSend, B, transaction.SendData{Coin: 0, To: A.Addr, Value: e18(1000000000)}, PoolTokA)
				t.Tags = []string{"failref"}
				return t
			}(),
			func() Tx {
				t := tx("C sends 10^9 BIP, gas TOKA (reference failure of C)", transaction.TypeSend, C, transaction.SendData{Coin: 0, To: A.Addr, Value: e18(1000000000)}, PoolTokA)
				t.Tags = []string{"failref"}
				return t
			}(),
		}
		return w
	})
}
