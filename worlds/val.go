package worlds

// W-val: the validator worlds of C18 (punishment) and C19 (rewards).
//
// All of them share one genesis family: four validators v1..v4 whose stakes leave
// floor-division remainders, delegators with and without a stake lock, stakes in a
// bancor coin, unbonding funds "from" validators, an offline candidate, a candidate
// that is jailed in genesis and an online candidate below the minimum stake.
// The menus are almost empty; the variety comes from the block environments
// (who signed, which evidence arrived). Every environment lists the votes
// explicitly by tendermint address (never by list index), so that "v1 absent" keeps
// its meaning after the validator list changed, and so that the reference models of
// the monitors can read the vote history off the world without looking at the node.

import (
	"fmt"
	"math/big"

	"github.com/MinterTeam/minter-go-node/coreV2/transaction"
	"github.com/MinterTeam/minter-go-node/coreV2/types"
	"github.com/MinterTeam/minter-go-node/formula"

	"verif/lab"
)

// Coin and candidate ids of the validator worlds.
const (
	C18Coin      = 1 // bancor coin COINS, crr 40
	C18Offline   = 5 // candidate id: offline, never jailed
	C18JailedGen = 6 // candidate id: offline, jailed in genesis until C18Start+Warmup+2
	C18Small     = 7 // candidate id: online, stake below the validator minimum
	C18Period    = 4 // StakePeriod of every validator world
)

// C18Start is the first block height of the validator worlds.
const C18Start = BaseHeight + 1

// C18Opts selects a member of the genesis family.
type C18Opts struct {
	Locks    int    // 0: nobody has a stake lock; 1: dl locked far ahead, dm until JailEnd+3; 2: every stake owner locked far ahead
	GenPrime [4]int // validator i starts with this many absence bits set in genesis (the slots of the heights right before C18Start, every second one)
	JailEnd  uint64 // JailedUntil of candidate 6 (0 = C18Start+1)
	DueFrom  uint64 // != 0: three more unbonding funds from v1 (and one from v2) that mature at this height and the two after it
}

// C18UnknownTm is a tendermint address that belongs to no candidate.
var C18UnknownTm = types.TmAddress{0xde, 0xad, 0xbe, 0xef, 1, 2, 3, 4, 5, 6, 7, 8, 9, 10, 11, 12, 13, 14, 15, 16}

func c18Owner(i int) *Key     { return K(fmt.Sprintf("vo%d", i)) }
func c18Control(i int) *Key   { return K(fmt.Sprintf("vc%d", i)) }
func c18RewardKey(i int) *Key { return K(fmt.Sprintf("vr%d", i)) }

// C18GenPrimeHeights lists the (virtual) heights before C18Start whose slots carry an absence bit for a validator primed with n bits.
func C18GenPrimeHeights(n int) []uint64 {
	var out []uint64
	for k := 0; k < n; k++ {
		out = append(out, uint64(C18Start)-1-uint64(2*k)) // C18Start-1, C18Start-3, ...
	}
	return out
}

func c18Genesis(o C18Opts) *types.AppState {
	g := NewG()
	A, B := K("alice").Addr, K("bob").Addr
	D1, DL, DM, D2, D3 := K("d1").Addr, K("dl").Addr, K("dm").Addr, K("d2").Addr, K("d3").Addr
	g.Bal(A, 0, e18(1000000)).Bal(B, 0, e18(1))
	// every delegator holds a few pip: the export leaves out accounts without balance, nonce and multisig data - even if they carry a stake lock
	for i, a := range []types.Address{D1, DL, DM, D2, D3} {
		g.Bal(a, 0, big.NewInt(int64(11+i)))
	}
	for i := 1; i <= 7; i++ {
		g.Bal(c18Owner(i).Addr, 0, e18(100)).Bal(c18Control(i).Addr, 0, e18(100)).Bal(c18RewardKey(i).Addr, 0, big.NewInt(int64(i)))
	}
	// COINS: volume 100000, reserve 20000 BIP, crr 40; 45000 staked (worth about 2700 BIP), 200+33.3 in unbonding funds, the rest with alice
	vol, res := e18(100000), e18(20000)
	g.Coin(C18Coin, "COINS", vol, res, 40, e18(10000000), &A)
	st1, st3 := e18(30000), pip("15000000000000000000003")
	fz1, fz3 := e18(200), pip("33333333333333333333")
	rest := new(big.Int).Sub(vol, st1)
	rest.Sub(rest, st3).Sub(rest, fz1).Sub(rest, fz3)
	g.Bal(A, C18Coin, rest)
	// bip value of the custom stakes as the node computes it at every recalculation (bancor arithmetic is C12's subject)
	deleg := new(big.Int).Add(st1, st3)
	nonLocked := new(big.Int).Sub(vol, deleg)
	delegBase := new(big.Int).Sub(res, formula.CalculateSaleReturn(vol, res, 40, nonLocked))
	bipOf := func(v *big.Int) string {
		return new(big.Int).Div(new(big.Int).Mul(delegBase, v), deleg).String()
	}
	cst := func(owner types.Address, v *big.Int) types.Stake {
		return types.Stake{Owner: owner, Coin: C18Coin, Value: v.String(), BipValue: bipOf(v)}
	}
	far := uint64(C18Start + 100000)
	jailEnd := o.JailEnd
	if jailEnd == 0 {
		jailEnd = C18Start + 1
	}
	switch o.Locks {
	case 1:
		g.Acc(DL, 0, nil, far).Acc(DM, 0, nil, jailEnd+3)
	case 2:
		for _, a := range []types.Address{D1, DL, DM, D2, c18Owner(1).Addr, c18Owner(2).Addr, c18Owner(3).Addr, c18Owner(4).Addr} {
			g.Acc(a, 0, nil, far)
		}
	}
	cand := func(i int, commission uint64, online, validator bool, stakes []types.Stake) {
		g.Candidate(uint64(i), Pub(i), c18Owner(i).Addr, c18Control(i).Addr, c18RewardKey(i).Addr, commission, online, validator, stakes)
	}
	cand(1, 5, true, true, []types.Stake{
		Stake(c18Owner(1).Addr, e18(1000)),
		Stake(D1, pip("500000000000000000007")),
		Stake(DL, pip("333333333333333333333")),
		cst(D2, st1),
	})
	cand(2, 10, true, true, []types.Stake{
		Stake(c18Owner(2).Addr, pip("1500000000000000000007")),
		Stake(DM, pip("250500000000000000001")),
	})
	cand(3, 50, true, true, []types.Stake{
		Stake(c18Owner(3).Addr, e18(2333)),
		Stake(D1, pip("111111111111111111111")),
		cst(D2, st3),
	})
	cand(4, 0, true, true, []types.Stake{
		Stake(c18Owner(4).Addr, e18(3001)),
		Stake(DL, big.NewInt(7)),
		Stake(DM, pip("99999999999999999999")),
	})
	g.S.Candidates[3].RewardAddress = c18Owner(4).Addr // v4: reward address == owner
	cand(C18Offline, 10, false, false, []types.Stake{Stake(c18Owner(C18Offline).Addr, e18(5000)), Stake(D1, pip("77000000000000000001"))})
	cand(C18JailedGen, 10, false, false, []types.Stake{Stake(c18Owner(C18JailedGen).Addr, e18(4000))})
	g.S.Candidates[5].JailedUntil = jailEnd
	cand(C18Small, 10, true, false, []types.Stake{Stake(c18Owner(C18Small).Addr, e18(500))})
	for i := 0; i < 4; i++ {
		for _, h := range C18GenPrimeHeights(o.GenPrime[i]) {
			g.S.Validators[i].AbsentTimes.SetIndex(int(h%24), true)
		}
	}
	// unbonding funds: from v1 (base and COINS, one moving to v3), from v3 (COINS), from v2, from the offline candidate, and a plain lock
	p1, p2, p3, p5 := Pub(1), Pub(2), Pub(3), Pub(C18Offline)
	ff := func(h uint64, a types.Address, key *types.Pubkey, id uint64, coin uint64, v *big.Int, move uint64) {
		g.S.FrozenFunds = append(g.S.FrozenFunds, types.FrozenFund{Height: h, Address: a, CandidateKey: key, CandidateID: id, Coin: coin, Value: v.String(), MoveToCandidateID: move})
	}
	ff(C18Start+300, D3, &p1, 1, 0, pip("150000000000000000019"), 0)
	ff(C18Start+300, D3, &p1, 1, C18Coin, fz1, 0)
	ff(C18Start+301, D1, &p1, 1, 0, pip("41000000000000000001"), 3)
	ff(C18Start+301, D3, &p3, 3, C18Coin, fz3, 0)
	ff(C18Start+300, D3, &p2, 2, 0, pip("99000000000000000099"), 0)
	ff(C18Start+302, D3, &p5, C18Offline, 0, pip("10000000000000000001"), 0)
	ff(C18Start+300, D2, nil, 0, 0, pip("5000000000000000005"), 0)
	if o.DueFrom != 0 {
		// funds that mature in the explored blocks: evidence against v1 in the very block in which its
		// fund is released must still slash that fund
		ff(o.DueFrom, D3, &p1, 1, 0, pip("70000000000000000007"), 0)
		ff(o.DueFrom+1, D3, &p1, 1, 0, pip("80000000000000000003"), 0)
		ff(o.DueFrom+2, D3, &p1, 1, 0, pip("9000000000000000001"), 0)
		ff(o.DueFrom+1, D3, &p2, 2, 0, pip("60000000000000000009"), 0)
	}
	return g.Build()
}

// c18Votes lists the four genesis validators with the given ones (1-based) not signing.
func c18Votes(absent ...int) []lab.Vote {
	var out []lab.Vote
	for i := 1; i <= 4; i++ {
		signed := true
		for _, a := range absent {
			if a == i {
				signed = false
			}
		}
		out = append(out, lab.Vote{Addr: TmAddr(Pub(i)), Signed: signed})
	}
	return out
}

// c18VotesWithout is c18Votes with validator `omit` left out of the commit altogether (the app
// knows it as a validator, the commit info does not list it: neither signed nor absent).
func c18VotesWithout(omit int, absent ...int) []lab.Vote {
	var out []lab.Vote
	for _, v := range c18Votes(absent...) {
		if v.Addr != TmAddr(Pub(omit)) {
			out = append(out, v)
		}
	}
	return out
}

func c18Env(name string, absent []int, evidence ...types.TmAddress) EnvSpec {
	return EnvSpec{Name: name, Env: lab.Env{Votes: c18Votes(absent...), Evidence: evidence}}
}

// c18PrimeWarmup makes validator `who` miss the warm-up blocks whose distance to the end of the
// warm-up is in `back` (1 = the last warm-up block).
func c18PrimeWarmup(warmup int, who int, back []int) func(n *lab.Node, i int) lab.Env {
	return func(n *lab.Node, i int) lab.Env {
		d := warmup - i
		for _, b := range back {
			if b == d {
				return lab.Env{Votes: c18Votes(who)}
			}
		}
		return lab.Env{Votes: c18Votes()}
	}
}

func c18Seq(from, to, step int) []int {
	var out []int
	for i := from; i <= to; i += step {
		out = append(out, i)
	}
	return out
}

func c18World(o C18Opts, warmup int) *World {
	w := &World{
		P:        lab.Params{StakePeriod: C18Period, OrdersPeriod: 4, InitialHeight: C18Start},
		Genesis:  func() *types.AppState { return c18Genesis(o) },
		Warmup:   warmup,
		Accounts: []*Key{K("alice"), K("bob"), K("d1"), K("dl"), K("dm"), K("d2"), K("d3")},
	}
	if warmup > 0 {
		w.WarmupEnv = func(n *lab.Node, i int) lab.Env { return lab.Env{Votes: c18Votes()} }
	}
	return w
}

func c18SetOn(name string, by *Key, cand int) Tx {
	return Tx{Name: name, Type: transaction.TypeSetCandidateOnline, Data: transaction.SetCandidateOnData{PubKey: Pub(cand)}, Signer: by}
}

func c18SetOff(name string, by *Key, cand int) Tx {
	return Tx{Name: name, Type: transaction.TypeSetCandidateOffline, Data: transaction.SetCandidateOffData{PubKey: Pub(cand)}, Signer: by}
}

func init() {
	v := func(i int) types.TmAddress { return TmAddr(Pub(i)) }
	feeSend := send("alice->bob 1 BIP", K("alice"), K("bob").Addr, 0, e18(1), 0)

	// ---- valwindow*: every absence pattern of v1 over B blocks after the grace period.
	// valwindow starts from a clean window, valwinA..D from a window primed during the warm-up.
	window := func(warmup int, back []int) func() *World {
		return func() *World {
			w := c18World(C18Opts{Locks: 1}, warmup)
			if back != nil {
				w.WarmupEnv = c18PrimeWarmup(warmup, 1, back)
			}
			w.Envs = []EnvSpec{c18Env("all sign", nil), c18Env("v1 absent", []int{1})}
			return w
		}
	}
	Register("valwindow", window(121, nil))
	Register("valwinA", window(121, c18Seq(1, 23, 2)))  // 12 absences, every second block, the last warm-up block missed
	Register("valwinB", window(121, c18Seq(2, 24, 2)))  // 12 absences, every second block, the last warm-up block signed
	Register("valwinC", window(121, c18Seq(1, 12, 1)))  // the last 12 warm-up blocks missed
	Register("valwinD", window(121, c18Seq(13, 24, 1))) // 12 misses that leave the window one by one during the next 12 blocks
	Register("valwinE", window(121, c18Seq(3, 23, 2)))  // 11 absences
	// valedge: the first explored block is the LAST block of the grace period (warm-up 119: the grace period covers the
	// 120 blocks after the start height C18Start-1), window primed with 12
	Register("valedge", window(119, c18Seq(1, 23, 2)))
	// valgrace: no warm-up, everything happens inside the grace period; v2 starts with 12 absence bits in genesis
	Register("valgrace", func() *World {
		w := c18World(C18Opts{Locks: 1, GenPrime: [4]int{0, 12, 0, 0}}, 0)
		w.Envs = []EnvSpec{c18Env("all sign", nil), c18Env("v1 absent", []int{1}), c18Env("v2 absent", []int{2}),
			c18Env("v1 absent + evidence v3", []int{1}, v(3))}
		return w
	})

	// ---- val: the general world (vote vectors x a few transactions), v2 one miss away from the limit
	Register("val", func() *World {
		w := c18World(C18Opts{Locks: 1, JailEnd: C18Start + 121 + 2}, 121)
		w.WarmupEnv = c18PrimeWarmup(121, 2, c18Seq(2, 24, 2))
		w.Envs = []EnvSpec{
			c18Env("all sign", nil),
			c18Env("v1 absent", []int{1}),
			c18Env("v2 absent", []int{2}),
			c18Env("v3 absent", []int{3}),
			c18Env("v4 absent", []int{4}),
			c18Env("v1,v2 absent", []int{1, 2}),
			{Name: "all sign + unknown address absent", Env: lab.Env{Votes: append(c18Votes(), lab.Vote{Addr: C18UnknownTm, Signed: false})}},
			c18Env("nobody signs", []int{1, 2, 3, 4}),
		}
		w.Menu = []Tx{
			feeSend,
			c18SetOn("vo2 sets v2 on", c18Owner(2), 2),
			c18SetOn("vo6 sets c6 on (jailed in genesis)", c18Owner(C18JailedGen), C18JailedGen),
			c18SetOff("vc3 sets v3 off", c18Control(3), 3),
		}
		return w
	})

	// ---- valjail: v2 is jailed by its 13th miss in the first block after the grace period (warm-up block 121,
	// height C18Start+120, jailed until C18Start+120+354); the warm-up then runs on to three blocks before the end
	// of the jail, so that the explored blocks lie before, at and after jailed_until without any fast-forward
	Register("valjail", func() *World {
		const warm = 120 + 1 + 352 // last warm-up height: C18Start+472 = jailed_until-2
		w := c18World(C18Opts{Locks: 0}, warm)
		prime := c18PrimeWarmup(120, 2, c18Seq(1, 23, 2))
		w.WarmupEnv = func(n *lab.Node, i int) lab.Env {
			switch {
			case i < 120:
				return prime(n, i)
			case i == 120:
				return lab.Env{Votes: c18Votes(2)}
			}
			return lab.Env{Votes: c18Votes()}
		}
		w.Envs = []EnvSpec{c18Env("all sign", nil), c18Env("v2 absent", []int{2})}
		w.Menu = []Tx{
			c18SetOn("vo2 sets v2 on", c18Owner(2), 2),
			c18SetOn("vc2 sets v2 on", c18Control(2), 2),
			c18SetOn("alice sets v2 on (stranger)", K("alice"), 2),
			c18SetOff("vo2 sets v2 off", c18Owner(2), 2),
		}
		return w
	})

	// ---- valbyz: evidence lists
	Register("valbyz", func() *World {
		w := c18World(C18Opts{Locks: 1}, 121)
		w.WarmupEnv = c18PrimeWarmup(121, 2, c18Seq(2, 24, 2))
		w.Envs = []EnvSpec{
			c18Env("no evidence", nil),
			c18Env("evidence [v1]", nil, v(1)),
			c18Env("evidence [v1,v1]", nil, v(1), v(1)),
			c18Env("evidence [v1,v2]", nil, v(1), v(2)),
			c18Env("evidence [unknown]", nil, C18UnknownTm),
			c18Env("evidence [offline c5]", nil, v(C18Offline)),
			c18Env("evidence [online non-validator c7]", nil, v(C18Small)),
			c18Env("evidence [v1], v1 absent", []int{1}, v(1)),
			c18Env("evidence [v2], v2 absent (13th miss)", []int{2}, v(2)),
			c18Env("evidence [v3]", nil, v(3)),
			c18Env("evidence [v2,v1,v2]", nil, v(2), v(1), v(2)),
		}
		w.Menu = []Tx{feeSend}
		return w
	})

	// ---- valbyzdue: evidence in the block in which an unbonding fund of the accused validator matures
	Register("valbyzdue", func() *World {
		w := c18World(C18Opts{Locks: 1, DueFrom: C18Start + 121}, 121)
		w.WarmupEnv = c18PrimeWarmup(121, 2, c18Seq(2, 24, 2))
		w.Envs = []EnvSpec{
			c18Env("no evidence", nil),
			c18Env("evidence [v1]", nil, v(1)),
			c18Env("evidence [v2]", nil, v(2)),
			c18Env("evidence [v1,v1]", nil, v(1), v(1)),
		}
		w.Menu = []Tx{feeSend}
		return w
	})

	// ---- valpay*: two payout periods; the first explored block is the one before a payout (warm-up 122)
	pay := func(locks int) func() *World {
		return func() *World {
			w := c18World(C18Opts{Locks: locks, JailEnd: C18Start + 122 + 4}, 122)
			w.WarmupEnv = c18PrimeWarmup(122, 2, c18Seq(2, 24, 2))
			w.Envs = []EnvSpec{
				c18Env("all sign", nil),
				c18Env("v1 absent", []int{1}),
				c18Env("v2 absent (13th miss)", []int{2}),
				c18Env("v3,v4 absent", []int{3, 4}),
				c18Env("nobody signs", []int{1, 2, 3, 4}),
				c18Env("evidence [v4]", nil, v(4)),
				{Name: "v1 not listed in the commit", Env: lab.Env{Votes: c18VotesWithout(1)}},
			}
			w.Menu = []Tx{feeSend, c18SetOff("vc3 sets v3 off", c18Control(3), 3)}
			return w
		}
	}
	Register("valpay", pay(1))
	Register("valpay0", pay(0))
	Register("valpayL", pay(2))
}
