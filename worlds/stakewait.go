package worlds

import (
	"github.com/MinterTeam/minter-go-node/coreV2/types"
)

// stakewait: the "stake" world plus wait-listed stakes of d1 on candidate 1 and of d2 on
// candidate 2 (as left behind by a stake kick) and the transactions that take a stake out of
// the waitlist: unbond and move from the waitlist, towards a candidate, towards a key that is
// not a candidate, partly / exactly / one pip more than the entry.
func init() {
	Register("stakewait", func() *World {
		w := c16StakeWorld(c16StakeOpt{nVal: 3}, func(w *World) []Tx {
			d1, d2 := K("d1"), K("d2")
			p1, p2 := Pub(1), Pub(2)
			return []Tx{
				c16MoveStake("d1 move 400 of wait-listed 500 BIP c1->c2", d1, p1, p2, 0, e18(400)),
				c16MoveStake("d1 move 400 of wait-listed 500 BIP c1->non-candidate key", d1, p1, Pub(C16StakeNonCand), 0, e18(400)),
				c16MoveStake("d1 move exactly the wait-listed 500 BIP c1->non-candidate key", d1, p1, Pub(C16StakeNonCand), 0, e18(500)),
				c16MoveStake("d1 move 500 BIP + 1 pip (waitlist + stake) c1->non-candidate key", d1, p1, Pub(C16StakeNonCand), 0, I("500000000000000000001")),
				c16MoveStake("d1 move 500 BIP + 1 pip (waitlist + stake) c1->c2", d1, p1, p2, 0, I("500000000000000000001")),
				c16Unbond("d1 unbond 400 of wait-listed 500 BIP from c1", d1, p1, 0, e18(400)),
				c16Unbond("d1 unbond wait-listed 500 BIP + 1 pip from c1", d1, p1, 0, I("500000000000000000001")),
				c16MoveStake("d2 move wait-listed 300 BIP c2->c1", d2, p2, p1, 0, e18(300)),
				c16MoveStake("d2 move wait-listed 300 BIP c2->non-candidate key", d2, p2, Pub(C16StakeNonCand), 0, e18(300)),
				c16Delegate("d1 delegate 100 BIP to c1", d1, p1, 0, e18(100)),
			}
		})()
		gen := w.Genesis
		w.Genesis = func() *types.AppState {
			s := gen()
			s.Waitlist = append(s.Waitlist,
				types.Waitlist{CandidateID: 1, Owner: K("d1").Addr, Coin: 0, Value: e18(500).String()},
				types.Waitlist{CandidateID: 2, Owner: K("d2").Addr, Coin: 0, Value: e18(300).String()})
			return s
		}
		return w
	})
}
