package worlds

import (
	"math/big"

	"github.com/MinterTeam/minter-go-node/coreV2/transaction"
	"github.com/MinterTeam/minter-go-node/coreV2/types"

	"verif/lab"
)

// World "bookrem": one resting order far from the pool price (m3 sells 500 TOK for 1000 BIP, i.e.
// its two volumes differ by a factor of two) and taker sales sized, by bisection on a real node,
// to the point where the partly filled order is closed as a small remainder: there the remainder
// of ONE volume is below the minimum order volume (10^10) and the other is still above it.
//
//	x0      the smallest sale after which the order is gone from the book
//	x0 - 1  the order still rests (both remainders at or above the minimum)
//	x0 + 5·10^9  deeper inside the window in which only one remainder is below the minimum
//
// The calibration never fails; under a changed node it yields other amounts and the monitors judge.
func bookremGenesis() *types.AppState {
	g := NewG()
	c14Accounts(g, e18(500), nil)
	h := uint64(BaseHeight + 1)
	g.Pool(1, 0, c14Tok, c14Reserve, c14Reserve, []types.Order{
		{IsSale: true, Volume0: e18(1000).String(), Volume1: e18(500).String(), ID: 1, Owner: K("m3").Addr, Height: h},
	})
	g.S.NextOrderID = 2
	return g.Build()
}

func init() {
	Register("bookrem", func() *World {
		tk, m3 := K("taker"), K("m3")
		p := lab.Params{StakePeriod: 12, OrdersPeriod: 4, InitialHeight: BaseHeight + 2}
		sell := func(name string, x *big.Int) Tx {
			return Tx{Name: name, Type: transaction.TypeSellSwapPool, Signer: tk, Tags: []string{"trade"},
				Data: transaction.SellSwapPoolDataV260{Coins: []types.CoinID{0, c14Tok}, ValueToSell: x, MinimumValueToBuy: big.NewInt(0)}}
		}
		// gone(x): after a block in which the taker sells x BIP, order 1 is not in the book any more
		gone := func(x *big.Int) bool {
			n, f := lab.NewNode(p, bookremGenesis())
			if f != nil {
				return true
			}
			defer n.Release()
			t := sell("", x)
			if o := n.RunBlock(lab.Env{}, [][]byte{t.Render(0)}); o.Fault != nil {
				return true
			}
			ex := n.Export()
			for _, pl := range ex.Pools {
				for _, o := range pl.Orders {
					if o.ID == 1 {
						return false
					}
				}
			}
			return true
		}
		lo, hi := e18(1), e18(900000) // lo: the order rests; hi: everything is sold
		if gone(lo) {
			hi = new(big.Int).Set(lo)
		} else {
			for new(big.Int).Sub(hi, lo).Cmp(big.NewInt(1)) > 0 {
				mid := new(big.Int).Rsh(new(big.Int).Add(lo, hi), 1)
				if gone(mid) {
					hi = mid
				} else {
					lo = mid
				}
			}
		}
		x0 := hi
		w := &World{
			P:        p,
			Genesis:  bookremGenesis,
			Envs:     c14Envs(),
			Accounts: []*Key{K("m1"), K("m2"), m3, tk, K("vown")},
			Warmup:   0,
			Notes:    "one order at price 0.5; taker sales calibrated to the small-remainder boundary",
		}
		w.Menu = []Tx{
			sell("taker sells just enough BIP for the order to be closed as a small remainder (one remaining volume below the minimum)", x0),
			sell("taker sells 1 pip less than that (the order rests, both remaining volumes at or above the minimum)", new(big.Int).Sub(x0, big.NewInt(1))),
			sell("taker sells 5*10^9 pip more than that (still only one remaining volume below the minimum)", new(big.Int).Add(x0, big.NewInt(5000000000))),
			sell("taker sells half of that", new(big.Int).Rsh(x0, 1)),
			{Name: "m3 cancels order 1", Type: transaction.TypeRemoveLimitOrder, Signer: m3, Tags: []string{"remove"}, Data: transaction.RemoveLimitOrderData{ID: 1}},
		}
		return w
	})
}
