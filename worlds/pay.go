package worlds

import (
	"math/big"
	"time"

	"github.com/MinterTeam/minter-go-node/coreV2/transaction"
	"github.com/MinterTeam/minter-go-node/coreV2/types"

	"verif/lab"
)

// Coin ids of the pay world.
const (
	PayCoinA  = 1 // bancor coin (reserve route)
	PayTokA   = 2 // token with a BIP pool (pool route)
	PayLP1    = 3 // LP token of pool 1 (BIP/TOKA)
	PayMsAddr = "Mx0000000000000000000000000000000000000a11"
)

func e18(n int64) *big.Int { return BipI(n) }

func pip(s string) *big.Int { return I(s) }

// stdEnvs are the two block-time increments used by most worlds: they drive
// the max-gas rule to different values, so the app hash depends on the
// persisted block-time record.
func stdEnvs() []EnvSpec {
	return []EnvSpec{{Name: "dt5", Env: lab.Env{DT: 5 * time.Second}}, {Name: "dt8", Env: lab.Env{DT: 8 * time.Second}}}
}

func payGenesis() *types.AppState {
	g := NewG()
	A, B, C, V := K("alice").Addr, K("bob").Addr, K("carol").Addr, K("vown").Addr
	M := types.HexToAddress(PayMsAddr)
	g.Bal(A, 0, e18(1000000)).Bal(B, 0, e18(1000000)).Bal(C, 0, e18(50)).Bal(M, 0, e18(10000)).Bal(V, 0, e18(1000000))
	// erin holds nothing but 1 BIP plus the fee of one plain send: one transaction empties the account
	g.Bal(K("erin").Addr, 0, new(big.Int).Add(e18(1), I(DistinctCommission().Send)))
	// gina holds 10 COINA plus twice the redeem fee counted in BIP pips: COINA is worth about 0.2 BIP,
	// the fee of a COINA check in COINA is about five times that figure, so her check over 10 COINA is not covered
	ginaHolds := new(big.Int).Add(e18(10), new(big.Int).Mul(big.NewInt(2), I(DistinctCommission().RedeemCheck)))
	g.Bal(K("gina").Addr, PayCoinA, ginaHolds).Bal(V, PayCoinA, new(big.Int).Neg(ginaHolds)) // taken from vown: the volume stays the sum of the balances
	// COINA: volume 1,000,000; reserve 100,000 BIP; crr 50
	g.Coin(PayCoinA, "COINA", e18(1000000), e18(100000), 50, e18(100000000), &A)
	g.Bal(A, PayCoinA, e18(300000)).Bal(B, PayCoinA, e18(300000)).Bal(C, PayCoinA, e18(100000)).Bal(M, PayCoinA, e18(100000)).Bal(V, PayCoinA, e18(200000))
	// TOKA: token, volume 1,000,000, 100,000 of it in pool 1
	g.Token(PayTokA, "TOKA", e18(1000000), e18(100000000), true, true, &A)
	g.Bal(A, PayTokA, e18(200000)).Bal(B, PayTokA, e18(200000)).Bal(C, PayTokA, e18(100000)).Bal(M, PayTokA, e18(100000)).Bal(V, PayTokA, e18(300000))
	g.Pool(1, 0, PayTokA, e18(100000), e18(100000), nil)
	g.Token(PayLP1, "LP-1", e18(100000), I("1000000000000000000000000000000000"), true, true, nil)
	g.Bal(types.Address{}, PayLP1, big.NewInt(1000)).Bal(V, PayLP1, new(big.Int).Sub(e18(100000), big.NewInt(1000)))
	g.Acc(M, 0, &types.Multisig{Weights: []uint64{1, 1, 2}, Threshold: 2, Addresses: []types.Address{A, B, C}}, 0)
	g.Candidate(1, Pub(1), V, V, V, 10, true, true, []types.Stake{Stake(V, e18(10000))})
	return g.Build()
}

func send(name string, from *Key, to types.Address, coin types.CoinID, v *big.Int, gas types.CoinID) Tx {
	return Tx{Name: name, Type: transaction.TypeSend, Data: transaction.SendData{Coin: coin, To: to, Value: v}, GasCoin: gas, Signer: from}
}

func init() {
	// "paytable": the pay world under a price table denominated in TOKA (pool 1 converts it to BIP)
	Register("paytable", func() *World {
		w := buildPay()
		w.Genesis = func() *types.AppState {
			s := payGenesis()
			s.Commission.Coin = PayTokA
			return s
		}
		return w
	})
	Register("pay", buildPay)
}

func buildPay() *World {
	{
		A, B, C, D := K("alice"), K("bob"), K("carol"), K("dave")
		M := types.HexToAddress(PayMsAddr)
		h0 := uint64(BaseHeight)
		msend := func(name string, signers ...*Key) Tx {
			return Tx{Name: name, Type: transaction.TypeSend, Data: transaction.SendData{Coin: 0, To: B.Addr, Value: e18(5)}, Multisig: &M, Signers: signers}
		}
		redeem := func(name string, by *Key, raw []byte, proofPass string, gas types.CoinID, gp uint32) Tx {
			return Tx{Name: name, Type: transaction.TypeRedeemCheck, Data: transaction.RedeemCheckData{RawCheck: raw, Proof: CheckProof(proofPass, by.Addr)}, GasCoin: gas, GasPrice: gp, Signer: by}
		}
		chk := IssueCheck(A, "n1", types.CurrentChainID, h0+3, 0, e18(10), 0, "pw")
		chkOther := IssueCheck(A, "n2", types.ChainMainnet, h0+3, 0, e18(10), 0, "pw")
		chkDue := IssueCheck(A, "n3", types.CurrentChainID, h0+1, 0, e18(10), 0, "pw")
		chkTok := IssueCheck(B, "n4", types.CurrentChainID, h0+3, PayTokA, e18(10), PayTokA, "pw")
		chkPoor := IssueCheck(C, "n5", types.CurrentChainID, h0+3, 0, e18(50), 0, "pw")
		good := send("A->B 10 BIP", A, B.Addr, 0, e18(10), 0)
		sendFee := I(DistinctCommission().Send)
		cAll := new(big.Int).Sub(e18(50), sendFee) // carol's balance minus the fee of a plain send
		cAll1 := new(big.Int).Add(cAll, big.NewInt(1))
		trunc := good.Render(0)
		w := &World{
			P:          lab.Params{StakePeriod: 12, OrdersPeriod: 4, InitialHeight: BaseHeight + 1},
			Genesis:    payGenesis,
			Envs:       stdEnvs(),
			UsesReplay: true,
			Accounts:   []*Key{A, B, C, D, K("vown"), K("erin")},
		}
		w.Menu = []Tx{
			good,
			send("A->B 10 BIP gas COINA", A, B.Addr, 0, e18(10), PayCoinA),
			send("A->B 10 BIP gas TOKA", A, B.Addr, 0, e18(10), PayTokA),
			send("A->B whole balance (fee missing)", A, B.Addr, 0, e18(1000000), 0),
			send("C->A balance-fee", C, A.Addr, 0, cAll, 0),
			send("C->A balance-fee+1", C, A.Addr, 0, cAll1, 0),
			send("A->B 10 COINA gas COINA", A, B.Addr, PayCoinA, e18(10), PayCoinA),
			send("D->A 1 BIP (no funds)", D, A.Addr, 0, e18(1), 0),
			send("C->A 1 BIP gas TOKA", C, A.Addr, 0, e18(1), PayTokA),
			{Name: "A multisend B:1BIP C:1COINA", Type: transaction.TypeMultisend, Signer: A, Data: transaction.MultisendData{List: []transaction.MultisendDataItem{
				{Coin: 0, To: B.Addr, Value: e18(1)}, {Coin: PayCoinA, To: C.Addr, Value: e18(1)}}}},
			{Name: "B create multisig(A1,B1;2)", Type: transaction.TypeCreateMultisig, Signer: B, Data: transaction.CreateMultisigData{Threshold: 2, Weights: []uint32{1, 1}, Addresses: []types.Address{A.Addr, B.Addr}}},
			{Name: "M edit multisig thr3 by[A,B]", Type: transaction.TypeEditMultisig, Multisig: &M, Signers: []*Key{A, B}, Data: transaction.EditMultisigData{Threshold: 3, Weights: []uint32{1, 1, 2}, Addresses: []types.Address{A.Addr, B.Addr, C.Addr}}},
			msend("M send by[A,B]", A, B),
			msend("M send by[A] underweight", A),
			msend("M send by[A,A] duplicate", A, A),
			msend("M send by[C]", C),
			msend("M send by[A,D] outsider", A, D),
			{Name: "A lock 10 BIP due+2", Type: transaction.TypeLock, Signer: A, Data: transaction.LockData{DueBlock: uint32(h0 + 2), Coin: 0, Value: e18(10)}},
			{Name: "A lock 10 COINA due+3", Type: transaction.TypeLock, Signer: A, Data: transaction.LockData{DueBlock: uint32(h0 + 3), Coin: PayCoinA, Value: e18(10)}},
			{Name: "A lock 10 TOKA due+3", Type: transaction.TypeLock, Signer: A, Data: transaction.LockData{DueBlock: uint32(h0 + 3), Coin: PayTokA, Value: e18(10)}},
			{Name: "A lock 10 BIP due+1 (due = first block)", Type: transaction.TypeLock, Signer: A, Data: transaction.LockData{DueBlock: uint32(h0 + 1), Coin: 0, Value: e18(10)}},
			redeem("B redeems A's check", B, chk, "pw", 0, 1),
			redeem("C redeems A's check", C, chk, "pw", 0, 1),
			redeem("B redeems wrong password", B, chk, "bad", 0, 1),
			redeem("C uses B's proof", C, chk, "pw", 0, 1), // patched below: proof made for B
			redeem("B redeems other-chain check", B, chkOther, "pw", 0, 1),
			redeem("B redeems check due h0+1", B, chkDue, "pw", 0, 1),
			redeem("B redeems gas-coin mismatch", B, chk, "pw", PayTokA, 1),
			redeem("B redeems gas price 2", B, chk, "pw", 0, 2),
			redeem("A redeems B's TOKA check", A, chkTok, "pw", PayTokA, 1),
			redeem("B redeems C's unaffordable check", B, chkPoor, "pw", 0, 1),
			func() Tx {
				t := send("forged: A->D 90 BIP carrying A's earlier signature", A, D.Addr, 0, e18(90), 0)
				t.StealSig = true
				return t
			}(),
			{Name: "replay last", Replay: 1},
			{Name: "replay 2nd last", Replay: 2},
			func() Tx { t := good; t.Name = "A send nonce+1"; t.NonceOff = 1; return t }(),
			func() Tx { t := good; t.Name = "A send nonce-1"; t.NonceOff = -1; return t }(),
			func() Tx { t := good; t.Name = "A send other chain"; t.ChainID = types.ChainMainnet; return t }(),
			{Name: "A unregistered type 0x13", Type: transaction.TypePriceVote, Signer: A, RawData: []byte{0xc0}},
			{Name: "truncated bytes", FixedBytes: trunc[:len(trunc)-7]},
			func() Tx {
				t := good
				t.Name = "A send gas price 2 payload"
				t.GasPrice = 2
				t.Payload = []byte("hello")
				return t
			}(),
			send("E->A 1 BIP (empties the account: no coin left, nonce 1)", K("erin"), A.Addr, 0, e18(1), 0),
			send("A->E 10 BIP", A, K("erin").Addr, 0, e18(10), 0),
			redeem("B redeems gina's COINA check (value + fee in COINA exceed what she holds; value + the fee's BIP figure do not)", B,
				IssueCheck(K("gina"), "n6", types.CurrentChainID, h0+3, PayCoinA, e18(10), PayCoinA, "pw"), "pw", PayCoinA, 1),
			// a sell-all pays its fee in the sold coin whatever the gas-coin field says; these two fail in Run
			{Name: "C sell all COINA, minimum too high, gas-coin field names LP-1 (C holds none)", Type: transaction.TypeSellAllCoin, Signer: C, GasCoin: PayLP1,
				Data: transaction.SellAllCoinData{CoinToSell: PayCoinA, CoinToBuy: 0, MinimumValueToBuy: e18(100000000)}},
			{Name: "C sell all TOKA through the pool, minimum too high, gas-coin field names LP-1", Type: transaction.TypeSellAllSwapPool, Signer: C, GasCoin: PayLP1,
				Data: transaction.SellAllSwapPoolDataV260{Coins: []types.CoinID{PayTokA, 0}, MinimumValueToBuy: e18(100000000)}},
			func() Tx {
				t := send("A->B whole balance with a 5-byte payload and gas price 3 (fails in Run: the failure fee counts the bytes and the gas price)", A, B.Addr, 0, e18(1000000), 0)
				t.Payload, t.GasPrice = []byte("bytes"), 3
				return t
			}(),
			func() Tx {
				t := msend("M send by[A,A'] two different signatures of the same owner", A, A)
				t.AltSig = []int{1}
				return t
			}(),
			// same threshold and weight vector, owners listed in another order: C's weight 2 goes to A
			{Name: "M edit multisig: same threshold and weights, owners listed [C,B,A] (by[A,B])", Type: transaction.TypeEditMultisig, Multisig: &M, Signers: []*Key{A, B},
				Data: transaction.EditMultisigData{Threshold: 2, Weights: []uint32{1, 1, 2}, Addresses: []types.Address{C.Addr, B.Addr, A.Addr}}},
			// the size limits of payload (10000 bytes) and service data (128 bytes)
			func() Tx { t := good; t.Name = "A send with a 10000-byte payload (the limit)"; t.Payload = make([]byte, 10000); return t }(),
			func() Tx { t := good; t.Name = "A send with a 10001-byte payload"; t.Payload = make([]byte, 10001); return t }(),
			func() Tx { t := good; t.Name = "A send with 128 bytes of service data (the limit)"; t.Service = make([]byte, 128); return t }(),
			func() Tx { t := good; t.Name = "A send with 129 bytes of service data"; t.Service = make([]byte, 129); return t }(),
		}
		// "C uses B's proof": the proof was made for B's address
		for i := range w.Menu {
			if w.Menu[i].Name == "C uses B's proof" {
				w.Menu[i].Data = transaction.RedeemCheckData{RawCheck: chk, Proof: CheckProof("pw", B.Addr)}
			}
		}
		return w
	}
}
