package worlds

import (
	"crypto/sha256"
	"fmt"
	"math/big"

	"github.com/MinterTeam/minter-go-node/coreV2/transaction"
	"github.com/MinterTeam/minter-go-node/coreV2/types"

	"verif/lab"
)

// Staking worlds (C16, C17): "stake", "stake6", "stakefull", "stakemany", "stakepending".
//
// InitialHeight is BaseHeight+11: the first block of a history has height C16StakeFirst and the
// second one (BaseHeight+12, a multiple of the stake period 12) is a payout / validator-set-update
// boundary. The chain is the testnet flavour: unbond period 531, move period 177 blocks.

const (
	C16StakeCoin    = 1                 // bancor coin STK (crr 50, reserve 100 000 BIP)
	C16StakeStart   = BaseHeight + 10   // start height of the chain (InitialHeight - 1)
	C16StakeFirst   = C16StakeStart + 1 // height of the first block of a history
	C16StakeUnbond  = 531               // testnet unbond period
	C16StakeMove    = 177               // testnet move period
	C16StakeFullID  = 5                 // id of the candidate whose 1000 slots are full (world stakefull)
	C16StakeManyLow = 4                 // id of the lowest-ranked ordinary candidate of world stakemany
	C16StakeNonCand = 9                 // Pub(C16StakeNonCand) is never a candidate
)

// C16TinyAddr is the address of the i-th synthetic small delegator (no key; C16TinyAddr(0) is K("tiny0")).
func C16TinyAddr(i int) types.Address {
	if i == 0 {
		return K("tiny0").Addr
	}
	h := sha256.Sum256([]byte(fmt.Sprintf("verif-tiny-%d", i)))
	var a types.Address
	copy(a[:], h[:20])
	return a
}

type c16StakeOpt struct {
	nVal    int  // 3 or 6 online validators
	full    bool // + candidate C16StakeFullID with 1000 stakes and a matured-next-block move of exactly the smallest stake
	fullSTK bool // (with full) the smallest stake of the full candidate is a custom-coin stake (0.001 STK, worth far less than 10 BIP)
	many    bool // 101 candidates, validator 3 (exactly 1000 BIP) ranked 101st
	pending bool // frozen funds due at blocks 2 and 3, a stake lock ending at block 2
	noMove  bool // (with many) leave out the genesis move: moves are made by transactions only
	extra   bool // (with many) a 102nd candidate (1500 BIP, not a validator) that ranks 101st already in the genesis
	tie     bool // (with extra) the 102nd candidate holds exactly the 2000 BIP of candidate 4: a tie across the 100-candidate limit
}

func c16CoinStake(owner types.Address, coin uint64, v *big.Int) types.Stake {
	// the bip value of a custom-coin stake is recomputed by the node at InitChain; any placeholder will do
	return types.Stake{Owner: owner, Coin: coin, Value: v.String(), BipValue: new(big.Int).Div(v, big.NewInt(5)).String()}
}

// c16FixVolume sets the volume of a coin to the sum of everything that holds it.
func (g *G) c16FixVolume(coin uint64) {
	t := new(big.Int)
	for _, m := range g.bals {
		if v := m[coin]; v != nil {
			t.Add(t, v)
		}
	}
	for _, c := range g.S.Candidates {
		for _, s := range c.Stakes {
			if s.Coin == coin {
				t.Add(t, I(s.Value))
			}
		}
		for _, s := range c.Updates {
			if s.Coin == coin {
				t.Add(t, I(s.Value))
			}
		}
	}
	for _, w := range g.S.Waitlist {
		if w.Coin == coin {
			t.Add(t, I(w.Value))
		}
	}
	for _, f := range g.S.FrozenFunds {
		if f.Coin == coin {
			t.Add(t, I(f.Value))
		}
	}
	for i := range g.S.Coins {
		if g.S.Coins[i].ID == coin {
			g.S.Coins[i].Volume = t.String()
		}
	}
}

func (g *G) c16Frozen(height uint64, a types.Address, key *types.Pubkey, candID uint64, coin uint64, v *big.Int, moveTo uint64) {
	g.S.FrozenFunds = append(g.S.FrozenFunds, types.FrozenFund{Height: height, Address: a, CandidateKey: key, CandidateID: candID, Coin: coin, Value: v.String(), MoveToCandidateID: moveTo})
}

func c16StakeGenesis(o c16StakeOpt) *types.AppState {
	g := NewG()
	d1, d2, mal := K("d1").Addr, K("d2").Addr, K("mallory").Addr
	own := func(i int) types.Address { return K(fmt.Sprintf("vown%d", i)).Addr }
	g.Bal(d1, 0, e18(1000000)).Bal(d2, 0, e18(1000000)).Bal(mal, 0, e18(1000))
	g.Bal(d1, C16StakeCoin, e18(300000)).Bal(d2, C16StakeCoin, e18(200000))
	g.Bal(K("vctl1").Addr, 0, e18(1000)).Bal(K("tiny0").Addr, 0, e18(1000))
	for i := 1; i <= 6; i++ {
		g.Bal(own(i), 0, e18(1000000))
	}
	g.Coin(C16StakeCoin, "STK", e18(1), e18(100000), 50, e18(100000000), &d1)

	// candidate 1: owner, control and reward addresses all different
	p1, p2, p3 := Pub(1), Pub(2), Pub(3)
	third := I("3333333333333333333333") // 3333.33… BIP: floor-division remainders in powers and rewards
	g.Candidate(1, p1, own(1), K("vctl1").Addr, K("vrew1").Addr, 10, true, true, []types.Stake{
		Stake(own(1), I("10000000000000000000007")), Stake(d1, third), c16CoinStake(d1, C16StakeCoin, e18(500)), Stake(d2, e18(900))})
	g.Candidate(2, p2, own(2), own(2), own(2), 15, true, true, []types.Stake{
		Stake(own(2), I("7000000000000000000011")), Stake(d2, e18(2000)), Stake(d1, e18(100)), c16CoinStake(d2, C16StakeCoin, I("700000000000000000013"))})
	v3 := I("5000000000000000000001")
	if o.many {
		v3 = e18(1000) // exactly the validator minimum
	}
	g.Candidate(3, p3, own(3), own(3), own(3), 20, true, true, []types.Stake{Stake(own(3), v3)})
	if !o.many {
		// candidate 4: offline, enough stake to become a validator once switched on
		g.Candidate(4, Pub(4), own(4), own(4), own(4), 5, false, false, []types.Stake{Stake(own(4), e18(1500)), Stake(d2, I("1"))})
	}
	if o.nVal == 6 {
		// three more validators of about the same weight: every candidate is near 1/6 of the network,
		// the 20 % delegation rule is active (>= 4 validators)
		for i := 6; i <= 8; i++ {
			ow := K(fmt.Sprintf("vown%d", i)).Addr
			g.Bal(ow, 0, e18(1000))
			g.Candidate(uint64(i), Pub(i), ow, ow, ow, 10, true, true, []types.Stake{Stake(ow, new(big.Int).Add(e18(12000), big.NewInt(int64(i))))})
		}
	}
	if o.full {
		// candidate 5: offline (never a validator, so no rewards are restaked into it), all 1000 slots taken.
		// slot 0 holds the smallest stake (10 BIP, owner tiny0 who has a key), slots 1 and 2 tie at 11 BIP.
		st := make([]types.Stake, 0, 1000)
		for i := 0; i < 1000; i++ {
			v := e18(int64(10 + i))
			if i == 2 {
				v = e18(11)
			}
			if i == 0 && o.fullSTK {
				st = append(st, c16CoinStake(C16TinyAddr(0), C16StakeCoin, I("1000000000000000")))
				continue
			}
			st = append(st, Stake(C16TinyAddr(i), v))
		}
		g.Candidate(C16StakeFullID, Pub(5), own(5), own(5), own(5), 10, false, false, st)
		// a move of exactly the smallest stake matures in the first block and meets the slot rule at the boundary (block 2)
		g.c16Frozen(C16StakeFirst, d2, &p1, 1, 0, e18(10), C16StakeFullID)
	}
	if o.many {
		// 98 offline candidates (ids 4..101) with 2000, 2001, … BIP: validator 3 (1000 BIP) ranks 101st of 101
		for i := 0; i < 98; i++ {
			id := uint64(4 + i)
			g.Candidate(id, Pub(100+i), own(4), own(4), own(4), 10, false, false, []types.Stake{Stake(C16TinyAddr(2000+i), e18(int64(2000+i)))})
		}
		// a move towards the lowest ordinary candidate, due at block 3 (after the boundary)
		if o.extra {
			v := e18(1500)
			if o.tie {
				v = e18(2000) // exactly the stake of candidate 4: ranks 100 and 101 tie, the candidate id decides
			}
			g.Candidate(102, Pub(400), own(4), own(4), own(4), 10, false, false, []types.Stake{Stake(C16TinyAddr(3000), v)})
		}
		if !o.noMove {
			g.c16Frozen(C16StakeFirst+2, d1, &p1, 1, 0, e18(50), C16StakeManyLow)
		}
	}
	if o.pending {
		b2, b3 := uint64(C16StakeFirst+1), uint64(C16StakeFirst+2)
		g.c16Frozen(b2, d1, &p1, 1, 0, I("77000000000000000001"), 0)            // unbond, BIP
		g.c16Frozen(b3, d1, &p1, 1, C16StakeCoin, I("33000000000000000003"), 0) // unbond, STK
		g.c16Frozen(b2, d1, &p1, 1, 0, e18(50), 2)                              // move to live candidate 2, BIP
		g.c16Frozen(b3, d2, &p2, 2, C16StakeCoin, e18(40), 3)                   // move to live candidate 3, STK
		g.c16Frozen(b2, d2, nil, 0, 0, e18(25), 0)                              // Lock, BIP
		g.c16Frozen(b3, d2, nil, 0, C16StakeCoin, I("5000000000000000005"), 0)  // Lock, STK
		g.c16Frozen(C16StakeFirst+5, d1, &p2, 2, 0, e18(60), 0)                 // not due inside short histories
		g.Acc(d2, 0, nil, b2)                                                   // d2's stake is locked until block 2 (unbond allowed again AT block 2)
		g.Acc(mal, 0, nil, C16StakeFirst+40)
	}
	g.c16FixVolume(C16StakeCoin)
	return g.Build()
}

func c16StakeTx(name string, ty transaction.TxType, by *Key, data interface{}) Tx {
	return Tx{Name: name, Type: ty, Data: data, Signer: by}
}

func c16Delegate(name string, by *Key, pub types.Pubkey, coin types.CoinID, v *big.Int) Tx {
	return c16StakeTx(name, transaction.TypeDelegate, by, transaction.DelegateDataV260{PubKey: pub, Coin: coin, Value: v})
}

func c16Unbond(name string, by *Key, pub types.Pubkey, coin types.CoinID, v *big.Int) Tx {
	return c16StakeTx(name, transaction.TypeUnbond, by, transaction.UnbondDataV3{PubKey: pub, Coin: coin, Value: v})
}

func c16MoveStake(name string, by *Key, from, to types.Pubkey, coin types.CoinID, v *big.Int) Tx {
	return c16StakeTx(name, transaction.TypeMoveStake, by, transaction.MoveStakeData{FromPubKey: from, ToPubKey: to, Coin: coin, Value: v})
}

func c16LockTx(name string, by *Key, due uint64, coin types.CoinID, v *big.Int) Tx {
	return c16StakeTx(name, transaction.TypeLock, by, transaction.LockData{DueBlock: uint32(due), Coin: coin, Value: v})
}

func c16Declare(name string, by *Key, pub types.Pubkey, v *big.Int) Tx {
	return c16StakeTx(name, transaction.TypeDeclareCandidacy, by, transaction.DeclareCandidacyData{Address: by.Addr, PubKey: pub, Commission: 10, Coin: 0, Stake: v})
}

// c16StakeEnvs: environment 0 is the plain next block; 1 and 2 fast-forward so that the block
// itself is the one BEFORE the maturity of a move / unbond made in the first block
// (first block h ⇒ move due h+177, unbond due h+531); 3 is a plain block carrying duplicate-vote
// evidence against validator 2 (byzantine unbonding).
func c16StakeEnvs() []EnvSpec {
	return []EnvSpec{{Name: "next"}, {Name: "ff-to-move-due-1", FF: C16StakeMove - 2}, {Name: "ff-to-unbond-due-1", FF: C16StakeUnbond - 2},
		{Name: "evidence-against-c2", Env: lab.Env{Evidence: []types.TmAddress{TmAddr(Pub(2))}}}}
}

func c16StakeWorld(o c16StakeOpt, menu func(w *World) []Tx) func() *World {
	return func() *World {
		w := &World{
			P:        lab.Params{StakePeriod: 12, OrdersPeriod: 4, InitialHeight: C16StakeFirst},
			Genesis:  func() *types.AppState { return c16StakeGenesis(o) },
			Envs:     c16StakeEnvs(),
			Accounts: []*Key{K("d1"), K("d2"), K("mallory"), K("vown1"), K("vown2"), K("vown3"), K("vown4"), K("vctl1"), K("tiny0")},
		}
		w.Menu = menu(w)
		return w
	}
}

func c16StakeMenu(w *World) []Tx {
	d1, d2, mal := K("d1"), K("d2"), K("mallory")
	o1, o2, o3, o4, c1 := K("vown1"), K("vown2"), K("vown3"), K("vown4"), K("vctl1")
	p1, p2, p3, p4 := Pub(1), Pub(2), Pub(3), Pub(4)
	third := I("3333333333333333333333")
	return []Tx{
		c16Unbond("d1 unbond 100 of 3333.3 BIP from c1", d1, p1, 0, e18(100)),
		c16Unbond("d1 unbond all 100 BIP from c2", d1, p2, 0, e18(100)),
		c16Unbond("d1 unbond 1 pip more than staked from c1", d1, p1, 0, new(big.Int).Add(third, big.NewInt(1))),
		c16Unbond("d1 unbond 200 STK from c1", d1, p1, C16StakeCoin, e18(200)),
		c16MoveStake("d1 move 100 BIP c1->c2", d1, p1, p2, 0, e18(100)),
		c16MoveStake("d1 move 100 BIP c1->non-candidate key", d1, p1, Pub(C16StakeNonCand), 0, e18(100)),
		c16MoveStake("d1 move 100 BIP c1->c1", d1, p1, p1, 0, e18(100)),
		c16MoveStake("d1 move 1 pip more than staked c1->c2", d1, p1, p2, 0, new(big.Int).Add(third, big.NewInt(1))),
		c16MoveStake("d1 move all 500 STK c1->c3", d1, p1, p3, C16StakeCoin, e18(500)),
		c16StakeTx("d2 LockStake", transaction.TypeLockStake, d2, transaction.LockStakeData{}),
		c16Unbond("d2 unbond 500 BIP from c2", d2, p2, 0, e18(500)),
		c16MoveStake("d2 move 500 BIP c2->c1", d2, p2, p1, 0, e18(500)),
		c16MoveStake("d2 move 500 BIP c2->non-candidate key", d2, p2, Pub(C16StakeNonCand), 0, e18(500)),
		c16Delegate("d1 delegate 100 BIP to c1", d1, p1, 0, e18(100)),
		c16Delegate("d1 delegate 50 STK to c2", d1, p2, C16StakeCoin, e18(50)),
		c16Delegate("d2 delegate 1000 BIP to c4 (offline)", d2, p4, 0, e18(1000)),
		c16StakeTx("o4 sets c4 on (owner)", transaction.TypeSetCandidateOnline, o4, transaction.SetCandidateOnData{PubKey: p4}),
		c16StakeTx("ctl1 sets c1 off (control)", transaction.TypeSetCandidateOffline, c1, transaction.SetCandidateOffData{PubKey: p1}),
		c16StakeTx("mallory sets c2 off (stranger)", transaction.TypeSetCandidateOffline, mal, transaction.SetCandidateOffData{PubKey: p2}),
		c16StakeTx("o3 sets c3 off (owner)", transaction.TypeSetCandidateOffline, o3, transaction.SetCandidateOffData{PubKey: p3}),
		c16StakeTx("o1 edits c1 (new reward+control)", transaction.TypeEditCandidate, o1, transaction.EditCandidateData{PubKey: p1, RewardAddress: d2.Addr, OwnerAddress: o1.Addr, ControlAddress: mal.Addr}),
		c16StakeTx("o2 changes key of c2", transaction.TypeEditCandidatePublicKey, o2, transaction.EditCandidatePublicKeyData{PubKey: p2, NewPubKey: Pub(12)}),
		c16StakeTx("o3 edits commission of c3", transaction.TypeEditCandidateCommission, o3, transaction.EditCandidateCommission{PubKey: p3, Commission: 25}),
		c16Declare("d2 declares candidate 15 with 1200 BIP", d2, Pub(15), e18(1200)),
		c16LockTx("d1 Lock 10 BIP due block 3", d1, C16StakeFirst+2, 0, e18(10)),
		c16LockTx("d1 Lock 5 STK due block 3", d1, C16StakeFirst+2, C16StakeCoin, e18(5)),
		c16LockTx("d1 Lock 10 BIP due this block (block 1)", d1, C16StakeFirst, 0, e18(10)),
	}
}

func init() {
	Register("stake", c16StakeWorld(c16StakeOpt{nVal: 3}, c16StakeMenu))
	Register("stake6", c16StakeWorld(c16StakeOpt{nVal: 6}, func(w *World) []Tx {
		d1, d2 := K("d1"), K("d2")
		p1, p2, p3 := Pub(1), Pub(2), Pub(3)
		return []Tx{
			c16Delegate("d1 delegate 500 BIP to c1 (stays under 20 %)", d1, p1, 0, e18(500)),
			c16Delegate("d1 delegate 6000 BIP to c1 (over 20 % of the network)", d1, p1, 0, e18(6000)),
			c16Delegate("d2 delegate 20000 BIP to c3 (over 20 %)", d2, p3, 0, e18(20000)),
			c16Unbond("d1 unbond 100 of 3333.3 BIP from c1", d1, p1, 0, e18(100)),
			c16MoveStake("d2 move 2000 BIP c2->c1", d2, p2, p1, 0, e18(2000)),
			c16MoveStake("d1 move 100 BIP c1->non-candidate key", d1, p1, Pub(C16StakeNonCand), 0, e18(100)),
			c16StakeTx("o3 sets c3 off (owner)", transaction.TypeSetCandidateOffline, K("vown3"), transaction.SetCandidateOffData{PubKey: p3}),
			c16StakeTx("o4 sets c4 on (owner)", transaction.TypeSetCandidateOnline, K("vown4"), transaction.SetCandidateOnData{PubKey: Pub(4)}),
		}
	}))
	Register("stakefull", c16StakeWorld(c16StakeOpt{nVal: 3, full: true}, func(w *World) []Tx {
		d1, d2, t0 := K("d1"), K("d2"), K("tiny0")
		p5 := Pub(5)
		return []Tx{
			c16Delegate("d1 delegate 12 BIP to full c5 (> smallest 10)", d1, p5, 0, e18(12)),
			c16Delegate("d1 delegate 11 BIP to full c5 (> smallest, = next)", d1, p5, 0, e18(11)),
			c16Delegate("d1 delegate 10 BIP to full c5 (= smallest)", d1, p5, 0, e18(10)),
			c16Delegate("d1 delegate 10 BIP - 1 pip to full c5 (< smallest)", d1, p5, 0, new(big.Int).Sub(e18(10), big.NewInt(1))),
			c16Delegate("d2 delegate 11 BIP to full c5", d2, p5, 0, e18(11)),
			c16Delegate("tiny0 adds 1 BIP to its own smallest stake in c5", t0, p5, 0, e18(1)),
			c16Unbond("tiny0 unbonds its 10 BIP from c5", t0, p5, 0, e18(10)),
			c16MoveStake("d2 move 11 BIP c2->full c5", d2, Pub(2), p5, 0, e18(11)),
		}
	}))
	// the full candidate's smallest stake is a custom-coin stake: the delegator it loses its slot to
	// sends it to the wait list with its full value IN ITS COIN
	Register("stakefullcoin", c16StakeWorld(c16StakeOpt{nVal: 3, full: true, fullSTK: true}, func(w *World) []Tx {
		d1, d2 := K("d1"), K("d2")
		p5 := Pub(5)
		return []Tx{
			c16Delegate("d1 delegate 12 BIP to full c5 (replaces the 0.001 STK stake)", d1, p5, 0, e18(12)),
			c16Delegate("d2 delegate 11 BIP to full c5", d2, p5, 0, e18(11)),
			c16Unbond("tiny0 unbonds its 0.001 STK from c5", K("tiny0"), p5, C16StakeCoin, I("1000000000000000")),
		}
	}))
	Register("stakemany", c16StakeWorld(c16StakeOpt{nVal: 3, many: true}, func(w *World) []Tx {
		d1, d2 := K("d1"), K("d2")
		low := Pub(100) // candidate id 4, 2000 BIP
		return []Tx{
			c16Declare("d1 declares candidate 300 with 1500 BIP (ranks 101st, validator 3 102nd)", d1, Pub(300), e18(1500)),
			c16Declare("d2 declares candidate 301 with 5000 BIP (pushes the 2000-BIP candidate to rank 101)", d2, Pub(301), e18(5000)),
			c16Delegate("d2 delegate 100 BIP to the lowest ordinary candidate", d2, low, 0, e18(100)),
			c16StakeTx("o3 sets validator c3 off", transaction.TypeSetCandidateOffline, K("vown3"), transaction.SetCandidateOffData{PubKey: Pub(3)}),
			c16Unbond("d1 unbond 100 BIP from c1", d1, Pub(1), 0, e18(100)),
			c16MoveStake("d1 move 100 BIP c1->lowest ordinary candidate", d1, Pub(1), low, 0, e18(100)),
			c16Declare("d2 declares candidate 302 with 2000 BIP (ties with the 2000-BIP candidate across the 100-candidate limit)", d2, Pub(302), e18(2000)),
			// the lowest ordinary candidate (id 4) is removed at the boundary (block 2): from block 3 on its key is the key of a REMOVED candidate
			c16MoveStake("d1 move 100 BIP c1->candidate 4 (removed at the boundary when delivered in block 3)", d1, Pub(1), low, 0, e18(100)),
		}
	}))
	// the 101-candidate world without the genesis move: a move made by a transaction loses its target at the boundary
	Register("stakemanytx", c16StakeWorld(c16StakeOpt{nVal: 3, many: true, noMove: true}, func(w *World) []Tx {
		d1, d2 := K("d1"), K("d2")
		return []Tx{
			c16MoveStake("d1 move 100 BIP c1->lowest ordinary candidate", d1, Pub(1), Pub(100), 0, e18(100)),
			c16Declare("d2 declares candidate 301 with 5000 BIP (pushes the 2000-BIP candidate to rank 101)", d2, Pub(301), e18(5000)),
			c16MoveStake("d1 move 100 BIP c1->c2", d1, Pub(1), Pub(2), 0, e18(100)),
		}
	}))
	// a genesis document that already holds 102 candidates: the import itself removes the one ranked 101st
	Register("stakemany102", c16StakeWorld(c16StakeOpt{nVal: 3, many: true, noMove: true, extra: true}, func(w *World) []Tx {
		return []Tx{c16Unbond("d1 unbond 100 BIP from c1", K("d1"), Pub(1), 0, e18(100))}
	}))
	// 102 candidates with a tie of total stakes at ranks 100/101: which of the two is removed is decided by the id
	Register("stakemanytie", c16StakeWorld(c16StakeOpt{nVal: 3, many: true, noMove: true, extra: true, tie: true}, func(w *World) []Tx {
		return []Tx{
			c16Unbond("d1 unbond 100 BIP from c1", K("d1"), Pub(1), 0, e18(100)),
			c16Declare("d2 declares candidate 301 with 2000 BIP (a third candidate at the tied rank)", K("d2"), Pub(301), e18(2000)),
		}
	}))
	Register("stakepending", c16StakeWorld(c16StakeOpt{nVal: 3, pending: true}, func(w *World) []Tx {
		d1, d2, mal := K("d1"), K("d2"), K("mallory")
		p1, p2 := Pub(1), Pub(2)
		return []Tx{
			c16Unbond("d2 unbond 500 BIP from c2 (locked until block 2)", d2, p2, 0, e18(500)),
			c16MoveStake("d2 move 500 BIP c2->c1 (locked until block 2)", d2, p2, p1, 0, e18(500)),
			c16Unbond("d1 unbond 100 BIP from c1", d1, p1, 0, e18(100)),
			c16MoveStake("d1 move 100 BIP c1->c2", d1, p1, p2, 0, e18(100)),
			c16LockTx("d1 Lock 10 BIP due block 3", d1, C16StakeFirst+2, 0, e18(10)),
			c16StakeTx("d1 LockStake", transaction.TypeLockStake, d1, transaction.LockStakeData{}),
			c16StakeTx("o2 sets c2 off (target of a pending move)", transaction.TypeSetCandidateOffline, K("vown2"), transaction.SetCandidateOffData{PubKey: p2}),
			send("mallory sends 1 BIP to d1", mal, d1.Addr, 0, e18(1), 0),
		}
	}))
}

// ---------------------------------------------------------------- genesis grids for C17

// C16GridStakes are the stake values of the grid: one pip under the validator minimum, exactly
// the minimum, and a larger value; every value may occur at several candidates (ties).
func C16GridStakes() []*big.Int {
	return []*big.Int{new(big.Int).Sub(e18(1000), big.NewInt(1)), e18(1000), e18(1500)}
}

// c16GridGenesis: candidate 1 is a fixed online validator; candidates 2..n+1 take (status, stake)
// from the digits of code in base 6 (digit = 2*stakeIndex + online).
func c16GridGenesis(n, code int) *types.AppState {
	g := NewG()
	d1 := K("d1").Addr
	g.Bal(d1, 0, e18(1000000))
	a := K("vown1").Addr
	g.Bal(a, 0, e18(1000))
	g.Candidate(1, Pub(1), a, a, a, 10, true, true, []types.Stake{Stake(a, I("5000000000000000000003"))})
	st := C16GridStakes()
	for i := 0; i < n; i++ {
		dg := code % 6
		code /= 6
		ow := K(fmt.Sprintf("vown%d", i+2)).Addr
		g.Bal(ow, 0, e18(1000))
		g.Candidate(uint64(i+2), Pub(i+2), ow, ow, ow, 10, dg%2 == 1, false, []types.Stake{Stake(ow, st[dg/2])})
	}
	return g.Build()
}

// c16CutGenesis: 66 online candidates around the 64-seat cut. variant 0: all totals distinct;
// 1: ranks 64, 65, 66 tie; 2: rank 64 and 65 differ by one pip; 3: ranks 63..66 tie.
func c16CutGenesis(variant int) *types.AppState {
	g := NewG()
	g.Bal(K("d1").Addr, 0, e18(1000000))
	for i := 1; i <= 66; i++ {
		ow := K(fmt.Sprintf("cutown%d", i)).Addr
		g.Bal(ow, 0, e18(1000))
		v := e18(int64(10000 - 10*i)) // rank i has 10000-10i BIP
		switch {
		case variant == 1 && i >= 64:
			v = e18(9000)
		case variant == 2 && i == 65:
			v = new(big.Int).Sub(e18(int64(10000-10*64)), big.NewInt(1))
		case variant == 3 && i >= 63:
			v = e18(9000)
		}
		g.Candidate(uint64(i), Pub(i), ow, ow, ow, 10, true, i <= 3, []types.Stake{Stake(ow, v)})
	}
	return g.Build()
}

func init() {
	gridMenu := func(n int) []Tx {
		o2, d1 := K("vown2"), K("d1")
		m := []Tx{
			c16StakeTx("owner sets candidate 2 on", transaction.TypeSetCandidateOnline, o2, transaction.SetCandidateOnData{PubKey: Pub(2)}),
			c16StakeTx("owner sets candidate 2 off", transaction.TypeSetCandidateOffline, o2, transaction.SetCandidateOffData{PubKey: Pub(2)}),
			c16Delegate("d1 delegates 1 pip to candidate 2", d1, Pub(2), 0, big.NewInt(1)),
			c16Unbond("owner unbonds 1 pip from candidate 2", o2, Pub(2), 0, big.NewInt(1)),
		}
		return m
	}
	for _, n := range []int{3, 4} {
		total := 1
		for i := 0; i < n; i++ {
			total *= 6
		}
		for code := 0; code < total; code++ {
			n, code := n, code
			Register(fmt.Sprintf("stakegrid%d-%d", n, code), func() *World {
				return &World{
					P:       lab.Params{StakePeriod: 12, OrdersPeriod: 4, InitialHeight: C16StakeFirst},
					Genesis: func() *types.AppState { return c16GridGenesis(n, code) },
					Menu:    gridMenu(n),
				}
			})
		}
	}
	for v := 0; v < 4; v++ {
		v := v
		Register(fmt.Sprintf("stakecut-%d", v), func() *World {
			return &World{
				P:       lab.Params{StakePeriod: 12, OrdersPeriod: 4, InitialHeight: C16StakeFirst},
				Genesis: func() *types.AppState { return c16CutGenesis(v) },
				Menu: []Tx{
					c16Delegate("d1 delegates 10 BIP to rank 65", K("d1"), Pub(65), 0, e18(10)),
					c16Delegate("d1 delegates 1 pip to rank 65", K("d1"), Pub(65), 0, big.NewInt(1)),
					c16StakeTx("owner sets rank 10 off", transaction.TypeSetCandidateOffline, K("cutown10"), transaction.SetCandidateOffData{PubKey: Pub(10)}),
				},
			}
		})
	}
}

// C16GridWorldNames lists the grid worlds with n candidates.
func C16GridWorldNames(n int) []string {
	total := 1
	for i := 0; i < n; i++ {
		total *= 6
	}
	out := make([]string, 0, total)
	for code := 0; code < total; code++ {
		out = append(out, fmt.Sprintf("stakegrid%d-%d", n, code))
	}
	return out
}
