package worlds

import (
	"math/big"

	"github.com/MinterTeam/minter-go-node/coreV2/transaction"
	"github.com/MinterTeam/minter-go-node/coreV2/types"

	"verif/lab"
)

// booktiny: an order book whose best order is tiny (10^13 pip). A partial fill of such an
// order changes its price at 53 bits (integer rounding of the remaining volumes), i.e. the
// key under which it is filed in the on-disk price index moves - the situation in which the
// in-memory sort lists and the disk index can drift apart. Taker trades are sized to stop
// inside the tiny order, to finish it, and to go on into the large order behind it; several
// of them fit into one block.
func booktinyGenesis() *types.AppState {
	g := NewG()
	M, T, V := K("maker").Addr, K("taker").Addr, K("vown").Addr
	huge := I("1000000000000000000000000000000000")
	g.Bal(M, 0, e18(1000000)).Bal(T, 0, e18(1000000)).Bal(V, 0, e18(1000000))
	orders := []types.Order{
		{IsSale: true, Volume0: "10030000000007", Volume1: "10000000000000", ID: 1, Owner: M, Height: BaseHeight},
		{IsSale: true, Volume0: "30120000000011", Volume1: "30000000000000", ID: 2, Owner: M, Height: BaseHeight},
		{IsSale: true, Volume0: "1100000000000000000013", Volume1: "1000000000000000000000", ID: 3, Owner: M, Height: BaseHeight},
		{IsSale: false, Volume0: "10000000000000", Volume1: "10030000000007", ID: 4, Owner: M, Height: BaseHeight},
		{IsSale: false, Volume0: "1000000000000000000000", Volume1: "1100000000000000000013", ID: 5, Owner: M, Height: BaseHeight},
	}
	g.Pool(1, 0, 1, e18(10000), e18(10000), orders)
	g.S.NextOrderID = 6
	escrowTok := new(big.Int).Add(I("10000000000000"), new(big.Int).Add(I("30000000000000"), e18(1000)))
	escrowBip := new(big.Int).Add(I("10000000000000"), e18(1000))
	g.Bal(M, 0, new(big.Int).Neg(escrowBip))
	tokVol := e18(1000000)
	g.Token(1, "TOK", tokVol, e18(100000000), true, true, &M)
	// TOK holders: pool 10000, escrow, maker, taker
	rest := new(big.Int).Sub(tokVol, e18(10000))
	rest.Sub(rest, escrowTok)
	half := new(big.Int).Div(rest, big.NewInt(2))
	g.Bal(M, 1, half).Bal(T, 1, new(big.Int).Sub(rest, half))
	g.Token(2, "LP-1", e18(10000), huge, true, true, nil)
	g.Bal(types.Address{}, 2, big.NewInt(1000)).Bal(V, 2, new(big.Int).Sub(e18(10000), big.NewInt(1000)))
	g.Candidate(1, Pub(1), V, V, V, 10, true, true, []types.Stake{Stake(V, e18(10000))})
	return g.Build()
}

func init() {
	Register("booktiny", func() *World {
		M, T := K("maker"), K("taker")
		zero := big.NewInt(0)
		sellBip := func(name, amount string) Tx {
			return tx(name, transaction.TypeSellSwapPool, T, transaction.SellSwapPoolDataV260{Coins: []types.CoinID{0, 1}, ValueToSell: I(amount), MinimumValueToBuy: zero}, 0)
		}
		sellTok := func(name, amount string) Tx {
			return tx(name, transaction.TypeSellSwapPool, T, transaction.SellSwapPoolDataV260{Coins: []types.CoinID{1, 0}, ValueToSell: I(amount), MinimumValueToBuy: zero}, 0)
		}
		w := &World{
			P:        lab.Params{StakePeriod: 12, OrdersPeriod: 6, InitialHeight: BaseHeight + 1},
			Genesis:  booktinyGenesis,
			Accounts: []*Key{M, T, K("vown")},
		}
		w.Menu = []Tx{
			sellBip("taker sells BIP up to ~40% of tiny order 1", "15018793418708924349"),
			sellBip("taker sells 10^13 BIP (the rest of a tiny order)", "10000000000000"),
			sellBip("taker sells 4*10^12 BIP (part of a tiny order)", "4000000000000"),
			sellBip("taker sells 500 BIP (into the large order)", "500000000000000000000"),
			sellTok("taker sells TOK up to ~40% of tiny order 4", "15018793418708924349"),
			sellTok("taker sells 10^13 TOK", "10000000000000"),
			sellTok("taker sells 500 TOK", "500000000000000000000"),
			tx("maker cancels tiny order 1", transaction.TypeRemoveLimitOrder, M, transaction.RemoveLimitOrderData{ID: 1}, 0),
			tx("maker cancels tiny order 4", transaction.TypeRemoveLimitOrder, M, transaction.RemoveLimitOrderData{ID: 4}, 0),
		}
		return w
	})
}
