package worlds

import (
	"math/big"

	"github.com/MinterTeam/minter-go-node/coreV2/transaction"
	"github.com/MinterTeam/minter-go-node/coreV2/types"

	"verif/lab"
)

// World "poolfee": the fee of every transaction is paid in token T2 and converted through
// pool 1 (BIP/T2), which is also the pool the transaction itself trades in, burns or mints.
// The node has to judge the sender's limit (minimum to buy, maximum to sell, minimum / maximum
// volumes of liquidity) on the pool as the fee conversion leaves it. The limits of the menu are
// calibrated on a real node when the world is built:
//
//	naive    — the amount the same request yields when the fee is paid in BIP (pool untouched by the fee)
//	boundary — the last limit that CheckTx accepts with the fee paid in T2 (bisection on a real node)
//
// limit = naive is to be refused, limit = boundary accepted, limit = boundary ± 1 refused. The monitors
// (C15 limits, C06 CheckTx = DeliverTx, C07 no crash, C03, C13, C27) do not use these numbers, and
// the calibration never fails: under a changed node it yields other limits, not an error.
const (
	PfT1  = 1 // token, pool 2: T1/T2 10000/10000
	PfT2  = 2 // token, pool 1: BIP/T2 1000/1000 (fee pool)
	PfLP1 = 3
	PfLP2 = 4
)

func poolfeeGenesis() *types.AppState {
	g := NewG()
	A, B, V := K("alice").Addr, K("bob").Addr, K("vown").Addr
	huge := I("1000000000000000000000000000000000")
	g.Bal(A, 0, e18(1000000)).Bal(B, 0, e18(1000000)).Bal(V, 0, e18(1000000))
	g.Token(PfT1, "TOKONE", e18(1000000), e18(100000000), true, true, &A)
	g.Bal(A, PfT1, e18(490000)).Bal(B, PfT1, e18(500000))
	g.Token(PfT2, "TOKTWO", e18(1000000), e18(100000000), true, true, &A)
	g.Bal(A, PfT2, e18(489000)).Bal(B, PfT2, e18(500000))
	g.Pool(1, 0, PfT2, e18(1000), e18(1000), nil)
	g.Pool(2, PfT1, PfT2, e18(10000), e18(10000), nil)
	g.Token(PfLP1, "LP-1", e18(1000), huge, true, true, nil)
	g.Bal(types.Address{}, PfLP1, big.NewInt(1000)).Bal(B, PfLP1, e18(500)).Bal(V, PfLP1, new(big.Int).Sub(e18(500), big.NewInt(1000)))
	g.Token(PfLP2, "LP-2", e18(10000), huge, true, true, nil)
	g.Bal(types.Address{}, PfLP2, big.NewInt(1000)).Bal(V, PfLP2, new(big.Int).Sub(e18(10000), big.NewInt(1000)))
	g.Candidate(1, Pub(1), V, V, V, 10, true, true, []types.Stake{Stake(V, e18(10000))})
	return g.Build()
}

// pfProbe delivers one transaction as the first of the first block of a fresh node and returns
// the value of a response tag (nil when the transaction is refused).
func pfProbe(p lab.Params, t Tx, tag string) *big.Int {
	n, f := lab.NewNode(p, poolfeeGenesis())
	if f != nil {
		panic("poolfee: cannot start the calibration node: " + f.String())
	}
	defer n.Release()
	if f := n.Begin(lab.Env{}); f != nil {
		panic("poolfee: calibration BeginBlock: " + f.String())
	}
	resp, f := n.Deliver(t.Render(0))
	if f != nil || resp.Code != 0 {
		return nil
	}
	for _, e := range resp.Events {
		for _, a := range e.Attributes {
			if string(a.Key) == tag {
				v, ok := new(big.Int).SetString(string(a.Value), 10)
				if ok {
					return v
				}
			}
		}
	}
	return nil
}

func init() {
	Register("poolfee", func() *World {
		A, B := K("alice"), K("bob")
		huge := I("1000000000000000000000000000000000")
		zero := big.NewInt(0)
		p := lab.Params{StakePeriod: 12, OrdersPeriod: 4, InitialHeight: BaseHeight + 1}
		w := &World{P: p, Genesis: poolfeeGenesis, Envs: stdEnvs(), Accounts: []*Key{A, B, K("vown")}}
		ids := func(c ...types.CoinID) []types.CoinID { return c }
		plus := func(a *big.Int, d int64) *big.Int { return new(big.Int).Add(a, big.NewInt(d)) }
		type mkf func(limit *big.Int, gas types.CoinID) Tx
		named := func(t Tx, name string) Tx { t.Name = name; return t }
		var menu []Tx
		// one node answers the acceptance questions of the calibration through CheckTx (no state change)
		cn, cf := lab.NewNode(p, poolfeeGenesis())
		if cf == nil {
			cf = cn.Begin(lab.Env{})
		}
		accepted := func(t Tx) bool {
			if cf != nil || cn.Dead != nil {
				return false
			}
			r, f := cn.Check(t.Render(0))
			return f == nil && r.Code == 0
		}
		// The calibration never fails: whatever the node under test answers, three limits come out
		// of it (without-fee outcome, last accepted limit, first refused limit) and the monitors judge.
		// lower limits (minimum to receive)
		lower := func(name string, mk mkf, tag string) {
			naive := pfProbe(p, mk(zero, 0), tag)
			if naive == nil {
				naive = e18(1)
			}
			lo, hi := new(big.Int), new(big.Int).Set(naive) // lo accepted, hi refused
			if accepted(mk(hi, PfT2)) {
				lo.Set(hi)
			} else {
				for new(big.Int).Sub(hi, lo).Cmp(big.NewInt(1)) > 0 {
					mid := new(big.Int).Rsh(new(big.Int).Add(lo, hi), 1)
					if accepted(mk(mid, PfT2)) {
						lo = mid
					} else {
						hi = mid
					}
				}
			}
			menu = append(menu,
				named(mk(naive, PfT2), name+", limit = outcome without the fee conversion (to be refused)"),
				named(mk(lo, PfT2), name+", limit = the largest one CheckTx accepts on the genesis state"),
				named(mk(plus(lo, 1), PfT2), name+", limit = that + 1 pip (to be refused)"))
		}
		// upper limits (maximum to give)
		upper := func(name string, mk mkf, tag string) {
			naive := pfProbe(p, mk(huge, 0), tag)
			if naive == nil {
				naive = e18(1)
			}
			lo, hi := new(big.Int).Set(naive), new(big.Int).Lsh(naive, 1) // lo refused, hi accepted
			if accepted(mk(lo, PfT2)) {
				hi.Set(lo)
			} else if accepted(mk(hi, PfT2)) {
				for new(big.Int).Sub(hi, lo).Cmp(big.NewInt(1)) > 0 {
					mid := new(big.Int).Rsh(new(big.Int).Add(lo, hi), 1)
					if accepted(mk(mid, PfT2)) {
						hi = mid
					} else {
						lo = mid
					}
				}
			}
			menu = append(menu,
				named(mk(naive, PfT2), name+", limit = cost without the fee conversion (to be refused)"),
				named(mk(hi, PfT2), name+", limit = the smallest one CheckTx accepts on the genesis state"),
				named(mk(plus(hi, -1), PfT2), name+", limit = that - 1 pip (to be refused)"))
		}
		lower("B sells 10 T2 -> BIP, fee in T2", func(l *big.Int, gas types.CoinID) Tx {
			return tx("", transaction.TypeSellSwapPool, B, transaction.SellSwapPoolDataV260{Coins: ids(PfT2, 0), ValueToSell: e18(10), MinimumValueToBuy: l}, gas)
		}, "tx.return")
		lower("B sells 100 T1 -> T2 -> BIP, fee in T2 (fee pool is the second hop)", func(l *big.Int, gas types.CoinID) Tx {
			return tx("", transaction.TypeSellSwapPool, B, transaction.SellSwapPoolDataV260{Coins: ids(PfT1, PfT2, 0), ValueToSell: e18(100), MinimumValueToBuy: l}, gas)
		}, "tx.return")
		upper("B buys 10 BIP with T2, fee in T2", func(l *big.Int, gas types.CoinID) Tx {
			return tx("", transaction.TypeBuySwapPool, B, transaction.BuySwapPoolDataV260{Coins: ids(PfT2, 0), ValueToBuy: e18(10), MaximumValueToSell: l}, gas)
		}, "tx.return")
		upper("B buys 10 BIP with T1 via T2, fee in T2 (fee pool is the second hop)", func(l *big.Int, gas types.CoinID) Tx {
			return tx("", transaction.TypeBuySwapPool, B, transaction.BuySwapPoolDataV260{Coins: ids(PfT1, PfT2, 0), ValueToBuy: e18(10), MaximumValueToSell: l}, gas)
		}, "tx.return")
		lower("B removes 100 LP-1 written (BIP, T2), fee in T2", func(l *big.Int, gas types.CoinID) Tx {
			return tx("", transaction.TypeRemoveLiquidity, B, transaction.RemoveLiquidityV240{Coin0: 0, Coin1: PfT2, Liquidity: e18(100), MinimumVolume0: l, MinimumVolume1: zero}, gas)
		}, "tx.volume0")
		lower("B removes 100 LP-1 written (T2, BIP), fee in T2", func(l *big.Int, gas types.CoinID) Tx {
			return tx("", transaction.TypeRemoveLiquidity, B, transaction.RemoveLiquidityV240{Coin0: PfT2, Coin1: 0, Liquidity: e18(100), MinimumVolume0: zero, MinimumVolume1: l}, gas)
		}, "tx.volume1")
		upper("B adds 10 BIP to pool 1 written (BIP, T2), fee in T2", func(l *big.Int, gas types.CoinID) Tx {
			return tx("", transaction.TypeAddLiquidity, B, transaction.AddLiquidityDataV260{Coin0: 0, Coin1: PfT2, Volume0: e18(10), MaximumVolume1: l}, gas)
		}, "tx.volume1")
		if cn != nil {
			cn.Release()
		}
		w.Menu = menu
		return w
	})
}
