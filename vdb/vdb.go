// Package vdb is the harness-owned storage under a lab node: an ordered
// in-memory tm-db that outlives node objects (restart = new node over the same
// DBs), can be deep-copied, logs every mutation and can be armed to "kill the
// process" (panic with a sentinel) after the k-th mutation.
package vdb

import (
	"fmt"
	"sort"
	"strings"
	"sync"

	db "github.com/tendermint/tm-db"
)

// Crash is the sentinel panic raised once the armed mutation budget is used up.
type Crash struct{ After int }

// Mutation is one atomic write reaching a database.
type Mutation struct {
	DB    string
	Kind  string // set | delete | batch
	Label string
	Keys  int
}

// Set groups the databases of one node; mutations are counted across all of them.
type Set struct {
	mu    sync.Mutex
	DBs   map[string]*DB
	Log   []Mutation
	LogOn bool
	armed bool
	left  int
	total int
	Dead  bool
}

func NewSet() *Set { return &Set{DBs: map[string]*DB{}} }

// Get returns (creating on first use) the named database of the set.
func (s *Set) Get(name string) *DB {
	s.mu.Lock()
	defer s.mu.Unlock()
	d, ok := s.DBs[name]
	if !ok {
		d = &DB{name: name, set: s, mem: db.NewMemDB()}
		s.DBs[name] = d
	}
	return d
}

// Arm makes the set die right after the k-th mutation from now (k=0: before any).
func (s *Set) Arm(k int) { s.armed, s.left, s.Dead = true, k, false }

// Disarm clears the fault and the dead flag (the "machine" is rebooted).
func (s *Set) Disarm() { s.armed, s.Dead = false, false }

func (s *Set) StartLog() { s.Log, s.LogOn = nil, true }
func (s *Set) StopLog() []Mutation {
	s.LogOn = false
	l := s.Log
	s.Log = nil
	return l
}

// before is called before applying a mutation; it panics if the process is dead.
func (s *Set) before() {
	if s.Dead || (s.armed && s.left == 0) {
		s.Dead = true
		panic(Crash{After: s.total})
	}
}

func (s *Set) after(m Mutation) {
	s.total++
	if s.LogOn {
		s.Log = append(s.Log, m)
	}
	if s.armed {
		s.left--
	}
}

// Clone deep-copies all databases (fault state is not copied).
func (s *Set) Clone() *Set {
	c := NewSet()
	for name, d := range s.DBs {
		nd := c.Get(name)
		it, err := d.mem.Iterator(nil, nil)
		if err != nil {
			panic(err)
		}
		for ; it.Valid(); it.Next() {
			k, v := it.Key(), it.Value()
			_ = nd.mem.Set(append([]byte{}, k...), append([]byte{}, v...))
		}
		it.Close()
	}
	return c
}

// Dump returns all records of one database in key order.
func (s *Set) Dump(name string) [][2][]byte {
	d := s.Get(name)
	var out [][2][]byte
	it, err := d.mem.Iterator(nil, nil)
	if err != nil {
		panic(err)
	}
	defer it.Close()
	for ; it.Valid(); it.Next() {
		out = append(out, [2][]byte{append([]byte{}, it.Key()...), append([]byte{}, it.Value()...)})
	}
	return out
}

// DB implements tm-db's DB on top of tm-db's own MemDB.
type DB struct {
	name string
	set  *Set
	mem  *db.MemDB
}

var _ db.DB = (*DB)(nil)

func (d *DB) Name() string { return d.name }

func (d *DB) Get(k []byte) ([]byte, error) { return d.mem.Get(k) }
func (d *DB) Has(k []byte) (bool, error)   { return d.mem.Has(k) }

// keyClass abbreviates a key: printable keys are kept (digits dropped), binary keys give their first byte.
func keyClass(k []byte) string {
	if len(k) == 0 {
		return ""
	}
	for i := 0; i < len(k) && i < 12; i++ {
		if k[i] < 0x20 || k[i] > 0x7e {
			return fmt.Sprintf("%c*", k[0])
		}
	}
	out := []byte{}
	for i := 0; i < len(k) && i < 12; i++ {
		if k[i] >= '0' && k[i] <= '9' {
			continue
		}
		out = append(out, k[i])
	}
	return string(out)
}

func label(k []byte) string {
	return keyClass(k)
}

func labelOld(k []byte) string {
	n := len(k)
	if n > 12 {
		n = 12
	}
	for i := 0; i < n; i++ {
		if k[i] < 0x20 || k[i] > 0x7e {
			return fmt.Sprintf("%x", k[:n])
		}
	}
	return string(k[:n])
}

func (d *DB) Set(k, v []byte) error {
	d.set.before()
	err := d.mem.Set(k, v)
	d.set.after(Mutation{DB: d.name, Kind: "set", Label: label(k), Keys: 1})
	return err
}
func (d *DB) SetSync(k, v []byte) error { return d.Set(k, v) }
func (d *DB) Delete(k []byte) error {
	d.set.before()
	err := d.mem.Delete(k)
	d.set.after(Mutation{DB: d.name, Kind: "delete", Label: label(k), Keys: 1})
	return err
}
func (d *DB) DeleteSync(k []byte) error { return d.Delete(k) }
func (d *DB) Iterator(start, end []byte) (db.Iterator, error) {
	return d.mem.Iterator(start, end)
}
func (d *DB) ReverseIterator(start, end []byte) (db.Iterator, error) {
	return d.mem.ReverseIterator(start, end)
}

// Close is a no-op: the data must survive the node object.
func (d *DB) Close() error             { return nil }
func (d *DB) Print() error             { return nil }
func (d *DB) Stats() map[string]string { return map[string]string{} }
func (d *DB) NewBatch() db.Batch       { return &batch{d: d} }

type op struct {
	del  bool
	k, v []byte
}

type batch struct {
	d   *DB
	ops []op
}

func (b *batch) Set(k, v []byte) error {
	if b.ops == nil && b.d == nil {
		return fmt.Errorf("batch closed")
	}
	b.ops = append(b.ops, op{k: append([]byte{}, k...), v: append([]byte{}, v...)})
	return nil
}
func (b *batch) Delete(k []byte) error {
	b.ops = append(b.ops, op{del: true, k: append([]byte{}, k...)})
	return nil
}
func (b *batch) Write() error {
	if len(b.ops) == 0 {
		return nil
	}
	b.d.set.before()
	for _, o := range b.ops {
		if o.del {
			_ = b.d.mem.Delete(o.k)
		} else {
			_ = b.d.mem.Set(o.k, o.v)
		}
	}
	// label = the set of key classes (first byte, or the printable prefix) touched by the batch
	classes := map[string]bool{}
	for _, o := range b.ops {
		c := keyClass(o.k)
		if o.del {
			c = "-" + c
		}
		classes[c] = true
	}
	var cl []string
	for c := range classes {
		cl = append(cl, c)
	}
	sort.Strings(cl)
	lab := strings.Join(cl, ",")
	b.d.set.after(Mutation{DB: b.d.name, Kind: "batch", Label: lab, Keys: len(b.ops)})
	b.ops = nil
	return nil
}
func (b *batch) WriteSync() error { return b.Write() }
func (b *batch) Close() error     { b.ops = nil; return nil }
