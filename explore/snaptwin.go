package explore

import (
	"bytes"
	"crypto/sha256"
	"fmt"

	abci "github.com/tendermint/tendermint/abci/types"

	"verif/lab"
	"verif/worlds"
)

// SnapStats counts what the snapshot twin covered.
type SnapStats struct {
	Snapshots  int // snapshots restored into a fresh node
	Producers  int // producer variants whose chunks were compared
	FollowUps  int
	Executions int
}

type snapImage struct {
	meta   *abci.Snapshot
	chunks [][]byte
	digest string
}

// produce runs h on a node that snapshots every block and returns the node (kept) and the
// snapshot at the final height.
func produce(w *worlds.World, h History, o Opts) (*Runner, *snapImage, string) {
	r := NewRunner(w, o)
	if r.Tr.Fault != nil {
		return r, nil, "start: " + r.Tr.Fault.String()
	}
	if err := r.N.EnableSnapshots(1, 100); err != nil {
		return r, nil, "snapshot store: " + err.Error()
	}
	for _, b := range h {
		if !r.Block(b, false) {
			return r, nil, ""
		}
	}
	img, err := grab(r.N)
	return r, img, err
}

func grab(n *lab.Node) (*snapImage, string) {
	var list abci.ResponseListSnapshots
	if f := lab.Guard("ListSnapshots", func() { list = n.App.ListSnapshots(abci.RequestListSnapshots{}) }); f != nil {
		return nil, f.String()
	}
	var meta *abci.Snapshot
	for _, s := range list.Snapshots {
		if int64(s.Height) == n.Height {
			meta = s
		}
	}
	if meta == nil {
		return nil, fmt.Sprintf("no snapshot listed for height %d (listed: %d)", n.Height, len(list.Snapshots))
	}
	img := &snapImage{meta: meta}
	hsh := sha256.New()
	for i := uint32(0); i < meta.Chunks; i++ {
		var c abci.ResponseLoadSnapshotChunk
		if f := lab.Guard("LoadSnapshotChunk", func() {
			c = n.App.LoadSnapshotChunk(abci.RequestLoadSnapshotChunk{Height: meta.Height, Format: meta.Format, Chunk: i})
		}); f != nil {
			return nil, f.String()
		}
		if len(c.Chunk) == 0 {
			return nil, fmt.Sprintf("chunk %d of the snapshot at height %d cannot be loaded", i, meta.Height)
		}
		img.chunks = append(img.chunks, c.Chunk)
		hsh.Write(c.Chunk)
	}
	img.digest = fmt.Sprintf("%x", hsh.Sum(nil)[:12])
	return img, ""
}

// SnapshotTwin: producer executes h with a snapshot after every block; the snapshot of the
// final height is (1) compared with the snapshots of producers that were restarted at each
// single block boundary, (2) restored into a fresh node whose Info must equal the
// producer's, after which (3) both run the empty block and every menu item as the next
// block and are compared.
func SnapshotTwin(w *worlds.World, h History, menu []int, st *SnapStats) []Violation {
	var out []Violation
	mk := func(sig, text string, hist History) {
		out = append(out, Violation{Property: "C29", Signature: sig, Detail: text, Hist: hist, Extra: map[string]interface{}{"engine": "snapshot-twin"}})
	}
	if len(h) == 0 {
		return nil // height initial-1 has no snapshot: snapshots are taken by Commit
	}
	o := Opts{NoDisk: true}
	prod, img, errText := produce(w, h, o)
	st.Executions++
	defer func() { prod.N.Cleanup(); prod.N.Release() }()
	if prod.Tr.Fault != nil {
		return nil
	}
	if img == nil {
		mk("no-snapshot", errText, h)
		return out
	}
	st.Producers++
	// (1) same content on every node that committed h: producers restarted at one boundary
	for pos := 0; pos < len(h); pos++ {
		v := h.Clone()
		v[pos].Restart = true
		p2, img2, e2 := produce(w, v, o)
		st.Executions++
		st.Producers++
		if p2.Tr.Fault == nil {
			if img2 == nil {
				mk("no-snapshot|restarted-producer", e2, v)
			} else if img2.digest != img.digest || !bytes.Equal(img2.meta.Hash, img.meta.Hash) || img2.meta.Chunks != img.meta.Chunks {
				mk("snapshot-content-differs|restarted-producer", fmt.Sprintf("snapshot of height %d: producer restarted before block %d has chunks %s (%d), never-restarted producer %s (%d)", prod.N.Height, pos, img2.digest, img2.meta.Chunks, img.digest, img.meta.Chunks), v)
			}
		}
		p2.N.Cleanup()
		p2.N.Release()
	}
	// (2) restore into a fresh node
	restore := func() (*lab.Node, string) {
		n, f := lab.NewBareNode(w.P)
		if f != nil {
			return n, "bare node: " + f.String()
		}
		if err := n.EnableSnapshots(0, 100); err != nil {
			return n, err.Error()
		}
		var offer abci.ResponseOfferSnapshot
		if f := lab.Guard("OfferSnapshot", func() {
			offer = n.App.OfferSnapshot(abci.RequestOfferSnapshot{Snapshot: img.meta, AppHash: prod.Tr.Last().Obs.AppHash})
		}); f != nil {
			return n, f.String()
		}
		if offer.Result != abci.ResponseOfferSnapshot_ACCEPT {
			return n, fmt.Sprintf("OfferSnapshot result %v", offer.Result)
		}
		for i, c := range img.chunks {
			var ap abci.ResponseApplySnapshotChunk
			if f := lab.Guard("ApplySnapshotChunk", func() {
				ap = n.App.ApplySnapshotChunk(abci.RequestApplySnapshotChunk{Index: uint32(i), Chunk: c, Sender: "producer"})
			}); f != nil {
				return n, f.String()
			}
			if ap.Result != abci.ResponseApplySnapshotChunk_ACCEPT {
				return n, fmt.Sprintf("ApplySnapshotChunk %d result %v", i, ap.Result)
			}
		}
		n.Height, n.LastTime = prod.N.Height, prod.N.LastTime
		n.ValidatorsHint = prod.N.Validators()
		return n, ""
	}
	cons, errText := restore()
	if errText != "" {
		cons.Cleanup()
		cons.Release()
		mk("restore-failed", errText, h)
		return out
	}
	st.Snapshots++
	var ia, ib abci.ResponseInfo
	fa := lab.Guard("Info", func() { ia = prod.N.App.Info(abci.RequestInfo{}) })
	fb := lab.Guard("Info", func() { ib = cons.App.Info(abci.RequestInfo{}) })
	if fa != nil || fb != nil {
		mk("info-fault", fmt.Sprintf("%v / %v", fa, fb), h)
	} else if ia.LastBlockHeight != ib.LastBlockHeight || !bytes.Equal(ia.LastBlockAppHash, ib.LastBlockAppHash) {
		mk("info-differs", fmt.Sprintf("producer Info %d/%x, restored node %d/%x", ia.LastBlockHeight, ia.LastBlockAppHash, ib.LastBlockHeight, ib.LastBlockAppHash), h)
	}
	cons.Cleanup()
	cons.Release()
	// (3) behaviour after the restore: one follow-up block per menu item + the empty block,
	// then one more empty block (effects of the next BeginBlock)
	items := append([]int{-1}, menu...)
	for _, it := range items {
		blk := Block{Env: 0}
		name := "empty-block"
		if it >= 0 {
			blk.Txs = []int{it}
			name = w.Menu[it].Name
		}
		follow := History{blk, Block{Env: 0}}
		// the replaying node
		ra := NewRunner(w, Opts{NoDisk: true, CaptureAll: true})
		okA := ra.Tr.Fault == nil
		for _, b := range h {
			if okA {
				okA = ra.Block(b, false)
			}
		}
		base := len(ra.Tr.Steps)
		for _, b := range follow {
			if okA {
				okA = ra.Block(b, true)
			}
		}
		// the state-synced node
		cn, e := restore()
		st.Executions += 2
		st.FollowUps++
		if e != "" {
			cn.Cleanup()
			cn.Release()
			ra.N.Release()
			mk("restore-failed", e, h)
			continue
		}
		rb := &Runner{W: w, N: cn, O: Opts{NoDisk: true, CaptureAll: true}, Tr: &Trace{W: w}, firstResp: map[string]*abci.ResponseDeliverTx{}}
		okB := true
		for _, b := range follow {
			if okB {
				okB = rb.Block(b, true)
			}
		}
		ta := &Trace{Steps: ra.Tr.Steps[base:], Fault: ra.Tr.Fault}
		if d := CompareTraces(ta, rb.Tr, 0); d != nil {
			hh := append(h.Clone(), follow...)
			mk("after-restore|"+d.What, fmt.Sprintf("follow-up %q on the state-synced node vs the replaying node: %s", name, d.Text), hh)
		}
		cn.Cleanup()
		cn.Release()
		ra.N.Release()
	}
	return out
}
