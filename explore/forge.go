package explore

import (
	"github.com/MinterTeam/minter-go-node/coreV2/transaction"
	"github.com/MinterTeam/minter-go-node/coreV2/types"
	"github.com/MinterTeam/minter-go-node/rlp"

	"verif/lab"
)

// stealSignature replaces the signature data of a rendered single-signature transaction by
// that of the most recent earlier transaction of the same sender in this history (a forgery:
// the signature does not cover the new body). nil if there is no such earlier transaction.
func stealSignature(body []byte, sender types.Address, delivered [][]byte) []byte {
	var tx transaction.Transaction
	if err := rlp.DecodeBytes(body, &tx); err != nil || tx.SignatureType != transaction.SigTypeSingle {
		return nil
	}
	for i := len(delivered) - 1; i >= 0; i-- {
		old, err := lab.Decode(delivered[i])
		if err != nil || old.SignatureType != transaction.SigTypeSingle {
			continue
		}
		s, err := old.Sender()
		if err != nil || s != sender {
			continue
		}
		if string(old.SignatureData) == string(tx.SignatureData) {
			continue
		}
		tx.SignatureData = old.SignatureData
		out, err := rlp.EncodeToBytes(tx)
		if err != nil {
			return nil
		}
		return out
	}
	return nil
}
