package explore

import (
	"fmt"
	"math/big"

	"github.com/MinterTeam/minter-go-node/coreV2/types"

	"verif/lab"
	"verif/worlds"
)

// exportVsAccessors compares the accounts section of an export with what the accessors of the
// live state answer for every address of the world (signers, multisig wallets, recipients named
// in World.Accounts): nonce, lock-until block and the balance of every exported coin.
func exportVsAccessors(w *worlds.World, n *lab.Node, ex *types.AppState, extra ...types.Address) (out [][2]string) {
	addrs := map[types.Address]bool{}
	for _, a := range extra {
		addrs[a] = true
	}
	for _, k := range w.Accounts {
		addrs[k.Addr] = true
	}
	for i := range w.Menu {
		t := &w.Menu[i]
		if t.Replay > 0 || t.FixedBytes != nil || (t.Signer == nil && t.Multisig == nil) {
			continue
		}
		addrs[t.Sender()] = true
	}
	byAddr := map[types.Address]*types.Account{}
	for i := range ex.Accounts {
		byAddr[ex.Accounts[i].Address] = &ex.Accounts[i]
	}
	coins := []types.CoinID{0}
	for _, c := range ex.Coins {
		coins = append(coins, types.CoinID(c.ID))
	}
	flt := lab.Guard("accessors", func() {
		acc := n.App.CurrentState().Accounts()
		for a := range addrs {
			e := byAddr[a]
			var nonce, lock uint64
			bal := map[uint64]string{}
			if e != nil {
				nonce, lock = e.Nonce, e.LockStakeUntilBlock
				for _, b := range e.Balance {
					bal[b.Coin] = b.Value
				}
			}
			if got := acc.GetNonce(a); got != nonce {
				out = append(out, [2]string{"export|account-nonce", fmt.Sprintf("account %s has nonce %d, the export says %d (exported: %v)", a.String(), got, nonce, e != nil)})
			}
			// multisig data: threshold, owners and weights
			ms := "none"
			if e != nil && e.MultisigData != nil {
				ms = fmt.Sprintf("%d %v %v", e.MultisigData.Threshold, e.MultisigData.Weights, e.MultisigData.Addresses)
			}
			live := "none"
			if acc.GetAccount(a).IsMultisig() {
				m := acc.GetAccount(a).Multisig()
				var ws []uint64
				for _, x := range m.Weights {
					ws = append(ws, uint64(x))
				}
				live = fmt.Sprintf("%d %v %v", m.Threshold, ws, m.Addresses)
			}
			if live != ms {
				out = append(out, [2]string{"export|account-multisig", fmt.Sprintf("account %s is the multisig wallet %s, the export says %s (exported: %v)", a.String(), live, ms, e != nil)})
			}
			if got := acc.GetLockStakeUntilBlock(a); got != lock {
				out = append(out, [2]string{"export|account-lock-until", fmt.Sprintf("account %s is locked until %d, the export says %d (exported: %v)", a.String(), got, lock, e != nil)})
			}
			for _, c := range coins {
				got := acc.GetBalance(a, c)
				want, _ := new(big.Int).SetString(bal[uint64(c)], 10)
				if want == nil {
					want = new(big.Int)
				}
				if got.Cmp(want) != 0 {
					out = append(out, [2]string{"export|account-balance", fmt.Sprintf("account %s holds %s of coin %d, the export says %s", a.String(), got, c, want)})
				}
			}
		}
	})
	if flt != nil {
		out = append(out, [2]string{"export|accessor-fault", flt.String()})
	}
	return out
}
