// Package explore is the explicit-state explorer over real nodes.
package explore

import (
	"crypto/sha256"
	"encoding/hex"
	"encoding/json"
	"fmt"
	"math/big"
	"sort"
	"sync"
	"sync/atomic"
	"time"

	"github.com/MinterTeam/minter-go-node/coreV2/transaction"
	"github.com/MinterTeam/minter-go-node/coreV2/types"
	abci "github.com/tendermint/tendermint/abci/types"

	"verif/lab"
	"verif/obs"
	"verif/worlds"
)

// Block is one block of a history: an environment choice and menu indexes.
type Block struct {
	Env     int   `json:"env"`
	Txs     []int `json:"txs"`
	Restart bool  `json:"restart,omitempty"` // the node object is rebuilt from its databases before this block
}

// History is a sequence of blocks from genesis.
type History []Block

func (h History) String() string {
	s := ""
	for i, b := range h {
		if i > 0 {
			s += " "
		}
		r := ""
		if b.Restart {
			r = "R"
		}
		s += fmt.Sprintf("%s[e%d:%v]", r, b.Env, b.Txs)
	}
	return s
}

// Clone copies a history.
func (h History) Clone() History {
	out := make(History, len(h))
	for i, b := range h {
		out[i] = Block{Env: b.Env, Txs: append([]int{}, b.Txs...), Restart: b.Restart}
	}
	return out
}

// NTx counts the transactions of a history.
func (h History) NTx() int {
	n := 0
	for _, b := range h {
		n += len(b.Txs)
	}
	return n
}

// TxRec is one delivered transaction with its context.
type TxRec struct {
	Idx                         int // menu index
	T                           *worlds.Tx
	Bytes                       []byte
	Sender                      types.Address
	NonceBefore                 uint64
	NonceAfter                  uint64
	Resp                        abci.ResponseDeliverTx
	Check                       *transaction.Response
	IsReplay                    bool // the same bytes were delivered earlier in this history
	FirstResp                   *abci.ResponseDeliverTx
	RewardsBefore, RewardsAfter *big.Int
}

// State is what is observed at a committed height.
type State struct {
	Height     int64
	AppHash    []byte
	Export     types.AppState
	Flat       obs.Flat
	Ledger     *obs.Ledger
	Emission   *big.Int
	Key        string
	LiveEqDisk bool
	DiskErr    string
	DiskDiff   []obs.DiffEntry
	Versions   string // UpdateVersions()
	InfoHeight int64
	InfoHash   []byte
	Events     string // JSON of the events stored for this height
}

// Step is one executed block.
type Step struct {
	Block   Block
	Height  int64
	Obs     *lab.BlockObs
	Txs     []TxRec
	Skipped []int // menu items that were not enabled (e.g. replay without a past)
	Post    *State
}

// Trace is an executed history.
type Trace struct {
	W     *worlds.World
	Hist  History
	Steps []Step
	Init  *State // state after InitChain (captured when the history is empty or CaptureAll)
	Pre   *State // state before the last block
	Fault *lab.Fault
	Node  *lab.Node
}

// Last returns the last step (nil for the empty history).
func (t *Trace) Last() *Step {
	if len(t.Steps) == 0 {
		return nil
	}
	return &t.Steps[len(t.Steps)-1]
}

// Final is the last captured committed state.
func (t *Trace) Final() *State {
	if l := t.Last(); l != nil {
		return l.Post
	}
	return t.Init
}

// Opts controls an execution.
type Opts struct {
	CaptureAll bool   // capture a State after every block (else only before/after the last)
	CheckFirst bool   // issue CheckTx right before every DeliverTx
	KeepNode   bool   // leave the node in Trace.Node (caller releases it)
	NoDisk     bool   // skip the fresh-from-disk export comparison
	Pre        *State // state before the last block, if the caller already has it (same history prefix)
}

// Capture observes the committed state of a node.
func Capture(n *lab.Node, apphash []byte, noDisk bool) *State {
	s := &State{Height: n.Height, AppHash: apphash}
	s.Export = n.Export()
	s.Flat = obs.Flatten(&s.Export)
	s.Ledger = obs.NewLedger(&s.Export)
	s.Emission = new(big.Int).Set(n.App.GetEmission())
	s.Key = n.AppDBDigest()
	for _, v := range n.App.UpdateVersions() {
		s.Versions += fmt.Sprintf("%s@%d;", v.Name, v.Height)
	}
	inf := n.App.Info(abci.RequestInfo{})
	s.InfoHeight, s.InfoHash = inf.LastBlockHeight, inf.LastBlockAppHash
	for _, e := range n.App.GetEventsDB().LoadEvents(uint32(n.Height)) {
		js, err := json.Marshal(e)
		if err != nil {
			js = []byte(err.Error())
		}
		s.Events += e.Type() + ":" + string(js) + ";"
	}
	s.LiveEqDisk = true
	if !noDisk {
		d, err := n.DiskExport()
		if err != nil {
			s.DiskErr = err.Error()
			s.LiveEqDisk = false
		} else {
			df := obs.Flatten(&d)
			if diff := obs.Diff(s.Flat, df); len(diff) > 0 {
				s.LiveEqDisk = false
				s.DiskDiff = diff
			}
		}
	}
	return s
}

// Runner executes blocks of a world one after the other on one node.
type Runner struct {
	W         *worlds.World
	N         *lab.Node
	O         Opts
	Tr        *Trace
	delivered [][]byte
	firstResp map[string]*abci.ResponseDeliverTx
}

// NewRunner starts a node for the world (after InitChain or from the warm-up checkpoint).
func NewRunner(w *worlds.World, o Opts) *Runner {
	r := &Runner{W: w, O: o, Tr: &Trace{W: w}, firstResp: map[string]*abci.ResponseDeliverTx{}}
	n, f := startNode(w)
	r.N = n
	if f != nil {
		r.Tr.Fault = f
	}
	return r
}

// fail records a fault of the block being executed.
func (r *Runner) fail(st *Step, f *lab.Fault) bool {
	st.Obs.Fault = f
	r.Tr.Steps = append(r.Tr.Steps, *st)
	r.Tr.Fault = f
	return false
}

// Open executes everything of a block up to and including EndBlock. On success the step is
// returned (not yet appended to the trace); on a fault it is appended and ok is false.
func (r *Runner) Open(b Block) (st *Step, ok bool) {
	n, w := r.N, r.W
	if b.Restart {
		if f := n.Restart(); f != nil {
			r.Tr.Fault = f
			return nil, false
		}
	}
	es := w.Envs[b.Env]
	// fast-forward macro step: FF empty default blocks before the block proper
	for i := 0; i < es.FF; i++ {
		fo := n.RunBlock(lab.Env{}, nil)
		if fo.Fault != nil {
			st = &Step{Block: b, Height: fo.Height, Obs: fo}
			r.Tr.Steps = append(r.Tr.Steps, *st)
			r.Tr.Fault = fo.Fault
			return st, false
		}
	}
	st = &Step{Block: b, Height: n.Height + 1}
	env := es.Env
	if es.Dyn != nil {
		env = es.Dyn(n)
	}
	ob := &lab.BlockObs{Height: n.Height + 1}
	st.Obs = ob
	if f := n.Begin(env); f != nil {
		return st, r.fail(st, f)
	}
	ob.Time = n.LastTime
	for _, ti := range b.Txs {
		t := &w.Menu[ti]
		var bytes []byte
		rec := TxRec{Idx: ti, T: t}
		if t.Replay > 0 {
			if len(r.delivered) < t.Replay {
				st.Skipped = append(st.Skipped, ti)
				continue
			}
			bytes = r.delivered[len(r.delivered)-t.Replay]
		} else if t.FixedBytes != nil {
			bytes = t.FixedBytes
		} else {
			rec.Sender = t.Sender()
			rec.NonceBefore = n.App.CurrentState().Accounts().GetNonce(rec.Sender)
			bytes = renderCached(t, rec.NonceBefore)
			if t.StealSig {
				forged := stealSignature(bytes, rec.Sender, r.delivered)
				if forged == nil {
					st.Skipped = append(st.Skipped, ti)
					continue
				}
				bytes = forged
			}
		}
		rec.Bytes = bytes
		if fr, ok := r.firstResp[string(bytes)]; ok {
			rec.IsReplay = true
			rec.FirstResp = fr
		}
		if t.Replay > 0 || t.FixedBytes != nil {
			// sender from the bytes, if they decode
			if dtx, err := lab.Decode(bytes); err == nil {
				if s, err := dtx.Sender(); err == nil {
					rec.Sender = s
					rec.NonceBefore = n.App.CurrentState().Accounts().GetNonce(s)
				}
			}
		}
		if r.O.CheckFirst {
			cr, f := n.Check(bytes)
			if f != nil {
				st.Txs = append(st.Txs, rec)
				return st, r.fail(st, f)
			}
			rec.Check = &cr
		}
		rec.RewardsBefore = new(big.Int).Set(n.App.GetCurrentRewards())
		resp, f := n.Deliver(bytes)
		rec.Resp = resp
		ob.Txs = append(ob.Txs, lab.TxObs{Bytes: bytes, Resp: resp})
		if f != nil {
			st.Txs = append(st.Txs, rec)
			return st, r.fail(st, f)
		}
		rec.RewardsAfter = new(big.Int).Set(n.App.GetCurrentRewards())
		rec.NonceAfter = n.App.CurrentState().Accounts().GetNonce(rec.Sender)
		if _, ok := r.firstResp[string(bytes)]; !ok {
			rc := resp
			r.firstResp[string(bytes)] = &rc
		}
		r.delivered = append(r.delivered, bytes)
		st.Txs = append(st.Txs, rec)
	}
	ob.Rewards = new(big.Int).Set(n.App.GetCurrentRewards())
	var f *lab.Fault
	if ob.End, f = n.End(); f != nil {
		return st, r.fail(st, f)
	}
	return st, true
}

// Close commits an opened block and appends the step to the trace.
func (r *Runner) Close(st *Step, capture bool) bool {
	var f *lab.Fault
	if st.Obs.AppHash, f = r.N.Commit(); f != nil {
		return r.fail(st, f)
	}
	if capture {
		st.Post = Capture(r.N, st.Obs.AppHash, r.O.NoDisk)
	}
	r.Tr.Steps = append(r.Tr.Steps, *st)
	return true
}

// Block executes one whole block.
func (r *Runner) Block(b Block, capture bool) bool {
	st, ok := r.Open(b)
	if !ok {
		return false
	}
	return r.Close(st, capture)
}

// Exec runs a history on a fresh node.
func Exec(w *worlds.World, h History, o Opts) *Trace {
	r := NewRunner(w, o)
	tr := r.Tr
	tr.Hist = h
	fl := &flight{start: time.Now(), block: -1}
	inFlight.Store(tr, fl)
	defer func() { inFlight.Delete(tr); noteExec(time.Since(fl.start)) }()
	if o.KeepNode {
		tr.Node = r.N
	} else {
		defer r.N.Release()
	}
	if tr.Fault != nil {
		return tr
	}
	n := r.N
	if len(h) == 0 || o.CaptureAll {
		tr.Init = Capture(n, nil, o.NoDisk)
	}
	for bi, b := range h {
		last := bi == len(h)-1
		if last && !o.CaptureAll && o.Pre != nil {
			tr.Pre = o.Pre
		} else if last && !o.CaptureAll {
			if bi == 0 {
				tr.Init = Capture(n, nil, o.NoDisk)
				tr.Pre = tr.Init
			} else {
				tr.Pre = Capture(n, tr.Steps[bi-1].Obs.AppHash, o.NoDisk)
			}
		}
		if IsPoisoned(w, h[:bi+1]) {
			// an earlier process of this check was abandoned while executing this block
			st := &Step{Block: b, Height: n.Height + 1, Obs: &lab.BlockObs{Height: n.Height + 1}}
			r.fail(st, &lab.Fault{Call: "block", Kind: "hang", Value: "the block did not finish (no return within the watchdog's limits)", Top: "unknown"})
			return tr
		}
		atomic.StoreInt32(&fl.block, int32(bi))
		if !r.Block(b, last || o.CaptureAll) {
			return tr
		}
	}
	return tr
}

// Key is the canonical key of the final state of a trace.
func (t *Trace) Key() string {
	fs := t.Final()
	if fs == nil {
		return "fault:" + t.Hist.String()
	}
	k := fs.Key
	if t.W.UsesReplay {
		var all []string
		for _, s := range t.Steps {
			for _, x := range s.Txs {
				all = append(all, string(x.Bytes))
			}
		}
		sort.Strings(all)
		h := sha256.New()
		for _, a := range all {
			h.Write([]byte(a))
			h.Write([]byte{0})
		}
		k += "+" + hex.EncodeToString(h.Sum(nil)[:8])
	}
	return k
}

type renderKey struct {
	t     *worlds.Tx
	nonce uint64
}

var renderCache sync.Map

// renderCached signs a template once per (template, nonce): signatures are deterministic (RFC 6979).
func renderCached(t *worlds.Tx, nonce uint64) []byte {
	k := renderKey{t, nonce}
	if v, ok := renderCache.Load(k); ok {
		return v.([]byte)
	}
	b := t.Render(nonce)
	renderCache.Store(k, b)
	return b
}

// startNode returns a node right after InitChain, or — for worlds with a warm-up — a node
// rebuilt over a copy of the databases of a checkpoint taken after Warmup empty blocks.
// The checkpoint relies on restart equivalence at that one quiescent boundary (C09 checks it).
func startNode(w *worlds.World) (*lab.Node, *lab.Fault) {
	if w.Warmup <= 0 {
		return lab.NewNode(w.P, w.Genesis())
	}
	w.CkOnce.Do(func() {
		n, f := lab.NewNode(w.P, w.Genesis())
		if f != nil {
			w.CkFault = f
			return
		}
		for i := 0; i < w.Warmup; i++ {
			var env lab.Env
			if w.WarmupEnv != nil {
				env = w.WarmupEnv(n, i)
			}
			if o := n.RunBlock(env, nil); o.Fault != nil {
				w.CkFault = o.Fault
				return
			}
		}
		w.CkSet, w.CkHeight, w.CkTime = n.Set, n.Height, n.LastTime
		n.Release()
	})
	if w.CkFault != nil {
		return &lab.Node{Dead: w.CkFault}, w.CkFault
	}
	return lab.Reopen(w.CkSet.Clone(), w.P, w.CkHeight, w.CkTime)
}
