package explore

import (
	"fmt"
	"sort"
	"sync"
	"sync/atomic"
	"time"

	"verif/worlds"
)

// Transition is one block executed on top of a history, with its twin.
type Transition struct {
	W      *worlds.World
	Cur    *Trace // history + block
	Parent *Trace // same history + block without its last transaction (nil when the block is empty)
	Empty  *Trace // same history + same block environment without transactions
}

// LastTx returns the record of the last transaction of the block (nil if none was delivered).
func (t *Transition) LastTx() *TxRec {
	l := t.Cur.Last()
	if l == nil || len(l.Txs) == 0 || len(l.Block.Txs) == 0 {
		return nil
	}
	// the last menu item may have been skipped (replay without a past)
	if len(l.Skipped) > 0 && l.Skipped[len(l.Skipped)-1] == l.Block.Txs[len(l.Block.Txs)-1] {
		return nil
	}
	return &l.Txs[len(l.Txs)-1]
}

// Violation is a monitor verdict.
type Violation struct {
	Property  string
	Signature string // keyed on the violation, not on the history
	Detail    string
	Hist      History
	World     string
	Extra     map[string]interface{}
}

// Monitor inspects transitions.
type Monitor interface {
	Property() string
	// Check returns violations and whether the guarded mechanism actually fired.
	Check(t *Transition) (v []Violation, nontrivial bool)
}

// Bounds of a search.
type Bounds struct {
	T int // max transactions per history
	K int // max transactions per block
	B int // max blocks per history
}

func (b Bounds) String() string { return fmt.Sprintf("T<=%d,K<=%d,B<=%d", b.T, b.K, b.B) }

// Config of one search.
type Config struct {
	World    *worlds.World
	Bounds   Bounds
	Monitors []Monitor
	Opts     Opts
	Dedupe   bool
	Workers  int
	Deadline time.Time // zero = none; on expiry the search stops and reports exhaustive=false
	// EnvFilter restricts the environments used at a given depth (nil = all).
	EnvFilter func(depth int, env int) bool
	// MenuFilter restricts menu items (nil = all).
	MenuFilter func(depth int, prefix []int, item int) bool
	// OnTransition is called for every executed transition (after monitors, outside locks, concurrently).
	OnTransition func(t *Transition, newState bool) []Violation
}

// Stats of a search.
type Stats struct {
	States             int64
	Transitions        int64 // blocks executed as "Cur" of a transition
	BlocksRun          int64 // all blocks executed on the implementation, replays included
	Histories          int64
	MonitorEvals       map[string]int64
	Nontrivial         map[string]int64
	NontrivialDistinct map[string]map[string]struct{} // property -> distinct outcome vectors in which its mechanism fired
	Outcomes           map[string]int64               // distinct vectors of response codes
	Exhaustive         bool
	LevelsDone         int
	Wall               time.Duration
	Samples            []string
	Faults             int64
}

type result struct {
	mu         sync.Mutex
	violations []Violation
	stats      Stats
	seen       map[string]struct{}
}

// outcomeOf summarises a transition as a vector of response codes.
func outcomeOf(t *Trace) string {
	l := t.Last()
	if l == nil {
		return "init"
	}
	s := fmt.Sprintf("e%d", l.Block.Env)
	for _, x := range l.Txs {
		s += fmt.Sprintf(",%d:%d", x.Idx, x.Resp.Code)
	}
	if t.Fault != nil {
		s += ",FAULT:" + t.Fault.Kind
	}
	return s
}

// Search runs a breadth-first search level by level (a level = number of blocks).
func Search(c Config) (Stats, []Violation) {
	start := time.Now()
	if c.Workers <= 0 {
		c.Workers = 16
	}
	res := &result{seen: map[string]struct{}{}}
	res.stats.MonitorEvals = map[string]int64{}
	res.stats.Nontrivial = map[string]int64{}
	res.stats.Outcomes = map[string]int64{}
	res.stats.NontrivialDistinct = map[string]map[string]struct{}{}
	res.stats.Exhaustive = true

	root := Exec(c.World, History{}, c.Opts)
	atomic.AddInt64(&res.stats.Histories, 1)
	if root.Fault != nil {
		res.violations = append(res.violations, Violation{Property: "C07", Signature: "init:" + root.Fault.Top, Detail: root.Fault.String(), World: c.World.Name})
		res.stats.Wall = time.Since(start)
		return res.stats, res.violations
	}
	res.seen[root.Key()] = struct{}{}
	res.stats.States = 1
	frontier := []History{{}}

	var expired int32
	for depth := 0; depth < c.Bounds.B && len(frontier) > 0; depth++ {
		var next []History
		var nmu sync.Mutex
		jobs := make(chan History, len(frontier))
		for _, h := range frontier {
			jobs <- h
		}
		close(jobs)
		var wg sync.WaitGroup
		for w := 0; w < c.Workers; w++ {
			wg.Add(1)
			go func() {
				defer wg.Done()
				for h := range jobs {
					if !c.Deadline.IsZero() && time.Now().After(c.Deadline) {
						atomic.StoreInt32(&expired, 1)
						continue
					}
					succ := expand(&c, res, h, depth)
					nmu.Lock()
					next = append(next, succ...)
					nmu.Unlock()
				}
			}()
		}
		wg.Wait()
		if atomic.LoadInt32(&expired) == 1 {
			res.stats.Exhaustive = false
			break
		}
		res.stats.LevelsDone = depth + 1
		sort.Slice(next, func(i, j int) bool { return next[i].String() < next[j].String() })
		frontier = next
	}
	// closing: every leaf is extended by one empty block so that the effects of
	// the next BeginBlock/EndBlock/Commit on the leaf states are observed too.
	if res.stats.Exhaustive && len(frontier) > 0 && c.Bounds.B > 0 {
		jobs := make(chan History, len(frontier))
		for _, h := range frontier {
			jobs <- h
		}
		close(jobs)
		var wg sync.WaitGroup
		for w := 0; w < c.Workers; w++ {
			wg.Add(1)
			go func() {
				defer wg.Done()
				for h := range jobs {
					if !c.Deadline.IsZero() && time.Now().After(c.Deadline) {
						atomic.StoreInt32(&expired, 1)
						continue
					}
					empty := runOne(&c, res, h, Block{Env: 0})
					evaluate(&c, res, &Transition{W: c.World, Cur: empty, Empty: empty})
				}
			}()
		}
		wg.Wait()
		if atomic.LoadInt32(&expired) == 1 {
			res.stats.Exhaustive = false
		}
	}
	res.stats.Wall = time.Since(start)
	return res.stats, res.violations
}

// expand executes every block that may follow h within the bounds.
func expand(c *Config, res *result, h History, depth int) []History {
	var succ []History
	left := c.Bounds.T - h.NTx()
	kmax := c.Bounds.K
	if left < kmax {
		kmax = left
	}
	var pre *State
	for env := range c.World.Envs {
		if c.EnvFilter != nil && !c.EnvFilter(depth, env) {
			continue
		}
		empty := runOneP(c, res, h, Block{Env: env}, pre)
		pre = empty.Pre
		tEmpty := &Transition{W: c.World, Cur: empty, Empty: empty}
		if s := evaluate(c, res, tEmpty); s != nil {
			succ = append(succ, s)
		}
		if empty.Fault != nil {
			continue
		}
		var rec func(prefix []int, parent *Trace)
		rec = func(prefix []int, parent *Trace) {
			if len(prefix) >= kmax {
				return
			}
			for item := range c.World.Menu {
				if c.MenuFilter != nil && !c.MenuFilter(depth, prefix, item) {
					continue
				}
				txs := append(append([]int{}, prefix...), item)
				cur := runOneP(c, res, h, Block{Env: env, Txs: txs}, pre)
				t := &Transition{W: c.World, Cur: cur, Parent: parent, Empty: empty}
				if l := cur.Last(); l != nil && len(l.Skipped) > 0 {
					continue // a disabled item: not a transition
				}
				if s := evaluate(c, res, t); s != nil {
					succ = append(succ, s)
				}
				if cur.Fault == nil {
					rec(txs, cur)
				}
			}
		}
		rec(nil, empty)
	}
	return succ
}

func runOne(c *Config, res *result, h History, b Block) *Trace {
	return runOneP(c, res, h, b, nil)
}

func runOneP(c *Config, res *result, h History, b Block, pre *State) *Trace {
	hh := append(h.Clone(), b)
	o := c.Opts
	o.Pre = pre
	tr := Exec(c.World, hh, o)
	atomic.AddInt64(&res.stats.Histories, 1)
	atomic.AddInt64(&res.stats.BlocksRun, int64(len(tr.Steps)))
	return tr
}

// evaluate runs the monitors on a transition and returns the history if it leads to a new state.
func evaluate(c *Config, res *result, t *Transition) History {
	h, isNew := evaluate1(c, res, t)
	if c.OnTransition != nil {
		vs := c.OnTransition(t, isNew)
		if len(vs) > 0 {
			res.mu.Lock()
			for i := range vs {
				if vs[i].World == "" {
					vs[i].World = c.World.Name
				}
				if vs[i].Hist == nil {
					vs[i].Hist = t.Cur.Hist
				}
			}
			res.violations = append(res.violations, vs...)
			res.mu.Unlock()
		}
	}
	return h
}

func evaluate1(c *Config, res *result, t *Transition) (History, bool) {
	atomic.AddInt64(&res.stats.Transitions, 1)
	var vs []Violation
	nt := map[string]bool{}
	for _, m := range c.Monitors {
		v, n := m.Check(t)
		for i := range v {
			if v[i].Property == "" {
				v[i].Property = m.Property()
			}
			v[i].Hist = t.Cur.Hist
			v[i].World = c.World.Name
		}
		vs = append(vs, v...)
		if n {
			nt[m.Property()] = true
		}
	}
	oc := outcomeOf(t.Cur)
	res.mu.Lock()
	defer res.mu.Unlock()
	for _, m := range c.Monitors {
		res.stats.MonitorEvals[m.Property()]++
	}
	for p := range nt {
		res.stats.Nontrivial[p]++
		if res.stats.NontrivialDistinct[p] == nil {
			res.stats.NontrivialDistinct[p] = map[string]struct{}{}
		}
		res.stats.NontrivialDistinct[p][fmt.Sprintf("d%d:%s", len(t.Cur.Hist), oc)] = struct{}{}
	}
	res.stats.Outcomes[oc]++
	if t.Cur.Fault != nil {
		res.stats.Faults++
	}
	res.violations = append(res.violations, vs...)
	if len(res.stats.Samples) < 3 && len(t.Cur.Hist) > 0 && len(t.Cur.Last().Txs) > 0 {
		res.stats.Samples = append(res.stats.Samples, Describe(t.Cur))
	}
	if t.Cur.Fault != nil || t.Cur.Final() == nil {
		return nil, false
	}
	k := t.Cur.Key()
	_, seen := res.seen[k]
	if !seen {
		res.seen[k] = struct{}{}
		res.stats.States++
	}
	if c.Dedupe && seen {
		return nil, false
	}
	return t.Cur.Hist, !seen
}

// Describe renders a trace briefly (for samples and reports).
func Describe(t *Trace) string {
	s := fmt.Sprintf("world=%s hist=%s ::", t.W.Name, t.Hist.String())
	for _, st := range t.Steps {
		s += fmt.Sprintf(" h%d{", st.Height)
		for i, x := range st.Txs {
			if i > 0 {
				s += " "
			}
			s += fmt.Sprintf("%s=>%d", x.T.Name, x.Resp.Code)
		}
		s += "}"
	}
	if t.Fault != nil {
		s += " FAULT " + t.Fault.String()
	}
	return s
}

// MakeTransition rebuilds the transition (with its twins) that ends a history.
func MakeTransition(w *worlds.World, h History, o Opts) *Transition {
	t := &Transition{W: w}
	t.Cur = Exec(w, h, o)
	if len(h) == 0 {
		t.Empty = t.Cur
		return t
	}
	last := h[len(h)-1]
	eh := h.Clone()
	eh[len(eh)-1].Txs = nil
	t.Empty = Exec(w, eh, o)
	if n := len(last.Txs); n > 0 {
		ph := h.Clone()
		ph[len(ph)-1].Txs = ph[len(ph)-1].Txs[:n-1]
		t.Parent = Exec(w, ph, o)
	}
	return t
}
