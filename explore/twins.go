package explore

import (
	"bytes"
	"fmt"

	abci "github.com/tendermint/tendermint/abci/types"

	"verif/obs"
	"verif/worlds"
)

// Divergence is the first observable difference between two executions of the same blocks.
type Divergence struct {
	Step  int    // block index
	What  string // class of the observable (used in signatures)
	Text  string
}

func tagsOf(r *abci.ResponseDeliverTx) string {
	s := ""
	for _, e := range r.Events {
		for _, a := range e.Attributes {
			s += fmt.Sprintf("%s=%s;", a.Key, a.Value)
		}
	}
	return s
}

func valUpdates(r *abci.ResponseEndBlock) string {
	s := ""
	for _, v := range r.ValidatorUpdates {
		s += fmt.Sprintf("%x:%d;", v.PubKey.GetEd25519(), v.Power)
	}
	if r.ConsensusParamUpdates != nil && r.ConsensusParamUpdates.Block != nil {
		s += fmt.Sprintf("maxgas=%d", r.ConsensusParamUpdates.Block.MaxGas)
	}
	return s
}

// CompareStates compares two committed-state observations.
func CompareStates(a, b *State) (string, string) {
	if a == nil || b == nil {
		if a != b {
			return "state-missing", "one side has no committed state"
		}
		return "", ""
	}
	if d := obs.Diff(a.Flat, b.Flat); len(d) > 0 {
		return "export|" + obs.KeyClass(d[0].Key), fmt.Sprintf("export differs at height %d in %d keys, first %s", a.Height, len(d), d[0])
	}
	if !bytes.Equal(a.AppHash, b.AppHash) {
		return "apphash", fmt.Sprintf("app hash %x vs %x at height %d (exports equal)", a.AppHash, b.AppHash, a.Height)
	}
	if a.Emission.Cmp(b.Emission) != 0 {
		return "emission", fmt.Sprintf("GetEmission %s vs %s at height %d", a.Emission, b.Emission, a.Height)
	}
	if a.Versions != b.Versions {
		return "versions", fmt.Sprintf("versions %q vs %q", a.Versions, b.Versions)
	}
	if a.InfoHeight != b.InfoHeight || !bytes.Equal(a.InfoHash, b.InfoHash) {
		return "info", fmt.Sprintf("Info %d/%x vs %d/%x", a.InfoHeight, a.InfoHash, b.InfoHeight, b.InfoHash)
	}
	if a.Events != b.Events {
		return "events", fmt.Sprintf("events of height %d: %q vs %q", a.Height, a.Events, b.Events)
	}
	// the records of the app DB (height, hash, validators, block times, versions, emission, reward price):
	// they are not part of the state tree, but later blocks are computed from them
	if a.Key != "" && b.Key != "" && a.Key != b.Key {
		return "appdb-records", fmt.Sprintf("the app-DB records differ at height %d (digest %s vs %s)", a.Height, a.Key, b.Key)
	}
	return "", ""
}

// CompareTraces compares the observations of two executions block by block, from block `from` on.
func CompareTraces(a, b *Trace, from int) *Divergence {
	for i := from; i < len(a.Steps) || i < len(b.Steps); i++ {
		if i >= len(a.Steps) || i >= len(b.Steps) {
			return &Divergence{i, "length", fmt.Sprintf("one execution stopped at block %d (faults: %v / %v)", i, a.Fault, b.Fault)}
		}
		sa, sb := &a.Steps[i], &b.Steps[i]
		fa, fb := sa.Obs.Fault, sb.Obs.Fault
		if (fa == nil) != (fb == nil) {
			return &Divergence{i, "fault", fmt.Sprintf("block %d: fault %v vs %v", i, fa, fb)}
		}
		if fa != nil && fb != nil {
			if fa.Call != fb.Call || fa.Kind != fb.Kind {
				return &Divergence{i, "fault", fmt.Sprintf("block %d: fault %v vs %v", i, fa, fb)}
			}
			return nil
		}
		if len(sa.Txs) != len(sb.Txs) {
			return &Divergence{i, "txcount", fmt.Sprintf("block %d: %d vs %d transactions", i, len(sa.Txs), len(sb.Txs))}
		}
		for j := range sa.Txs {
			ra, rb := &sa.Txs[j].Resp, &sb.Txs[j].Resp
			if !bytes.Equal(sa.Txs[j].Bytes, sb.Txs[j].Bytes) {
				return &Divergence{i, "txbytes", fmt.Sprintf("block %d tx %d: rendered bytes differ (nonce view differs)", i, j)}
			}
			if ra.Code != rb.Code {
				return &Divergence{i, "code", fmt.Sprintf("block %d tx %d (%s): code %d vs %d (%s / %s)", i, j, sa.Txs[j].T.Name, ra.Code, rb.Code, ra.Log, rb.Log)}
			}
			if !bytes.Equal(ra.Data, rb.Data) || ra.GasUsed != rb.GasUsed || ra.GasWanted != rb.GasWanted {
				return &Divergence{i, "data-gas", fmt.Sprintf("block %d tx %d: data/gas differ", i, j)}
			}
			if ta, tb := tagsOf(ra), tagsOf(rb); ta != tb {
				return &Divergence{i, "tags", fmt.Sprintf("block %d tx %d (%s): tags %q vs %q", i, j, sa.Txs[j].T.Name, ta, tb)}
			}
		}
		if va, vb := valUpdates(&sa.Obs.End), valUpdates(&sb.Obs.End); va != vb {
			return &Divergence{i, "endblock", fmt.Sprintf("block %d: EndBlock %q vs %q", i, va, vb)}
		}
		if sa.Post != nil && sb.Post != nil {
			if w, t := CompareStates(sa.Post, sb.Post); w != "" {
				return &Divergence{i, w, t}
			}
		}
		if !bytes.Equal(sa.Obs.AppHash, sb.Obs.AppHash) {
			return &Divergence{i, "apphash", fmt.Sprintf("block %d (height %d): app hash %x vs %x", i, sa.Height, sa.Obs.AppHash, sb.Obs.AppHash)}
		}
	}
	return nil
}

// RestartTwin runs h (closed by one empty block) once without restarts and once
// for every non-empty subset of restart positions (before block 0 … before the
// closing block) and reports divergences. It returns the number of executions.
func RestartTwin(w *worlds.World, h History, o Opts) ([]Violation, int) {
	hh := append(h.Clone(), Block{Env: 0})
	o.CaptureAll = true
	o.NoDisk = true
	base := Exec(w, hh, o)
	n := len(hh)
	var out []Violation
	runs := 1
	if base.Fault != nil {
		return nil, runs // crashes are C07's business
	}
	// Position 0 is a restart between InitChain and the first block (worlds with an
	// initial height > 1: Tendermint does not repeat InitChain then).
	for mask := 1; mask < 1<<uint(n); mask++ {
		v := hh.Clone()
		first := -1
		cnt := 0
		consecutive := false
		for i := 0; i < n; i++ {
			if mask&(1<<uint(i)) != 0 {
				v[i].Restart = true
				if first < 0 {
					first = i
				}
				cnt++
				if i > 0 && mask&(1<<uint(i-1)) != 0 {
					consecutive = true
				}
			}
		}
		tr := Exec(w, v, o)
		runs++
		if d := CompareTraces(base, tr, first); d != nil {
			pat := "single"
			if cnt > 1 {
				pat = "multiple"
			}
			_ = consecutive
			out = append(out, Violation{Property: "C09", Signature: fmt.Sprintf("restart|%s|%s", d.What, pat), Hist: v,
				Detail: fmt.Sprintf("restart pattern %s diverges from the never-restarted node: %s", v.String(), d.Text)})
		}
	}
	return out, runs
}
