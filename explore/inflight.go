package explore

import (
	"sort"
	"sync"
	"time"
)

// inFlight journals the histories being executed right now, so that a watchdog can name the
// suspect when an execution never returns (infinite loop, unbounded allocation).
var inFlight sync.Map // *Trace -> time.Time

// InFlight lists the executions running for longer than d, oldest first.
func InFlight(d time.Duration) []string {
	type e struct {
		s string
		t time.Time
	}
	var es []e
	inFlight.Range(func(k, v interface{}) bool {
		tr, t := k.(*Trace), v.(time.Time)
		if time.Since(t) >= d {
			es = append(es, e{"world " + tr.W.Name + " history " + tr.Hist.String(), t})
		}
		return true
	})
	sort.Slice(es, func(i, j int) bool { return es[i].t.Before(es[j].t) })
	var out []string
	for _, x := range es {
		out = append(out, x.s+" (running for "+time.Since(x.t).Round(time.Second).String()+")")
	}
	return out
}
