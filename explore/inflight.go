package explore

import (
	"encoding/json"
	"os"
	"sort"
	"sync"
	"sync/atomic"
	"time"

	"verif/worlds"
)

// inFlight journals the histories being executed right now, so that a watchdog can name the
// suspect when an execution never returns (infinite loop, unbounded allocation).
var inFlight sync.Map // *Trace -> *flight

type flight struct {
	start time.Time
	block int32 // index of the block being executed, -1 before the first
}

// maxExecNs is the longest completed execution of this process (reported in the evidence, so that
// the watchdog's limits can be compared with what executions really take).
var maxExecNs int64

func noteExec(d time.Duration) {
	for {
		old := atomic.LoadInt64(&maxExecNs)
		if int64(d) <= old || atomic.CompareAndSwapInt64(&maxExecNs, old, int64(d)) {
			return
		}
	}
}

// MaxExecution returns the longest completed execution so far.
func MaxExecution() time.Duration { return time.Duration(atomic.LoadInt64(&maxExecNs)) }

// Suspect is an execution that has been running for a long time.
type Suspect struct {
	World   string        `json:"world"`
	Prefix  History       `json:"prefix"` // the history up to and including the block being executed
	Running time.Duration `json:"running_ns"`
}

func (s Suspect) String() string {
	return "world " + s.World + " history " + s.Prefix.String() + " (running for " + s.Running.Round(time.Second).String() + ")"
}

// InFlight lists the executions running for longer than d, oldest first.
func InFlight(d time.Duration) []Suspect {
	var out []Suspect
	inFlight.Range(func(k, v interface{}) bool {
		tr, f := k.(*Trace), v.(*flight)
		if el := time.Since(f.start); el >= d {
			b := int(atomic.LoadInt32(&f.block))
			if b < 0 || b >= len(tr.Hist) {
				return true
			}
			out = append(out, Suspect{World: tr.W.Name, Prefix: tr.Hist[:b+1].Clone(), Running: el})
		}
		return true
	})
	sort.Slice(out, func(i, j int) bool { return out[i].Running > out[j].Running })
	return out
}

// Poisoned prefixes: blocks that an earlier process of the same check was abandoned in. Exec
// ends such a block with a fault of kind "hang" instead of executing it again.
var (
	poisonMu sync.RWMutex
	poison   = map[string]bool{}
	Poisoned []Suspect
)

func poisonKey(world string, h History) string { return world + "|" + h.String() }

// LoadPoison reads the poison file named by VERIF_POISON (if any).
func LoadPoison() {
	p := os.Getenv("VERIF_POISON")
	if p == "" {
		return
	}
	b, err := os.ReadFile(p)
	if err != nil {
		return
	}
	var l []Suspect
	if json.Unmarshal(b, &l) != nil {
		return
	}
	poisonMu.Lock()
	defer poisonMu.Unlock()
	Poisoned = l
	for _, s := range l {
		poison[poisonKey(s.World, s.Prefix)] = true
	}
}

// SavePoison writes the poisoned prefixes plus new ones.
func SavePoison(path string, add []Suspect) error {
	poisonMu.RLock()
	l := append(append([]Suspect{}, Poisoned...), add...)
	poisonMu.RUnlock()
	b, _ := json.Marshal(l)
	return os.WriteFile(path, b, 0o644)
}

// IsPoisoned tells whether the last block of h was abandoned by an earlier process.
func IsPoisoned(w *worlds.World, h History) bool {
	poisonMu.RLock()
	defer poisonMu.RUnlock()
	if len(poison) == 0 {
		return false
	}
	return poison[poisonKey(w.Name, h)]
}
