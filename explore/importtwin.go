package explore

import (
	"fmt"
	"math/big"
	"sort"
	"strings"

	"github.com/MinterTeam/minter-go-node/coreV2/types"

	"verif/lab"
	"verif/obs"
	"verif/worlds"
)

// ImportStats counts what the import twin covered.
type ImportStats struct {
	States     int
	FollowUps  int
	Executions int
}

// ignoreImportKey lists export keys that an export/import round trip legitimately does not
// carry or recomputes (documented readings of C11).
func ignoreImportKey(k string) bool {
	return k == "max_gas" // recomputed from block times, which are not part of the genesis format
}

func importDiff(a, b obs.Flat) []obs.DiffEntry {
	var out []obs.DiffEntry
	for _, d := range obs.Diff(a, b) {
		if ignoreImportKey(d.Key) {
			continue
		}
		if (d.A == "" || d.A == "0") && (d.B == "" || d.B == "0") {
			continue
		}
		out = append(out, d)
	}
	return out
}

// ImportTwin exports the state reached by h, validates it, starts a new chain from it and
// compares (1) the re-export and (2) for every menu item (and the empty block) the block [t]
// on the original and on the re-imported chain.
func ImportTwin(w *worlds.World, h History, menu []int, st *ImportStats) []Violation {
	var out []Violation
	mk := func(sig, text string, hist History) {
		out = append(out, Violation{Property: "C11", Signature: sig, Detail: text, Hist: hist, Extra: map[string]interface{}{"engine": "import-twin"}})
	}
	base := Exec(w, h, Opts{KeepNode: true, NoDisk: true})
	st.Executions++
	if base.Node != nil {
		defer base.Node.Release()
	}
	if base.Fault != nil || base.Final() == nil {
		return nil
	}
	st.States++
	n := base.Node
	// (0) the export is complete with respect to the state's own accessors: nonce, lock and
	// every balance of every account the world knows (an account that the export drops is
	// missing on both sides of the round trip, so the re-export comparison cannot see it)
	var created []types.Address // wallets created by the transactions of the last block (tag tx.created_multisig)
	for _, st := range base.Steps {
		for _, x := range st.Txs {
			if x.Resp.Code != 0 {
				continue
			}
			for _, e := range x.Resp.Events {
				for _, a := range e.Attributes {
					if string(a.Key) == "tx.created_multisig" {
						created = append(created, types.HexToAddress("Mx"+string(a.Value)))
					}
				}
			}
		}
	}
	for _, v := range exportVsAccessors(w, n, &base.Final().Export, created...) {
		mk(v[0], fmt.Sprintf("export at height %d: %s", n.Height, v[1]), h)
	}
	var gen *worlds.World
	var genErr error
	flt := lab.Guard("Export", func() {
		g, err := n.GenesisFromExport()
		if err != nil {
			genErr = err
			return
		}
		if err := g.Verify(); err != nil {
			cls := err.Error()
			if i := strings.Index(cls, " "); i > 0 {
				cls = strings.Join(strings.Fields(cls)[:2], "-")
			}
			mk("verify-rejects-export|"+cls, fmt.Sprintf("AppState.Verify rejects the export at height %d: %v", n.Height, err), h)
		}
		p := w.P
		p.InitialHeight = n.Height + 1
		p.GenesisTime = n.LastTime
		gcopy := *g
		gen = &worlds.World{Name: w.Name + "+import", P: p, Genesis: func() *types.AppState { c := gcopy; return &c }, Menu: w.Menu, Envs: w.Envs}
	})
	if flt != nil {
		mk("export-fault|"+flt.Top, flt.String(), h)
		return out
	}
	if genErr != nil {
		mk("export-error", genErr.Error(), h)
		return out
	}
	// (1) the new chain exports the same state
	re := Exec(gen, History{}, Opts{NoDisk: true})
	st.Executions++
	if re.Fault != nil {
		mk("import-fault|"+re.Fault.Call+"|"+re.Fault.Top, "a chain cannot be started from the export: "+re.Fault.String(), h)
		return out
	}
	if d := importDiff(base.Final().Flat, re.Init.Flat); len(d) > 0 {
		// derived stake values and the validator set are recomputed by InitChain as at a period
		// boundary; when that is the only difference it is reported once, under its own
		// signature, and the follow-up blocks (whose rewards, powers and delegation limits are
		// mere consequences) are not judged for this state
		onlyDerived := true
		// pending stake updates are merged into the stakes by InitChain: stake / update entries
		// count as derived when stake + updates per (candidate, owner, coin) are unchanged
		netEqual := netStakes(&base.Final().Export) == netStakes(&re.Init.Export)
		for _, e := range d {
			if netEqual && strings.HasPrefix(e.Key, "cand/") && (strings.Contains(e.Key, "/stake/") || strings.Contains(e.Key, "/update/")) {
				continue
			}
			if !derivedKey(e.Key) {
				onlyDerived = false
				mk("reexport|"+obs.KeyClass(e.Key), fmt.Sprintf("export at height %d and the export of a chain started from it differ in %d keys, first non-derived: %s", n.Height, len(d), e), h)
				break
			}
		}
		if onlyDerived {
			mk("reexport|derived-stake-and-validator-data-recomputed", fmt.Sprintf("export at height %d and the export of a chain started from it differ in %d derived keys (bip values / total stakes / validator set), first: %s", n.Height, len(d), d[0]), h)
			return out
		}
	}
	if base.Final().Emission.Cmp(re.Init.Emission) != 0 {
		mk("reexport|emission", fmt.Sprintf("emission %s vs %s", base.Final().Emission, re.Init.Emission), h)
	}
	// (2) behaviour of the next block
	items := append([]int{-1}, menu...)
	for _, it := range items {
		blk := Block{Env: 0}
		if it >= 0 {
			blk.Txs = []int{it}
		}
		hh := append(h.Clone(), blk)
		a := Exec(w, hh, Opts{NoDisk: true, Pre: base.Final()})
		b := Exec(gen, History{blk}, Opts{NoDisk: true, Pre: re.Init})
		st.Executions += 2
		st.FollowUps++
		name := "empty-block"
		if it >= 0 {
			name = w.Menu[it].Name
		}
		if (a.Fault == nil) != (b.Fault == nil) {
			mk("follow-up-fault", fmt.Sprintf("next block %q: original fault %v, re-imported fault %v", name, a.Fault, b.Fault), hh)
			continue
		}
		if a.Fault != nil {
			continue
		}
		la, lb := a.Last(), b.Last()
		if len(la.Txs) != len(lb.Txs) {
			continue
		}
		bad := false
		for j := range la.Txs {
			if la.Txs[j].Resp.Code != lb.Txs[j].Resp.Code {
				mk(fmt.Sprintf("follow-up-code|%s", typeOf(la.Txs[j].Bytes)), fmt.Sprintf("next block %q: original code %d (%s), re-imported code %d (%s)", name, la.Txs[j].Resp.Code, la.Txs[j].Resp.Log, lb.Txs[j].Resp.Code, lb.Txs[j].Resp.Log), hh)
				bad = true
			}
		}
		if bad {
			continue
		}
		if va, vb := valUpdates(&la.Obs.End), valUpdates(&lb.Obs.End); va != vb {
			mk("follow-up-validators", fmt.Sprintf("next block %q: validator updates %q vs %q", name, va, vb), hh)
		}
		if d := importDiff(a.Final().Flat, b.Final().Flat); len(d) > 0 {
			mk("follow-up-export|"+obs.KeyClass(d[0].Key), fmt.Sprintf("after next block %q the exports differ in %d keys, first: %s", name, len(d), d[0]), hh)
		}
		da := a.Final().Emission
		db := b.Final().Emission
		if da.Cmp(db) != 0 {
			mk("follow-up-emission", fmt.Sprintf("after next block %q emission %s vs %s", name, da, db), hh)
		}
	}
	return out
}

func typeOf(b []byte) string {
	tx, err := lab.Decode(b)
	if err != nil {
		return "undecodable"
	}
	return tx.Type.String()
}

// derivedKey reports whether an export key holds data that InitChain recomputes from the
// stakes (bip values, total stakes) or the validator set derived from them.
func derivedKey(k string) bool {
	return strings.HasSuffix(k, "/bip_value") || strings.HasSuffix(k, "/total_bip_stake") || strings.HasPrefix(k, "val/") || (strings.HasPrefix(k, "cand/") && strings.Contains(k, "/bip_value#"))
}

// netStakes renders stake + pending updates per (candidate id, owner, coin).
func netStakes(st *types.AppState) string {
	m := map[string]*big.Int{}
	for _, c := range st.Candidates {
		for _, list := range [][]types.Stake{c.Stakes, c.Updates} {
			for _, x := range list {
				k := fmt.Sprintf("%d/%s/%d", c.ID, x.Owner.String(), x.Coin)
				if m[k] == nil {
					m[k] = new(big.Int)
				}
				m[k].Add(m[k], obs.Num(x.Value))
			}
		}
	}
	keys := make([]string, 0, len(m))
	for k := range m {
		keys = append(keys, k)
	}
	sort.Strings(keys)
	out := ""
	for _, k := range keys {
		if m[k].Sign() != 0 {
			out += k + "=" + m[k].String() + ";"
		}
	}
	return out
}
