package explore

import (
	"bytes"
	"fmt"

	abci "github.com/tendermint/tendermint/abci/types"

	"verif/lab"
	"verif/vdb"
	"verif/worlds"
)

// CrashStats counts what the crash enumerator covered.
type CrashStats struct {
	Targets     int // (history, block) pairs whose Commit was enumerated
	CrashPoints int // crash points executed (every prefix of a commit's write sequence)
	LostWrites  int // crash points that really lost at least one write of the commit
	Executions  int
	Labels      map[string]int // write labels seen
}

// CrashEnum enumerates, for every block of h, every prefix of the sequence of database
// writes performed by that block's Commit: the process "dies" after the k-th write, is
// restarted over the surviving databases, the Tendermint handshake is modelled, and the rest
// of the history plus `follow` empty blocks is executed and compared with an uncrashed run.
func CrashEnum(w *worlds.World, h History, follow int, onlyLast bool, st *CrashStats) []Violation {
	full := h.Clone()
	for i := 0; i < follow; i++ {
		full = append(full, Block{Env: 0})
	}
	o := Opts{CaptureAll: true, NoDisk: true}
	base := Exec(w, full, o)
	st.Executions++
	if base.Fault != nil {
		return nil
	}
	var out []Violation
	for target := 0; target < len(h); target++ {
		if onlyLast && target != len(h)-1 {
			continue
		}
		// 1. learn the write sequence of Commit(target)
		r := NewRunner(w, o)
		okRun := r.Tr.Fault == nil
		for i := 0; okRun && i < target; i++ {
			okRun = r.Block(full[i], false)
		}
		var stp *Step
		if okRun {
			stp, okRun = r.Open(full[target])
		}
		if !okRun {
			r.N.Release()
			continue
		}
		r.N.Set.StartLog()
		okRun = r.Close(stp, false)
		log := r.N.Set.StopLog()
		r.N.Release()
		st.Executions++
		if !okRun {
			continue
		}
		st.Targets++
		for _, m := range log {
			if st.Labels == nil {
				st.Labels = map[string]int{}
			}
			st.Labels[m.DB+":"+m.Kind+":"+m.Label]++
		}
		// 2. every crash point k = number of writes that survive
		for k := 0; k <= len(log); k++ {
			st.CrashPoints++
			if k < len(log) {
				st.LostWrites++
			}
			if v := crashOne(w, full, target, k, log, base, o); v != nil {
				out = append(out, *v)
			}
			st.Executions++
		}
	}
	return out
}

func window(log []vdb.Mutation, k int) string {
	a, b := "start-of-commit", "end-of-commit"
	if k > 0 {
		a = log[k-1].DB + ":" + log[k-1].Label
	}
	if k < len(log) {
		b = log[k].DB + ":" + log[k].Label
	}
	return "after " + a + " before " + b
}

func crashOne(w *worlds.World, full History, target, k int, log []vdb.Mutation, base *Trace, o Opts) *Violation {
	mk := func(what, text string) *Violation {
		hh := full.Clone()
		// the first block after InitChain is a class of its own: InitChain leaves
		// uncommitted stake recalculations in memory, which only that block persists
		class := "block"
		if w.Warmup == 0 && base.Steps[target].Height == w.P.InitialHeight {
			class = "first-block-after-genesis"
		}
		return &Violation{Property: "C10", Signature: fmt.Sprintf("crash|%s|%s|%s", class, window(log, k), what), Hist: hh,
			Detail: fmt.Sprintf("crash in Commit of block %d (height %d) after %d of %d writes (%s): %s", target, base.Steps[target].Height, k, len(log), window(log, k), text),
			Extra:  map[string]interface{}{"engine": "crash", "target": target, "k": k}}
	}
	r := NewRunner(w, o)
	defer func() { r.N.Release() }()
	if r.Tr.Fault != nil {
		return nil
	}
	for i := 0; i < target; i++ {
		if !r.Block(full[i], false) {
			return nil
		}
	}
	prevTime := r.N.LastTime
	nDelivered := len(r.delivered)
	stp, ok := r.Open(full[target])
	if !ok {
		return nil
	}
	H := stp.Height
	set := r.N.Set
	set.Arm(k)
	var f *lab.Fault
	_, f = r.N.Commit()
	if k < len(log) {
		if f == nil || f.Kind != "crash" {
			return mk("harness", fmt.Sprintf("expected the injected crash, got %v", f))
		}
	} else if f != nil {
		return mk("harness", fmt.Sprintf("commit without crash failed: %v", f))
	}
	// process death: the node object is gone, the databases survive
	set.Disarm()
	r.N.Release()
	n, f := lab.Reopen(set, w.P, H-1, r.N.LastTime)
	r.N = n
	if f != nil {
		return mk("restart-fault", "node does not start: "+f.String())
	}
	var info abci.ResponseInfo
	if flt := lab.Guard("Info", func() { info = n.App.Info(abci.RequestInfo{}) }); flt != nil {
		return mk("info-fault", flt.String())
	}
	want := base.Steps[target].Obs.AppHash
	switch info.LastBlockHeight {
	case H - 1:
		// Tendermint (store = state+1, app = state): the block is applied again on the real app
		n.Height = H - 1
		n.LastTime = prevTime
		r.delivered = r.delivered[:nDelivered]
		st2, ok := r.Open(full[target])
		if !ok {
			return mk("replay-fault", "re-sent block fails: "+r.Tr.Fault.String())
		}
		if !r.Close(st2, true) {
			return mk("replay-fault", "re-sent block fails in Commit: "+r.Tr.Fault.String())
		}
		if !bytes.Equal(st2.Obs.AppHash, want) {
			return mk("replay-apphash", fmt.Sprintf("re-executed block gives app hash %x, uncrashed %x", st2.Obs.AppHash, want))
		}
		// responses of the re-sent block must equal the first execution's (Tendermint saved those)
		tmp := &Trace{Steps: []Step{*st2}}
		ref := &Trace{Steps: []Step{base.Steps[target]}}
		if d := CompareTraces(ref, tmp, 0); d != nil {
			return mk("replay-"+d.What, d.Text)
		}
	case H:
		// Tendermint (app = store): block replayed against a mock app, Info's hash is adopted
		if !bytes.Equal(info.LastBlockAppHash, want) {
			return mk("info-apphash", fmt.Sprintf("Info reports height %d with app hash %x, uncrashed %x", H, info.LastBlockAppHash, want))
		}
		n.Height = H
		// the state the node would serve now
		if n.App.CurrentState() != nil {
			var post *State
			if flt := lab.Guard("Export", func() { post = Capture(n, want, true) }); flt != nil {
				return mk("export-fault", flt.String())
			}
			if what, text := CompareStates(base.Steps[target].Post, post); what != "" {
				return mk("state-"+what, text)
			}
		}
	default:
		return mk("info-height", fmt.Sprintf("Info reports height %d, Tendermint can only replay from %d or %d", info.LastBlockHeight, H-1, H))
	}
	// 3. the rest of the history
	from := len(r.Tr.Steps)
	_ = from
	for i := target + 1; i < len(full); i++ {
		st3, ok := r.Open(full[i])
		if ok {
			ok = r.Close(st3, true)
		}
		tmp := &Trace{Steps: []Step{r.Tr.Steps[len(r.Tr.Steps)-1]}, Fault: r.Tr.Fault}
		ref := &Trace{Steps: []Step{base.Steps[i]}}
		if d := CompareTraces(ref, tmp, 0); d != nil {
			return mk("later-"+d.What, fmt.Sprintf("block %d after recovery: %s", i, d.Text))
		}
		if !ok {
			return mk("later-fault", fmt.Sprintf("block %d after recovery fails: %v", i, r.Tr.Fault))
		}
	}
	return nil
}
