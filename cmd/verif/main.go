// Command verif runs the checks of /verif against the real node.
package main

import (
	"fmt"
	"os"
	"runtime/debug"
	"runtime/pprof"

	"verif/checks"
)

func usage() {
	fmt.Fprintln(os.Stderr, "usage: verif check <id> quick|thorough | replay <file> | list")
	os.Exit(2)
}

func main() {
	if len(os.Args) < 2 {
		usage()
	}
	debug.SetGCPercent(800)
	switch os.Args[1] {
	case "check":
		if len(os.Args) < 4 {
			usage()
		}
		if p := os.Getenv("VERIF_CPUPROFILE"); p != "" {
			f, _ := os.Create(p)
			_ = pprof.StartCPUProfile(f)
			code := checks.Main(os.Args[2], os.Args[3])
			pprof.StopCPUProfile()
			os.Exit(code)
		}
		os.Exit(checks.Main(os.Args[2], os.Args[3]))
	case "replay":
		if len(os.Args) < 3 {
			usage()
		}
		os.Exit(checks.Replay(os.Args[2]))
	case "exec":
		os.Exit(checks.ExecDebug(os.Args[2:]))
	case "c08worker":
		os.Exit(checks.C08Worker(os.Args[2:]))
	case "list":
		for _, id := range checks.IDs() {
			fmt.Println(id)
		}
	default:
		usage()
	}
}
