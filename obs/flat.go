// Package obs turns state exports into comparable, semantically keyed maps and
// recomputes the coin ledger from holdings.
package obs

import (
	"crypto/sha256"
	"encoding/json"
	"fmt"
	"math/big"
	"reflect"
	"sort"
	"strings"

	"github.com/MinterTeam/minter-go-node/coreV2/types"
)

// Flat is an export keyed by meaning, not by list position.
type Flat map[string]string

func bump(m Flat, k, v string) {
	if _, dup := m[k]; !dup {
		m[k] = v
		return
	}
	for i := 2; ; i++ {
		kk := fmt.Sprintf("%s#%d", k, i)
		if _, dup := m[kk]; !dup {
			m[kk] = v
			return
		}
	}
}

// Flatten converts an export.
func Flatten(s *types.AppState) Flat {
	m := Flat{}
	for _, v := range s.Validators {
		p := "val/" + v.PubKey.String()
		m[p+"/total_bip_stake"] = v.TotalBipStake
		m[p+"/accum_reward"] = v.AccumReward
		if v.AbsentTimes != nil {
			m[p+"/absent"] = v.AbsentTimes.String()
		}
	}
	for _, c := range s.Candidates {
		p := "cand/" + c.PubKey.String()
		m[p+"/id"] = fmt.Sprint(c.ID)
		m[p+"/reward"] = c.RewardAddress.String()
		m[p+"/owner"] = c.OwnerAddress.String()
		m[p+"/control"] = c.ControlAddress.String()
		m[p+"/total_bip_stake"] = c.TotalBipStake
		m[p+"/commission"] = fmt.Sprint(c.Commission)
		m[p+"/status"] = fmt.Sprint(c.Status)
		m[p+"/jailed_until"] = fmt.Sprint(c.JailedUntil)
		m[p+"/last_edit_commission_height"] = fmt.Sprint(c.LastEditCommissionHeight)
		for _, st := range c.Stakes {
			k := fmt.Sprintf("%s/stake/%s/%d", p, st.Owner.String(), st.Coin)
			bump(m, k+"/value", st.Value)
			bump(m, k+"/bip_value", st.BipValue)
		}
		for _, st := range c.Updates {
			k := fmt.Sprintf("%s/update/%s/%d", p, st.Owner.String(), st.Coin)
			bump(m, k+"/value", st.Value)
			bump(m, k+"/bip_value", st.BipValue)
		}
	}
	for _, p := range s.BlockListCandidates {
		m["blocklist/"+p.String()] = "1"
	}
	for _, d := range s.DeletedCandidates {
		m[fmt.Sprintf("deleted/%d", d.ID)] = d.PubKey.String()
	}
	for _, w := range s.Waitlist {
		bump(m, fmt.Sprintf("wait/%d/%s/%d", w.CandidateID, w.Owner.String(), w.Coin), w.Value)
	}
	for _, p := range s.Pools {
		k := fmt.Sprintf("pool/%d", p.ID)
		m[k+"/coin0"] = fmt.Sprint(p.Coin0)
		m[k+"/coin1"] = fmt.Sprint(p.Coin1)
		m[k+"/reserve0"] = p.Reserve0
		m[k+"/reserve1"] = p.Reserve1
		for _, o := range p.Orders {
			ok := fmt.Sprintf("order/%d", o.ID)
			bump(m, ok+"/pool", fmt.Sprint(p.ID))
			bump(m, ok+"/is_sale", fmt.Sprint(o.IsSale))
			bump(m, ok+"/volume0", o.Volume0)
			bump(m, ok+"/volume1", o.Volume1)
			bump(m, ok+"/owner", o.Owner.String())
			bump(m, ok+"/height", fmt.Sprint(o.Height))
		}
	}
	m["next_order_id"] = fmt.Sprint(s.NextOrderID)
	for _, a := range s.Accounts {
		k := "acct/" + a.Address.String()
		m[k+"/nonce"] = fmt.Sprint(a.Nonce)
		for _, b := range a.Balance {
			bump(m, fmt.Sprintf("%s/bal/%d", k, b.Coin), b.Value)
		}
		if a.MultisigData != nil {
			js, _ := json.Marshal(a.MultisigData)
			m[k+"/multisig"] = string(js)
		}
		if a.LockStakeUntilBlock != 0 {
			m[k+"/lock_stake_until"] = fmt.Sprint(a.LockStakeUntilBlock)
		}
	}
	for _, c := range s.Coins {
		k := fmt.Sprintf("coin/%d", c.ID)
		bump(m, k+"/symbol", c.Symbol.String())
		m[k+"/name"] = c.Name
		m[k+"/volume"] = c.Volume
		m[k+"/crr"] = fmt.Sprint(c.Crr)
		m[k+"/reserve"] = c.Reserve
		m[k+"/max_supply"] = c.MaxSupply
		m[k+"/version"] = fmt.Sprint(c.Version)
		if c.OwnerAddress != nil {
			m[k+"/owner"] = c.OwnerAddress.String()
		}
		m[k+"/mintable"] = fmt.Sprint(c.Mintable)
		m[k+"/burnable"] = fmt.Sprint(c.Burnable)
	}
	for _, f := range s.FrozenFunds {
		ck := "-"
		if f.CandidateKey != nil {
			ck = f.CandidateKey.String()
		}
		bump(m, fmt.Sprintf("frozen/%d/%s/%d/%d/%s/%d", f.Height, f.Address.String(), f.Coin, f.CandidateID, ck, f.MoveToCandidateID), f.Value)
	}
	for _, h := range s.HaltBlocks {
		m[fmt.Sprintf("halt/%d/%s", h.Height, h.CandidateKey.String())] = "1"
	}
	cv := reflect.ValueOf(s.Commission)
	for i := 0; i < cv.NumField(); i++ {
		m["commission/"+cv.Type().Field(i).Name] = fmt.Sprint(cv.Field(i).Interface())
	}
	for _, v := range s.CommissionVotes {
		js, _ := json.Marshal(v.Commission)
		h := sha256.Sum256(js)
		for _, p := range v.Votes {
			bump(m, fmt.Sprintf("cvote/%d/%x/%s", v.Height, h[:6], p.String()), "1")
		}
	}
	for _, v := range s.UpdateVotes {
		for _, p := range v.Votes {
			bump(m, fmt.Sprintf("uvote/%d/%s/%s", v.Height, v.Version, p.String()), "1")
		}
	}
	for _, c := range s.UsedChecks {
		bump(m, "check/"+string(c), "1")
	}
	m["max_gas"] = fmt.Sprint(s.MaxGas)
	m["total_slashed"] = s.TotalSlashed
	return m
}

// DiffEntry is one differing key.
type DiffEntry struct {
	Key  string
	A, B string // "" = absent
}

func (d DiffEntry) String() string { return fmt.Sprintf("%s: %q -> %q", d.Key, d.A, d.B) }

// Diff lists the keys whose values differ (sorted).
func Diff(a, b Flat) []DiffEntry {
	var out []DiffEntry
	for k, va := range a {
		if vb, ok := b[k]; !ok || vb != va {
			out = append(out, DiffEntry{k, va, b[k]})
		}
	}
	for k, vb := range b {
		if _, ok := a[k]; !ok {
			out = append(out, DiffEntry{k, "", vb})
		}
	}
	sort.Slice(out, func(i, j int) bool { return out[i].Key < out[j].Key })
	return out
}

// Num parses a decimal value of a flat map ("" = 0).
func Num(s string) *big.Int {
	if s == "" {
		return new(big.Int)
	}
	v, ok := new(big.Int).SetString(s, 10)
	if !ok {
		return new(big.Int)
	}
	return v
}

// Delta is B−A of a numeric entry.
func (d DiffEntry) Delta() *big.Int { return new(big.Int).Sub(Num(d.B), Num(d.A)) }

// Digest hashes a flat map.
func (m Flat) Digest() string {
	keys := make([]string, 0, len(m))
	for k := range m {
		keys = append(keys, k)
	}
	sort.Strings(keys)
	h := sha256.New()
	for _, k := range keys {
		fmt.Fprintf(h, "%s=%s\n", k, m[k])
	}
	return fmt.Sprintf("%x", h.Sum(nil)[:16])
}

// KeyClass abbreviates a key for signatures: addresses/pubkeys/ids are dropped.
func KeyClass(k string) string {
	parts := strings.Split(k, "/")
	var out []string
	for _, p := range parts {
		if strings.HasPrefix(p, "Mx") || strings.HasPrefix(p, "Mp") || (len(p) > 0 && p[0] >= '0' && p[0] <= '9') || p == "-" {
			out = append(out, "*")
			continue
		}
		if i := strings.Index(p, "#"); i >= 0 {
			p = p[:i]
		}
		out = append(out, p)
	}
	return strings.Join(out, "/")
}
