package obs

import (
	"fmt"
	"math/big"

	"github.com/MinterTeam/minter-go-node/coreV2/types"
)

// Ledger is the coin ledger recomputed from the holdings found in an export.
type Ledger struct {
	Hold     map[uint64]*big.Int // per coin: balances + stakes + updates + waitlist + frozen + pool reserves + order escrow
	Reserves *big.Int            // sum of bancor reserves (base coin)
	Accum    *big.Int            // validators' accumulated rewards (base coin)
	Slashed  *big.Int            // total slashed (base coin)
	Neg      []string            // negative or unparsable amounts met on the way
}

func (l *Ledger) add(coin uint64, s, where string) {
	v, ok := new(big.Int).SetString(s, 10)
	if !ok {
		l.Neg = append(l.Neg, fmt.Sprintf("%s: unparsable %q", where, s))
		return
	}
	if v.Sign() < 0 {
		l.Neg = append(l.Neg, fmt.Sprintf("%s: negative %s", where, s))
	}
	if l.Hold[coin] == nil {
		l.Hold[coin] = new(big.Int)
	}
	l.Hold[coin].Add(l.Hold[coin], v)
}

func num(l *Ledger, s, where string) *big.Int {
	v, ok := new(big.Int).SetString(s, 10)
	if !ok {
		l.Neg = append(l.Neg, fmt.Sprintf("%s: unparsable %q", where, s))
		return new(big.Int)
	}
	if v.Sign() < 0 {
		l.Neg = append(l.Neg, fmt.Sprintf("%s: negative %s", where, s))
	}
	return v
}

// NewLedger sums all holdings of an export.
func NewLedger(s *types.AppState) *Ledger {
	l := &Ledger{Hold: map[uint64]*big.Int{}, Reserves: new(big.Int), Accum: new(big.Int), Slashed: new(big.Int)}
	for _, a := range s.Accounts {
		for _, b := range a.Balance {
			l.add(b.Coin, b.Value, "balance "+a.Address.String())
		}
	}
	for _, c := range s.Candidates {
		for _, st := range c.Stakes {
			l.add(st.Coin, st.Value, "stake "+st.Owner.String())
			num(l, st.BipValue, "stake bip value "+st.Owner.String())
		}
		for _, st := range c.Updates {
			l.add(st.Coin, st.Value, "update "+st.Owner.String())
		}
		num(l, c.TotalBipStake, "candidate total stake")
	}
	for _, w := range s.Waitlist {
		l.add(w.Coin, w.Value, "waitlist "+w.Owner.String())
	}
	for _, f := range s.FrozenFunds {
		l.add(f.Coin, f.Value, "frozen "+f.Address.String())
	}
	for _, p := range s.Pools {
		l.add(p.Coin0, p.Reserve0, fmt.Sprintf("pool %d reserve0", p.ID))
		l.add(p.Coin1, p.Reserve1, fmt.Sprintf("pool %d reserve1", p.ID))
		for _, o := range p.Orders {
			num(l, o.Volume0, fmt.Sprintf("order %d volume0", o.ID))
			num(l, o.Volume1, fmt.Sprintf("order %d volume1", o.ID))
			if o.IsSale {
				l.add(p.Coin1, o.Volume1, fmt.Sprintf("order %d", o.ID))
			} else {
				l.add(p.Coin0, o.Volume0, fmt.Sprintf("order %d", o.ID))
			}
		}
	}
	for _, c := range s.Coins {
		if c.Crr != 0 {
			l.Reserves.Add(l.Reserves, num(l, c.Reserve, "reserve of "+c.Symbol.String()))
		}
		num(l, c.Volume, "volume of "+c.Symbol.String())
	}
	for _, v := range s.Validators {
		l.Accum.Add(l.Accum, num(l, v.AccumReward, "accum reward"))
		num(l, v.TotalBipStake, "validator stake")
	}
	l.Slashed = num(l, s.TotalSlashed, "total slashed")
	return l
}

// Of returns the holdings of a coin (0 if none).
func (l *Ledger) Of(coin uint64) *big.Int {
	if v := l.Hold[coin]; v != nil {
		return v
	}
	return new(big.Int)
}

// BaseTotal is the base-coin total of property C01.
func (l *Ledger) BaseTotal() *big.Int {
	t := new(big.Int).Set(l.Of(0))
	t.Add(t, l.Reserves)
	t.Add(t, l.Accum)
	t.Add(t, l.Slashed)
	return t
}
