package sched

import (
	"testing"

	"verif/vsync"
)

// explore runs the DFS over a little program and returns (executions, deadlocks).
func exploreProg(bound int, mk func() []ThreadSpec) (int, int, []Dev) {
	deadlocks := 0
	var first []Dev
	e := &Explorer{Bound: bound,
		Exec: func(devs []Dev, opt Options) *Result { return Run(opt, devs, mk()) },
		OnExec: func(devs []Dev, cost int, x *Result, counted bool) {
			if x.Deadlock != nil {
				deadlocks++
				if first == nil {
					first = append([]Dev{}, devs...)
				}
			}
		}}
	e.Run()
	return e.Executions, deadlocks, first
}

func TestLockOrderInversion(t *testing.T) {
	mk := func() []ThreadSpec {
		var a, b vsync.Mutex
		return []ThreadSpec{
			{Name: "t0", Body: func() { a.Lock(); b.Lock(); b.Unlock(); a.Unlock() }},
			{Name: "t1", Body: func() { b.Lock(); a.Lock(); a.Unlock(); b.Unlock() }},
		}
	}
	n0, d0, _ := exploreProg(0, mk)
	if d0 != 0 {
		t.Fatalf("bound 0: %d deadlocks in %d executions, want none", d0, n0)
	}
	n1, d1, devs := exploreProg(1, mk)
	if d1 == 0 {
		t.Fatalf("bound 1: no deadlock in %d executions", n1)
	}
	// the schedule replays
	x := Run(Options{}, devs, mk())
	y := Run(Options{}, devs, mk())
	if x.Deadlock == nil || y.Deadlock == nil || x.Key != y.Key || len(x.Points) != len(y.Points) {
		t.Fatalf("replay differs")
	}
	t.Logf("bound0: %d executions; bound1: %d executions, %d deadlocks; first %+v", n0, n1, d1, devs)
}

func TestRecursiveReadLock(t *testing.T) {
	mk := func() []ThreadSpec {
		var rw vsync.RWMutex
		return []ThreadSpec{
			{Name: "reader", Body: func() { rw.RLock(); rw.RLock(); rw.RUnlock(); rw.RUnlock() }},
			{Name: "writer", Body: func() { rw.Lock(); rw.Unlock() }},
		}
	}
	_, d0, _ := exploreProg(0, mk)
	n1, d1, _ := exploreProg(1, mk)
	if d0 != 0 || d1 == 0 {
		t.Fatalf("recursive read lock: bound0 %d deadlocks, bound1 %d deadlocks in %d executions", d0, d1, n1)
	}
	x := Run(Options{}, nil, mk())
	if x.Deadlock != nil {
		t.Fatal("default schedule must not deadlock")
	}
}

func TestQueuedReadersEnterTogether(t *testing.T) {
	// two readers queued behind a writer are both let in by its Unlock, even if a second writer waits
	for bound := 0; bound <= 2; bound++ {
		mk := func() []ThreadSpec {
			var rw vsync.RWMutex
			n := 0
			return []ThreadSpec{
				{Name: "w1", Body: func() { rw.Lock(); n++; rw.Unlock() }},
				{Name: "r1", Body: func() { rw.RLock(); _ = n; rw.RUnlock() }},
				{Name: "r2", Body: func() { rw.RLock(); _ = n; rw.RUnlock() }},
				{Name: "w2", Body: func() { rw.Lock(); n++; rw.Unlock() }},
			}
		}
		n, d, _ := exploreProg(bound, mk)
		if d != 0 {
			t.Fatalf("bound %d: %d deadlocks in %d executions", bound, d, n)
		}
	}
}

func TestWaitGroupAndBoundary(t *testing.T) {
	mk := func() []ThreadSpec {
		var wg vsync.WaitGroup
		wg.Add(1)
		return []ThreadSpec{
			{Name: "waiter", Body: func() { wg.Wait() }},
			{Name: "worker", Body: func() { Boundary("step"); wg.Done() }},
		}
	}
	n, d, _ := exploreProg(1, mk)
	if d != 0 || n < 2 {
		t.Fatalf("waitgroup: %d executions, %d deadlocks", n, d)
	}
	mk2 := func() []ThreadSpec {
		var wg vsync.WaitGroup
		wg.Add(1)
		return []ThreadSpec{{Name: "waiter", Body: func() { wg.Wait() }}}
	}
	x := Run(Options{}, nil, mk2())
	if x.Deadlock == nil {
		t.Fatal("a Wait nobody completes must be reported as deadlock")
	}
}

func TestDetachedBehavesLikeSync(t *testing.T) {
	var m vsync.Mutex
	var rw vsync.RWMutex
	var wg vsync.WaitGroup
	m.Lock()
	if m.TryLock() {
		t.Fatal("TryLock on a held mutex")
	}
	m.Unlock()
	rw.RLock()
	if rw.TryLock() {
		t.Fatal("TryLock on a read-held RWMutex")
	}
	rw.RUnlock()
	wg.Add(2)
	go func() { wg.Done(); wg.Done() }()
	wg.Wait()
}
