// Package sched is a cooperative scheduler for the code under test built with
// verif/vsync, plus a deviation-bounded depth-first enumeration of schedules.
//
// Threads are goroutines that run strictly one at a time. Every vsync operation
// (and every explicit Boundary) is a *point*: the running thread announces its
// pending operation and the scheduler decides who runs next. A schedule is the
// list of decisions; decision 0 at a point means "the first thread of the choice
// list": the running thread if its pending operation is enabled, else the
// enabled thread with the lowest id. A schedule is stored sparsely as the list of
// its non-zero decisions (deviations).
//
// One process hosts one run at a time (the attached scheduler is a package-level
// variable of vsync); parallelism is obtained with several worker processes.
package sched

import (
	"fmt"
	"os"
	"runtime"
	"runtime/debug"
	"strings"
	"time"

	"verif/vsync"
)

// Dev is one non-zero decision of a schedule.
type Dev struct {
	At   int `json:"at"`   // global index of the point
	Pick int `json:"pick"` // index into the choice list of that point (>= 1)
	// expectations recorded when the deviation was generated; checked while replaying
	Cur  int    `json:"cur"`            // running thread at the point (-1: none)
	Kind string `json:"kind,omitempty"` // pending operation of the running thread
	Site string `json:"site,omitempty"`
}

// Fatal reports a harness error and terminates the process with exit code 2.
func Fatal(format string, a ...interface{}) {
	fmt.Fprintf(os.Stderr, "sched: harness error: "+format+"\n", a...)
	os.Exit(2)
}

// ---------------------------------------------------------------- sites

var (
	siteByPC  = map[[3]uintptr]int32{}
	siteNames = []string{"?"}
	siteIdx   = map[string]int32{"?": 0}
)

// SiteName returns the "file:line (func)" text of a site id.
func SiteName(id int32) string {
	if id < 0 || int(id) >= len(siteNames) {
		return "?"
	}
	return siteNames[id]
}

func internSite(name string) int32 {
	if id, ok := siteIdx[name]; ok {
		return id
	}
	id := int32(len(siteNames))
	siteNames = append(siteNames, name)
	siteIdx[name] = id
	return id
}

// callerSite identifies the first frame outside vsync / sched that led to the operation.
func callerSite() int32 {
	var pcs [3]uintptr
	n := runtime.Callers(4, pcs[:]) // 0 Callers, 1 callerSite, 2 point, 3 Op, 4 vsync method, 5 its caller
	if n == 0 {
		return 0
	}
	if id, ok := siteByPC[pcs]; ok {
		return id
	}
	var full [16]uintptr
	m := runtime.Callers(3, full[:])
	fr := runtime.CallersFrames(full[:m])
	name := "?"
	for {
		f, more := fr.Next()
		if f.Function != "" && !strings.HasPrefix(f.Function, "verif/vsync.") && !strings.HasPrefix(f.Function, "verif/sched.") {
			name = fmt.Sprintf("%s:%d (%s)", shortFile(f.File), f.Line, shortFunc(f.Function))
			break
		}
		if !more {
			break
		}
	}
	id := internSite(name)
	siteByPC[pcs] = id
	return id
}

func shortFile(f string) string {
	for _, p := range []string{"/repo/", "/verif/"} {
		if i := strings.Index(f, p); i >= 0 {
			return f[i+len(p):]
		}
	}
	if i := strings.Index(f, "/.build/ov-"); i >= 0 {
		// overlay copy: .build/ov-<tag>/sched/<rel>.txt
		r := f[i+1:]
		parts := strings.SplitN(r, "/", 4)
		if len(parts) == 4 {
			return strings.TrimSuffix(parts[3], ".txt")
		}
	}
	return f
}

func shortFunc(f string) string {
	return strings.TrimPrefix(f, "github.com/MinterTeam/minter-go-node/")
}

// ---------------------------------------------------------------- run

// MaxThreads is the maximal number of threads of a run.
const MaxThreads = 6

type tlKey struct {
	thread int
	site   int32
	seq    int
}

var (
	tlIdx   = map[tlKey]int32{}
	tlNames = []tlKey{{}}
)

// TLabelName renders a per-thread object label.
func TLabelName(id int32) string {
	if id <= 0 || int(id) >= len(tlNames) {
		return "-"
	}
	k := tlNames[id]
	return fmt.Sprintf("thread %d: object #%d first used at %s", k.thread, k.seq, SiteName(k.site))
}

// Thread states.
const (
	stParked = iota
	stRunning
	stFinished
)

// ThreadSpec describes a thread of a run.
type ThreadSpec struct {
	Name string
	Body func()
}

type held struct {
	obj  int32
	mode vsync.Kind // KLock, KWLock, KRLock
	site int32
}

type thread struct {
	id    int
	name  string
	body  func()
	wake  chan struct{}
	state int
	// pending operation
	kind    vsync.Kind
	obj     *vsync.Meta
	delta   int64
	site    int32
	label   string
	waitGen uint32
	tryOK   bool
	nops    int
	goid    uint64
	held    []held
	panicV  interface{}
	stack   string
}

// Point is the record of one scheduling point.
type Point struct {
	Cur        int8 // running thread (-1 none)
	CurEnabled bool
	Enabled    uint16 // bit per enabled thread
	Chosen     int8
	Kind       vsync.Kind // pending op of the running thread
	Obj        int32      // object id (-1 none)
	Site       int32
	CurOps     int32 // per-thread op index of the running thread
	TLabel     int32 // per-thread label of the object (see ObjInfo.TL), 0 if none
	Label      string
}

// Free tells whether deviating at this point costs no preemption.
func (p *Point) Free() bool {
	return !p.CurEnabled || p.Kind == vsync.KYield || p.Kind == vsync.KStart
}

// Choices returns the choice list of the point: running thread first (if enabled), then the others by id.
func (p *Point) Choices() []int {
	var out []int
	if p.CurEnabled && p.Cur >= 0 {
		out = append(out, int(p.Cur))
	}
	for t := 0; t < 16; t++ {
		if p.Enabled&(1<<uint(t)) != 0 && !(p.CurEnabled && t == int(p.Cur)) {
			out = append(out, t)
		}
	}
	return out
}

// ObjInfo describes a synchronisation object met in a run.
type ObjInfo struct {
	Class   uint8
	Site    int32 // first-use site
	Seq     int   // sequence among the objects first used at that site
	Threads uint16
	Sites   map[int32]struct{} // all operation sites (profile mode)
	// TL is the per-thread label of the object: (thread, site of that thread's first operation on
	// the object, sequence number among the objects that thread first used at that site), interned.
	// A thread's own control flow hardly depends on the schedule, so the label names "the same"
	// object in different executions of a scenario; that is what the reduction profile is keyed on.
	TL [MaxThreads]int32
}

// Name is the stable identity of the object.
func (o *ObjInfo) Name() string {
	c := map[uint8]string{vsync.ClassMutex: "Mutex", vsync.ClassRWMutex: "RWMutex", vsync.ClassWG: "WaitGroup"}[o.Class]
	return fmt.Sprintf("%s@%s#%d", c, SiteName(o.Site), o.Seq)
}

// Deadlock describes a state without enabled thread.
type Deadlock struct {
	Waiting []string // per blocked thread: "thread: op obj at site; holds …"
	Sites   []string // the blocked operations' sites (sorted by thread id)
	// Recursive lists "outer site -> inner site" for every thread that waits for a read lock on an
	// object it already holds for reading (a writer announced itself in between).
	Recursive [][2]string
	// Cycle: the blocked operations' sites of the threads on a wait-for cycle (bystanders that merely
	// wait for a lock held by a thread of the cycle are left out); empty if no cycle was found.
	Cycle []string
}

// ThreadPanic is a panic that escaped a thread body.
type ThreadPanic struct {
	Thread string
	Value  string
	Stack  string
}

// Result of a run.
type Result struct {
	Points    []Point
	Objs      []ObjInfo
	Deadlock  *Deadlock
	Panics    []ThreadPanic
	Horizon   bool   // the point horizon was exceeded
	Fatal     string // model-level fatal error (unlock of unlocked mutex …)
	Handovers int    // switches away from an unfinished thread
	Switches  int    // all switches
	Key       uint64 // hash of the hand-over sequence
	Threads   []string
}

// Options of a run.
type Options struct {
	Horizon  int  // maximal number of points (0 => 2,000,000)
	Paranoid bool // verify that every operation comes from the goroutine of the running thread
	Profile  bool // record per-object operation sites
	Timeout  time.Duration
}

type run struct {
	opt     Options
	epoch   uint32
	threads []*thread
	cur     int
	devs    []Dev
	devI    int
	res     *Result
	seqAt   map[int32]int
	tseq    [MaxThreads]map[int32]int
	done    chan struct{}
	over    bool
	keyH    uint64
}

var (
	epochCtr uint32
	active   *run
)

// Boundary is an explicit scheduling point of a harness thread (between ABCI
// calls, between queries). Without an active run it does nothing.
func Boundary(label string) {
	r := active
	if r == nil {
		return
	}
	r.point(vsync.KYield, nil, 0, label)
}

// Run executes the threads under the schedule given by devs.
func Run(opt Options, devs []Dev, specs []ThreadSpec) *Result {
	if active != nil {
		Fatal("nested run")
	}
	if len(specs) > MaxThreads {
		Fatal("too many threads")
	}
	if opt.Horizon == 0 {
		opt.Horizon = 2000000
	}
	if opt.Timeout == 0 {
		opt.Timeout = 120 * time.Second
	}
	epochCtr++
	r := &run{opt: opt, epoch: epochCtr, cur: -1, devs: devs, res: &Result{}, seqAt: map[int32]int{}, done: make(chan struct{}, 1), keyH: 1469598103934665603}
	for i, s := range specs {
		t := &thread{id: i, name: s.Name, body: s.Body, wake: make(chan struct{}, 1), state: stParked, kind: vsync.KStart}
		r.threads = append(r.threads, t)
		r.res.Threads = append(r.res.Threads, s.Name)
	}
	active = r
	vsync.Attach(r)
	for _, t := range r.threads {
		go r.threadMain(t)
	}
	// first decision is taken by the controller
	r.schedule(nil)
	select {
	case <-r.done:
	case <-time.After(opt.Timeout):
		Fatal("run did not finish within %s (a thread blocks outside the model?)", opt.Timeout)
	}
	vsync.Detach()
	active = nil
	r.res.Key = r.keyH
	if r.devI < len(r.devs) && r.res.Deadlock == nil && !r.res.Horizon {
		Fatal("schedule not consumed: deviation %d at point %d but the run had only %d points", r.devI, r.devs[r.devI].At, len(r.res.Points))
	}
	return r.res
}

func (r *run) threadMain(t *thread) {
	<-t.wake
	if r.opt.Paranoid {
		t.goid = goid()
	}
	func() {
		defer func() {
			if v := recover(); v != nil {
				t.panicV = v
				t.stack = string(debug.Stack())
			}
		}()
		t.body()
	}()
	if t.panicV != nil {
		r.res.Panics = append(r.res.Panics, ThreadPanic{Thread: t.name, Value: fmt.Sprint(t.panicV), Stack: t.stack})
	}
	t.state = stFinished
	t.kind = vsync.KExit
	t.obj = nil
	r.schedule(t)
}

// Op implements vsync.Scheduler.
func (r *run) Op(k vsync.Kind, m *vsync.Meta, delta int64) bool {
	return r.point(k, m, delta, "")
}

func (r *run) point(k vsync.Kind, m *vsync.Meta, delta int64, label string) bool {
	if r.over {
		// the run is over (deadlock declared / horizon): let stragglers block forever
		select {}
	}
	if r.cur < 0 {
		Fatal("operation %s outside any thread of the run", k)
	}
	t := r.threads[r.cur]
	if r.opt.Paranoid {
		if g := goid(); g != t.goid {
			Fatal("operation %s from goroutine %d, but the running thread %s is goroutine %d (a goroutine of the code under test is not a scheduler thread)", k, g, t.name, t.goid)
		}
	}
	t.kind, t.obj, t.delta, t.label = k, m, delta, label
	t.nops++
	if m != nil {
		t.site = callerSite()
		if m.Epoch != r.epoch {
			cl := m.Class
			n := m.N
			*m = vsync.Meta{Epoch: r.epoch, Class: cl, N: n, ID: int32(len(r.res.Objs))}
			seq := r.seqAt[t.site]
			r.seqAt[t.site] = seq + 1
			oi := ObjInfo{Class: cl, Site: t.site, Seq: seq}
			if r.opt.Profile {
				oi.Sites = map[int32]struct{}{}
			}
			r.res.Objs = append(r.res.Objs, oi)
		}
		o := &r.res.Objs[m.ID]
		o.Threads |= 1 << uint(t.id)
		if o.TL[t.id] == 0 {
			if r.tseq[t.id] == nil {
				r.tseq[t.id] = map[int32]int{}
			}
			k := tlKey{t.id, t.site, r.tseq[t.id][t.site]}
			r.tseq[t.id][t.site]++
			id, ok := tlIdx[k]
			if !ok {
				id = int32(len(tlNames))
				tlNames = append(tlNames, k)
				tlIdx[k] = id
			}
			o.TL[t.id] = id
		}
		if o.Sites != nil {
			o.Sites[t.site] = struct{}{}
		}
	} else {
		t.site = internSite("boundary:" + label)
	}
	t.state = stParked
	r.schedule(t)
	return t.tryOK
}

// enabled tells whether the pending operation of t can complete its next phase.
func (r *run) enabled(t *thread) bool {
	if t.state == stFinished {
		return false
	}
	m := t.obj
	switch t.kind {
	case vsync.KLock:
		return m.Owner == 0
	case vsync.KWLock:
		return m.Owner == 0
	case vsync.KWDrain:
		return m.Readers == 0
	case vsync.KRLockQueued:
		return m.Released >= t.waitGen
	case vsync.KWgWait:
		return m.N == 0
	}
	return true
}

// apply executes the pending operation of t on the model; it returns false when
// the operation entered a blocking second phase (t is not runnable).
func (r *run) apply(t *thread) bool {
	m := t.obj
	t.tryOK = true
	switch t.kind {
	case vsync.KLock:
		m.Owner = int32(t.id) + 1
		t.held = append(t.held, held{m.ID, vsync.KLock, t.site})
	case vsync.KTryLock:
		if m.Owner != 0 {
			t.tryOK = false
		} else {
			m.Owner = int32(t.id) + 1
			t.held = append(t.held, held{m.ID, vsync.KLock, t.site})
		}
	case vsync.KUnlock:
		if m.Owner == 0 {
			r.fatal(t, "sync: unlock of unlocked mutex")
		}
		m.Owner = 0
		r.unheld(m.ID, vsync.KLock)
	case vsync.KWLock:
		m.Owner = int32(t.id) + 1
		m.Gen++
		if m.Readers > 0 {
			t.kind = vsync.KWDrain
			return false
		}
		m.Active = true
		t.held = append(t.held, held{m.ID, vsync.KWLock, t.site})
	case vsync.KWDrain:
		m.Active = true
		t.held = append(t.held, held{m.ID, vsync.KWLock, t.site})
	case vsync.KTryWLock:
		if m.Owner != 0 || m.Readers > 0 {
			t.tryOK = false
		} else {
			m.Owner = int32(t.id) + 1
			m.Gen++
			m.Active = true
			t.held = append(t.held, held{m.ID, vsync.KWLock, t.site})
		}
	case vsync.KWUnlock:
		if !m.Active {
			r.fatal(t, "sync: Unlock of unlocked RWMutex")
		}
		// readers queued behind this writer are let in together
		for _, u := range r.threads {
			if u.kind == vsync.KRLockQueued && u.obj == m && u.waitGen == m.Gen && u.state == stParked {
				m.Readers++
			}
		}
		m.Released = m.Gen
		m.Active = false
		m.Owner = 0
		r.unheld(m.ID, vsync.KWLock)
	case vsync.KRLock:
		if m.Owner != 0 {
			t.kind = vsync.KRLockQueued
			t.waitGen = m.Gen
			return false
		}
		m.Readers++
		t.held = append(t.held, held{m.ID, vsync.KRLock, t.site})
	case vsync.KRLockQueued:
		// counted in Readers by the writer's Unlock
		t.held = append(t.held, held{m.ID, vsync.KRLock, t.site})
	case vsync.KTryRLock:
		if m.Owner != 0 {
			t.tryOK = false
		} else {
			m.Readers++
			t.held = append(t.held, held{m.ID, vsync.KRLock, t.site})
		}
	case vsync.KRUnlock:
		if m.Readers <= 0 {
			r.fatal(t, "sync: RUnlock of unlocked RWMutex")
		}
		m.Readers--
		r.unheldBy(t, m.ID, vsync.KRLock)
	case vsync.KWgAdd:
		m.N += t.delta
		if m.N < 0 {
			r.fatal(t, "sync: negative WaitGroup counter")
		}
	}
	return true
}

func (r *run) fatal(t *thread, msg string) {
	if r.res.Fatal == "" {
		r.res.Fatal = fmt.Sprintf("%s (thread %s at %s)", msg, t.name, SiteName(t.site))
	}
}

func (r *run) unheld(obj int32, mode vsync.Kind) {
	for _, t := range r.threads {
		for i := len(t.held) - 1; i >= 0; i-- {
			if t.held[i].obj == obj && t.held[i].mode == mode {
				t.held = append(t.held[:i], t.held[i+1:]...)
				return
			}
		}
	}
}

func (r *run) unheldBy(t *thread, obj int32, mode vsync.Kind) {
	for i := len(t.held) - 1; i >= 0; i-- {
		if t.held[i].obj == obj && t.held[i].mode == mode {
			t.held = append(t.held[:i], t.held[i+1:]...)
			return
		}
	}
	r.unheld(obj, mode)
}

// schedule takes decisions until some thread can run, then hands the baton over.
// It is called by the thread that reached a point (self) or by the controller (nil).
func (r *run) schedule(self *thread) {
	for {
		var enabled uint16
		n := 0
		unfinished := 0
		for _, t := range r.threads {
			if t.state != stFinished {
				unfinished++
			}
			if r.enabled(t) {
				enabled |= 1 << uint(t.id)
				n++
			}
		}
		if unfinished == 0 {
			r.finish()
			return
		}
		if n == 0 {
			r.declareDeadlock()
			r.finish()
			if self != nil && self.state != stFinished {
				select {} // the calling thread is one of the blocked ones
			}
			return
		}
		p := Point{Cur: int8(r.cur), Enabled: enabled, Obj: -1}
		if r.cur >= 0 {
			c := r.threads[r.cur]
			p.CurEnabled = enabled&(1<<uint(c.id)) != 0
			p.Kind, p.Site, p.CurOps, p.Label = c.kind, c.site, int32(c.nops), c.label
			if c.obj != nil {
				p.Obj = c.obj.ID
				p.TLabel = r.res.Objs[c.obj.ID].TL[c.id]
			}
		}
		idx := len(r.res.Points)
		if idx >= r.opt.Horizon {
			r.res.Horizon = true
			r.finish()
			select {}
		}
		choices := p.Choices()
		pick := 0
		if r.devI < len(r.devs) && r.devs[r.devI].At == idx {
			d := r.devs[r.devI]
			r.devI++
			pick = d.Pick
			if pick < 0 || pick >= len(choices) {
				Fatal("replay: deviation at point %d picks choice %d but only %d choices exist (nondeterministic run)", idx, pick, len(choices))
			}
			if d.Cur != int(p.Cur) || (d.Kind != "" && d.Kind != p.Kind.String()) || (d.Site != "" && d.Site != SiteName(p.Site)) {
				Fatal("replay: point %d is thread %d %s at %s, the schedule expected thread %d %s at %s (nondeterministic run)", idx, p.Cur, p.Kind, SiteName(p.Site), d.Cur, d.Kind, d.Site)
			}
		} else if r.devI < len(r.devs) && r.devs[r.devI].At < idx {
			Fatal("replay: deviation at point %d skipped", r.devs[r.devI].At)
		}
		next := r.threads[choices[pick]]
		p.Chosen = int8(next.id)
		r.res.Points = append(r.res.Points, p)
		if next.id != r.cur {
			r.res.Switches++
			if r.cur >= 0 && r.threads[r.cur].state != stFinished {
				r.res.Handovers++
				// key: (from thread, its op index, to thread)
				r.mix(uint64(r.cur)<<40 | uint64(r.threads[r.cur].nops)<<8 | uint64(next.id))
			} else {
				r.mix(uint64(0xff)<<40 | uint64(next.id))
			}
		}
		r.cur = next.id
		ok := r.apply(next)
		if r.res.Fatal != "" {
			// the real primitive would throw a fatal error here: the run ends
			r.finish()
			select {}
		}
		if !ok {
			// blocked in the second phase of its operation: decide again
			continue
		}
		next.state = stRunning
		if next == self {
			return
		}
		next.wake <- struct{}{}
		if self != nil && self.state != stFinished {
			<-self.wake
		}
		return
	}
}

func (r *run) mix(v uint64) {
	for i := 0; i < 8; i++ {
		r.keyH ^= (v >> (8 * uint(i))) & 0xff
		r.keyH *= 1099511628211
	}
}

func (r *run) finish() {
	if !r.over {
		r.over = true
		r.done <- struct{}{}
	}
}

func (r *run) declareDeadlock() {
	d := &Deadlock{}
	for _, t := range r.threads {
		if t.state == stFinished {
			continue
		}
		obj := "?"
		if t.obj != nil {
			obj = r.res.Objs[t.obj.ID].Name()
		}
		hs := ""
		for _, h := range t.held {
			hs += fmt.Sprintf(" %s(%s taken at %s)", r.res.Objs[h.obj].Name(), h.mode, SiteName(h.site))
		}
		if t.kind == vsync.KRLockQueued && t.obj != nil {
			for _, h := range t.held {
				if h.obj == t.obj.ID && h.mode == vsync.KRLock {
					d.Recursive = append(d.Recursive, [2]string{SiteName(h.site), SiteName(t.site)})
					break
				}
			}
		}
		d.Waiting = append(d.Waiting, fmt.Sprintf("%s blocked in %s of %s at %s; holds:%s", t.name, t.kind, obj, SiteName(t.site), hs))
		d.Sites = append(d.Sites, SiteName(t.site))
	}
	// wait-for graph: t -> the threads that hold what t waits for
	n := len(r.threads)
	waits := make([][]int, n)
	for _, t := range r.threads {
		if t.state == stFinished || t.obj == nil {
			continue
		}
		for _, u := range r.threads {
			if u == t {
				continue
			}
			for _, h := range u.held {
				if h.obj != t.obj.ID {
					continue
				}
				conflict := true
				if (t.kind == vsync.KRLock || t.kind == vsync.KRLockQueued) && h.mode == vsync.KRLock {
					conflict = false
				}
				if conflict {
					waits[t.id] = append(waits[t.id], u.id)
				}
			}
			// a reader queued behind an announced writer waits for that writer even while it drains
			if t.kind == vsync.KRLockQueued && t.obj.Owner == int32(u.id)+1 {
				waits[t.id] = append(waits[t.id], u.id)
			}
		}
	}
	var path []int
	onPath := make([]bool, n)
	done := make([]bool, n)
	var cyc []int
	var dfs func(v int) bool
	dfs = func(v int) bool {
		onPath[v] = true
		path = append(path, v)
		for _, w := range waits[v] {
			if onPath[w] {
				for i, x := range path {
					if x == w {
						cyc = append([]int{}, path[i:]...)
						return true
					}
				}
			}
			if !done[w] && dfs(w) {
				return true
			}
		}
		onPath[v] = false
		path = path[:len(path)-1]
		done[v] = true
		return false
	}
	for v := 0; v < n && cyc == nil; v++ {
		if !done[v] && r.threads[v].state != stFinished {
			dfs(v)
		}
	}
	for _, v := range cyc {
		d.Cycle = append(d.Cycle, SiteName(r.threads[v].site))
	}
	r.res.Deadlock = d
}

func goid() uint64 {
	var buf [64]byte
	n := runtime.Stack(buf[:], false)
	// "goroutine 123 [running]:"
	var id uint64
	for _, c := range buf[10:n] {
		if c < '0' || c > '9' {
			break
		}
		id = id*10 + uint64(c-'0')
	}
	return id
}
