package sched

import (
	"time"
)

// Exec runs one execution of a scenario under a schedule on a FRESH system and
// returns the scheduler result. The explorer does not interpret anything else;
// the oracle lives in OnExec.
type Exec func(devs []Dev, opt Options) *Result

// Explorer enumerates schedules depth-first:
//
//	explore(prefix):
//	  x <- run(prefix)              (replays the prefix, then decision 0 everywhere)
//	  OnExec(prefix, x)
//	  for every point i after the last deviation of prefix, every alternative a>=1 at i:
//	     cost <- cost(prefix) + (0 if the point is free: running thread blocked/finished, Boundary, thread start; else 1)
//	     if cost <= Bound and Eligible(x, i): explore(prefix + (i, a))
//
// Sharding: executions whose cost is below Bound form the skeleton and are run by
// every shard (counted by shard 0 only); a deviation that raises the cost to Bound
// is taken by shard (counter mod NShards). With Bound 0 nothing is sharded.
type Explorer struct {
	Exec     Exec
	Bound    int
	Eligible func(x *Result, i int) bool // reduction filter for non-free points (nil: all)
	OnExec   func(devs []Dev, cost int, x *Result, counted bool)
	Shard    int
	NShards  int
	Deadline time.Time
	Opt      Options
	// MaxExec stops the enumeration after that many executions (0: none).
	MaxExec int

	// statistics
	Executions  int   // executions run by this shard
	Counted     int   // executions this shard is responsible for
	ByCost      []int // counted executions per cost
	Transitions int64 // points executed in counted executions
	Complete    bool
	ctr         int
	seen        map[uint64]struct{}
	Distinct    int
}

// Run explores from the empty schedule.
func (e *Explorer) Run() {
	if e.NShards <= 0 {
		e.NShards = 1
	}
	e.ByCost = make([]int, e.Bound+1)
	e.seen = map[uint64]struct{}{}
	e.Complete = true
	e.explore(nil, 0, true)
}

func (e *Explorer) stop() bool {
	if !e.Deadline.IsZero() && time.Now().After(e.Deadline) {
		return true
	}
	return e.MaxExec > 0 && e.Executions >= e.MaxExec
}

// mine tells whether this shard owns the subtree: true for the skeleton on every shard.
func (e *Explorer) explore(devs []Dev, cost int, first bool) {
	if e.stop() {
		e.Complete = false
		return
	}
	opt := e.Opt
	if !first {
		opt.Paranoid = false
	}
	x := e.Exec(devs, opt)
	e.Executions++
	// skeleton executions (cost < Bound) are replicated on all shards: count them once
	counted := cost == e.Bound && e.Bound > 0 || e.Shard == 0
	if counted {
		e.Counted++
		e.ByCost[cost]++
		e.Transitions += int64(len(x.Points))
		if _, ok := e.seen[x.Key]; !ok {
			e.seen[x.Key] = struct{}{}
			e.Distinct++
		}
	}
	if e.OnExec != nil {
		e.OnExec(devs, cost, x, counted)
	}
	start := 0
	if len(devs) > 0 {
		start = devs[len(devs)-1].At + 1
	}
	for i := start; i < len(x.Points); i++ {
		p := &x.Points[i]
		ch := p.Choices()
		if len(ch) < 2 {
			continue
		}
		c := cost
		if !p.Free() {
			c++
			if c > e.Bound {
				continue
			}
			if e.Eligible != nil && !e.Eligible(x, i) {
				continue
			}
		}
		for a := 1; a < len(ch); a++ {
			if c == e.Bound && cost < e.Bound {
				// this deviation leaves the skeleton: sharded
				mine := e.ctr%e.NShards == e.Shard
				e.ctr++
				if !mine {
					continue
				}
			}
			d := Dev{At: i, Pick: a, Cur: int(p.Cur), Kind: p.Kind.String(), Site: SiteName(p.Site)}
			nd := make([]Dev, len(devs)+1)
			copy(nd, devs)
			nd[len(devs)] = d
			e.explore(nd, c, false)
			if e.stop() {
				e.Complete = false
				return
			}
		}
	}
}
