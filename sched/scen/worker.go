package scen

import (
	"encoding/json"
	"fmt"
	"hash/fnv"
	"os"
	"sort"
	"strings"
	"time"

	"verif/sched"
	"verif/vsync"
)

// Job is what the check hands to a worker process (JSON file named by VERIF_C25_JOB).
type Job struct {
	Role     string   `json:"role"` // sched | race | replay
	Tier     string   `json:"tier"`
	Shard    int      `json:"shard"`
	NShards  int      `json:"nshards"`
	Out      string   `json:"out"`
	Deadline int64    `json:"deadline_unix"`
	Only     []string `json:"only,omitempty"` // scenario names (default: all of the tier)
	MaxExec  int      `json:"max_exec,omitempty"` // per scenario and shard: stop the enumeration after that many executions (deterministic cap)
	// replay
	Scenario string      `json:"scenario,omitempty"`
	Devs     []sched.Dev `json:"devs,omitempty"`
	// race
	Reps    int    `json:"reps,omitempty"`
	RaceLog string `json:"race_log,omitempty"`
}

// Found is a violation with its replay data.
type Found struct {
	Scenario  string      `json:"scenario"`
	Kind      string      `json:"kind"`
	Signature string      `json:"signature"`
	Detail    string      `json:"detail"`
	Devs      []sched.Dev `json:"devs"`
	Cost      int         `json:"cost"`
	Count     int         `json:"count"`
}

// Sample is one schedule written out.
type Sample struct {
	Scenario string      `json:"scenario"`
	Devs     []sched.Dev `json:"devs"`
	Cost     int         `json:"preemptions"`
	Points   int         `json:"points"`
	Switches []string    `json:"switches"` // the hand-overs in order
	Obs      *Obs        `json:"observations"`
}

// Stat is the per-scenario result of one worker.
type Stat struct {
	Name        string   `json:"name"`
	Skip        string   `json:"skip,omitempty"`
	Bound       int      `json:"bound"`
	Complete    bool     `json:"complete"`
	Executions  int      `json:"executions"`     // counted by this shard
	Ran         int      `json:"executions_ran"` // including the replicated skeleton
	ByCost      []int    `json:"by_preemptions"`
	Transitions int64    `json:"transitions"`
	Distinct    int      `json:"distinct_schedules"`
	Nontrivial  int      `json:"nontrivial"` // executions with >= 1 hand-over from an unfinished thread
	Outcomes    []uint64 `json:"outcomes"`
	BasePoints  int      `json:"base_points"`
	Objects     int      `json:"objects"`
	SharedObjs  int      `json:"shared_objects"`
	SharedSites int      `json:"shared_sites"`
	SharedLabels int     `json:"shared_labels"`
	Eligible    int      `json:"eligible_points_base"`
	WallMS      int64    `json:"wall_ms"`
	Violating   int      `json:"violating_executions"`
	HandlerPanics int    `json:"executions_with_handler_panic"`
}

// Out is the output file of a worker.
type Out struct {
	Role    string   `json:"role"`
	Shard   int      `json:"shard"`
	Stats   []Stat   `json:"stats"`
	Found   []Found  `json:"found"`
	Warned  []Found  `json:"warned"` // handler panics (recovered by the gRPC middleware in production)
	Samples []Sample `json:"samples"`
	Race    *RaceOut `json:"race,omitempty"`
	Replay  *Replayed `json:"replay,omitempty"`
}

func hash64(s string) uint64 {
	h := fnv.New64a()
	h.Write([]byte(s))
	return h.Sum64()
}

func switchesOf(res *sched.Result) []string {
	var out []string
	prev := -1
	for i, p := range res.Points {
		if int(p.Chosen) != prev {
			what := "start"
			if p.Cur >= 0 {
				what = fmt.Sprintf("%s before %s at %s", res.Threads[p.Cur], p.Kind, sched.SiteName(p.Site))
				if p.Kind == vsync.KYield {
					what = fmt.Sprintf("%s before %s", res.Threads[p.Cur], p.Label)
				}
				if p.Kind == vsync.KExit {
					what = res.Threads[p.Cur] + " finished"
				}
			}
			out = append(out, fmt.Sprintf("point %d: %s -> %s", i, what, res.Threads[p.Chosen]))
			prev = int(p.Chosen)
		}
	}
	return out
}

// WorkerMain is the entry of a worker process; it returns the exit code.
func WorkerMain(jobPath string) int {
	b, err := os.ReadFile(jobPath)
	if err != nil {
		fmt.Fprintln(os.Stderr, "c25 worker:", err)
		return 2
	}
	var job Job
	if err := json.Unmarshal(b, &job); err != nil {
		fmt.Fprintln(os.Stderr, "c25 worker:", err)
		return 2
	}
	out := &Out{Role: job.Role, Shard: job.Shard}
	switch job.Role {
	case "sched":
		runSched(&job, out)
	case "race":
		out.Race = runRace(&job)
	case "replay":
		out.Replay = runReplay(&job)
	default:
		fmt.Fprintln(os.Stderr, "c25 worker: unknown role", job.Role)
		return 2
	}
	ob, _ := json.Marshal(out)
	if err := os.WriteFile(job.Out, ob, 0o644); err != nil {
		fmt.Fprintln(os.Stderr, "c25 worker:", err)
		return 2
	}
	return 0
}

func selected(job *Job, all []Spec) []Spec {
	if len(job.Only) == 0 {
		return all
	}
	var out []Spec
	for _, s := range all {
		for _, n := range job.Only {
			if s.Name == n || strings.HasPrefix(s.Name, n) {
				out = append(out, s)
				break
			}
		}
	}
	return out
}

func runSched(job *Job, out *Out) {
	deadline := time.Unix(job.Deadline, 0)
	specs := selected(job, List(job.Tier))
	zeroIdx := 0
	for _, sp := range specs {
		if sp.Bound == 0 {
			// a zero-preemption scenario is small: one shard takes it whole
			mine := zeroIdx%job.NShards == job.Shard
			zeroIdx++
			if !mine {
				continue
			}
		}
		// no scenario may eat the whole budget: at most a third of what is left (at least 20 s)
		dl := deadline
		if left := time.Until(deadline); left > 5*time.Minute {
			if cap := time.Now().Add(left / 3); cap.Before(dl) {
				dl = cap
			}
		}
		st := exploreScenario(sp, job, dl, out)
		out.Stats = append(out.Stats, st)
	}
}

func exploreScenario(sp Spec, job *Job, deadline time.Time, out *Out) Stat {
	t0 := time.Now()
	st := Stat{Name: sp.Name, Bound: sp.Bound}
	in := New(sp)
	if in.Skip != "" {
		st.Skip = in.Skip
		return st
	}
	for _, c := range in.Ref.Calls {
		if c.Fault != "" {
			// the block itself crashes the node without any query: that is C07's business
			st.Skip = "the query-free run faults in " + c.Name + ": " + c.Fault
			return st
		}
	}
	// determinism of the driver: the query-free run twice
	_, again := in.Execute(nil, sched.Options{}, ModeDetached)
	if again.BlockString() != in.Ref.BlockString() {
		sched.Fatal("scenario %s: two query-free runs differ:\n%s\n---\n%s", sp.Name, in.Ref.BlockString(), again.BlockString())
	}
	sharedSites := map[int32]bool{}
	sharedLabels := map[int32]bool{}
	outcomes := map[uint64]struct{}{}
	foundSig := map[string]*Found{}
	var samples []Sample
	onExec := func(profile bool) func(devs []sched.Dev, cost int, x *sched.Result, counted bool) {
		return func(devs []sched.Dev, cost int, x *sched.Result, counted bool) {
			if profile {
				for _, o := range x.Objs {
					if o.Threads&(o.Threads-1) != 0 { // touched by >= 2 threads
						for s := range o.Sites {
							sharedSites[s] = true
						}
						for _, l := range o.TL {
							if l != 0 {
								sharedLabels[l] = true
							}
						}
					}
				}
			}
		}
	}
	var curObs *Obs
	exec := func(profile bool) sched.Exec {
		return func(devs []sched.Dev, opt sched.Options) *sched.Result {
			opt.Profile = profile
			res, obs := in.Execute(devs, opt, ModeSched)
			curObs = obs
			return res
		}
	}
	judge := func(devs []sched.Dev, cost int, x *sched.Result, counted bool) {
		if !counted {
			return
		}
		if x.Handovers > 0 {
			st.Nontrivial++
		}
		outcomes[hash64(Outcome(x, curObs))] = struct{}{}
		vs := in.Judge(x, curObs)
		if x.Horizon {
			vs = append(vs, Violation{Kind: "horizon", Signature: "horizon-exceeded", Detail: "the execution did not end within the point horizon"})
		}
		nv := 0
		for _, v := range vs {
			if v.Kind != "handler-panic" {
				nv++
			}
		}
		if nv > 0 {
			st.Violating++
		}
		if nv < len(vs) {
			st.HandlerPanics++
		}
		for _, v := range vs {
			if f, ok := foundSig[v.Signature]; ok {
				f.Count++
				continue
			}
			f := &Found{Scenario: sp.Name, Kind: v.Kind, Signature: v.Signature, Detail: v.Detail, Devs: append([]sched.Dev{}, devs...), Cost: cost, Count: 1}
			foundSig[v.Signature] = f
		}
		// samples: the default schedule, the first with a hand-over, the first with a preemption
		want := (len(samples) == 0 && len(devs) == 0) || (len(samples) == 1 && x.Handovers > 0) || (len(samples) == 2 && cost > 0 && x.Handovers > 1)
		if want {
			samples = append(samples, Sample{Scenario: sp.Name, Devs: append([]sched.Dev{}, devs...), Cost: cost, Points: len(x.Points), Switches: switchesOf(x), Obs: curObs})
		}
	}

	// pass 0: zero preemptions (tier A): every placement of whole calls; profiles the lock objects
	e0 := &sched.Explorer{Exec: exec(true), Bound: 0, Shard: 0, NShards: 1, Deadline: deadline, Opt: sched.Options{Paranoid: true}}
	prof := onExec(true)
	countZero := sp.Bound == 0 || job.Shard == 0
	e0.OnExec = func(devs []sched.Dev, cost int, x *sched.Result, counted bool) {
		prof(devs, cost, x, counted)
		if len(devs) == 0 {
			st.BasePoints = len(x.Points)
			st.Objects = len(x.Objs)
		}
		if sp.Bound == 0 {
			judge(devs, cost, x, true)
		}
	}
	e0.Run()
	st.Ran += e0.Executions
	st.Complete = e0.Complete
	if sp.Bound == 0 {
		st.Executions, st.ByCost, st.Transitions, st.Distinct = e0.Counted, e0.ByCost, e0.Transitions, e0.Distinct
	}
	_ = countZero
	st.SharedSites = len(sharedSites)
	st.SharedLabels = len(sharedLabels)
	if sp.Bound > 0 && e0.Complete {
		elig := func(x *sched.Result, i int) bool {
			p := &x.Points[i]
			if p.TLabel != 0 && sharedLabels[p.TLabel] {
				return true
			}
			if p.Obj >= 0 && int(p.Obj) < len(x.Objs) {
				o := x.Objs[p.Obj].Threads
				if o&^(1<<uint(p.Cur)) != 0 {
					return true
				}
			}
			return false
		}
		e := &sched.Explorer{Exec: exec(false), Bound: sp.Bound, Eligible: elig, Shard: job.Shard, NShards: job.NShards, Deadline: deadline, OnExec: judge, MaxExec: job.MaxExec}
		first := true
		inner := e.OnExec
		e.OnExec = func(devs []sched.Dev, cost int, x *sched.Result, counted bool) {
			if first {
				first = false
				for i := range x.Points {
					if !x.Points[i].Free() && len(x.Points[i].Choices()) > 1 && elig(x, i) {
						st.Eligible++
					}
				}
				for _, o := range x.Objs {
					if o.Threads&(o.Threads-1) != 0 {
						st.SharedObjs++
					}
				}
			}
			inner(devs, cost, x, counted)
		}
		e.Run()
		st.Ran += e.Executions
		st.Complete = e.Complete
		st.Executions, st.ByCost, st.Transitions, st.Distinct = e.Counted, e.ByCost, e.Transitions, e.Distinct
	}
	for h := range outcomes {
		st.Outcomes = append(st.Outcomes, h)
	}
	sort.Slice(st.Outcomes, func(i, j int) bool { return st.Outcomes[i] < st.Outcomes[j] })
	var sigs []string
	for s := range foundSig {
		sigs = append(sigs, s)
	}
	sort.Strings(sigs)
	for _, s := range sigs {
		if foundSig[s].Kind == "handler-panic" {
			out.Warned = append(out.Warned, *foundSig[s])
		} else {
			out.Found = append(out.Found, *foundSig[s])
		}
	}
	out.Samples = append(out.Samples, samples...)
	st.WallMS = time.Since(t0).Milliseconds()
	return st
}

// Replayed is the result of re-running one schedule twice.
type Replayed struct {
	Scenario   string      `json:"scenario"`
	Violations []Violation `json:"violations"`
	Text       string      `json:"text"`
	Identical  bool        `json:"identical"`
}

func runReplay(job *Job) *Replayed {
	sp, ok := ByName(job.Scenario)
	if !ok {
		sched.Fatal("replay: unknown scenario %q", job.Scenario)
	}
	in := New(sp)
	if in.Skip != "" {
		sched.Fatal("replay: scenario cannot be built: %s", in.Skip)
	}
	rp := &Replayed{Scenario: sp.Name}
	var texts [2]string
	for k := 0; k < 2; k++ {
		res, obs := in.Execute(job.Devs, sched.Options{Paranoid: k == 0}, ModeSched)
		vs := in.Judge(res, obs)
		var b strings.Builder
		fmt.Fprintf(&b, "scenario %s\nschedule (%d deviations from \"keep running the current thread\"):\n", sp.Name, len(job.Devs))
		for _, s := range switchesOf(res) {
			b.WriteString("  " + s + "\n")
		}
		b.WriteString("--- query-free run of the same block\n" + in.Ref.BlockString())
		b.WriteString("--- this run\n" + obs.BlockString())
		for ti, th := range obs.Queries {
			for _, q := range th {
				fmt.Fprintf(&b, "query thread %d: %s => %s %s\n", ti+1, q.Name, q.Result, q.Panic)
			}
		}
		for _, v := range vs {
			fmt.Fprintf(&b, "VIOLATION %s: %s\n", v.Signature, v.Detail)
		}
		texts[k] = b.String()
		if k == 0 {
			rp.Violations = vs
			rp.Text = texts[0]
		}
	}
	rp.Identical = texts[0] == texts[1]
	if !rp.Identical {
		rp.Text += "\n=== SECOND RUN OF THE SAME SCHEDULE DIFFERS ===\n" + texts[1]
	}
	return rp
}
