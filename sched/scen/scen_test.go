package scen

import (
	"testing"

	"verif/sched"
)

// BenchmarkDefaultSchedule measures one execution (fresh node + block + queries) under the scheduler.
// go test -tags verif -overlay .build/overlay-<tag>-scheddet.json ./sched/scen -bench . -run XXX
func BenchmarkDefaultSchedule(b *testing.B) {
	sp, ok := ByName("B2/coin DeliverTx(create pool) | BestTradeNew")
	if !ok {
		b.Skip("scenario missing")
	}
	in := New(sp)
	if in.Skip != "" {
		b.Skip(in.Skip)
	}
	b.ResetTimer()
	for i := 0; i < b.N; i++ {
		in.Execute(nil, sched.Options{}, ModeSched)
	}
}
