package scen

import (
	"fmt"
	"os"
	"runtime"
	"sort"
	"strings"
	"sync"
	"sync/atomic"
	"time"
)

// The free-running pass: the scenario bodies run as real goroutines in a binary
// built with -race and WITHOUT scheduler. It is a sampling pass (not exhaustive):
// every scenario is repeated a fixed number of times; repetition r releases query
// thread t when the block executor is about to start ABCI call (r + 3t) mod ncalls
// and lets it first burn spinTable[(r / ncalls) mod len] iterations of a pure loop.

var spinTable = []int{0, 300, 1500, 6000, 20000, 60000, 150000, 400000}

var spinSink uint64

// stuckAfter: a repetition normally takes well under a second.
const stuckAfter = 25 * time.Second

func burn(n int) {
	x := uint64(n) | 1
	for i := 0; i < n; i++ {
		x = x*6364136223846793005 + 1442695040888963407
	}
	atomic.AddUint64(&spinSink, x)
}

// ExecuteFree runs the scenario once with real concurrency.
func (in *Instance) ExecuteFree(rep int) (obs *Obs, stuck bool) {
	p := in.prepare()
	defer p.cleanup()
	for i := 0; i < p.from; i++ {
		p.do(i)
	}
	ncalls := p.to - p.from
	var stage int32 = -1
	var wg sync.WaitGroup
	p.obs.Queries = make([][]QueryObs, len(in.queries))
	for ti, qs := range in.queries {
		ti, qs := ti, qs
		rel := int32((rep + 3*ti) % ncalls)
		spin := spinTable[(rep/ncalls+ti)%len(spinTable)]
		wg.Add(1)
		go func() {
			defer wg.Done()
			for atomic.LoadInt32(&stage) < rel {
				runtime.Gosched()
			}
			burn(spin)
			for _, q := range qs {
				p.obs.Queries[ti] = append(p.obs.Queries[ti], runQuery(p.svc, q))
			}
		}()
	}
	done := make(chan struct{})
	go func() {
		for i := p.from; i < p.to; i++ {
			atomic.StoreInt32(&stage, int32(i-p.from))
			p.do(i)
		}
		atomic.StoreInt32(&stage, 1<<30)
		wg.Wait()
		close(done)
	}()
	select {
	case <-done:
	case <-time.After(stuckAfter):
		return p.obs, true
	}
	p.finish()
	return p.obs, false
}

// RaceScenario is the per-scenario result of the race pass.
type RaceScenario struct {
	Name     string  `json:"name"`
	Skip     string  `json:"skip,omitempty"`
	Reps     int     `json:"repetitions"`
	LogFrom  int64   `json:"log_from"` // byte range of the race log written while this scenario ran
	LogTo    int64   `json:"log_to"`
	Found    []Found `json:"found,omitempty"` // oracle violations observed in the free runs (panic / divergence / stuck)
	Warned   []Found `json:"warned,omitempty"`
	Outcomes int     `json:"distinct_outcomes"`
	WallMS   int64   `json:"wall_ms"`
}

// RaceOut is the output of a race worker.
type RaceOut struct {
	LogFile   string         `json:"log_file"`
	Scenarios []RaceScenario `json:"scenarios"`
}

func logSize(path string) int64 {
	st, err := os.Stat(path)
	if err != nil {
		return 0
	}
	return st.Size()
}

func runRace(job *Job) *RaceOut {
	logFile := fmt.Sprintf("%s.%d", job.RaceLog, os.Getpid())
	out := &RaceOut{LogFile: logFile}
	deadline := time.Unix(job.Deadline, 0)
	specs := selected(job, RaceScenarios(job.Tier))
	for i, sp := range specs {
		if i%job.NShards != job.Shard {
			continue
		}
		t0 := time.Now()
		rs := RaceScenario{Name: sp.Name, LogFrom: logSize(logFile)}
		in := New(sp)
		if in.Skip != "" {
			rs.Skip = in.Skip
			out.Scenarios = append(out.Scenarios, rs)
			continue
		}
		outcomes := map[string]bool{}
		sigs := map[string]*Found{}
		for rep := 0; rep < job.Reps; rep++ {
			if time.Now().After(deadline) {
				break
			}
			obs, stuck := in.ExecuteFree(rep)
			rs.Reps++
			var vs []Violation
			if stuck {
				vs = append(vs, Violation{Kind: "deadlock", Signature: "deadlock|free-run-stuck", Detail: fmt.Sprintf("repetition %d did not finish within %s: the block executor and / or a handler goroutine are blocked for good (real goroutines, real sync primitives)", rep, stuckAfter)})
			} else {
				outcomes[Outcome(nil, obs)] = true
				vs = in.Judge(nil, obs)
			}
			for _, v := range vs {
				if f, ok := sigs[v.Signature]; ok {
					f.Count++
					continue
				}
				sigs[v.Signature] = &Found{Scenario: sp.Name, Kind: v.Kind, Signature: v.Signature, Detail: fmt.Sprintf("free-running pass, repetition %d\n%s", rep, v.Detail), Count: 1}
			}
			if stuck {
				break
			}
		}
		var ks []string
		for k := range sigs {
			ks = append(ks, k)
		}
		sort.Strings(ks)
		for _, k := range ks {
			if sigs[k].Kind == "handler-panic" {
				rs.Warned = append(rs.Warned, *sigs[k])
			} else {
				rs.Found = append(rs.Found, *sigs[k])
			}
		}
		rs.Outcomes = len(outcomes)
		rs.LogTo = logSize(logFile)
		rs.WallMS = time.Since(t0).Milliseconds()
		out.Scenarios = append(out.Scenarios, rs)
	}
	return out
}

// ---------------------------------------------------------------- race log parsing

// RaceAccess is one of the two accesses of a report.
type RaceAccess struct {
	Op     string   `json:"op"`     // read | write
	Frames []string `json:"frames"` // "func file:line"
	Loc    string   `json:"loc"`    // first frame inside the repository ("" if none)
	MapOp  string   `json:"map_op"` // runtime map function on the stack ("" if none)
}

// RaceReport is one parsed "WARNING: DATA RACE" block.
type RaceReport struct {
	A, B RaceAccess
	Text string
}

// IsMapRace tells whether one of the accesses is a runtime map operation.
func (r *RaceReport) IsMapRace() bool { return r.A.MapOp != "" || r.B.MapOp != "" }

// InRepo tells whether both accesses come from repository code.
func (r *RaceReport) InRepo() bool { return r.A.Loc != "" && r.B.Loc != "" }

// Signature is kind + the pair of code locations (functions; the line numbers, which depend on
// which statement of the function happened to collide, are in the report text).
func (r *RaceReport) Signature() string {
	// reads before writes, then by name: "map-race|read <func>|write <receiver type>": which of the
	// writers of the same structure happened to collide with the reader depends on timing only.
	side := func(a RaceAccess) string {
		f := funcOnly(locOrTop(a))
		if a.Op == "write" {
			if i := strings.Index(f, ")."); i > 0 {
				f = f[:i+1]
			}
		}
		return a.Op + " " + f
	}
	l := []string{side(r.A), side(r.B)}
	sort.Strings(l)
	kind := "data-race"
	if r.IsMapRace() {
		kind = "map-race"
	}
	return kind + "|" + l[0] + "|" + l[1]
}

func funcOnly(loc string) string {
	if i := strings.Index(loc, " "); i > 0 {
		return loc[:i]
	}
	return loc
}

func locOrTop(a RaceAccess) string {
	if a.Loc != "" {
		return a.Loc
	}
	if len(a.Frames) > 0 {
		return a.Frames[0]
	}
	return "?"
}

const repoPrefix = "github.com/MinterTeam/minter-go-node/"

// ParseRaceLog splits the output of the race detector into reports.
func ParseRaceLog(text string) []RaceReport {
	var out []RaceReport
	for _, blk := range strings.Split(text, "==================") {
		if !strings.Contains(blk, "WARNING: DATA RACE") {
			continue
		}
		rep := RaceReport{Text: strings.TrimSpace(blk)}
		lines := strings.Split(blk, "\n")
		var accs []RaceAccess
		var cur *RaceAccess
		for i := 0; i < len(lines); i++ {
			l := lines[i]
			tl := strings.TrimSpace(l)
			switch {
			case strings.HasPrefix(tl, "Read at"), strings.HasPrefix(tl, "Previous read at"):
				accs = append(accs, RaceAccess{Op: "read"})
				cur = &accs[len(accs)-1]
			case strings.HasPrefix(tl, "Write at"), strings.HasPrefix(tl, "Previous write at"):
				accs = append(accs, RaceAccess{Op: "write"})
				cur = &accs[len(accs)-1]
			case strings.HasPrefix(tl, "Goroutine "), tl == "":
				if tl != "" {
					cur = nil
				}
				if tl == "" && cur != nil && len(cur.Frames) > 0 {
					cur = nil
				}
			default:
				if cur != nil && strings.HasPrefix(l, "  ") && !strings.HasPrefix(l, "      ") && i+1 < len(lines) {
					fn := strings.TrimSuffix(tl, "()")
					file := strings.TrimSpace(lines[i+1])
					if j := strings.Index(file, " +0x"); j > 0 {
						file = file[:j]
					}
					i++
					fr := fn + " " + shortPath(file)
					cur.Frames = append(cur.Frames, fr)
					if cur.MapOp == "" && strings.HasPrefix(fn, "runtime.map") {
						cur.MapOp = fn
					}
					if cur.Loc == "" && strings.HasPrefix(fn, repoPrefix) {
						cur.Loc = strings.TrimPrefix(fn, repoPrefix) + " " + shortPath(file)
					}
				}
			}
		}
		if len(accs) >= 2 {
			rep.A, rep.B = accs[0], accs[1]
			out = append(out, rep)
		}
	}
	return out
}

func shortPath(f string) string {
	if i := strings.Index(f, "/repo/"); i >= 0 {
		return f[i+len("/repo/"):]
	}
	if i := strings.Index(f, "/sched/"); i >= 0 && strings.Contains(f, "/.build/ov-") {
		return strings.Replace(f[i+len("/sched/"):], ".go.txt:", ".go:", 1)
	}
	if i := strings.Index(f, "/base/"); i >= 0 && strings.Contains(f, "/.build/ov-") {
		return strings.Replace(f[i+len("/base/"):], ".go.txt:", ".go:", 1)
	}
	if i := strings.Index(f, "/verif/"); i >= 0 {
		return "verif/" + f[i+len("/verif/"):]
	}
	return f
}
