// Package scen holds the C25 scenarios: one block of a world executed by the
// block-executor thread, concurrently with real gRPC handler methods of
// service.Service (height 0 = the live state shared with block execution).
package scen

import (
	"context"
	"crypto/sha256"
	"encoding/hex"
	"fmt"
	"sort"
	"strings"

	"github.com/MinterTeam/minter-go-node/api/v2/service"
	"github.com/MinterTeam/minter-go-node/coreV2/types"
	pb "github.com/MinterTeam/node-grpc-gateway/api_pb"
	"google.golang.org/grpc/status"
	"google.golang.org/protobuf/proto"
	"google.golang.org/protobuf/types/known/wrapperspb"

	"verif/worlds"
)

// Query is one call of a handler method of service.Service.
type Query struct {
	Name string
	Call func(s *service.Service) (proto.Message, error)
}

// params are the constants a world offers to the query catalogue.
type params struct {
	addr, addr2 types.Address
	pub         types.Pubkey
	coinA       uint64 // a custom coin with a BIP pool (or bancor reserve)
	symA        string
	coinB       uint64 // a second custom coin (0 if none)
	poolC0      uint64 // an existing pool
	poolC1      uint64
	newC0       uint64 // a pair that does not exist at genesis (created by a scenario transaction), 0/0 if none
	newC1       uint64
	orders      []uint64
}

func worldParams(world string) params {
	K, P := worlds.K, worlds.Pub
	switch {
	case world == "pay":
		return params{addr: K("alice").Addr, addr2: K("bob").Addr, pub: P(1), coinA: worlds.PayTokA, symA: "TOKA", coinB: worlds.PayCoinA, poolC0: 0, poolC1: worlds.PayTokA, newC0: 1, newC1: 2}
	case world == "coin":
		return params{addr: K("alice").Addr, addr2: K("bob").Addr, pub: P(1), coinA: worlds.CoinTokB, symA: "TOKB", coinB: worlds.CoinCoinA, poolC0: 0, poolC1: worlds.CoinTokB, newC0: worlds.CoinCoinA, newC1: worlds.CoinTokB}
	case strings.HasPrefix(world, "book"):
		return params{addr: K("taker").Addr, addr2: K("m1").Addr, pub: P(1), coinA: 1, symA: "TOK", coinB: 0, poolC0: 0, poolC1: 1, orders: []uint64{1, 2, 4, 7, 10}}
	case strings.HasPrefix(world, "stake"):
		return params{addr: K("d1").Addr, addr2: K("d2").Addr, pub: P(1), coinA: worlds.C16StakeCoin, symA: "STK", coinB: 0, poolC0: 0, poolC1: 0}
	}
	return params{addr: K("alice").Addr, addr2: K("bob").Addr, pub: P(1)}
}

// Catalogue returns the queries available for a world, by name.
func Catalogue(world string) map[string]Query {
	p := worldParams(world)
	ctx := context.Background()
	a1, a2 := p.addr.String(), p.addr2.String()
	q := map[string]Query{}
	add := func(name string, f func(s *service.Service) (proto.Message, error)) { q[name] = Query{Name: name, Call: f} }

	add("Address", func(s *service.Service) (proto.Message, error) {
		return s.Address(ctx, &pb.AddressRequest{Address: a1, Delegated: true})
	})
	add("Addresses", func(s *service.Service) (proto.Message, error) {
		return s.Addresses(ctx, &pb.AddressesRequest{Addresses: []string{a1, a2}, Delegated: true})
	})
	add("Candidate", func(s *service.Service) (proto.Message, error) {
		return s.Candidate(ctx, &pb.CandidateRequest{PublicKey: p.pub.String()})
	})
	add("Candidates", func(s *service.Service) (proto.Message, error) {
		return s.Candidates(ctx, &pb.CandidatesRequest{IncludeStakes: true})
	})
	add("CoinInfo", func(s *service.Service) (proto.Message, error) {
		return s.CoinInfo(ctx, &pb.CoinInfoRequest{Symbol: p.symA})
	})
	add("CoinInfoById", func(s *service.Service) (proto.Message, error) {
		return s.CoinInfoById(ctx, &pb.CoinIdRequest{Id: p.coinA})
	})
	add("SwapPool", func(s *service.Service) (proto.Message, error) {
		return s.SwapPool(ctx, &pb.SwapPoolRequest{Coin0: p.poolC0, Coin1: p.poolC1})
	})
	add("SwapPoolNew", func(s *service.Service) (proto.Message, error) {
		return s.SwapPool(ctx, &pb.SwapPoolRequest{Coin0: p.newC0, Coin1: p.newC1})
	})
	add("SwapPoolProvider", func(s *service.Service) (proto.Message, error) {
		return s.SwapPoolProvider(ctx, &pb.SwapPoolProviderRequest{Coin0: p.poolC0, Coin1: p.poolC1, Provider: worlds.K("vown").Addr.String()})
	})
	add("SwapPools", func(s *service.Service) (proto.Message, error) {
		return s.SwapPools(ctx, &pb.SwapPoolsRequest{Orders: true})
	})
	add("BestTrade", func(s *service.Service) (proto.Message, error) {
		return s.BestTrade(ctx, &pb.BestTradeRequest{SellCoin: p.poolC0, BuyCoin: p.poolC1, Amount: "1000000000000000000", Type: pb.BestTradeRequest_input, MaxDepth: 3})
	})
	add("BestTradeOut", func(s *service.Service) (proto.Message, error) {
		return s.BestTrade(ctx, &pb.BestTradeRequest{SellCoin: p.poolC1, BuyCoin: p.poolC0, Amount: "1000000000000000000", Type: pb.BestTradeRequest_output, MaxDepth: 3})
	})
	add("BestTradeNew", func(s *service.Service) (proto.Message, error) {
		return s.BestTrade(ctx, &pb.BestTradeRequest{SellCoin: p.newC0, BuyCoin: p.newC1, Amount: "1000000000000000000", Type: pb.BestTradeRequest_input, MaxDepth: 4})
	})
	add("LimitOrder", func(s *service.Service) (proto.Message, error) {
		id := uint64(1)
		if len(p.orders) > 0 {
			id = p.orders[0]
		}
		return s.LimitOrder(ctx, &pb.LimitOrderRequest{OrderId: id})
	})
	add("LimitOrders", func(s *service.Service) (proto.Message, error) {
		ids := p.orders
		if len(ids) == 0 {
			ids = []uint64{1, 2}
		}
		return s.LimitOrders(ctx, &pb.LimitOrdersRequest{Ids: ids})
	})
	add("LimitOrdersOfPool", func(s *service.Service) (proto.Message, error) {
		return s.LimitOrdersOfPool(ctx, &pb.LimitOrdersOfPoolRequest{SellCoin: p.poolC1, BuyCoin: p.poolC0, Limit: 5})
	})
	add("LimitOrdersOfPoolRev", func(s *service.Service) (proto.Message, error) {
		return s.LimitOrdersOfPool(ctx, &pb.LimitOrdersOfPoolRequest{SellCoin: p.poolC0, BuyCoin: p.poolC1, Limit: 5})
	})
	add("EstimateCoinSell", func(s *service.Service) (proto.Message, error) {
		return s.EstimateCoinSell(ctx, &pb.EstimateCoinSellRequest{
			Sell: &pb.EstimateCoinSellRequest_CoinIdToSell{CoinIdToSell: p.coinA}, Buy: &pb.EstimateCoinSellRequest_CoinIdToBuy{CoinIdToBuy: 0},
			ValueToSell: "1000000000000000000", Commission: &pb.EstimateCoinSellRequest_CoinIdCommission{CoinIdCommission: 0}})
	})
	add("EstimateCoinBuy", func(s *service.Service) (proto.Message, error) {
		return s.EstimateCoinBuy(ctx, &pb.EstimateCoinBuyRequest{
			Sell: &pb.EstimateCoinBuyRequest_CoinIdToSell{CoinIdToSell: 0}, Buy: &pb.EstimateCoinBuyRequest_CoinIdToBuy{CoinIdToBuy: p.coinA},
			ValueToBuy: "1000000000000000000", Commission: &pb.EstimateCoinBuyRequest_CoinIdCommission{CoinIdCommission: 0}})
	})
	add("EstimateCoinSellAll", func(s *service.Service) (proto.Message, error) {
		return s.EstimateCoinSellAll(ctx, &pb.EstimateCoinSellAllRequest{
			Sell: &pb.EstimateCoinSellAllRequest_CoinIdToSell{CoinIdToSell: p.coinA}, Buy: &pb.EstimateCoinSellAllRequest_CoinIdToBuy{CoinIdToBuy: 0},
			ValueToSell: "5000000000000000000", GasPrice: 1})
	})
	// estimates whose commission is paid in the pool token: the commission conversion runs
	// through the token's BIP pool and its order book (AddLastSwapStepWithOrders on the live pair)
	add("EstimateSellFeeTok", func(s *service.Service) (proto.Message, error) {
		return s.EstimateCoinSell(ctx, &pb.EstimateCoinSellRequest{
			Sell: &pb.EstimateCoinSellRequest_CoinIdToSell{CoinIdToSell: p.coinA}, Buy: &pb.EstimateCoinSellRequest_CoinIdToBuy{CoinIdToBuy: 0},
			ValueToSell: "1000000000000000000", Commission: &pb.EstimateCoinSellRequest_CoinIdCommission{CoinIdCommission: p.coinA}, SwapFrom: pb.SwapFrom_pool})
	})
	add("EstimateBuyFeeTok", func(s *service.Service) (proto.Message, error) {
		return s.EstimateCoinBuy(ctx, &pb.EstimateCoinBuyRequest{
			Sell: &pb.EstimateCoinBuyRequest_CoinIdToSell{CoinIdToSell: p.coinA}, Buy: &pb.EstimateCoinBuyRequest_CoinIdToBuy{CoinIdToBuy: 0},
			ValueToBuy: "1000000000000000000", Commission: &pb.EstimateCoinBuyRequest_CoinIdCommission{CoinIdCommission: p.coinA}, SwapFrom: pb.SwapFrom_pool})
	})
	add("Frozen", func(s *service.Service) (proto.Message, error) {
		return s.Frozen(ctx, &pb.FrozenRequest{Address: a1})
	})
	add("FrozenCoin", func(s *service.Service) (proto.Message, error) {
		return s.Frozen(ctx, &pb.FrozenRequest{Address: a2, CoinId: wrapperspb.UInt64(0)})
	})
	add("WaitList", func(s *service.Service) (proto.Message, error) {
		return s.WaitList(ctx, &pb.WaitListRequest{PublicKey: p.pub.String(), Address: a1})
	})
	add("CommissionVotes", func(s *service.Service) (proto.Message, error) {
		return s.CommissionVotes(ctx, &pb.CommissionVotesRequest{TargetVersion: uint64(worlds.BaseHeight + 20)})
	})
	add("UpdateVotes", func(s *service.Service) (proto.Message, error) {
		return s.UpdateVotes(ctx, &pb.UpdateVotesRequest{TargetVersion: uint64(worlds.BaseHeight + 20)})
	})
	add("Halts", func(s *service.Service) (proto.Message, error) {
		return s.Halts(ctx, &pb.HaltsRequest{Height: uint64(worlds.BaseHeight + 20)})
	})
	add("MissedBlocks", func(s *service.Service) (proto.Message, error) {
		return s.MissedBlocks(ctx, &pb.MissedBlocksRequest{PublicKey: p.pub.String()})
	})
	add("PriceCommission", func(s *service.Service) (proto.Message, error) {
		return s.PriceCommission(ctx, &pb.PriceCommissionRequest{})
	})
	add("MaxGasPrice", func(s *service.Service) (proto.Message, error) {
		return s.MaxGasPrice(ctx, &pb.MaxGasPriceRequest{})
	})
	return q
}

// QueryNames lists the catalogue in a fixed order.
func QueryNames(world string) []string {
	var out []string
	for k := range Catalogue(world) {
		out = append(out, k)
	}
	sort.Strings(out)
	return out
}

// digest renders a handler result: the gRPC status for an error, a hash of the message otherwise.
func digest(m proto.Message, err error) string {
	if err != nil {
		if st, ok := status.FromError(err); ok {
			return "err:" + st.Code().String() + ":" + st.Message()
		}
		return "err:" + err.Error()
	}
	if m == nil {
		return "nil"
	}
	b, e := proto.MarshalOptions{Deterministic: true}.Marshal(m)
	if e != nil {
		return "marshal:" + e.Error()
	}
	h := sha256.Sum256(b)
	return fmt.Sprintf("ok:%d:%s", len(b), hex.EncodeToString(h[:6]))
}
