package scen

import (
	"fmt"
	"sort"
	"strings"

	"verif/worlds"
)

func hasWorld(name string) bool {
	for _, n := range worlds.Names() {
		if n == name {
			return true
		}
	}
	return false
}

// suites: the handler pairs rotated over the tier-A blocks of a world, so that every
// handler of the catalogue meets many different blocks.
var suites = map[string][][]string{
	"pay": {
		{"Address", "SwapPool"}, {"Addresses", "EstimateCoinSell"}, {"CoinInfo", "BestTrade"}, {"Candidates", "Frozen"},
		{"SwapPools", "EstimateCoinBuy"}, {"Candidate", "EstimateCoinSellAll"}, {"WaitList", "CoinInfoById"}, {"SwapPoolProvider", "BestTradeOut"},
		{"CommissionVotes", "Halts"}, {"MissedBlocks", "PriceCommission"}, {"MaxGasPrice", "UpdateVotes"}, {"FrozenCoin", "LimitOrder"},
	},
	"coin": {
		{"SwapPools", "BestTradeNew"}, {"CoinInfo", "EstimateCoinSell"}, {"SwapPoolNew", "BestTrade"}, {"Address", "EstimateCoinBuy"},
		{"CoinInfoById", "EstimateCoinSellAll"}, {"Addresses", "SwapPoolProvider"}, {"BestTradeOut", "SwapPool"}, {"Candidates", "LimitOrders"},
	},
	"book": {
		{"LimitOrdersOfPool", "SwapPools"}, {"LimitOrders", "BestTrade"}, {"LimitOrder", "LimitOrdersOfPoolRev"}, {"EstimateCoinSell", "Address"},
		{"SwapPool", "EstimateCoinBuy"}, {"BestTradeOut", "EstimateCoinSellAll"}, {"EstimateSellFeeTok", "EstimateBuyFeeTok"},
	},
	"stake": {
		{"Candidates", "Address"}, {"Candidate", "Frozen"}, {"Addresses", "WaitList"}, {"MissedBlocks", "FrozenCoin"}, {"CoinInfo", "EstimateCoinSell"},
	},
}

func suiteOf(world string) [][]string {
	for _, k := range []string{"pay", "coin", "book", "stake"} {
		if strings.HasPrefix(world, k) {
			return suites[k]
		}
	}
	return suites["pay"]
}

// TierA lists the zero-preemption scenarios: every menu item of the world as a
// one-transaction block (with CheckTx), with one query thread calling two handlers.
func TierA(tier string) []Spec {
	var out []Spec
	ws := []string{"pay", "coin", "book", "bookdisk", "stake"}
	for _, wn := range ws {
		if !hasWorld(wn) {
			continue
		}
		w := getWorld(wn)
		su := suiteOf(wn)
		for i := range w.Menu {
			it := &w.Menu[i]
			if it.Replay > 0 {
				continue // refers to an earlier delivery; one-block scenarios have none
			}
			if tier == "quick" && (wn == "book" || wn == "bookdisk" || wn == "stake") && i%2 == 1 {
				continue
			}
			sp := Spec{Name: fmt.Sprintf("A/%s/%02d %s", wn, i, it.Name), World: wn, Block: PBlock{Txs: []string{it.Name}}, CheckTx: true,
				Threads: [][]string{su[i%len(su)]}, Bound: 0}
			out = append(out, sp)
		}
	}
	// two transactions and two query threads
	if hasWorld("coin") {
		out = append(out, Spec{Name: "A/coin/2tx create pool + fee through pool | 2 query threads", World: "coin",
			Block: PBlock{Txs: []string{"A create pool COINA/TOKB", "A send 10 TOKB gas TOKB (pool route)"}}, CheckTx: true,
			Threads: [][]string{{"SwapPools", "BestTradeNew"}, {"EstimateCoinSell", "Address"}}})
	}
	if hasWorld("pay") {
		out = append(out, Spec{Name: "A/pay/2tx send gas TOKA + multisend | 2 query threads", World: "pay",
			Block: PBlock{Txs: []string{"A->B 10 BIP gas TOKA", "A multisend B:1BIP C:1COINA"}}, CheckTx: true,
			Threads: [][]string{{"Addresses", "SwapPool"}, {"BestTrade", "CoinInfo"}}})
	}
	return out
}

// TierB lists the scenarios explored with preemptions.
func TierB(tier string) []Spec {
	var out []Spec
	add := func(sp Spec) {
		if hasWorld(sp.World) {
			out = append(out, sp)
		}
	}
	// ---- bound 1 over a whole block
	add(Spec{Name: "B1/coin create pool | SwapPools,BestTradeNew", World: "coin", Block: PBlock{Txs: []string{"A create pool COINA/TOKB"}}, CheckTx: true,
		Threads: [][]string{{"SwapPools", "BestTradeNew"}}, Bound: 1})
	add(Spec{Name: "B1/coin sell COINA (bancor) | EstimateCoinSell,CoinInfo", World: "coin", Block: PBlock{Txs: []string{"B sell 100 COINA"}}, CheckTx: true,
		Threads: [][]string{{"EstimateCoinSell", "CoinInfoById"}}, Bound: 1})
	add(Spec{Name: "B1/pay send, fee through pool | SwapPool,Address", World: "pay", Block: PBlock{Txs: []string{"A->B 10 BIP gas TOKA"}}, CheckTx: true,
		Threads: [][]string{{"SwapPool", "Address"}}, Bound: 1})
	add(Spec{Name: "B1/bookdisk taker sells BIP into paged-in orders | LimitOrdersOfPool,SwapPools", World: "bookdisk", Block: PBlock{Txs: []string{"1000 order and half of the next 2000"}},
		Threads: [][]string{{"LimitOrdersOfPool", "SwapPools"}}, Bound: 1})
	add(Spec{Name: "B1/book add order then cancel | LimitOrders,LimitOrdersOfPool", World: "book", Prefix: []PBlock{{Txs: []string{"m1 sale 1000/1000 (price 1)", "m2 sale 2000/2000 (price 1, equal)"}}},
		Block: PBlock{Txs: []string{"m1 cancels order 1"}}, CheckTx: true, Threads: [][]string{{"LimitOrders", "LimitOrdersOfPool"}}, Bound: 1})
	add(Spec{Name: "B1/book add limit order | BestTrade,SwapPools", World: "book", Block: PBlock{Txs: []string{"m1 sale 1000/1000 (price 1)"}}, CheckTx: true,
		Threads: [][]string{{"BestTrade", "SwapPools"}}, Bound: 1})
	if tier != "quick" {
		add(Spec{Name: "B1/stake delegate | Candidate,WaitList", World: "stake", Block: PBlock{Txs: []string{"d1 delegate 100 BIP to c1"}}, CheckTx: true,
			Threads: [][]string{{"Candidate", "WaitList"}}, Bound: 1})
		add(Spec{Name: "B1/stake unbond at the payout boundary | Candidate,MissedBlocks", World: "stake", Prefix: []PBlock{{Txs: []string{"d1 delegate 100 BIP to c1"}}},
			Block: PBlock{Txs: []string{"d1 unbond 100 of 3333.3 BIP from c1"}}, Threads: [][]string{{"Candidate", "MissedBlocks"}}, Bound: 1})
		add(Spec{Name: "B1/coin create pool | 2 query threads BestTradeNew / SwapPoolNew", World: "coin",
			Block:   PBlock{Txs: []string{"A create pool COINA/TOKB"}},
			Threads: [][]string{{"BestTradeNew"}, {"SwapPoolNew"}}, Bound: 1})
		add(Spec{Name: "B1/coin recreate COINA | CoinInfo,EstimateCoinBuy", World: "coin", Block: PBlock{Txs: []string{"A recreate COINA"}}, CheckTx: true,
			Threads: [][]string{{"CoinInfoById", "EstimateCoinBuy"}}, Bound: 1})
		add(Spec{Name: "B1/coin mint TOKB | CoinInfo,SwapPoolProvider", World: "coin", Block: PBlock{Txs: []string{"A mint 10 TOKB (to max)"}}, CheckTx: true,
			Threads: [][]string{{"CoinInfo", "SwapPoolProvider"}}, Bound: 1})
		add(Spec{Name: "B1/coin sell all MAXED gas MAXED | EstimateCoinSellAll,BestTradeOut", World: "coin", Block: PBlock{Txs: []string{"B sell all MAXED gas MAXED"}}, CheckTx: true,
			Threads: [][]string{{"EstimateCoinSellAll", "BestTradeOut"}}, Bound: 1})
		add(Spec{Name: "B1/pay redeem check | Addresses", World: "pay", Block: PBlock{Txs: []string{"B redeems A's check"}}, CheckTx: true,
			Threads: [][]string{{"Addresses"}}, Bound: 1})
		add(Spec{Name: "B1/pay lock due first block | FrozenCoin", World: "pay", Block: PBlock{Txs: []string{"A lock 10 BIP due+1 (due = first block)"}}, CheckTx: true,
			Threads: [][]string{{"FrozenCoin"}}, Bound: 1})
		add(Spec{Name: "B1/pay multisig edit | Address,Candidates", World: "pay", Block: PBlock{Txs: []string{"M edit multisig thr3 by[A,B]"}}, CheckTx: true,
			Threads: [][]string{{"Addresses", "Candidates"}}, Bound: 1})
		add(Spec{Name: "B1/bookdisk taker buys TOK | SwapPools,LimitOrders", World: "bookdisk", Block: PBlock{Txs: []string{"taker buys"}},
			Threads: [][]string{{"SwapPools", "LimitOrders"}}, Bound: 1})
		add(Spec{Name: "B1/bookdisk cancel best order | LimitOrdersOfPool,LimitOrder", World: "bookdisk", Block: PBlock{Txs: []string{"m1 cancels order 2"}},
			Threads: [][]string{{"LimitOrdersOfPool", "LimitOrder"}}, Bound: 1})
		add(Spec{Name: "B1/book expiry boundary | LimitOrdersOfPool,SwapPools", World: "book", Prefix: []PBlock{{Txs: []string{"m1 sale 1000/1000 (price 1)", "m1 buy-order 1000/1000 (price 1)"}}},
			Block: PBlock{Env: 1}, Threads: [][]string{{"LimitOrdersOfPool", "SwapPools"}}, Bound: 1})
		add(Spec{Name: "B1/stake move stake | Candidate,Frozen", World: "stake", Block: PBlock{Txs: []string{"d1 move 100 BIP c1->c2"}}, CheckTx: true,
			Threads: [][]string{{"Candidate", "Frozen"}}, Bound: 1})
		add(Spec{Name: "B1/stake set candidate off at the boundary | Candidate,MissedBlocks", World: "stake", Prefix: []PBlock{{}},
			Block: PBlock{Txs: []string{"o3 sets c3 off (owner)"}}, Threads: [][]string{{"Candidate", "MissedBlocks"}}, Bound: 1})
		add(Spec{Name: "B1/stake declare candidacy | Candidates", World: "stake", Block: PBlock{Txs: []string{"d2 declares candidate 15 with 1200 BIP"}}, CheckTx: true,
			Threads: [][]string{{"Candidates"}}, Bound: 1})
		add(Spec{Name: "B1/stake evidence block | Candidate,WaitList", World: "stake", Block: PBlock{Env: 3},
			Threads: [][]string{{"Candidate", "WaitList"}}, Bound: 1})
	}
	// ---- bound 2 on a single ABCI call against a single handler call
	add(Spec{Name: "B2/coin DeliverTx(create pool) | BestTradeNew", World: "coin", Block: PBlock{Txs: []string{"A create pool COINA/TOKB"}},
		Threads: [][]string{{"BestTradeNew"}}, Span: "DeliverTx", Bound: 2})
	add(Spec{Name: "B2/coin Commit(create pool) | SwapPools", World: "coin", Block: PBlock{Txs: []string{"A create pool COINA/TOKB"}},
		Threads: [][]string{{"SwapPools"}}, Span: "Commit", Bound: 2})
	add(Spec{Name: "B2/bookdisk DeliverTx(taker sells) | LimitOrdersOfPool", World: "bookdisk", Block: PBlock{Txs: []string{"1000 order and half of the next 2000"}},
		Threads: [][]string{{"LimitOrdersOfPool"}}, Span: "DeliverTx", Bound: 2})
	add(Spec{Name: "B2/bookdisk Commit(taker sells) | SwapPools", World: "bookdisk", Block: PBlock{Txs: []string{"1000 order and half of the next 2000"}},
		Threads: [][]string{{"SwapPools"}}, Span: "Commit", Bound: 2})
	add(Spec{Name: "B2/stake DeliverTx(delegate) | Candidate", World: "stake", Block: PBlock{Txs: []string{"d1 delegate 100 BIP to c1"}},
		Threads: [][]string{{"Candidate"}}, Span: "DeliverTx", Bound: 2})
	add(Spec{Name: "B2/pay DeliverTx(send, fee through pool) | BestTrade", World: "pay", Block: PBlock{Txs: []string{"A->B 10 BIP gas TOKA"}},
		Threads: [][]string{{"BestTrade"}}, Span: "DeliverTx", Bound: 2})
	// an estimate paying its commission through the order book of the pool whose orders the block made dirty
	add(Spec{Name: "B2/book Commit(second buy-order) | EstimateSellFeeTok", World: "book", Prefix: []PBlock{{Txs: []string{"m1 buy-order 1000/1000 (price 1)"}}},
		Block: PBlock{Txs: []string{"m3 buy-order 500/500 (price 1, equal)"}}, Threads: [][]string{{"EstimateSellFeeTok"}}, Span: "Commit", Bound: 2})
	add(Spec{Name: "B1/book taker sells TOK into the buy-order | EstimateSellFeeTok,EstimateBuyFeeTok", World: "book", Prefix: []PBlock{{Txs: []string{"m1 buy-order 1000/1000 (price 1)"}}},
		Block: PBlock{Txs: []string{"m3 buy-order 500/500 (price 1, equal)"}}, Threads: [][]string{{"EstimateSellFeeTok", "EstimateBuyFeeTok"}}, Bound: 1})
	if tier != "quick" {
		add(Spec{Name: "B2/pay DeliverTx(send, fee through pool) | EstimateCoinSell", World: "pay", Block: PBlock{Txs: []string{"A->B 10 BIP gas TOKA"}},
			Threads: [][]string{{"EstimateCoinSell"}}, Span: "DeliverTx", Bound: 2})
		add(Spec{Name: "B2/pay Commit(send) | SwapPool", World: "pay", Block: PBlock{Txs: []string{"A->B 10 BIP gas TOKA"}},
			Threads: [][]string{{"SwapPool"}}, Span: "Commit", Bound: 2})
		add(Spec{Name: "B2/stake EndBlock(payout boundary) | Candidate", World: "stake", Prefix: []PBlock{{Txs: []string{"d1 delegate 100 BIP to c1"}}},
			Block: PBlock{}, Threads: [][]string{{"Candidate"}}, Span: "EndBlock", Bound: 2})
		add(Spec{Name: "B2/stake Commit(payout boundary) | Candidate", World: "stake", Prefix: []PBlock{{Txs: []string{"d1 delegate 100 BIP to c1"}}},
			Block: PBlock{}, Threads: [][]string{{"Candidate"}}, Span: "Commit", Bound: 2})
		add(Spec{Name: "B2/book DeliverTx(cancel) | LimitOrders", World: "book", Prefix: []PBlock{{Txs: []string{"m1 sale 1000/1000 (price 1)"}}},
			Block: PBlock{Txs: []string{"m1 cancels order 1"}}, Threads: [][]string{{"LimitOrders"}}, Span: "DeliverTx", Bound: 2})
		add(Spec{Name: "B2/coin DeliverTx(recreate COINA) | CoinInfo", World: "coin", Block: PBlock{Txs: []string{"A recreate COINA"}},
			Threads: [][]string{{"CoinInfo"}}, Span: "DeliverTx", Bound: 2})
	}
	return out
}

// List returns all scenarios of a tier in a fixed order.
func List(tier string) []Spec {
	// cheap and broad first: tier A, then the single-call scenarios (B2), then whole blocks (B1)
	out := TierA(tier)
	b := TierB(tier)
	for _, s := range b {
		if s.Bound == 2 {
			out = append(out, s)
		}
	}
	for _, s := range b {
		if s.Bound != 2 {
			out = append(out, s)
		}
	}
	seen := map[string]bool{}
	for _, s := range out {
		if seen[s.Name] {
			panic("duplicate scenario name " + s.Name)
		}
		seen[s.Name] = true
	}
	return out
}

// ByName finds a scenario in either tier.
func ByName(name string) (Spec, bool) {
	for _, t := range []string{"thorough", "quick"} {
		for _, s := range List(t) {
			if s.Name == name {
				return s, true
			}
		}
	}
	return Spec{}, false
}

// RaceScenarios are the scenarios of the free-running -race pass.
func RaceScenarios(tier string) []Spec {
	var out []Spec
	for _, s := range TierB(tier) {
		if s.Span == "" {
			out = append(out, s)
		}
	}
	sort.SliceStable(out, func(i, j int) bool { return false })
	return out
}
