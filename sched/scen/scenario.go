package scen

import (
	"fmt"
	"os"
	"runtime/debug"
	"sort"
	"strings"
	"sync"

	"github.com/MinterTeam/minter-go-node/api/v2/service"
	"github.com/MinterTeam/minter-go-node/config"
	abci "github.com/tendermint/tendermint/abci/types"

	"verif/explore"
	"verif/lab"
	"verif/sched"
	"verif/worlds"
)

// PBlock is a block given by menu item names.
type PBlock struct {
	Env int      `json:"env"`
	Txs []string `json:"txs"`
}

// Spec describes a scenario.
type Spec struct {
	Name    string     `json:"name"`
	World   string     `json:"world"`
	Prefix  []PBlock   `json:"prefix,omitempty"` // executed before, without scheduler
	Block   PBlock     `json:"block"`            // the block executed by thread 0
	CheckTx bool       `json:"check_tx"`         // CheckTx right before every DeliverTx
	Threads [][]string `json:"threads"`          // query names per query thread
	// Span restricts the part of the block that runs under the scheduler to the
	// ABCI calls whose name has this prefix ("" = the whole block). The calls before
	// run without scheduler before the threads start, the calls after afterwards.
	Span  string `json:"span,omitempty"`
	Bound int    `json:"bound"`
}

// Instance is a resolved scenario (per process).
type Instance struct {
	Spec    Spec
	W       *worlds.World
	prefix  explore.History
	block   explore.Block
	queries [][]Query
	txBytes [][]byte
	Ref     *Obs
	Skip    string // non-empty: the scenario cannot be built (missing world / menu item)
}

var (
	worldCache = map[string]*worlds.World{}
	worldMu    sync.Mutex
)

func getWorld(name string) *worlds.World {
	worldMu.Lock()
	defer worldMu.Unlock()
	if w, ok := worldCache[name]; ok {
		return w
	}
	found := false
	for _, n := range worlds.Names() {
		if n == name {
			found = true
		}
	}
	if !found {
		return nil
	}
	w := worlds.Get(name)
	worldCache[name] = w
	return w
}

func findItem(w *worlds.World, name string) int {
	for i := range w.Menu {
		if w.Menu[i].Name == name {
			return i
		}
	}
	for i := range w.Menu {
		if strings.Contains(w.Menu[i].Name, name) {
			return i
		}
	}
	return -1
}

// CallObs is the observation of one ABCI call.
type CallObs struct {
	Name   string `json:"name"`
	Result string `json:"result"`
	Fault  string `json:"fault,omitempty"`
	Top    string `json:"top,omitempty"`
}

// QueryObs is the observation of one handler call.
type QueryObs struct {
	Name   string `json:"name"`
	Result string `json:"result"`
	Panic  string `json:"panic,omitempty"`
	Top    string `json:"top,omitempty"`
	Stack  string `json:"stack,omitempty"`
}

// Obs is everything observed in one execution.
type Obs struct {
	Calls   []CallObs    `json:"calls"`
	AppHash string       `json:"app_hash"`
	Next    string       `json:"next_block"` // app hash (or fault) of the empty block executed afterwards
	Queries [][]QueryObs `json:"queries,omitempty"`
}

// BlockString renders the part that must equal the query-free run.
func (o *Obs) BlockString() string {
	var b strings.Builder
	for _, c := range o.Calls {
		fmt.Fprintf(&b, "%s => %s", c.Name, c.Result)
		if c.Fault != "" {
			fmt.Fprintf(&b, " FAULT %s", c.Fault)
		}
		b.WriteString("\n")
	}
	fmt.Fprintf(&b, "app hash %s\nnext block %s\n", o.AppHash, o.Next)
	return b.String()
}

// FirstDiff names the first field in which two observations differ ("" if none).
func FirstDiff(ref, got *Obs) (field, a, b string) {
	for i := range ref.Calls {
		if i >= len(got.Calls) {
			return "calls-missing", ref.Calls[i].Name, ""
		}
		x, y := ref.Calls[i], got.Calls[i]
		if x.Fault != y.Fault {
			return callClass(x.Name) + "-fault", x.Fault, y.Fault
		}
		if x.Result != y.Result {
			return callClass(x.Name) + "-response", x.Result, y.Result
		}
	}
	if ref.AppHash != got.AppHash {
		return "app-hash", ref.AppHash, got.AppHash
	}
	if ref.Next != got.Next {
		return "next-block-app-hash", ref.Next, got.Next
	}
	return "", "", ""
}

func callClass(name string) string {
	if i := strings.Index(name, "#"); i >= 0 {
		return name[:i]
	}
	return name
}

func tagsString(evs []abci.Event) string {
	var parts []string
	for _, e := range evs {
		for _, a := range e.Attributes {
			parts = append(parts, string(a.Key)+"="+string(a.Value))
		}
	}
	return strings.Join(parts, ";")
}

// New resolves a scenario and computes its query-free reference run.
func New(sp Spec) *Instance {
	in := &Instance{Spec: sp}
	w := getWorld(sp.World)
	if w == nil {
		in.Skip = "world " + sp.World + " not registered"
		return in
	}
	in.W = w
	conv := func(b PBlock) (explore.Block, bool) {
		out := explore.Block{Env: b.Env}
		if b.Env >= len(w.Envs) {
			in.Skip = fmt.Sprintf("world %s has no environment %d", sp.World, b.Env)
			return out, false
		}
		for _, n := range b.Txs {
			i := findItem(w, n)
			if i < 0 {
				in.Skip = fmt.Sprintf("world %s has no menu item %q", sp.World, n)
				return out, false
			}
			out.Txs = append(out.Txs, i)
		}
		return out, true
	}
	for _, b := range sp.Prefix {
		eb, ok := conv(b)
		if !ok {
			return in
		}
		in.prefix = append(in.prefix, eb)
	}
	var ok bool
	if in.block, ok = conv(sp.Block); !ok {
		return in
	}
	cat := Catalogue(sp.World)
	for _, th := range sp.Threads {
		var qs []Query
		for _, n := range th {
			q, ok := cat[n]
			if !ok {
				in.Skip = "unknown query " + n
				return in
			}
			qs = append(qs, q)
		}
		in.queries = append(in.queries, qs)
	}
	// transaction bytes: rendered against the state the block meets (nonces), by the explorer's runner
	r := explore.NewRunner(w, explore.Opts{NoDisk: true})
	if r.Tr.Fault != nil {
		in.Skip = "node does not start: " + r.Tr.Fault.String()
		return in
	}
	for _, b := range in.prefix {
		if !r.Block(b, false) {
			in.Skip = "prefix block faults: " + r.Tr.Fault.String()
			r.N.Release()
			return in
		}
	}
	st, _ := r.Open(in.block)
	if st != nil {
		for _, x := range st.Txs {
			in.txBytes = append(in.txBytes, x.Bytes)
		}
	}
	r.N.Release()
	// the query-free run through the same driver as the runs with queries
	_, in.Ref = in.Execute(nil, sched.Options{}, ModeDetached)
	return in
}

// Execution modes.
const (
	ModeDetached = iota // no scheduler, no query threads: the query-free run
	ModeSched           // cooperative scheduler
	ModeFree            // real goroutines (race pass); see ExecuteFree
)

type call struct {
	name string
	run  func() CallObs
}

type prepared struct {
	n       *lab.Node
	svc     *service.Service
	calls   []call
	from    int
	to      int
	obs     *Obs
	cleanup func()
}

func faultOf(c *CallObs, f *lab.Fault) {
	if f != nil {
		c.Fault = fmt.Sprintf("%s: %s", f.Kind, f.Value)
		c.Top = f.Top
		if strings.Contains(f.Value, "vsync: model/real mismatch") {
			sched.Fatal("%s", f.Value)
		}
	}
}

// prepare builds a fresh node at the state the scenario block meets.
func (in *Instance) prepare() *prepared {
	w := in.W
	r := explore.NewRunner(w, explore.Opts{NoDisk: true})
	if r.Tr.Fault != nil {
		sched.Fatal("scenario %s: node does not start: %s", in.Spec.Name, r.Tr.Fault)
	}
	for _, b := range in.prefix {
		if !r.Block(b, false) {
			sched.Fatal("scenario %s: prefix block faults: %s", in.Spec.Name, r.Tr.Fault)
		}
	}
	n := r.N
	es := w.Envs[in.block.Env]
	for i := 0; i < es.FF; i++ {
		if o := n.RunBlock(lab.Env{}, nil); o.Fault != nil {
			sched.Fatal("scenario %s: fast-forward block faults: %s", in.Spec.Name, o.Fault)
		}
	}
	env := es.Env
	if es.Dyn != nil {
		env = es.Dyn(n)
	}
	p := &prepared{n: n, obs: &Obs{}}
	p.cleanup = func() { n.Release() }
	cfg := config.DefaultConfig()
	p.svc = service.NewService(n.App, nil, nil, cfg, "verif", n.App.RewardCounter())
	p.calls = append(p.calls, call{"BeginBlock", func() CallObs {
		c := CallObs{Name: "BeginBlock"}
		faultOf(&c, n.Begin(env))
		return c
	}})
	for i, tx := range in.txBytes {
		i, tx := i, tx
		if in.Spec.CheckTx {
			name := fmt.Sprintf("CheckTx#%d", i)
			p.calls = append(p.calls, call{name, func() CallObs {
				c := CallObs{Name: name}
				resp, f := n.Check(tx)
				faultOf(&c, f)
				c.Result = fmt.Sprintf("code=%d log=%q gas=%d/%d", resp.Code, resp.Log, resp.GasWanted, resp.GasUsed)
				return c
			}})
		}
		name := fmt.Sprintf("DeliverTx#%d", i)
		p.calls = append(p.calls, call{name, func() CallObs {
			c := CallObs{Name: name}
			resp, f := n.Deliver(tx)
			faultOf(&c, f)
			c.Result = fmt.Sprintf("code=%d log=%q data=%x gas=%d/%d tags=%s", resp.Code, resp.Log, resp.Data, resp.GasWanted, resp.GasUsed, tagsString(resp.Events))
			return c
		}})
	}
	p.calls = append(p.calls, call{"EndBlock", func() CallObs {
		c := CallObs{Name: "EndBlock"}
		resp, f := n.End()
		faultOf(&c, f)
		var vu []string
		for _, v := range resp.ValidatorUpdates {
			vu = append(vu, fmt.Sprintf("%x:%d", v.PubKey.GetEd25519(), v.Power))
		}
		c.Result = "updates=" + strings.Join(vu, ",")
		if cp := resp.ConsensusParamUpdates; cp != nil && cp.Block != nil {
			c.Result += fmt.Sprintf(" maxgas=%d", cp.Block.MaxGas)
		}
		return c
	}})
	p.calls = append(p.calls, call{"Commit", func() CallObs {
		c := CallObs{Name: "Commit"}
		h, f := n.Commit()
		faultOf(&c, f)
		c.Result = fmt.Sprintf("%x", h)
		p.obs.AppHash = c.Result
		return c
	}})
	p.from, p.to = 0, len(p.calls)
	if in.Spec.Span != "" {
		p.from, p.to = -1, -1
		for i, c := range p.calls {
			if strings.HasPrefix(c.name, in.Spec.Span) {
				if p.from < 0 {
					p.from = i
				}
				p.to = i + 1
			}
		}
		if p.from < 0 {
			sched.Fatal("scenario %s: span %q matches no call", in.Spec.Name, in.Spec.Span)
		}
	}
	return p
}

func (p *prepared) do(i int) {
	p.obs.Calls = append(p.obs.Calls, p.calls[i].run())
}

// finish runs the calls after the span and one more (empty) block.
func (p *prepared) finish() {
	for i := p.to; i < len(p.calls); i++ {
		p.do(i)
	}
	o := p.n.RunBlock(lab.Env{}, nil)
	if o.Fault != nil {
		p.obs.Next = "FAULT " + o.Fault.String()
	} else {
		p.obs.Next = fmt.Sprintf("%x", o.AppHash)
	}
}

// runQuery calls one handler and converts a panic into an observation.
func runQuery(svc *service.Service, q Query) (qo QueryObs) {
	qo.Name = q.Name
	defer func() {
		if v := recover(); v != nil {
			qo.Panic = fmt.Sprint(v)
			qo.Stack = string(debug.Stack())
			qo.Top = topRepoFrame(qo.Stack)
			if m, ok := v.(interface{ Error() string }); ok && strings.Contains(m.Error(), "vsync: model/real mismatch") {
				sched.Fatal("%s", m.Error())
			}
		}
	}()
	qo.Result = digest(q.Call(svc))
	return qo
}

func topRepoFrame(stack string) string {
	lines := strings.Split(stack, "\n")
	seenPanic := false
	for _, l := range lines {
		if strings.HasPrefix(l, "panic(") {
			seenPanic = true
			continue
		}
		if !seenPanic {
			continue
		}
		if strings.HasPrefix(l, "github.com/MinterTeam/minter-go-node/") {
			fn := strings.TrimPrefix(l, "github.com/MinterTeam/minter-go-node/")
			if j := strings.LastIndex(fn, "("); j > 0 {
				fn = fn[:j]
			}
			return fn
		}
	}
	return "?"
}

// Execute runs the scenario once on a fresh node. In ModeDetached no query runs.
func (in *Instance) Execute(devs []sched.Dev, opt sched.Options, mode int) (*sched.Result, *Obs) {
	p := in.prepare()
	defer p.cleanup()
	for i := 0; i < p.from; i++ {
		p.do(i)
	}
	var res *sched.Result
	if mode == ModeDetached {
		for i := p.from; i < p.to; i++ {
			p.do(i)
		}
	} else {
		p.obs.Queries = make([][]QueryObs, len(in.queries))
		threads := []sched.ThreadSpec{{Name: "block", Body: func() {
			for i := p.from; i < p.to; i++ {
				if i > p.from {
					sched.Boundary(p.calls[i].name)
				}
				p.do(i)
			}
		}}}
		for ti, qs := range in.queries {
			ti, qs := ti, qs
			threads = append(threads, sched.ThreadSpec{Name: fmt.Sprintf("query%d", ti+1), Body: func() {
				for qi, q := range qs {
					if qi > 0 {
						sched.Boundary("query:" + q.Name)
					}
					p.obs.Queries[ti] = append(p.obs.Queries[ti], runQuery(p.svc, q))
				}
			}})
		}
		res = sched.Run(opt, devs, threads)
		if res.Deadlock != nil || res.Fatal != "" || res.Horizon {
			// threads are stuck inside the node: nothing more can be observed
			return res, p.obs
		}
	}
	p.finish()
	return res, p.obs
}

// Outcome is a compact classification of an execution (for the "distinct outcomes" count).
func Outcome(res *sched.Result, o *Obs) string {
	var parts []string
	for _, c := range o.Calls {
		r := c.Result
		if i := strings.Index(r, " "); i > 0 {
			r = r[:i]
		}
		parts = append(parts, r)
	}
	s := strings.Join(parts, ",") + "|" + o.AppHash
	for _, th := range o.Queries {
		for _, q := range th {
			s += "|" + q.Name + "=" + q.Result
			if q.Panic != "" {
				s += "!panic"
			}
		}
	}
	if res != nil && res.Deadlock != nil {
		s += "|deadlock"
	}
	return s
}

// Strict makes handler panics violations (VERIF_C25_STRICT=1).
var Strict = os.Getenv("VERIF_C25_STRICT") == "1"

// Violation is what the oracle found in one execution.
type Violation struct {
	Kind      string `json:"kind"` // panic | deadlock | divergence | fatal | handler-panic (warning only)
	Signature string `json:"signature"`
	Detail    string `json:"detail"`
}

// Judge applies the oracle: no panic / fatal / deadlock in any thread, block observations equal to the query-free run.
func (in *Instance) Judge(res *sched.Result, o *Obs) []Violation {
	var out []Violation
	qnames := func() string {
		var n []string
		for _, th := range in.Spec.Threads {
			n = append(n, strings.Join(th, "+"))
		}
		return strings.Join(n, "/")
	}
	if res != nil && res.Deadlock != nil {
		sig := ""
		if len(res.Deadlock.Recursive) > 0 {
			// a recursive read lock with a writer in between: one defect whichever writer it was
			rc := res.Deadlock.Recursive[0]
			sig = "deadlock|recursive-read-lock|" + funcOfSite(rc[0]) + "|" + funcOfSite(rc[1])
		} else {
			src := res.Deadlock.Cycle
			if len(src) == 0 {
				src = res.Deadlock.Sites
			}
			sites := funcsOf(src)
			sort.Strings(sites)
			sig = "deadlock|" + strings.Join(sites, "|")
		}
		out = append(out, Violation{Kind: "deadlock", Signature: sig,
			Detail: "no enabled thread while some are unfinished:\n  " + strings.Join(res.Deadlock.Waiting, "\n  ")})
		return out
	}
	if res != nil && res.Fatal != "" {
		out = append(out, Violation{Kind: "fatal", Signature: "fatal|" + res.Fatal, Detail: res.Fatal})
		return out
	}
	if res != nil {
		for _, p := range res.Panics {
			out = append(out, Violation{Kind: "panic", Signature: "panic|harness-thread|" + p.Thread, Detail: p.Value + "\n" + p.Stack})
		}
	}
	// A panic inside a handler goroutine is recovered by the gRPC recovery interceptor of the real
	// server (api/v2/v2.go: grpc_recovery.UnaryServerInterceptor) and answered with codes.Internal:
	// the node survives. It is therefore a warning ("handler-panic"), not a C25 violation, unless
	// VERIF_C25_STRICT=1. What such a panic leaves behind (a lock still held, a half-written cache)
	// is judged by the rest of the execution: deadlock / divergence of the block.
	for _, th := range o.Queries {
		for _, q := range th {
			if q.Panic != "" {
				v := Violation{Kind: "handler-panic", Signature: fmt.Sprintf("handler-panic|%s|%s", q.Name, q.Top),
					Detail: fmt.Sprintf("handler %s panicked: %s\n%s", q.Name, q.Panic, q.Stack)}
				if Strict {
					v.Kind = "panic"
				}
				out = append(out, v)
			}
		}
	}
	refFaults := map[string]bool{}
	for _, c := range in.Ref.Calls {
		if c.Fault != "" {
			refFaults[c.Name] = true
		}
	}
	for _, c := range o.Calls {
		if c.Fault != "" && !refFaults[c.Name] {
			out = append(out, Violation{Kind: "panic", Signature: fmt.Sprintf("panic|%s|%s", callClass(c.Name), c.Top),
				Detail: fmt.Sprintf("%s ended with %s (top frame %s); the query-free run of the same block does not fault", c.Name, c.Fault, c.Top)})
			return out
		}
	}
	if strings.HasPrefix(o.Next, "FAULT") && o.Next != in.Ref.Next {
		out = append(out, Violation{Kind: "panic", Signature: "panic|next-block", Detail: "the empty block after the scenario block: " + o.Next})
		return out
	}
	if f, a, b := FirstDiff(in.Ref, o); f != "" {
		out = append(out, Violation{Kind: "divergence", Signature: fmt.Sprintf("divergence|%s|%s", f, qnames()),
			Detail: fmt.Sprintf("block observations differ from the query-free run in %s:\n  query-free: %s\n  with queries: %s\n--- query-free run\n%s--- this run\n%s", f, a, b, in.Ref.BlockString(), o.BlockString())})
	}
	return out
}

// funcOfSite keeps the function of a site name "file:line (func)".
func funcOfSite(s string) string {
	if i := strings.Index(s, " ("); i >= 0 && strings.HasSuffix(s, ")") {
		return s[i+2 : len(s)-1]
	}
	return s
}

func funcsOf(sites []string) []string {
	var out []string
	for _, s := range sites {
		out = append(out, funcOfSite(s))
	}
	return out
}
