package encoding

import (
	"fmt"
	"math/big"
)

// Layout is the byte layout of an honest original (computed with the independent reader).
type Layout struct {
	Kind   string
	N      int
	Fields []Item // top-level fields
	region []string
	// signature triples (v,r,s items); one for single-signature transactions and checks, one per member for multisig
	Sigs [][3]Item
	// offsets inside the whole byte string where the signature region starts/ends
	SigStart, SigEnd int
	// Structural are the positions of the signature region that carry structure:
	// every header byte, the v byte(s), first and last byte of every r and s.
	Structural []int
	Body       []int // the other positions of the signature region
}

// Region names the region of byte position p (p==N: the position after the last byte).
func (l *Layout) Region(p int) string {
	if p >= l.N {
		p = l.N - 1
	}
	if p < 0 {
		p = 0
	}
	return l.region[p]
}

// NewLayout parses an honest original.
func NewLayout(kind string, x []byte) (*Layout, error) {
	l := &Layout{Kind: kind, N: len(x), region: make([]string, len(x))}
	top, err := ParseItem(x, 0, len(x))
	if err != nil || !top.List || top.End != len(x) {
		return nil, fmt.Errorf("original is not one list: %v", err)
	}
	l.Fields, err = Children(x, top)
	if err != nil {
		return nil, err
	}
	mark := func(from, to int, name string) {
		for i := from; i < to; i++ {
			l.region[i] = name
		}
	}
	structural := map[int]bool{}
	triple := func(v, r, s Item) {
		l.Sigs = append(l.Sigs, [3]Item{v, r, s})
		for p := v.Hdr; p < v.End; p++ {
			structural[p] = true
		}
		for _, it := range []Item{r, s} {
			for p := it.Hdr; p < it.Start; p++ {
				structural[p] = true
			}
			structural[it.Start] = true
			structural[it.End-1] = true
		}
	}
	if kind == "check" {
		if len(l.Fields) != 10 {
			return nil, fmt.Errorf("check with %d fields", len(l.Fields))
		}
		// Nonce ChainID DueBlock Coin Value GasCoin | Lock | V R S
		mark(0, l.Fields[0].Hdr, "header")
		mark(l.Fields[0].Hdr, l.Fields[5].End, "data")
		mark(l.Fields[6].Hdr, l.Fields[6].End, "payload")
		mark(l.Fields[7].Hdr, l.N, "sig")
		l.SigStart, l.SigEnd = l.Fields[7].Hdr, l.N
		triple(l.Fields[7], l.Fields[8], l.Fields[9])
	} else {
		if len(l.Fields) != 10 {
			return nil, fmt.Errorf("tx with %d fields", len(l.Fields))
		}
		mark(0, l.Fields[4].End, "header")
		mark(l.Fields[5].Hdr, l.Fields[5].End, "data")
		mark(l.Fields[6].Hdr, l.Fields[7].End, "payload")
		mark(l.Fields[8].Hdr, l.Fields[8].End, "sigtype")
		mark(l.Fields[9].Hdr, l.N, "sig")
		sd := l.Fields[9]
		l.SigStart, l.SigEnd = sd.Hdr, l.N
		for p := sd.Hdr; p < sd.Start; p++ {
			structural[p] = true
		}
		inner, err := ParseItem(x, sd.Start, sd.End)
		if err != nil || !inner.List {
			return nil, fmt.Errorf("signature data: %v", err)
		}
		for p := inner.Hdr; p < inner.Start; p++ {
			structural[p] = true
		}
		ch, err := Children(x, inner)
		if err != nil {
			return nil, err
		}
		st := x[l.Fields[8].Start:l.Fields[8].End]
		if len(st) == 1 && st[0] == 2 {
			if len(ch) != 2 || !ch[1].List {
				return nil, fmt.Errorf("multisig layout")
			}
			for p := ch[0].Hdr; p < ch[0].Start; p++ {
				structural[p] = true
			}
			structural[ch[0].Start] = true
			structural[ch[0].End-1] = true
			for p := ch[1].Hdr; p < ch[1].Start; p++ {
				structural[p] = true
			}
			members, err := Children(x, ch[1])
			if err != nil {
				return nil, err
			}
			for _, m := range members {
				for p := m.Hdr; p < m.Start; p++ {
					structural[p] = true
				}
				vrs, err := Children(x, m)
				if err != nil || len(vrs) != 3 {
					return nil, fmt.Errorf("multisig member layout")
				}
				triple(vrs[0], vrs[1], vrs[2])
			}
		} else {
			if len(ch) != 3 {
				return nil, fmt.Errorf("signature layout")
			}
			triple(ch[0], ch[1], ch[2])
		}
	}
	for p := l.SigStart; p < l.SigEnd; p++ {
		if structural[p] {
			l.Structural = append(l.Structural, p)
		} else {
			l.Body = append(l.Body, p)
		}
	}
	return l, nil
}

// VRS returns the integer values of signature triple i.
func (l *Layout) VRS(x []byte, i int) (v, r, s *big.Int) {
	t := l.Sigs[i]
	g := func(it Item) *big.Int { return new(big.Int).SetBytes(x[it.Start:it.End]) }
	return g(t[0]), g(t[1]), g(t[2])
}

// Rebuild assembles the byte string with the (already RLP-encoded) items v,r,s put in place of signature triple i.
func (l *Layout) Rebuild(x []byte, i int, v, r, s []byte) []byte {
	raw := func(it Item) []byte { return x[it.Hdr:it.End] }
	var items [][]byte
	if l.Kind == "check" {
		for _, f := range l.Fields[:7] {
			items = append(items, raw(f))
		}
		items = append(items, v, r, s)
		return EncList(items...)
	}
	for _, f := range l.Fields[:9] {
		items = append(items, raw(f))
	}
	st := x[l.Fields[8].Start:l.Fields[8].End]
	var sd []byte
	if len(st) == 1 && st[0] == 2 {
		inner, _ := ParseItem(x, l.Fields[9].Start, l.Fields[9].End)
		ch, _ := Children(x, inner)
		var members [][]byte
		for j, t := range l.Sigs {
			if j == i {
				members = append(members, EncList(v, r, s))
			} else {
				members = append(members, EncList(raw(t[0]), raw(t[1]), raw(t[2])))
			}
		}
		sd = EncList(raw(ch[0]), EncList(members...))
	} else {
		sd = EncList(v, r, s)
	}
	items = append(items, EncStr(sd))
	return EncList(items...)
}

// RebuildMembers assembles a multisig transaction whose member signatures are those of x in the given order (a subset is allowed).
func (l *Layout) RebuildMembers(x []byte, order []int) []byte {
	raw := func(it Item) []byte { return x[it.Hdr:it.End] }
	var items [][]byte
	for _, f := range l.Fields[:9] {
		items = append(items, raw(f))
	}
	inner, _ := ParseItem(x, l.Fields[9].Start, l.Fields[9].End)
	ch, _ := Children(x, inner)
	var members [][]byte
	for _, j := range order {
		t := l.Sigs[j]
		members = append(members, EncList(raw(t[0]), raw(t[1]), raw(t[2])))
	}
	items = append(items, EncStr(EncList(raw(ch[0]), EncList(members...))))
	return EncList(items...)
}
