// Package encoding is the bounded exhaustive exploration for property C23
// (canonical transaction / check encodings, signatures bind the signer).
//
// canon.go is the INDEPENDENT reference: a strict RLP reader written from the
// RLP specification (it does not use /repo/rlp) plus a schema walk over the Go
// types of the wire structs.  It answers "is this byte string the canonical,
// well-typed RLP encoding of a value of type T" without decoding into T.
package encoding

import (
	"errors"
	"fmt"
	"math/big"
	"reflect"
	"strings"

	"github.com/MinterTeam/minter-go-node/coreV2/check"
	"github.com/MinterTeam/minter-go-node/coreV2/transaction"
)

// Item is one RLP item inside a buffer.
type Item struct {
	List  bool
	Hdr   int // offset of the first header byte
	Start int // payload start
	End   int // payload end == end of the item
}

var errTrunc = errors.New("truncated")

// ParseItem strictly parses the item at b[off:limit].
func ParseItem(b []byte, off, limit int) (Item, error) {
	if off >= limit {
		return Item{}, errTrunc
	}
	t := b[off]
	long := func(base byte, list bool) (Item, error) {
		ll := int(t - base)
		if off+1+ll > limit {
			return Item{}, errTrunc
		}
		lb := b[off+1 : off+1+ll]
		if lb[0] == 0 {
			return Item{}, errors.New("size with leading zero")
		}
		if ll > 4 {
			return Item{}, errors.New("size too large")
		}
		n := 0
		for _, c := range lb {
			n = n<<8 | int(c)
		}
		if n < 56 {
			return Item{}, errors.New("long form used for size < 56")
		}
		st := off + 1 + ll
		if st+n > limit {
			return Item{}, errTrunc
		}
		return Item{List: list, Hdr: off, Start: st, End: st + n}, nil
	}
	switch {
	case t < 0x80:
		return Item{Hdr: off, Start: off, End: off + 1}, nil
	case t <= 0xb7:
		n := int(t - 0x80)
		if off+1+n > limit {
			return Item{}, errTrunc
		}
		if n == 1 && b[off+1] < 0x80 {
			return Item{}, errors.New("single byte < 0x80 with string header")
		}
		return Item{Hdr: off, Start: off + 1, End: off + 1 + n}, nil
	case t <= 0xbf:
		return long(0xb7, false)
	case t <= 0xf7:
		n := int(t - 0xc0)
		if off+1+n > limit {
			return Item{}, errTrunc
		}
		return Item{List: true, Hdr: off, Start: off + 1, End: off + 1 + n}, nil
	default:
		return long(0xf7, true)
	}
}

// Children parses the items of a list payload.
func Children(b []byte, it Item) ([]Item, error) {
	var out []Item
	for p := it.Start; p < it.End; {
		c, err := ParseItem(b, p, it.End)
		if err != nil {
			return nil, err
		}
		out = append(out, c)
		p = c.End
	}
	return out, nil
}

var bigIntT = reflect.TypeOf(big.Int{})

func rlpTag(f reflect.StructField) (tail, skip bool) {
	for _, t := range strings.Split(f.Tag.Get("rlp"), ",") {
		switch strings.TrimSpace(t) {
		case "tail":
			tail = true
		case "-":
			skip = true
		}
	}
	return
}

// validate checks that the item at b[off:limit] is the canonical encoding of a value of type t; returns the end offset.
func validate(t reflect.Type, b []byte, off, limit int) (int, error) {
	if t.Kind() == reflect.Ptr {
		t = t.Elem()
	}
	it, err := ParseItem(b, off, limit)
	if err != nil {
		return 0, err
	}
	pl := b[it.Start:it.End]
	str := func() error {
		if it.List {
			return fmt.Errorf("list where %v expected", t)
		}
		return nil
	}
	switch {
	case t == bigIntT:
		if err := str(); err != nil {
			return 0, err
		}
		if len(pl) > 0 && pl[0] == 0 {
			return 0, errors.New("integer with leading zero")
		}
		return it.End, nil
	case t.Kind() >= reflect.Uint && t.Kind() <= reflect.Uint64:
		if err := str(); err != nil {
			return 0, err
		}
		if len(pl) > 0 && pl[0] == 0 {
			return 0, errors.New("integer with leading zero")
		}
		if len(pl)*8 > t.Bits() {
			return 0, errors.New("integer too large")
		}
		return it.End, nil
	case t.Kind() == reflect.Bool:
		if err := str(); err != nil {
			return 0, err
		}
		if !(len(pl) == 0 || (len(pl) == 1 && pl[0] == 1)) {
			return 0, errors.New("bool not 0/1")
		}
		return it.End, nil
	case t.Kind() == reflect.String:
		return it.End, str()
	case (t.Kind() == reflect.Slice || t.Kind() == reflect.Array) && t.Elem().Kind() == reflect.Uint8:
		if err := str(); err != nil {
			return 0, err
		}
		if t.Kind() == reflect.Array && len(pl) != t.Len() {
			return 0, fmt.Errorf("byte array of %d, want %d", len(pl), t.Len())
		}
		return it.End, nil
	case t.Kind() == reflect.Slice || t.Kind() == reflect.Array:
		if !it.List {
			return 0, fmt.Errorf("string where list %v expected", t)
		}
		n := 0
		for p := it.Start; p < it.End; n++ {
			e, err := validate(t.Elem(), b, p, it.End)
			if err != nil {
				return 0, err
			}
			p = e
		}
		if t.Kind() == reflect.Array && n != t.Len() {
			return 0, errors.New("array element count")
		}
		return it.End, nil
	case t.Kind() == reflect.Struct:
		if !it.List {
			return 0, fmt.Errorf("string where struct %v expected", t)
		}
		p := it.Start
		for i := 0; i < t.NumField(); i++ {
			f := t.Field(i)
			if f.PkgPath != "" {
				continue
			}
			tail, skip := rlpTag(f)
			if skip {
				continue
			}
			if tail {
				for p < it.End {
					e, err := validate(f.Type.Elem(), b, p, it.End)
					if err != nil {
						return 0, err
					}
					p = e
				}
				continue
			}
			if p >= it.End {
				return 0, fmt.Errorf("too few elements for %v", t)
			}
			e, err := validate(f.Type, b, p, it.End)
			if err != nil {
				return 0, fmt.Errorf("%s: %w", f.Name, err)
			}
			p = e
		}
		if p != it.End {
			return 0, fmt.Errorf("too many elements for %v", t)
		}
		return it.End, nil
	}
	return 0, fmt.Errorf("type %v not modelled", t)
}

// validateWhole demands exactly one item of type t and nothing after it.
func validateWhole(t reflect.Type, b []byte) error {
	e, err := validate(t, b, 0, len(b))
	if err != nil {
		return err
	}
	if e != len(b) {
		return errors.New("trailing bytes")
	}
	return nil
}

var (
	txT       = reflect.TypeOf(transaction.Transaction{})
	sigT      = reflect.TypeOf(transaction.Signature{})
	multisigT = reflect.TypeOf(transaction.SignatureMulti{})
	checkT    = reflect.TypeOf(check.Check{})
)

// CanonicalTx says whether x is a canonical well-typed transaction encoding on
// all three nesting levels (nil error = canonical).
func CanonicalTx(x []byte) error {
	if err := validateWhole(txT, x); err != nil {
		return fmt.Errorf("tx: %w", err)
	}
	top, _ := ParseItem(x, 0, len(x))
	f, _ := Children(x, top)
	typ := x[f[4].Start:f[4].End]
	if len(typ) != 1 {
		return errors.New("tx: type 0 is not registered")
	}
	d, ok := transaction.GetDataV3(transaction.TxType(typ[0])) // the table type -> Go struct is the schema, not code under test
	if !ok {
		return errors.New("tx: type not registered")
	}
	if err := validateWhole(reflect.TypeOf(d), x[f[5].Start:f[5].End]); err != nil {
		return fmt.Errorf("data: %w", err)
	}
	st := x[f[8].Start:f[8].End]
	sd := x[f[9].Start:f[9].End]
	switch {
	case len(st) == 1 && st[0] == 1:
		if err := validateWhole(sigT, sd); err != nil {
			return fmt.Errorf("sig: %w", err)
		}
	case len(st) == 1 && st[0] == 2:
		if err := validateWhole(multisigT, sd); err != nil {
			return fmt.Errorf("multisig: %w", err)
		}
	default:
		return errors.New("tx: unknown signature type")
	}
	return nil
}

// CanonicalCheck is the same for checks.
func CanonicalCheck(x []byte) error {
	if err := validateWhole(checkT, x); err != nil {
		return fmt.Errorf("check: %w", err)
	}
	return nil
}

// --- a tiny canonical encoder (used only to assemble malleated encodings) ---

func encLen(n int, base byte) []byte {
	if n < 56 {
		return []byte{base + byte(n)}
	}
	var lb []byte
	for m := n; m > 0; m >>= 8 {
		lb = append([]byte{byte(m)}, lb...)
	}
	return append([]byte{base + 55 + byte(len(lb))}, lb...)
}

// EncStr encodes a byte string canonically.
func EncStr(p []byte) []byte {
	if len(p) == 1 && p[0] < 0x80 {
		return []byte{p[0]}
	}
	return append(encLen(len(p), 0x80), p...)
}

// EncStrRaw encodes a byte string with a string header even when a single byte < 0x80 (non-canonical on purpose).
func EncStrRaw(p []byte) []byte { return append(encLen(len(p), 0x80), p...) }

// EncList wraps already encoded items.
func EncList(items ...[]byte) []byte {
	var pl []byte
	for _, i := range items {
		pl = append(pl, i...)
	}
	return append(encLen(len(pl), 0xc0), pl...)
}

// EncInt encodes a non-negative integer canonically.
func EncInt(v *big.Int) []byte { return EncStr(v.Bytes()) }
