package encoding

// headers.go: non-minimal length headers. For every item of a canonical encoding (the outer
// list, nested lists, strings) the same content is written with a header that RLP forbids:
//
//	long-form        b8 LL / f8 LL      for a payload shorter than 56 bytes (55 is the boundary)
//	long-form-2      b9 00 LL / f9 00 LL for a payload shorter than 56 bytes
//	size-lead-zero   one more size byte, the first one 00, for a payload of 56 bytes or more
//	byte-as-string   81 xx              for a single byte below 0x80
//
// The headers of the enclosing lists are adjusted, so each variant is a well-formed RLP item
// tree that differs from the original in one header only. All of them must be rejected.

type hnode struct {
	list    bool
	payload []byte // strings
	kids    []*hnode
	single  bool // a single byte < 0x80 that is its own encoding
}

func hparse(b []byte, it Item) (*hnode, error) {
	n := &hnode{list: it.List}
	if !it.List {
		n.payload = b[it.Start:it.End]
		n.single = it.Hdr == it.Start
		return n, nil
	}
	ch, err := Children(b, it)
	if err != nil {
		return nil, err
	}
	for _, c := range ch {
		k, err := hparse(b, c)
		if err != nil {
			return nil, err
		}
		n.kids = append(n.kids, k)
	}
	return n, nil
}

func hflat(n *hnode, out *[]*hnode) {
	*out = append(*out, n)
	for _, k := range n.kids {
		hflat(k, out)
	}
}

func sizeBytes(n int) []byte {
	var lb []byte
	for m := n; m > 0; m >>= 8 {
		lb = append([]byte{byte(m)}, lb...)
	}
	if len(lb) == 0 {
		lb = []byte{0}
	}
	return lb
}

// hencode writes the tree canonically except for node `target`, which gets the variant header.
func hencode(n, target *hnode, variant string) []byte {
	var pl []byte
	base := byte(0x80)
	if n.list {
		base = 0xc0
		for _, k := range n.kids {
			pl = append(pl, hencode(k, target, variant)...)
		}
	} else {
		pl = n.payload
	}
	if n != target {
		if !n.list && len(pl) == 1 && pl[0] < 0x80 {
			return []byte{pl[0]}
		}
		return append(encLen(len(pl), base), pl...)
	}
	switch variant {
	case "long-form":
		return append([]byte{base + 55 + 1, byte(len(pl))}, pl...)
	case "long-form-2":
		return append([]byte{base + 55 + 2, 0, byte(len(pl))}, pl...)
	case "size-lead-zero":
		sb := sizeBytes(len(pl))
		return append(append([]byte{base + 55 + byte(len(sb)+1), 0}, sb...), pl...)
	case "byte-as-string":
		return append([]byte{0x81}, pl...)
	}
	return nil
}

// HeaderVariant is one re-encoding with a single forbidden header.
type HeaderVariant struct {
	Name  string
	Bytes []byte
	Len   int // payload length of the item whose header was rewritten
}

// HeaderVariants lists them for a canonical encoding x.
func HeaderVariants(x []byte) []HeaderVariant {
	root, err := ParseItem(x, 0, len(x))
	if err != nil || root.End != len(x) {
		return nil
	}
	t, err := hparse(x, root)
	if err != nil {
		return nil
	}
	var nodes []*hnode
	hflat(t, &nodes)
	var out []HeaderVariant
	for _, n := range nodes {
		l := len(n.payload)
		if n.list {
			l = 0
			for _, k := range n.kids {
				l += len(hencode(k, nil, ""))
			}
		}
		var vs []string
		switch {
		case !n.list && l == 1 && n.payload[0] < 0x80:
			vs = []string{"byte-as-string", "long-form"}
		case l < 56:
			vs = []string{"long-form", "long-form-2"}
		default:
			vs = []string{"size-lead-zero"}
		}
		for _, v := range vs {
			kind := "string"
			if n.list {
				kind = "list"
			}
			out = append(out, HeaderVariant{Name: v + "-" + kind, Bytes: hencode(t, n, v), Len: l})
		}
	}
	return out
}
