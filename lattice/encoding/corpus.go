package encoding

import (
	"crypto/sha256"
	"fmt"
	"math/big"
	"reflect"

	"github.com/MinterTeam/minter-go-node/coreV2/transaction"
	"github.com/MinterTeam/minter-go-node/coreV2/types"
	"github.com/MinterTeam/minter-go-node/crypto"

	"verif/worlds"
)

// Original is one honestly built and signed byte string.
type Original struct {
	Name    string
	Kind    string // "tx" | "check"
	Multi   bool
	Type    byte
	Bytes   []byte
	Signers []types.Address // the keys that signed (in order)
	Keys    []*worlds.Key
	LockPub []byte // checks: uncompressed public key of the passphrase key
}

var bigMenu = []string{"1000000000000000000", "0", "127", "128", "12345678901234567890123", "1"}
var uintMenu = []uint64{1, 0, 200, 70000, 127, 128}

type filler struct{ ctr int }

var (
	symbolT = reflect.TypeOf(types.CoinSymbol{})
	bigPtrT = reflect.TypeOf((*big.Int)(nil))
)

func (f *filler) fill(v reflect.Value) {
	f.ctr++
	t := v.Type()
	switch {
	case t == bigPtrT:
		v.Set(reflect.ValueOf(worlds.I(bigMenu[f.ctr%len(bigMenu)])))
	case t == symbolT:
		v.Set(reflect.ValueOf(types.StrToCoinSymbol(fmt.Sprintf("VRF%d", f.ctr%10))))
	case t.Kind() >= reflect.Uint && t.Kind() <= reflect.Uint64:
		u := uintMenu[f.ctr%len(uintMenu)]
		if t.Bits() < 64 {
			u &= (1 << uint(t.Bits())) - 1
		}
		v.SetUint(u)
	case t.Kind() == reflect.Bool:
		v.SetBool(f.ctr%2 == 0)
	case t.Kind() == reflect.String:
		v.SetString(fmt.Sprintf("verif %d", f.ctr))
	case t.Kind() == reflect.Array && t.Elem().Kind() == reflect.Uint8:
		h := sha256.Sum256([]byte(fmt.Sprintf("c23-fill-%d", f.ctr)))
		for i := 0; i < t.Len(); i++ {
			v.Index(i).SetUint(uint64(h[i%32] ^ byte(i/32)))
		}
	case t.Kind() == reflect.Slice && t.Elem().Kind() == reflect.Uint8:
		v.SetBytes([]byte{0x01, 0x80, byte(f.ctr)})
	case t.Kind() == reflect.Slice:
		s := reflect.MakeSlice(t, 2, 2)
		f.fill(s.Index(0))
		f.fill(s.Index(1))
		v.Set(s)
	case t.Kind() == reflect.Struct:
		for i := 0; i < t.NumField(); i++ {
			sf := t.Field(i)
			if sf.PkgPath != "" {
				continue
			}
			if tail, skip := rlpTag(sf); tail || skip {
				continue // honest wallets send no tail elements
			}
			f.fill(v.Field(i))
		}
	default:
		panic(fmt.Sprintf("corpus: cannot fill %v", t))
	}
}

// TxTypes lists the registered transaction types (0x01..0x26 without 0x13).
func TxTypes() []byte {
	var out []byte
	for t := 1; t <= 0x26; t++ {
		if _, ok := transaction.GetDataV3(transaction.TxType(t)); ok {
			out = append(out, byte(t))
		}
	}
	return out
}

var nonceMenu = []uint64{1, 5, 127, 128, 255, 256, 65536}
var gasCoinMenu = []types.CoinID{0, 1, 200, 70000}

// Corpus builds the honest byte strings: one per transaction type, extras, a multisig one, two checks.
func Corpus() []*Original {
	ka, kb, kc := worlds.K("c23-a"), worlds.K("c23-b"), worlds.K("c23-c")
	chk1 := worlds.IssueCheck(ka, "c23-1", types.CurrentChainID, 999999, 0, worlds.BipI(10), 0, "pass")
	chk2 := worlds.IssueCheck(kb, "7", types.CurrentChainID, 100, 1234, big.NewInt(0), 70000, "another password")
	var out []*Original
	add := func(name string, t *worlds.Tx, nonce uint64) {
		o := &Original{Name: name, Kind: "tx", Type: byte(t.Type), Bytes: t.Render(nonce - 1)}
		if t.Multisig != nil {
			o.Multi = true
			o.Keys = t.Signers
		} else {
			o.Keys = []*worlds.Key{t.Signer}
		}
		for _, k := range o.Keys {
			o.Signers = append(o.Signers, k.Addr)
		}
		out = append(out, o)
	}
	for i, ty := range TxTypes() {
		d, _ := transaction.GetDataV3(transaction.TxType(ty))
		f := &filler{ctr: int(ty) * 7}
		f.fill(reflect.ValueOf(d).Elem())
		if rd, ok := d.(*transaction.RedeemCheckData); ok {
			rd.RawCheck = chk1
			rd.Proof = worlds.CheckProof("pass", kc.Addr)
		}
		var payload []byte
		switch i % 3 {
		case 1:
			payload = []byte("p")
		case 2:
			payload = []byte("pay")
		}
		signer := ka
		if i%2 == 1 {
			signer = kb
		}
		add(fmt.Sprintf("type-%02x", ty), &worlds.Tx{Type: transaction.TxType(ty), Data: d, GasCoin: gasCoinMenu[i%len(gasCoinMenu)], GasPrice: uint32(1 + i%3), Payload: payload, Signer: signer}, nonceMenu[i%len(nonceMenu)])
	}
	send := &transaction.SendData{Coin: 0, To: kb.Addr, Value: worlds.BipI(1)}
	long := []byte("a payload of sixty bytes forces the long string header: 0xb8")
	add("send-rich", &worlds.Tx{Type: transaction.TypeSend, Data: send, GasCoin: 1234, GasPrice: 250, Payload: long, Service: []byte("svc"), Signer: kc}, 1<<40)
	// payloads at the boundary between the short and the long string header (55 / 56 bytes)
	p56 := []byte("fifty-six bytes of payload: the first long-form length.!")
	add("send-payload55", &worlds.Tx{Type: transaction.TypeSend, Data: send, GasPrice: 1, Payload: p56[:55], Signer: ka}, 7)
	add("send-payload56", &worlds.Tx{Type: transaction.TypeSend, Data: send, GasPrice: 1, Payload: p56, Service: p56[:55], Signer: kb}, 7)
	ms := types.Address(sha256Addr("c23-multisig"))
	add("send-multisig", &worlds.Tx{Type: transaction.TypeSend, Data: send, Multisig: &ms, Signers: []*worlds.Key{ka, kb}, Payload: []byte("m")}, 3)
	out = append(out,
		&Original{Name: "check-1", Kind: "check", Bytes: chk1, Signers: []types.Address{ka.Addr}, Keys: []*worlds.Key{ka}, LockPub: passPub("pass")},
		&Original{Name: "check-2", Kind: "check", Bytes: chk2, Signers: []types.Address{kb.Addr}, Keys: []*worlds.Key{kb}, LockPub: passPub("another password")})
	return out
}

func sha256Addr(s string) (a [20]byte) {
	h := sha256.Sum256([]byte(s))
	copy(a[:], h[:20])
	return
}

// passPub is the public key of the passphrase key of a check (worlds.IssueCheck derives the key as sha256(pass)).
func passPub(pass string) []byte {
	pp := sha256.Sum256([]byte(pass))
	pk, err := crypto.ToECDSA(pp[:])
	if err != nil {
		panic(err)
	}
	return crypto.FromECDSAPub(&pk.PublicKey)
}
