package encoding

import (
	"bytes"
	"crypto/ecdsa"
	"fmt"
	"math/big"
	"runtime"
	"sort"
	"strings"
	"sync"
	"time"

	"github.com/MinterTeam/minter-go-node/coreV2/types"
)

// Config bounds one run.
type Config struct {
	Thorough  bool
	InsertAll bool // insert all 256 values per position (else the 8-value menu)
	ShortLen  int  // all byte strings up to this length go through both decoders
	Deadline  time.Time
	Workers   int
}

// QuickInsertMenu is the restricted insertion alphabet.
var QuickInsertMenu = []byte{0x00, 0x01, 0x7f, 0x80, 0x81, 0xb8, 0xc0, 0xff}

// Finding is one violation with everything needed to replay it.
type Finding struct {
	Kind     string   `json:"kind"`
	Rule     string   `json:"rule"`
	Edit     string   `json:"edit"`
	Region   string   `json:"region"`
	Name     string   `json:"original_name"`
	Original string   `json:"original"`
	Mutated  string   `json:"mutated"`
	Signers  []string `json:"signers"`
	LockPub  string   `json:"lock_pub,omitempty"`
	Detail   string   `json:"-"`
}

// Signature classifies the finding.
func (f *Finding) Signature() string {
	return fmt.Sprintf("%s|%s|%s|%s", f.Kind, f.Rule, f.Edit, f.Region)
}

// PerOrig are the counts of one original.
type PerOrig struct {
	Name                string           `json:"name"`
	Kind                string           `json:"kind"`
	Type                string           `json:"type,omitempty"`
	Len                 int              `json:"bytes"`
	Evaluations         int64            `json:"evaluations"`
	Accepted            int64            `json:"accepted_neighbours"`
	AcceptedByEdit      map[string]int64 `json:"accepted_by_edit"`
	RejectedDecode      int64            `json:"rejected_by_decoder"`
	RejectedSender      int64            `json:"rejected_by_sender"`
	MalleationsTried    int64            `json:"malleations_tried"`
	MalleationsRejected int64            `json:"malleations_rejected"`
	MalleationsAccepted int64            `json:"malleations_accepted"`
	Rebind              int64            `json:"multisig_address_rebind_accepted,omitempty"`
	RebindMembers       int64            `json:"multisig_member_list_rewrite_accepted,omitempty"`
}

// Stats is the result of a run.
type Stats struct {
	Evaluations         int64
	AcceptedNeighbours  int64 // distinct by construction
	RejectedMalleations int64 // distinct
	AcceptedMalleations int64 // accepted malleations (those not produced by the neighbour enumeration are also in AcceptedNeighbours)
	RejectedDecode      int64
	RejectedSender      int64
	Panics              int64
	PanicSamples        []string
	ModelCanonRejected  int64 // independent reader: canonical+well typed, decoder: error
	ModelCanonSamples   []string
	Rebind              int64
	RebindMembers       int64
	ShortStrings        int64
	ShortAccepted       int64
	PairEvaluations     int64
	PerOrig             []*PerOrig
	Samples             []interface{}
	Findings            map[string]*Finding
	FindingCount        map[string]int
	FindingOrder        []string
	Exhaustive          bool
	JobsDone, JobsTotal int
}

type job struct {
	orig  int // -1: short strings
	kind  string
	a, b  int
	first int // short strings: first byte
}

type jobResult struct {
	evals, accepted, rejDecode, rejSender, panics, modelCanonRej, rebind, rebindMembers, pairEvals int64
	malTried, malRej, malAcc, malAccNew                                                            int64
	shortN, shortAcc                                                                               int64
	panicSamples, modelSamples                                                                     []string
	samples                                                                                        []interface{}
	findings                                                                                       map[string]*Finding
	count                                                                                          map[string]int
	order                                                                                          []string
	done                                                                                           bool
}

type origCtx struct {
	o   *Original
	l   *Layout
	ref Outcome
}

type runner struct {
	cfg   Config
	origs []*origCtx
}

func (r *runner) insertMenu() []byte {
	if r.cfg.InsertAll {
		m := make([]byte, 256)
		for i := range m {
			m[i] = byte(i)
		}
		return m
	}
	return QuickInsertMenu
}

func bodyMenu(orig byte) []byte {
	var out []byte
	for _, v := range []byte{orig ^ 0x01, orig ^ 0x80, 0x00, 0xff} {
		if v == orig || bytes.IndexByte(out, v) >= 0 {
			continue
		}
		out = append(out, v)
	}
	return out
}

func (res *jobResult) addFinding(f *Finding) {
	sig := f.Signature()
	if res.findings == nil {
		res.findings = map[string]*Finding{}
		res.count = map[string]int{}
	}
	res.count[sig]++
	if _, ok := res.findings[sig]; !ok {
		res.findings[sig] = f
		res.order = append(res.order, sig)
	}
}

// try evaluates candidate y of original oc.
func (r *runner) try(oc *origCtx, res *jobResult, y []byte, edit string, pos int) (*Outcome, int) {
	o := Eval(oc.o.Kind, y)
	res.evals++
	if o.Panic != "" {
		res.panics++
		if len(res.panicSamples) < 2 {
			res.panicSamples = append(res.panicSamples, fmt.Sprintf("%s %s@%d: %s input=%x", oc.o.Name, edit, pos, o.Panic, y))
		}
	}
	switch {
	case o.Accepted:
	case o.DecodeErr != "":
		res.rejDecode++
		if o.ModelCanon {
			res.modelCanonRej++
			if len(res.modelSamples) < 2 {
				res.modelSamples = append(res.modelSamples, fmt.Sprintf("%s %s@%d: decoder says %q; input=%x", oc.o.Name, edit, pos, o.DecodeErr, y))
			}
		}
	case o.SenderErr != "":
		res.rejSender++
	}
	viols := o.Viols
	rel, rebind := Relate(oc.o.Bytes, y, &oc.ref, &o, oc.o.Signers)
	viols = append(viols, rel...)
	switch rebind {
	case "address":
		res.rebind++
	case "members":
		res.rebindMembers++
	}
	for _, v := range viols {
		f := &Finding{Kind: oc.o.Kind, Rule: v.Rule, Edit: edit, Region: oc.l.Region(pos), Name: oc.o.Name, Original: hx(oc.o.Bytes), Mutated: hx(y), Detail: v.Detail}
		if rebind == "members" && v.Rule == "same-hash-second-encoding" {
			// one narrow signature for reorder and drop alike
			f.Edit, f.Region = "multisig-member-list", "sig"
		}
		for _, s := range oc.o.Signers {
			f.Signers = append(f.Signers, s.String())
		}
		res.addFinding(f)
	}
	return &o, len(viols)
}

func (r *runner) neighbour(oc *origCtx, res *jobResult, y []byte, edit string, pos int) {
	o, nv := r.try(oc, res, y, edit, pos)
	if o.Accepted {
		res.accepted++
		if len(res.samples) < 1 {
			res.samples = append(res.samples, map[string]interface{}{"original": oc.o.Name, "edit": edit, "position": pos, "region": oc.l.Region(pos),
				"verdict": fmt.Sprintf("accepted; same signed hash as the original: %v; recovered signers %s (honest %s); rules broken: %d", o.Hash == oc.ref.Hash, Addrs(o.Signers), Addrs(oc.o.Signers), nv), "bytes": hx(y)})
		}
	}
}

func (r *runner) run(j job) (res jobResult) {
	if j.orig < 0 {
		r.short(j, &res)
		res.done = true
		return
	}
	oc := r.origs[j.orig]
	x := oc.o.Bytes
	n := len(x)
	expired := func() bool { return time.Now().After(r.cfg.Deadline) }
	switch j.kind {
	case "sub":
		y := append([]byte{}, x...)
		for p := j.a; p < j.b; p++ {
			for v := 0; v < 256; v++ {
				if byte(v) == x[p] {
					continue
				}
				y[p] = byte(v)
				r.neighbour(oc, &res, y, "sub", p)
			}
			y[p] = x[p]
		}
	case "del":
		for p := 0; p < n; p++ {
			if p > 0 && x[p] == x[p-1] {
				continue // same string as deleting p-1
			}
			y := append(append([]byte{}, x[:p]...), x[p+1:]...)
			r.neighbour(oc, &res, y, "del", p)
		}
	case "trunc":
		for l := 0; l <= n-2; l++ { // length n-1 is the deletion of the last byte
			r.neighbour(oc, &res, x[:l], "trunc", l)
		}
	case "ins":
		menu := r.insertMenu()
		for p := j.a; p < j.b; p++ {
			for _, v := range menu {
				if p > 0 && x[p-1] == v {
					continue // same string as inserting v before p-1
				}
				y := make([]byte, 0, n+1)
				y = append(append(append(y, x[:p]...), v), x[p:]...)
				r.neighbour(oc, &res, y, "ins", p)
			}
		}
	case "sub2":
		// pairs (j.a, q) for the partner positions q > j.a of the same class, all values
		y := append([]byte{}, x...)
		p := j.a
		for _, q := range r.partners(oc, p) {
			if expired() {
				return
			}
			for v := 0; v < 256; v++ {
				if byte(v) == x[p] {
					continue
				}
				y[p] = byte(v)
				for w := 0; w < 256; w++ {
					if byte(w) == x[q] {
						continue
					}
					y[q] = byte(w)
					r.neighbour(oc, &res, y, "sub2", p)
					res.pairEvals++
				}
			}
			y[p], y[q] = x[p], x[q]
		}
	case "sub2body":
		// structural position j.a (all values) x every body position (4-value menu)
		y := append([]byte{}, x...)
		p := j.a
		for _, q := range oc.l.Body {
			if expired() {
				return
			}
			for v := 0; v < 256; v++ {
				if byte(v) == x[p] {
					continue
				}
				y[p] = byte(v)
				for _, w := range bodyMenu(x[q]) {
					y[q] = w
					r.neighbour(oc, &res, y, "sub2", p)
					res.pairEvals++
				}
			}
			y[p], y[q] = x[p], x[q]
		}
	case "mal":
		r.malleate(oc, &res)
	}
	res.done = true
	return
}

// partners lists the positions q>p paired with p under all 255x255 values:
// both within the first 12 bytes, or both structural positions of the signature region.
func (r *runner) partners(oc *origCtx, p int) []int {
	var out []int
	seen := map[int]bool{}
	if p < 12 {
		for q := p + 1; q < 12 && q < oc.l.N; q++ {
			out = append(out, q)
			seen[q] = true
		}
	}
	isStruct := false
	for _, s := range oc.l.Structural {
		if s == p {
			isStruct = true
		}
	}
	if isStruct {
		for _, q := range oc.l.Structural {
			if q > p && !seen[q] {
				out = append(out, q)
			}
		}
	}
	return out
}

// covered says whether the neighbour enumeration of this configuration produces y from x.
func (r *runner) covered(oc *origCtx, y []byte) bool {
	x := oc.o.Bytes
	switch {
	case len(y) == len(x):
		var d []int
		for i := range x {
			if x[i] != y[i] {
				d = append(d, i)
			}
		}
		if len(d) <= 1 {
			return true
		}
		if len(d) == 2 && r.cfg.Thorough {
			for _, q := range r.partners(oc, d[0]) {
				if q == d[1] {
					return true
				}
			}
			in := func(set []int, p int) bool {
				for _, s := range set {
					if s == p {
						return true
					}
				}
				return false
			}
			for k := 0; k < 2; k++ {
				s, b := d[k], d[1-k]
				if in(oc.l.Structural, s) && in(oc.l.Body, b) && bytes.IndexByte(bodyMenu(x[b]), y[b]) >= 0 {
					return true
				}
			}
		}
		return false
	case len(y) == len(x)+1:
		for i := 0; i <= len(x); i++ {
			if bytes.Equal(y[:i], x[:i]) && bytes.Equal(y[i+1:], x[i:]) {
				return bytes.IndexByte(r.insertMenu(), y[i]) >= 0
			}
		}
		return false
	case len(y) == len(x)-1:
		for i := 0; i < len(x); i++ {
			if bytes.Equal(y[:i], x[:i]) && bytes.Equal(y[i:], x[i+1:]) {
				return true
			}
		}
		return false
	case len(y) < len(x):
		return bytes.HasPrefix(x, y)
	}
	return false
}

type malleation struct {
	name    string
	v, r, s []byte // encoded items
}

func lead0(v *big.Int) []byte { return EncStrRaw(append([]byte{0}, v.Bytes()...)) }

func menuFor(v, r, s *big.Int) []malleation {
	ev, er, es := EncInt(v), EncInt(r), EncInt(s)
	bi := func(i int64) *big.Int { return big.NewInt(i) }
	add := func(a, b *big.Int) *big.Int { return new(big.Int).Add(a, b) }
	sub := func(a, b *big.Int) *big.Int { return new(big.Int).Sub(a, b) }
	flip := bi(27 + 28 - v.Int64()) // the other valid recovery id
	negS := sub(curveN, s)
	return []malleation{
		{"s-negate-v-flip", EncInt(flip), er, EncInt(negS)}, // the ECDSA twin signature of the same key
		{"s-negate", ev, er, EncInt(negS)},
		{"v-flip", EncInt(flip), er, es}, // valid values, another key: may be accepted with another sender
		{"v-xor-1", EncInt(bi(v.Int64() ^ 1)), er, es},
		{"v-plus-27", EncInt(add(v, bi(27))), er, es},
		{"v-minus-27", EncInt(sub(v, bi(27))), er, es},
		{"v-minus-27-flip", EncInt(sub(flip, bi(27))), er, es},
		{"v-plus-256", EncInt(add(v, bi(256))), er, es},
		{"v-35-eip155", EncInt(add(sub(v, bi(27)), bi(35+2*2))), er, es},
		{"v-leading-zero", lead0(v), er, es},
		{"r-plus-n", ev, EncInt(add(r, curveN)), es},
		{"s-plus-n", ev, er, EncInt(add(s, curveN))},
		{"r-leading-zero", ev, lead0(r), es},
		{"s-leading-zero", ev, er, lead0(s)},
		{"r-zero", ev, EncInt(bi(0)), es},
		{"s-zero", ev, er, EncInt(bi(0))},
		{"r-zero-as-00", ev, []byte{0x00}, es},
		{"s-half-n", ev, er, EncInt(halfN)}, // the largest allowed s: may be accepted with an unrelated sender
		{"s-half-n-plus-1", ev, er, EncInt(add(halfN, bi(1)))},
		{"s-n", ev, er, EncInt(curveN)},
		{"s-n-minus-1", ev, er, EncInt(sub(curveN, bi(1)))},
		{"r-n", ev, EncInt(curveN), es},
		{"r-s-swapped", ev, es, er}, // valid ranges when r <= n/2: may be accepted with an unrelated sender
	}
}

// mustReject: independent expectation from the property text.
func mustReject(name string) bool {
	switch name {
	case "v-flip", "s-half-n", "r-s-swapped":
		return false
	}
	return true
}

func (r *runner) malleate(oc *origCtx, res *jobResult) {
	x := oc.o.Bytes
	seen := map[string]bool{}
	if n := len(oc.l.Sigs); oc.o.Multi && n > 1 {
		// multisig member list rewrites: accepted ones are second valid encodings (see Relate)
		rev := make([]int, n)
		for i := range rev {
			rev[i] = n - 1 - i
		}
		var first, last []int
		for i := 0; i < n-1; i++ {
			first = append(first, i)
			last = append(last, i+1)
		}
		for k, order := range [][]int{rev, first, last} {
			y := oc.l.RebuildMembers(x, order)
			o, _ := r.try(oc, res, y, []string{"mal-members-reversed", "mal-last-member-dropped", "mal-first-member-dropped"}[k], oc.l.SigStart)
			res.malTried++
			if o.Accepted {
				res.malAcc++
				if !r.covered(oc, y) {
					res.malAccNew++
				}
			} else {
				res.malRej++
			}
		}
	}
	// forbidden length headers, one item at a time (headers.go): every one must be rejected
	for _, hv := range HeaderVariants(x) {
		if seen[string(hv.Bytes)] || bytes.Equal(hv.Bytes, x) {
			continue
		}
		seen[string(hv.Bytes)] = true
		edit := fmt.Sprintf("hdr-%s-len%d", hv.Name, hv.Len)
		if hv.Len != 55 && hv.Len != 56 && hv.Len > 1 {
			edit = "hdr-" + hv.Name
		}
		o, nv := r.try(oc, res, hv.Bytes, edit, 0)
		res.malTried++
		if o.Accepted {
			res.malAcc++
			if nv == 0 {
				res.addFinding(&Finding{Kind: oc.o.Kind, Rule: "noncanonical-header-accepted", Edit: edit, Region: "header", Name: oc.o.Name, Original: hx(x), Mutated: hx(hv.Bytes),
					Detail: fmt.Sprintf("%s: the same content with a %s header (payload of %d bytes) is accepted", oc.o.Name, hv.Name, hv.Len)})
			}
		} else {
			res.malRej++
		}
	}
	for i := range oc.l.Sigs {
		v, rr, s := oc.l.VRS(x, i)
		for _, m := range menuFor(v, rr, s) {
			y := oc.l.Rebuild(x, i, m.v, m.r, m.s)
			if seen[string(y)] || bytes.Equal(y, x) {
				continue
			}
			seen[string(y)] = true
			edit := "mal-" + m.name
			o, nv := r.try(oc, res, y, edit, oc.l.Sigs[i][0].Hdr)
			res.malTried++
			if o.Accepted {
				res.malAcc++
				if !r.covered(oc, y) {
					res.malAccNew++
				}
				if mustReject(m.name) && nv == 0 {
					// safety net: the specific rule (high-s / bad-v / out-of-range / non-canonical) normally fired already
					res.addFinding(&Finding{Kind: oc.o.Kind, Rule: "malleation-accepted", Edit: edit, Region: "sig", Name: oc.o.Name, Original: hx(x), Mutated: hx(y),
						Detail: fmt.Sprintf("malleated signature %s of %s is accepted (sender %s)", m.name, oc.o.Name, o.Sender.String())})
				}
			} else {
				res.malRej++
				if len(res.samples) < 2 {
					why := o.DecodeErr
					if why == "" {
						why = o.SenderErr
					}
					res.samples = append(res.samples, map[string]interface{}{"original": oc.o.Name, "edit": edit, "verdict": "rejected: " + why, "bytes": hx(y)})
				}
			}
		}
	}
}

func (r *runner) short(j job, res *jobResult) {
	var rec func(buf []byte)
	one := func(buf []byte) {
		for _, kind := range []string{"tx", "check"} {
			o := Eval(kind, buf)
			res.evals++
			res.shortN++
			if o.Panic != "" {
				res.panics++
				if len(res.panicSamples) < 2 {
					res.panicSamples = append(res.panicSamples, fmt.Sprintf("short %s: %s input=%x", kind, o.Panic, buf))
				}
			}
			if o.DecodeErr != "" {
				res.rejDecode++
				if o.ModelCanon {
					res.modelCanonRej++
				}
			} else if o.SenderErr != "" {
				res.rejSender++
			}
			if o.Accepted {
				res.shortAcc++
			}
			for _, v := range o.Viols {
				res.addFinding(&Finding{Kind: kind, Rule: v.Rule, Edit: "short", Region: "header", Name: "short-string", Original: "", Mutated: hx(buf), Detail: v.Detail})
			}
		}
	}
	rec = func(buf []byte) {
		one(buf)
		if len(buf) == r.cfg.ShortLen {
			return
		}
		for v := 0; v < 256; v++ {
			rec(append(buf, byte(v)))
		}
	}
	if j.first < 0 {
		one(nil)
		return
	}
	if r.cfg.ShortLen >= 1 {
		rec([]byte{byte(j.first)})
	}
}

// Run executes the whole enumeration.
func Run(cfg Config) (*Stats, error) {
	if cfg.Workers <= 0 {
		cfg.Workers = runtime.NumCPU()
	}
	r := &runner{cfg: cfg}
	st := &Stats{Findings: map[string]*Finding{}, FindingCount: map[string]int{}, Exhaustive: true}
	addF := func(f *Finding, n int) {
		sig := f.Signature()
		st.FindingCount[sig] += n
		if _, ok := st.Findings[sig]; !ok {
			st.Findings[sig] = f
			st.FindingOrder = append(st.FindingOrder, sig)
		}
	}
	for _, o := range Corpus() {
		l, err := NewLayout(o.Kind, o.Bytes)
		if err != nil {
			return nil, fmt.Errorf("%s: %v", o.Name, err)
		}
		oc := &origCtx{o: o, l: l, ref: Eval(o.Kind, o.Bytes)}
		st.Evaluations++
		// self-check of the assembler: unchanged v,r,s must reproduce the bytes
		for i, t := range l.Sigs {
			raw := func(it Item) []byte { return o.Bytes[it.Hdr:it.End] }
			if !bytes.Equal(l.Rebuild(o.Bytes, i, raw(t[0]), raw(t[1]), raw(t[2])), o.Bytes) {
				return nil, fmt.Errorf("%s: assembler does not reproduce the original", o.Name)
			}
		}
		if err := canonOf(o.Kind, o.Bytes); err != nil {
			return nil, fmt.Errorf("%s: independent reader rejects the honest encoding: %v", o.Name, err)
		}
		// (b) honest sender, plus an independent ECDSA verification of every honest signature
		for _, v := range Honest(o, &oc.ref) {
			f := &Finding{Kind: o.Kind, Rule: v.Rule, Edit: "none", Region: "sig", Name: o.Name, Original: hx(o.Bytes), Mutated: hx(o.Bytes), LockPub: hx(o.LockPub), Detail: v.Detail}
			for _, s := range o.Signers {
				f.Signers = append(f.Signers, s.String())
			}
			addF(f, 1)
		}
		if oc.ref.Accepted {
			for i, k := range o.Keys {
				_, rr, s := l.VRS(o.Bytes, i)
				if !ecdsa.Verify(&k.Priv.PublicKey, oc.ref.Hash[:], rr, s) {
					return nil, fmt.Errorf("%s: honest signature %d does not verify under the signing key over Hash()", o.Name, i)
				}
			}
		}
		r.origs = append(r.origs, oc)
		typ := ""
		if o.Kind == "tx" {
			typ = fmt.Sprintf("0x%02x", o.Type)
		}
		st.PerOrig = append(st.PerOrig, &PerOrig{Name: o.Name, Kind: o.Kind, Type: typ, Len: len(o.Bytes), AcceptedByEdit: map[string]int64{}})
	}
	// job list (deterministic)
	var jobs []job
	const chunk = 6
	for i, oc := range r.origs {
		n := oc.l.N
		jobs = append(jobs, job{orig: i, kind: "mal"}, job{orig: i, kind: "del"}, job{orig: i, kind: "trunc"})
		for a := 0; a < n; a += chunk {
			b := a + chunk
			if b > n {
				b = n
			}
			jobs = append(jobs, job{orig: i, kind: "sub", a: a, b: b})
		}
		ich := chunk
		if !cfg.InsertAll {
			ich = chunk * 16
		}
		for a := 0; a <= n; a += ich {
			b := a + ich
			if b > n+1 {
				b = n + 1
			}
			jobs = append(jobs, job{orig: i, kind: "ins", a: a, b: b})
		}
	}
	jobs = append(jobs, job{orig: -1, first: -1})
	if cfg.ShortLen >= 1 {
		for f := 0; f < 256; f++ {
			jobs = append(jobs, job{orig: -1, first: f})
		}
	}
	if cfg.Thorough {
		for i, oc := range r.origs {
			for p := 0; p < oc.l.N; p++ {
				if len(r.partners(oc, p)) > 0 {
					jobs = append(jobs, job{orig: i, kind: "sub2", a: p})
				}
			}
			for _, p := range oc.l.Structural {
				jobs = append(jobs, job{orig: i, kind: "sub2body", a: p})
			}
		}
	}
	st.JobsTotal = len(jobs)
	results := make([]jobResult, len(jobs))
	var wg sync.WaitGroup
	var mu sync.Mutex
	next := 0
	for w := 0; w < cfg.Workers; w++ {
		wg.Add(1)
		go func() {
			defer wg.Done()
			for {
				mu.Lock()
				k := next
				next++
				mu.Unlock()
				if k >= len(jobs) || time.Now().After(cfg.Deadline) {
					return
				}
				results[k] = r.run(jobs[k])
			}
		}()
	}
	wg.Wait()
	sampleByKind := map[string]int{}
	for k, res := range results {
		j := jobs[k]
		if !res.done {
			st.Exhaustive = false
		} else {
			st.JobsDone++
		}
		st.Evaluations += res.evals
		st.AcceptedNeighbours += res.accepted + res.malAccNew
		st.RejectedMalleations += res.malRej
		st.AcceptedMalleations += res.malAcc
		st.RejectedDecode += res.rejDecode
		st.RejectedSender += res.rejSender
		st.Panics += res.panics
		st.ModelCanonRejected += res.modelCanonRej
		st.Rebind += res.rebind
		st.RebindMembers += res.rebindMembers
		st.ShortStrings += res.shortN
		st.ShortAccepted += res.shortAcc
		st.PairEvaluations += res.pairEvals
		for _, s := range res.panicSamples {
			if len(st.PanicSamples) < 5 {
				st.PanicSamples = append(st.PanicSamples, s)
			}
		}
		for _, s := range res.modelSamples {
			if len(st.ModelCanonSamples) < 5 {
				st.ModelCanonSamples = append(st.ModelCanonSamples, s)
			}
		}
		for _, s := range res.samples {
			if sampleByKind[j.kind] < 2 && len(st.Samples) < 12 {
				sampleByKind[j.kind]++
				st.Samples = append(st.Samples, s)
			}
		}
		if j.orig >= 0 {
			po := st.PerOrig[j.orig]
			po.Evaluations += res.evals
			po.Accepted += res.accepted + res.malAccNew
			if res.accepted > 0 {
				po.AcceptedByEdit[j.kind] += res.accepted
			}
			if res.malAccNew > 0 {
				po.AcceptedByEdit["mal"] += res.malAccNew
			}
			po.RejectedDecode += res.rejDecode
			po.RejectedSender += res.rejSender
			po.MalleationsTried += res.malTried
			po.MalleationsRejected += res.malRej
			po.MalleationsAccepted += res.malAcc
			po.Rebind += res.rebind
			po.RebindMembers += res.rebindMembers
		}
		for _, sig := range res.order {
			addF(res.findings[sig], res.count[sig])
		}
	}
	sort.Strings(st.FindingOrder)
	return st, nil
}

func canonOf(kind string, b []byte) error {
	if kind == "check" {
		return CanonicalCheck(b)
	}
	return CanonicalTx(b)
}

// Addrs formats addresses.
func Addrs(a []types.Address) string {
	var out []string
	for _, x := range a {
		out = append(out, x.String())
	}
	return strings.Join(out, ",")
}
