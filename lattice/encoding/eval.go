package encoding

import (
	"bytes"
	"encoding/hex"
	"fmt"
	"math/big"
	"reflect"
	"unsafe"

	"github.com/MinterTeam/minter-go-node/coreV2/check"
	"github.com/MinterTeam/minter-go-node/coreV2/minter"
	"github.com/MinterTeam/minter-go-node/coreV2/transaction"
	"github.com/MinterTeam/minter-go-node/coreV2/types"
	"github.com/MinterTeam/minter-go-node/rlp"
)

// secp256k1 group order (from SEC 2), independent of /repo/crypto.
var (
	curveN, _ = new(big.Int).SetString("fffffffffffffffffffffffffffffffebaaedce6af48a03bbfd25e8cd0364141", 16)
	halfN     = new(big.Int).Rsh(curveN, 1)
)

// Viol is one broken rule.
type Viol struct {
	Rule   string
	Detail string
}

// Outcome of pushing one byte string through the decoder and the oracles.
type Outcome struct {
	Panic      string
	DecodeErr  string // decoder error (rejected at DecodeFromBytes)
	SenderErr  string // rejected at Sender()/RecoverPlain
	Accepted   bool
	ModelCanon bool // the independent reader calls the bytes canonical and well typed
	Hash       types.Hash
	Sender     types.Address   // Transaction.Sender() (the multisig address for multisig)
	Signers    []types.Address // recovered signer of every signature
	Viols      []Viol
}

var executor = minter.GetExecutor("")

func unexported(v reflect.Value, name string) reflect.Value {
	f := v.Elem().FieldByName(name)
	return reflect.NewAt(f.Type(), unsafe.Pointer(f.UnsafeAddr())).Elem()
}

// sigStructs returns the signature struct(s) the decoder attached to the transaction.
func sigStructs(tx *transaction.Transaction) (*transaction.Signature, *transaction.SignatureMulti) {
	v := reflect.ValueOf(tx)
	s, _ := unexported(v, "sig").Interface().(*transaction.Signature)
	m, _ := unexported(v, "multisig").Interface().(*transaction.SignatureMulti)
	return s, m
}

func decodeTx(b []byte) (tx *transaction.Transaction, err error, pan string) {
	defer func() {
		if r := recover(); r != nil {
			tx, err, pan = nil, nil, fmt.Sprint(r)
		}
	}()
	tx, err = executor.DecodeFromBytes(b)
	return
}

func decodeCheck(b []byte) (c *check.Check, err error, pan string) {
	defer func() {
		if r := recover(); r != nil {
			c, err, pan = nil, nil, fmt.Sprint(r)
		}
	}()
	c, err = check.DecodeFromBytes(b)
	return
}

// sigRangeViols applies the independent signature value rules to an ACCEPTED signature.
func sigRangeViols(v, r, s *big.Int) (out []Viol) {
	if !(v.IsUint64() && (v.Uint64() == 27 || v.Uint64() == 28)) {
		out = append(out, Viol{"bad-v-accepted", fmt.Sprintf("recovery id v=%s accepted", v)})
	}
	if s.Cmp(halfN) > 0 && s.Cmp(curveN) < 0 {
		out = append(out, Viol{"high-s-accepted", fmt.Sprintf("s=%x > n/2 accepted", s)})
	}
	if r.Sign() <= 0 || r.Cmp(curveN) >= 0 || s.Sign() <= 0 || s.Cmp(curveN) >= 0 {
		out = append(out, Viol{"out-of-range-rs-accepted", fmt.Sprintf("r=%x s=%x outside [1,n-1] accepted", r, s)})
	}
	return
}

// EvalTx decodes y as a transaction and applies the oracles that need no original.
func EvalTx(y []byte) (o Outcome) {
	o.ModelCanon = CanonicalTx(y) == nil
	tx, err, pan := decodeTx(y)
	if pan != "" {
		o.Panic = pan
		return
	}
	if err != nil {
		o.DecodeErr = err.Error()
		return
	}
	if !o.ModelCanon {
		o.Viols = append(o.Viols, Viol{"noncanonical-accepted", fmt.Sprintf("DecodeFromBytes accepts bytes the independent strict RLP reader rejects: %v", CanonicalTx(y))})
	}
	func() {
		defer func() {
			if r := recover(); r != nil {
				o.Panic = fmt.Sprint("Sender: ", r)
			}
		}()
		sig, multi := sigStructs(tx)
		o.Hash = tx.Hash()
		snd, err := tx.Sender()
		if err != nil {
			o.SenderErr = err.Error()
			return
		}
		o.Sender = snd
		var sigs []transaction.Signature
		if tx.SignatureType == transaction.SigTypeMulti {
			sigs = multi.Signatures
			for i, s := range sigs {
				a, err := transaction.RecoverPlain(o.Hash, s.R, s.S, s.V)
				if err != nil {
					o.SenderErr = fmt.Sprintf("signature %d: %v", i, err)
					return
				}
				o.Signers = append(o.Signers, a)
			}
		} else {
			sigs = []transaction.Signature{*sig}
			o.Signers = []types.Address{snd}
		}
		o.Accepted = true
		// (a) three-level round trip
		if re, err := rlp.EncodeToBytes(tx); err != nil || !bytes.Equal(re, y) {
			o.Viols = append(o.Viols, Viol{"reencode-tx", fmt.Sprintf("re-encoded transaction %x (err %v) differs from accepted input", re, err)})
		}
		if re, err := rlp.EncodeToBytes(tx.GetDecodedData()); err != nil || !bytes.Equal(re, tx.Data) {
			o.Viols = append(o.Viols, Viol{"reencode-data", fmt.Sprintf("re-encoded data %x (err %v) differs from tx.Data %x", re, err, []byte(tx.Data))})
		}
		var re []byte
		if tx.SignatureType == transaction.SigTypeMulti {
			re, err = rlp.EncodeToBytes(multi)
		} else {
			re, err = rlp.EncodeToBytes(sig)
		}
		if err != nil || !bytes.Equal(re, tx.SignatureData) {
			o.Viols = append(o.Viols, Viol{"reencode-sig", fmt.Sprintf("re-encoded signature %x (err %v) differs from tx.SignatureData %x", re, err, tx.SignatureData)})
		}
		// (e) value ranges of every accepted signature
		for _, s := range sigs {
			o.Viols = append(o.Viols, sigRangeViols(s.V, s.R, s.S)...)
		}
	}()
	if o.Panic != "" {
		o.Accepted = false
	}
	return
}

// EvalCheck is EvalTx for checks.
func EvalCheck(y []byte) (o Outcome) {
	o.ModelCanon = CanonicalCheck(y) == nil
	c, err, pan := decodeCheck(y)
	if pan != "" {
		o.Panic = pan
		return
	}
	if err != nil {
		o.DecodeErr = err.Error()
		return
	}
	if !o.ModelCanon {
		o.Viols = append(o.Viols, Viol{"noncanonical-accepted", fmt.Sprintf("check.DecodeFromBytes accepts bytes the independent strict RLP reader rejects: %v", CanonicalCheck(y))})
	}
	func() {
		defer func() {
			if r := recover(); r != nil {
				o.Panic = fmt.Sprint("Sender: ", r)
			}
		}()
		o.Hash = c.Hash()
		snd, err := c.Sender()
		if err != nil {
			o.SenderErr = err.Error()
			return
		}
		o.Sender = snd
		o.Signers = []types.Address{snd}
		o.Accepted = true
		if re, err := rlp.EncodeToBytes(c); err != nil || !bytes.Equal(re, y) {
			o.Viols = append(o.Viols, Viol{"reencode-tx", fmt.Sprintf("re-encoded check %x (err %v) differs from accepted input", re, err)})
		}
		o.Viols = append(o.Viols, sigRangeViols(c.V, c.R, c.S)...)
	}()
	if o.Panic != "" {
		o.Accepted = false
	}
	return
}

// Eval dispatches on the kind.
func Eval(kind string, y []byte) Outcome {
	if kind == "check" {
		return EvalCheck(y)
	}
	return EvalTx(y)
}

func sameAddrs(a, b []types.Address) bool {
	if len(a) != len(b) {
		return false
	}
	for i := range a {
		if a[i] != b[i] {
			return false
		}
	}
	return true
}

// Relate applies the oracles that compare an accepted neighbour y with its honest original x.
// ref is the outcome of x itself; signers the addresses of the keys that signed x.
//
// Reading for multisig transactions: the signed hash covers neither the member
// signature list nor the wallet address.
//   - same hash, same Sender() (wallet address), recovered signers a permutation /
//     sub-list of the honest ones: reported as same-hash-second-encoding (strict
//     reading: the transaction was rewritten into a different valid encoding);
//     rebind == "members" lets the caller give it its own narrow signature.
//   - same hash, same recovered signers, ANOTHER wallet address: a different sender,
//     outside the property text; counted only (rebind == "address").
func Relate(x, y []byte, ref, o *Outcome, signers []types.Address) (viols []Viol, rebind string) {
	if !o.Accepted || bytes.Equal(x, y) {
		return nil, ""
	}
	if o.Hash == ref.Hash {
		switch {
		case o.Sender == ref.Sender && sameAddrs(o.Signers, ref.Signers):
			viols = append(viols, Viol{"same-hash-second-encoding", fmt.Sprintf("a different byte string is accepted with the same signed hash %x and the same sender %s: second valid encoding of one transaction", o.Hash[:], o.Sender.String())})
		case sameAddrs(o.Signers, ref.Signers):
			rebind = "address" // multisig wallet address replaced, member signatures untouched
		case o.Sender == ref.Sender && len(o.Signers) > 0 && subset(o.Signers, ref.Signers):
			// multisig member signatures permuted / dropped: strict reading, this IS a second valid
			// encoding of the same transaction (same signed hash, same sender, different bytes).
			rebind = "members"
			viols = append(viols, Viol{"same-hash-second-encoding", fmt.Sprintf("multisig member list rewritten (members reordered or dropped; recovered signers %s instead of %s): a different byte string is accepted with the same signed hash %x and the same sender %s", Addrs(o.Signers), Addrs(ref.Signers), o.Hash[:], o.Sender.String())})
		}
		return
	}
	for _, a := range o.Signers {
		for _, s := range signers {
			if a == s {
				viols = append(viols, Viol{"forgery", fmt.Sprintf("signed hash changed (%x -> %x) but the signature still recovers the honest signer %s", ref.Hash[:], o.Hash[:], a.String())})
				return
			}
		}
	}
	return
}

func subset(a, b []types.Address) bool {
	for _, x := range a {
		ok := false
		for _, y := range b {
			if x == y {
				ok = true
			}
		}
		if !ok {
			return false
		}
	}
	return true
}

// Honest applies oracle (b) to an original.
func Honest(orig *Original, ref *Outcome) (viols []Viol) {
	if ref.Panic != "" {
		return []Viol{{"decoder-panic", "honest encoding panics: " + ref.Panic}}
	}
	if !ref.Accepted {
		return []Viol{{"sender-mismatch", fmt.Sprintf("honestly signed %s is rejected: decode=%q sender=%q", orig.Kind, ref.DecodeErr, ref.SenderErr)}}
	}
	if !sameAddrs(ref.Signers, orig.Signers) {
		return []Viol{{"sender-mismatch", fmt.Sprintf("recovered %s, signing keys %s", Addrs(ref.Signers), Addrs(orig.Signers))}}
	}
	if orig.Kind == "check" && len(orig.LockPub) > 0 {
		// the lock of a check is a signature of the passphrase key over HashWithoutLock: it must recover that key
		c, err, pan := decodeCheck(orig.Bytes)
		if err != nil || pan != "" {
			return []Viol{{"sender-mismatch", fmt.Sprintf("honest check does not decode: %v %s", err, pan)}}
		}
		pub, err := c.LockPubKey()
		if err != nil || !bytes.Equal(pub, orig.LockPub) {
			return []Viol{{"sender-mismatch", fmt.Sprintf("LockPubKey() = %x (err %v), passphrase key %x", pub, err, orig.LockPub)}}
		}
	}
	return ref.Viols
}

func hx(b []byte) string { return hex.EncodeToString(b) }
