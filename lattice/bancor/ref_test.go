package bancor

import (
	"math"
	"math/big"
	"testing"
)

func closeTo(t *testing.T, what string, got, want *big.Float, bits int) {
	t.Helper()
	d := nf().Sub(got, want)
	if d.Sign() == 0 {
		return
	}
	lim := want.MantExp(nil) - bits
	if want.Sign() == 0 {
		lim = -bits
	}
	if d.MantExp(nil) > lim {
		t.Fatalf("%s: got %s want %s (diff 2^%d, allowed 2^%d)", what, got.Text('g', 40), want.Text('g', 40), d.MantExp(nil), lim)
	}
}

// The reference is validated against facts that need no transcendental function.
func TestRefIdentities(t *testing.T) {
	// ln2 against float64 and exp(ln2) = 2
	if f, _ := ln2.Float64(); f != math.Ln2 {
		t.Fatalf("ln2 = %v", f)
	}
	closeTo(t, "exp(ln2)", Exp(ln2), nf().SetInt64(2), 540)
	// exp(ln x) = x over 70 orders of magnitude, including x = 1 ± 10^-33
	for _, s := range []string{"1e-33", "3e-20", "0.5", "0.99999999999", "1", "1.0000000001", "2", "7", "1e11", "1e15", "123456789.123456789"} {
		x, _, _ := nf().Parse(s, 10)
		closeTo(t, "exp(ln "+s+")", Exp(Ln(x)), x, 540)
	}
	ten33 := new(big.Int).Exp(big.NewInt(10), big.NewInt(33), nil)
	x := nf().Quo(fInt(new(big.Int).Add(ten33, big.NewInt(1))), fInt(ten33))
	closeTo(t, "exp(ln(1+1e-33))", Exp(Ln(x)), x, 560)
	// ln(1+1e-33) = 1e-33 - 1e-66/2 + 1e-99/3 - ... (compare relative to the value itself)
	e := nf().Quo(fOne, fInt(ten33))
	series := nf()
	pw := nf().Set(e)
	for k := 1; k < 12; k++ {
		tm := nf().Quo(pw, nf().SetInt64(int64(k)))
		if k%2 == 0 {
			series.Sub(series, tm)
		} else {
			series.Add(series, tm)
		}
		pw.Mul(pw, e)
	}
	closeTo(t, "ln(1+1e-33)", Ln(x), series, 440)
	// rational powers: (x^(p/q))^q = x^p exactly computable with integer powers
	for _, c := range []struct {
		num, den int64
		base     string
	}{{1, 10, "1024"}, {37, 100, "1.5"}, {100, 37, "0.75"}, {10, 1, "1e-33"}, {99, 100, "1e11"}, {100, 11, "3.25"}} {
		b, _, _ := nf().Parse(c.base, 10)
		w := nf().Quo(nf().SetInt64(c.num), nf().SetInt64(c.den))
		p := PowLn(Ln(b), w)
		lhs := nf().SetInt64(1)
		for i := int64(0); i < c.den; i++ {
			lhs.Mul(lhs, p)
		}
		rhs := nf().SetInt64(1)
		for i := int64(0); i < c.num; i++ {
			rhs.Mul(rhs, b)
		}
		closeTo(t, "pow "+c.base, lhs, rhs, 530)
	}
	// exact cases
	closeTo(t, "4^(1/2)", PowLn(Ln(nf().SetInt64(4)), nf().SetFloat64(0.5)), nf().SetInt64(2), 550)
	closeTo(t, "(1/1024)^(1/10)", PowLn(Ln(nf().SetFloat64(1.0/1024)), nf().Quo(fOne, nf().SetInt64(10))), nf().SetFloat64(0.5), 550)
	// large negative argument (beyond the float64 exp range)
	y := nf().SetInt64(-760)
	closeTo(t, "exp(-760)*exp(760)", nf().Mul(Exp(y), Exp(nf().Neg(y))), fOne, 540)
}
