package bancor

// lattice.go: the finite lattice and its complete, deterministic enumeration.
//
// DOMAIN (what the node can reach, see /repo/coreV2/transaction/create_coin.go
// and transaction.go): supply in [10^18 (minCoinSupply, 1 coin), 10^33
// (maxCoinSupply)], reserve in [10^22 (minCoinReserve, 10000 BIP), 10^33], crr in
// 10..100, amounts >= 0 with sell <= supply (CalculateSaleReturnAndCheck),
// wantReceive <= reserve (CalculateSaleAmountAndCheck), supply+wantReceive <=
// 10^33 (CheckForCoinSupplyOverflow), deposit <= 10^33.  Supplies/reserves of 0
// (division by zero) and amounts beyond the supply/reserve (negative base of the
// power: math.Pow panics) are rejected by the callers and are outside the lattice.

import (
	"fmt"
	"math/big"
	"os"
	"runtime"
	"runtime/debug"
	"sort"
	"strconv"
	"sync"
	"time"
)

// Ten33 is the largest supply / reserve / amount of the property's quantifier.
var Ten33 = pow10(33)

func pow10(k int) *big.Int { return new(big.Int).Exp(big.NewInt(10), big.NewInt(int64(k)), nil) }
func pow2(k int) *big.Int  { return new(big.Int).Lsh(big.NewInt(1), uint(k)) }
func plus(x *big.Int, d int64) *big.Int {
	return new(big.Int).Add(x, big.NewInt(d))
}
func bigS(s string) *big.Int {
	x, ok := new(big.Int).SetString(s, 10)
	if !ok {
		panic(s)
	}
	return x
}

func sortedUnique(in []*big.Int, lo, hi *big.Int) []*big.Int {
	var out []*big.Int
	for _, x := range in {
		if (lo == nil || x.Cmp(lo) >= 0) && (hi == nil || x.Cmp(hi) <= 0) {
			out = append(out, x)
		}
	}
	sort.Slice(out, func(i, j int) bool { return out[i].Cmp(out[j]) < 0 })
	var u []*big.Int
	for _, x := range out {
		if len(u) == 0 || u[len(u)-1].Cmp(x) != 0 {
			u = append(u, x)
		}
	}
	return u
}

// Lattice is the per-argument value lists; the enumerated space is the full cross product
// functions × Supplies × Reserves × Amounts(function, supply, reserve) × Crrs.
type Lattice struct {
	Name      string
	Supplies  []*big.Int
	Reserves  []*big.Int
	Crrs      []uint32
	RatioExps []int      // amount = scale/10^k
	Fractions [][2]int64 // amount = scale·n/d
	NearAll   []int      // amount = scale − scale/10^k
	Multiples []int      // purchases: amount = scale·10^k
	Absolute  []*big.Int // amounts independent of the scale
}

// Build returns the quick or the thorough lattice.
func Build(quick bool) *Lattice {
	l := &Lattice{Name: "thorough"}
	if quick {
		l.Name = "quick"
	}
	for c := uint32(10); c <= 100; c++ {
		l.Crrs = append(l.Crrs, c)
	}
	odd := []*big.Int{bigS("123456789012345678901234567"), bigS("700000000000000000013"), bigS("999999999999999999999999999999989"),
		bigS("31415926535897932384626433"), bigS("271828182845904523536028747135"), bigS("4294967296000000000000000001")}
	var sup, res []*big.Int
	if quick {
		for _, k := range []int{18, 21, 24, 26, 28, 30, 33} {
			sup = append(sup, pow10(k))
		}
		sup = append(sup, plus(pow10(18), 1), plus(pow10(24), -1), plus(pow10(30), 1), plus(pow10(33), -1))
		sup = append(sup, plus(pow2(64), 1), pow2(80), plus(pow2(100), -1), pow2(100), plus(pow2(100), 3))
		sup = append(sup, odd[:2]...)
		for _, k := range []int{22, 25, 28, 33} {
			res = append(res, pow10(k))
		}
		res = append(res, plus(pow10(22), 1), plus(pow10(26), -1), plus(pow10(33), -1))
		res = append(res, pow2(80), plus(pow2(100), -1), pow2(100), plus(pow2(100), 3), pow2(109))
		res = append(res, odd[0], odd[2])
		l.RatioExps = []int{30, 27, 24, 20, 16, 12, 9, 6, 3, 2, 1}
		l.Fractions = [][2]int64{{1, 3}, {1, 2}, {9, 10}, {99, 100}}
		l.NearAll = []int{6, 12}
		l.Multiples = []int{1, 3, 6, 9}
	} else {
		for k := 18; k <= 33; k++ {
			sup = append(sup, pow10(k))
			if k%5 == 3 {
				sup = append(sup, plus(pow10(k), -1), plus(pow10(k), 1))
			}
		}
		for k := 60; k <= 108; k += 6 {
			sup = append(sup, pow2(k))
		}
		sup = append(sup, plus(pow2(64), -1), pow2(64), plus(pow2(64), 1), plus(pow2(100), -1), pow2(100), plus(pow2(100), 1), plus(pow2(100), 3), plus(pow2(101), -1), pow2(109))
		sup = append(sup, odd...)
		for k := 22; k <= 33; k++ {
			res = append(res, pow10(k))
			if k%5 == 3 || k == 22 {
				res = append(res, plus(pow10(k), -1), plus(pow10(k), 1))
			}
		}
		for k := 76; k <= 108; k += 6 {
			res = append(res, pow2(k))
		}
		res = append(res, plus(pow2(100), -1), pow2(100), plus(pow2(100), 1), plus(pow2(100), 3), plus(pow2(101), -1), pow2(109))
		res = append(res, odd...)
		for k := 1; k <= 30; k++ {
			l.RatioExps = append(l.RatioExps, k)
		}
		l.Fractions = [][2]int64{{1, 7}, {1, 3}, {1, 2}, {2, 3}, {3, 4}, {9, 10}, {99, 100}, {999, 1000}}
		l.NearAll = []int{4, 6, 9, 12, 15, 18}
		l.Multiples = []int{1, 2, 3, 6, 9, 12}
	}
	l.Supplies = sortedUnique(sup, pow10(18), Ten33)
	l.Reserves = sortedUnique(res, pow10(22), Ten33)
	l.Absolute = []*big.Int{big.NewInt(0), big.NewInt(1), big.NewInt(2), pow2(53), plus(pow2(53), 1), pow10(18)}
	if !quick {
		l.Absolute = append(l.Absolute, big.NewInt(3), big.NewInt(1000), plus(pow2(53), -1), plus(pow2(64), -1), pow2(64), plus(pow2(64), 1), plus(pow2(100), 1), pow10(22))
	}
	return l
}

// Amounts lists, in increasing order, the amounts of one lattice line.
func (l *Lattice) Amounts(f Func, S, R *big.Int) []*big.Int {
	X := R
	if f.scaleIsSupply() {
		X = S
	}
	var a []*big.Int
	a = append(a, l.Absolute...)
	for _, k := range l.RatioExps {
		a = append(a, new(big.Int).Quo(X, pow10(k)))
	}
	for _, fr := range l.Fractions {
		t := new(big.Int).Mul(X, big.NewInt(fr[0]))
		a = append(a, t.Quo(t, big.NewInt(fr[1])))
	}
	for _, k := range l.NearAll {
		a = append(a, new(big.Int).Sub(X, new(big.Int).Quo(X, pow10(k))))
	}
	// what is left when the reserve (or supply) is drawn down to the node's minimum
	a = append(a, new(big.Int).Sub(X, pow10(22)), new(big.Int).Sub(X, pow10(18)))
	a = append(a, plus(X, -2), plus(X, -1), X)
	if !f.isSale() {
		a = append(a, plus(X, 1))
		for _, k := range l.Multiples {
			a = append(a, new(big.Int).Mul(X, pow10(k)))
		}
		a = append(a, new(big.Int).Sub(Ten33, S), Ten33) // up to the cap
	}
	a = sortedUnique(a, big.NewInt(0), nil)
	var out []*big.Int
	for _, x := range a {
		if InDomain(f, S, R, x) {
			out = append(out, x)
		}
	}
	return out
}

// Case is the replay payload of one violation: the function, the decimal arguments and the rule.
type Case struct {
	Function   string `json:"function"`
	Rule       string `json:"rule"`
	Supply     string `json:"supply"`
	Reserve    string `json:"reserve"`
	Crr        uint32 `json:"crr"`
	Amount     string `json:"amount"`
	PrevAmount string `json:"prev_amount,omitempty"` // monotonicity: the smaller amount of the pair
}

// Violation is one broken rule at one lattice point.
type Violation struct {
	Signature string
	Detail    string
	Case      Case
}

// FuncStats are the per-function counters.
type FuncStats struct {
	Evaluations   int64   `json:"evaluations"`
	Nontrivial    int64   `json:"nontrivial"`
	Stage2        int64   `json:"accepted_by_conditioning_stage2"`
	Stage2Narrow  int64   `json:"stage2_with_all_operands_below_2^100"`
	RoundTrips    int64   `json:"round_trips"`
	MonotonePairs int64   `json:"monotone_pairs"`
	SellAll       int64   `json:"sell_all_points"`
	WorstErrLog2  float64 `json:"worst_stage1_error_log2_relative_to_operands"`
	WorstAt       string  `json:"worst_at,omitempty"`
	WorstS2Log2   float64 `json:"worst_stage2_error_log2_relative_to_operands"`
	WorstS2At     string  `json:"worst_stage2_at,omitempty"`
}

// Stats is the outcome of a run.
type Stats struct {
	Lines       int64 // (function, supply, reserve, amount) combinations
	Evaluations int64
	Nontrivial  int64
	PerFunc     [NFuncs]FuncStats
	Exhaustive  bool
	Units       int
	UnitsDone   int
	Samples     []string
	Violations  []Violation // in deterministic lattice order, at most perSigPerUnit per signature and unit
	SigCounts   map[string]int64
	Wall        time.Duration
}

const noErr = -1e9

type unitResult struct {
	lines    int64
	per      [NFuncs]FuncStats
	viol     []Violation
	sigCount map[string]int64
	samples  []string
	done     bool
}

func describe(f Func, S, R *big.Int, crr uint32, a *big.Int) string {
	return fmt.Sprintf("%s(supply=%s, reserve=%s, crr=%d, amount=%s)", FuncNames[f], S, R, crr, a)
}

func short(x *big.Float) string { return x.Text('f', 6) }

// DetailOf renders an evaluation for humans (also used by the replayer).
func DetailOf(l *Line, crr uint32, r *Result) string {
	s := describe(l.F, l.S, l.R, crr, l.A) + "\n"
	if r.Panic != "" {
		return s + "impl panicked: " + r.Panic
	}
	s += fmt.Sprintf("impl                       = %s\nformula (node exponent)    = %s\nformula (exact exponent)   = %s\npower term p               = %s\naccepted: %s < impl <= %s (eps=%s, stage2=%v, drift for exact exponent=%s)\nbroken: %v",
		r.Impl, short(r.Ref), short(r.RefLoose), r.P.Text('g', 30), short(r.Lo), short(r.Hi), r.Eps.Text('g', 6), r.Stage2, r.Drift.Text('g', 6), r.Broken)
	return s
}

func runUnit(lat *Lattice, f Func, S, R *big.Int, deadline time.Time) *unitResult {
	u := &unitResult{sigCount: map[string]int64{}}
	for i := range u.per {
		u.per[i].WorstErrLog2, u.per[i].WorstS2Log2 = noErr, noErr
	}
	st := &u.per[f]
	X := R
	if f.scaleIsSupply() {
		X = S
	}
	add := func(sig, detail string, c Case) {
		u.sigCount[sig]++
		if u.sigCount[sig] <= 1 {
			u.viol = append(u.viol, Violation{Signature: sig, Detail: detail, Case: c})
		}
	}
	amounts := lat.Amounts(f, S, R)
	prev := make([]*big.Int, 101)
	var prevA *big.Int
	for ai, a := range amounts {
		if ai%4 == 0 && !deadline.IsZero() && time.Now().After(deadline) {
			return u
		}
		line := NewLine(f, S, R, a)
		u.lines++
		ac := WidthClass(S, R, a) + "," + AmountClass(a, X)
		wide := WidthClass(S, R, a) != narrowOperands
		for _, crr := range lat.Crrs {
			r := line.Eval(crr)
			st.Evaluations++
			if !r.Trivial {
				st.Nontrivial++
			}
			if r.Stage2 && len(r.Broken) == 0 {
				st.Stage2++
				if !wide {
					st.Stage2Narrow++
				}
				if r.ErrLog2 > st.WorstS2Log2 {
					st.WorstS2Log2, st.WorstS2At = r.ErrLog2, describe(f, S, R, crr, a)
				}
			} else if len(r.Broken) == 0 && r.ErrLog2 > st.WorstErrLog2 {
				st.WorstErrLog2, st.WorstAt = r.ErrLog2, describe(f, S, R, crr, a)
			}
			if f == SaleReturn && a.Cmp(S) == 0 {
				st.SellAll++
			}
			cs := Case{Function: FuncNames[f], Supply: S.String(), Reserve: R.String(), Crr: crr, Amount: a.String()}
			for _, rule := range r.Broken {
				c := cs
				c.Rule = rule
				add(FuncNames[f]+"|"+rule+"|"+CrrClass(crr)+"|"+ac, DetailOf(line, crr, r), c)
			}
			if r.Panic != "" {
				prev[crr] = nil
				continue
			}
			// monotone along the line
			if p := prev[crr]; p != nil {
				st.MonotonePairs++
				if r.Impl.Cmp(p) < 0 {
					c := cs
					c.Rule, c.PrevAmount = RuleMonotone, prevA.String()
					add(FuncNames[f]+"|"+RuleMonotone+"|"+CrrClass(crr)+"|"+ac,
						fmt.Sprintf("%s = %s but the same call with the smaller amount %s = %s", describe(f, S, R, crr, a), r.Impl, prevA, p), c)
				}
			}
			prev[crr] = r.Impl
			// buy then sell
			if f == PurchaseReturn && r.Impl.Sign() > 0 {
				st.RoundTrips++
				rt := line.RoundTrip(crr, r.Impl, r.P)
				if rt.Broken {
					c := cs
					c.Rule = RuleRoundTrip
					add(FuncNames[f]+"|"+RuleRoundTrip+"|"+CrrClass(crr)+"|"+ac, RoundTripDetail(line, crr, rt), c)
				}
			}
			if len(u.samples) < 2 && !r.Trivial && len(r.Broken) == 0 && ai*7%len(amounts) < 3 && crr%37 == 0 {
				u.samples = append(u.samples, fmt.Sprintf("%s = %s; 512-bit formula %s; accepted (%s, %s]", describe(f, S, R, crr, a), r.Impl, short(r.Ref), short(r.Lo), short(r.Hi)))
			}
		}
		prevA = a
	}
	u.done = true
	return u
}

// RoundTripDetail renders a round trip.
func RoundTripDetail(l *Line, crr uint32, rt *RoundTripResult) string {
	s := fmt.Sprintf("buy: %s = %s; then CalculateSaleReturn(supply=%s, reserve=%s, crr=%d, amount=%s)",
		describe(l.F, l.S, l.R, crr, l.A), rt.Got, new(big.Int).Add(l.S, rt.Got), new(big.Int).Add(l.R, l.A), crr, rt.Got)
	if rt.Panic != "" {
		return s + " panicked: " + rt.Panic
	}
	return s + fmt.Sprintf(" = %s; paid %s, excess %s, tolerance %s", rt.Back, l.A, new(big.Int).Sub(rt.Back, l.A), rt.Tol.Text('g', 8))
}

// Run enumerates the whole lattice with `workers` goroutines. The result does
// not depend on scheduling: units are merged in lattice order.
func Run(lat *Lattice, deadline time.Time, workers int) *Stats {
	start := time.Now()
	if workers <= 0 {
		workers = runtime.NumCPU()
	}
	// The functions under test allocate ~170 kB in ~2000 small objects per call.
	// With the tiny live heap of this enumeration the collector would run every
	// few milliseconds and the scavenger would keep returning pages to the OS and
	// faulting them in again (page faults are very expensive in the sandbox VM).
	// A never-touched ballast raises the heap goal so that the same already
	// mapped pages are recycled; it only changes timing, never results.
	ballastMB, gcPercent := 256, 100
	if v, err := strconv.Atoi(os.Getenv("VERIF_C12_BALLAST_MB")); err == nil {
		ballastMB = v
	}
	if v, err := strconv.Atoi(os.Getenv("VERIF_C12_GOGC")); err == nil {
		gcPercent = v
	}
	ballast := make([]byte, ballastMB<<20)
	old := debug.SetGCPercent(gcPercent)
	defer func() {
		debug.SetGCPercent(old)
		runtime.KeepAlive(ballast)
	}()
	type unit struct {
		f    Func
		S, R *big.Int
	}
	var units []unit
	// functions innermost: a run cut short by the deadline still covers all four
	for _, S := range lat.Supplies {
		for _, R := range lat.Reserves {
			for f := Func(0); f < NFuncs; f++ {
				units = append(units, unit{f, S, R})
			}
		}
	}
	results := make([]*unitResult, len(units))
	var wg sync.WaitGroup
	var mu sync.Mutex
	next := 0
	for w := 0; w < workers; w++ {
		wg.Add(1)
		go func() {
			defer wg.Done()
			for {
				mu.Lock()
				i := next
				next++
				mu.Unlock()
				if i >= len(units) {
					return
				}
				if !deadline.IsZero() && time.Now().After(deadline) {
					continue
				}
				results[i] = runUnit(lat, units[i].f, units[i].S, units[i].R, deadline)
			}
		}()
	}
	wg.Wait()
	st := &Stats{Exhaustive: true, Units: len(units), SigCounts: map[string]int64{}}
	for i := range st.PerFunc {
		st.PerFunc[i].WorstErrLog2, st.PerFunc[i].WorstS2Log2 = noErr, noErr
	}
	for i, u := range results {
		if u == nil || !u.done {
			st.Exhaustive = false
		}
		if u == nil {
			continue
		}
		st.UnitsDone++
		st.Lines += u.lines
		f := units[i].f
		p, q := &st.PerFunc[f], &u.per[f]
		p.Evaluations += q.Evaluations
		p.Nontrivial += q.Nontrivial
		p.Stage2 += q.Stage2
		p.Stage2Narrow += q.Stage2Narrow
		p.RoundTrips += q.RoundTrips
		p.MonotonePairs += q.MonotonePairs
		p.SellAll += q.SellAll
		if q.WorstErrLog2 > p.WorstErrLog2 {
			p.WorstErrLog2, p.WorstAt = q.WorstErrLog2, q.WorstAt
		}
		if q.WorstS2Log2 > p.WorstS2Log2 {
			p.WorstS2Log2, p.WorstS2At = q.WorstS2Log2, q.WorstS2At
		}
		st.Violations = append(st.Violations, u.viol...)
		for s, n := range u.sigCount {
			st.SigCounts[s] += n
		}
		if len(st.Samples) < 8 && len(u.samples) > 0 && i%(len(units)/8+1) == 0 {
			st.Samples = append(st.Samples, u.samples[0])
		}
	}
	for i := range st.PerFunc {
		st.Evaluations += st.PerFunc[i].Evaluations
		st.Nontrivial += st.PerFunc[i].Nontrivial
	}
	st.Wall = time.Since(start)
	return st
}
