package bancor

import "testing"

// TestLatticeSizes pins the sizes of the two lattices (a change of the value lists must be deliberate).
func TestLatticeSizes(t *testing.T) {
	for _, q := range []bool{true, false} {
		lat := Build(q)
		total := 0
		for f := Func(0); f < NFuncs; f++ {
			for _, S := range lat.Supplies {
				for _, R := range lat.Reserves {
					am := lat.Amounts(f, S, R)
					for i := 1; i < len(am); i++ {
						if am[i-1].Cmp(am[i]) >= 0 {
							t.Fatalf("amounts not strictly increasing")
						}
					}
					for _, a := range am {
						if !InDomain(f, S, R, a) {
							t.Fatalf("amount outside the domain")
						}
					}
					total += len(am) * len(lat.Crrs)
				}
			}
		}
		t.Logf("%s: supplies=%d reserves=%d evaluations=%d", lat.Name, len(lat.Supplies), len(lat.Reserves), total)
	}
}
