package bancor

import (
	"fmt"
	"math/big"
	"testing"
	"time"
)

func TestDev(t *testing.T) {
	lat := Build(true)
	lat.Supplies = []*big.Int{pow10(18), pow10(24), plus(pow2(100), -1), plus(pow2(100), 3), plus(pow10(33), -1), pow10(33)}
	lat.Reserves = []*big.Int{pow10(22), pow10(26), plus(pow2(100), -1), plus(pow2(100), 3), plus(pow10(33), -1), pow10(33)}
	st := Run(lat, time.Time{}, 8)
	fmt.Printf("evals=%d nontrivial=%d wall=%v exhaustive=%v\n", st.Evaluations, st.Nontrivial, st.Wall, st.Exhaustive)
	for f := Func(0); f < NFuncs; f++ {
		p := st.PerFunc[f]
		fmt.Printf("%s: evals=%d stage2=%d worst1=%.1f at %s\n   worst2=%.1f at %s\n", FuncNames[f], p.Evaluations, p.Stage2, p.WorstErrLog2, p.WorstAt, p.WorstS2Log2, p.WorstS2At)
	}
	for s, n := range st.SigCounts {
		fmt.Printf("SIG %s: %d\n", s, n)
	}
	seen := map[string]bool{}
	for _, v := range st.Violations {
		if !seen[v.Signature] {
			seen[v.Signature] = true
			fmt.Printf("---- %s\n%s\n", v.Signature, v.Detail)
		}
	}
}
