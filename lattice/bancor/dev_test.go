package bancor

import (
	"fmt"
	"os"
	"sort"
	"strconv"
	"testing"
	"time"
)

// TestDevRun runs the quick lattice for VERIF_DEV_S seconds and prints the signatures (development aid).
func TestDevRun(t *testing.T) {
	secs, _ := strconv.Atoi(os.Getenv("VERIF_DEV_S"))
	if secs == 0 {
		t.Skip("set VERIF_DEV_S")
	}
	st := Run(Build(true), time.Now().Add(time.Duration(secs)*time.Second), 0)
	fmt.Printf("evals=%d nontrivial=%d wall=%v exhaustive=%v\n", st.Evaluations, st.Nontrivial, st.Wall, st.Exhaustive)
	var sigs []string
	for s := range st.SigCounts {
		sigs = append(sigs, s)
	}
	sort.Strings(sigs)
	for _, s := range sigs {
		fmt.Printf("SIG %s: %d\n", s, st.SigCounts[s])
	}
	seen := map[string]bool{}
	for _, v := range st.Violations {
		if !seen[v.Signature] && len(seen) < 4 {
			seen[v.Signature] = true
			fmt.Printf("---- %s\n%s\n", v.Signature, v.Detail)
		}
	}
}
