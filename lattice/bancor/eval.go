package bancor

// eval.go: one lattice point = one call of a /repo/formula function compared
// with the 512-bit reference, plus the rules of property C12.
//
// Closed formulas (as in the comments of /repo/formula/formula.go), z the base
// of the power, w the exponent, M the multiplier, X the operand the amount is
// divided by:
//
//	CalculatePurchaseReturn(S,R,crr,deposit) = S·((1+deposit/R)^(crr/100) − 1)   z=(R+a)/R  w=crr/100  M=S  X=R
//	CalculatePurchaseAmount(S,R,crr,want)    = R·((1+want/S)^(100/crr) − 1)      z=(S+a)/S  w=100/crr  M=R  X=S
//	CalculateSaleReturn(S,R,crr,sell)        = R·(1 − (1−sell/S)^(100/crr))      z=(S−a)/S  w=100/crr  M=R  X=S
//	CalculateSaleAmount(S,R,crr,want)        = S·(1 − (1−want/R)^(crr/100))      z=(R−a)/R  w=crr/100  M=S  X=R
//
// TOLERANCE (error analysis of the 100-bit implementation, u = 2^-100)
//
// The code converts S, R, a to 100-bit floats (relative error <= u each, zero
// below 2^100), forms z with one division and one addition/subtraction
// (purchases: relative error of z <= 4u; sales: absolute error of z <= 4u),
// calls math.Pow (164-bit ln/exp, result rounded to 100 bits: relative error of
// the power term p <= (4w+1)·u <= 41u < 2^-94.6 with w <= 10, provided the
// relative error of z is <= 4u), subtracts from / subtracts 1 (relative u of the
// difference) and multiplies by M (relative u).  The absolute error of the
// final float is therefore <= 2^-94.6·M·max(1,p) + 2u·result; truncation to an
// integer then moves it by less than one unit downwards.  Stage 1 accepts
//
//	ref − eps − 1 < impl <= ref + eps,   eps = 2^-90 · max(S,R) · max(1,p)
//
// (2^-90 leaves a factor of about 24 over the analysis; "relative" is relative
// to the magnitude of the operands, not of the result, because p−1 and 1−p
// cancel for tiny a/X — this is the reading of "bounded relative floating-point
// error" under which any 100-bit implementation of the formula can pass.)
//
// Stage 2 (conditioning).  For the sale functions z = 1 − a/X loses RELATIVE
// accuracy when a is close to X: its absolute error stays <= 4u, but relative
// to z it is 4u/z.  With w >= 1 (CalculateSaleReturn) this is harmless
// (|d z^w| <= w·dz), with w < 1 (CalculateSaleAmount) the power term amplifies
// it by w·z^(w−1) and for a within 2^-100·X of X (possible only for X > 2^100,
// where X and a themselves are rounded to 100 bits) the computed z can be 0.
// This error is inherent to evaluating the formula on operands held with 100
// bits; it is not a coding slip.  A point that fails stage 1 and has
// dz/z > 2^-94 with dz = 2^-97·(a/X + z) is therefore accepted when impl lies
// between the reference evaluated at z−dz and at z+dz (same eps and truncation
// unit added): the result is the exact formula value for operands perturbed by
// a relative 2^-97 (backward-error reading of "bounded relative floating-point
// error").  For dz/z <= 2^-94 stage 2 cannot add anything over eps
// (M·p·w·dz/z <= 2^-90.7·M·p) and is skipped.  Stage-2 acceptances are counted
// per function in the evidence.
//
// LOOSE comparison: the same formula with the exact rational exponent crr/100
// resp. 100/crr.  The float64 constant of the node differs from it by a
// relative 2^-53 at most, which moves the power term by a relative
// 2^-53·w·|ln z|; the loose tolerance adds drift = 2^-52·M·p·w·|ln z|.

import (
	"fmt"
	"math"
	"math/big"

	"github.com/MinterTeam/minter-go-node/formula"
)

// Func selects one of the four functions under test.
type Func int

const (
	PurchaseReturn Func = iota
	PurchaseAmount
	SaleReturn
	SaleAmount
	NFuncs
)

// FuncNames are the names used in signatures and replay payloads.
var FuncNames = [NFuncs]string{"CalculatePurchaseReturn", "CalculatePurchaseAmount", "CalculateSaleReturn", "CalculateSaleAmount"}

// FuncByName is the inverse of FuncNames.
func FuncByName(n string) (Func, bool) {
	for i, s := range FuncNames {
		if s == n {
			return Func(i), true
		}
	}
	return 0, false
}

func (f Func) isSale() bool   { return f == SaleReturn || f == SaleAmount }
func (f Func) inverseW() bool { return f == PurchaseAmount || f == SaleReturn } // exponent 100/crr
func (f Func) scaleIsSupply() bool {
	return f == PurchaseAmount || f == SaleReturn
}

// Rules of C12 as they appear in signatures.
const (
	RulePanic     = "panic"
	RuleNegative  = "negative-result"
	RuleTight     = "differs-from-formula(node-exponent)"
	RuleLoose     = "differs-from-formula(exact-exponent)"
	RuleReserve   = "sale-return-exceeds-reserve"
	RuleSellAll   = "sell-all-not-exactly-reserve"
	RuleMonotone  = "decreases-as-amount-grows"
	RuleRoundTrip = "buy-then-sell-returns-more-than-paid"
)

var (
	wTight [2][101]*big.Float // [0]: float64(crr)/100, [1]: 100/float64(crr) — exact binary rationals
	wExact [2][101]*big.Float // crr/100 and 100/crr to 576 bits
	// deltaPos[crr] = max(0, wTight[0]·wTight[1] − 1): how much the two float64 constants overshoot being reciprocal
	deltaPos [101]*big.Float

	twoM90 = new(big.Float).SetMantExp(big.NewFloat(1), -90)
	twoM97 = new(big.Float).SetMantExp(big.NewFloat(1), -97)
	twoM94 = new(big.Float).SetMantExp(big.NewFloat(1), -94)
	twoM52 = new(big.Float).SetMantExp(big.NewFloat(1), -52)
)

func init() {
	for crr := 1; crr <= 100; crr++ {
		c := float64(crr)
		wTight[0][crr] = nf().SetFloat64(c / 100)
		wTight[1][crr] = nf().SetFloat64(100 / c)
		wExact[0][crr] = nf().Quo(nf().SetInt64(int64(crr)), nf().SetInt64(100))
		wExact[1][crr] = nf().Quo(nf().SetInt64(100), nf().SetInt64(int64(crr)))
		d := nf().Mul(wTight[0][crr], wTight[1][crr]) // exact: 106 bits
		d.Sub(d, fOne)
		if d.Sign() < 0 {
			d.SetInt64(0)
		}
		deltaPos[crr] = d
	}
}

// Line holds everything about (function, supply, reserve, amount) that does not depend on crr.
type Line struct {
	F       Func
	S, R, A *big.Int
	X       *big.Int   // operand the amount is divided by
	z       *big.Float // base of the power (exact to 2^-576)
	lnz     *big.Float // nil when z == 0
	absLn   *big.Float
	m       *big.Float // multiplier M
	maxSR   *big.Float
	ratio   *big.Float // a/X
	// stage 2 (lazily computed)
	s2done      bool
	s2able      bool
	lnzLo, lnzH *big.Float // ln(z−dz) (nil: z−dz <= 0), ln(z+dz)
}

// InDomain tells whether the node can call the function with these arguments:
// it never sells more than the supply (CalculateSaleReturnAndCheck), never asks
// for more than the reserve (CalculateSaleAmountAndCheck), and supply+want stays
// within the maximal supply 10^33 (CheckForCoinSupplyOverflow).
func InDomain(f Func, S, R, a *big.Int) bool {
	if a.Sign() < 0 || S.Sign() <= 0 || R.Sign() <= 0 {
		return false
	}
	switch f {
	case SaleReturn:
		return a.Cmp(S) <= 0
	case SaleAmount:
		return a.Cmp(R) <= 0
	case PurchaseAmount:
		return new(big.Int).Add(S, a).Cmp(Ten33) <= 0
	default:
		return a.Cmp(Ten33) <= 0
	}
}

// NewLine prepares the crr-independent part of a lattice point.
func NewLine(f Func, S, R, a *big.Int) *Line {
	l := &Line{F: f, S: S, R: R, A: a}
	l.X = R
	l.m = fInt(S)
	if f.scaleIsSupply() {
		l.X = S
		l.m = fInt(R)
	}
	num := new(big.Int)
	if f.isSale() {
		num.Sub(l.X, a)
	} else {
		num.Add(l.X, a)
	}
	fx := fInt(l.X)
	l.z = nf().Quo(fInt(num), fx)
	l.ratio = nf().Quo(fInt(a), fx)
	if num.Sign() > 0 {
		l.lnz = Ln(l.z)
		l.absLn = nf().Abs(l.lnz)
	}
	if S.Cmp(R) >= 0 {
		l.maxSR = fInt(S)
	} else {
		l.maxSR = fInt(R)
	}
	return l
}

func (l *Line) stage2() bool {
	if l.s2done {
		return l.s2able
	}
	l.s2done = true
	dz := nf().Add(l.ratio, l.z)
	dz.Mul(dz, twoM97)
	// worth it only when dz/z > 2^-94
	if l.z.Sign() != 0 && nf().Mul(l.z, twoM94).Cmp(dz) >= 0 {
		return false
	}
	l.s2able = true
	lo := nf().Sub(l.z, dz)
	if lo.Sign() > 0 {
		l.lnzLo = Ln(lo)
	}
	l.lnzH = Ln(nf().Add(l.z, dz))
	return true
}

// formulaValue returns M·(p−1) resp. M·(1−p).
func (l *Line) formulaValue(p *big.Float) *big.Float {
	v := nf()
	if l.F.isSale() {
		v.Sub(fOne, p)
	} else {
		v.Sub(p, fOne)
	}
	return v.Mul(v, l.m)
}

// Result of one evaluation.
type Result struct {
	Impl     *big.Int
	Panic    string
	P        *big.Float // power term with the node's exponent
	Ref      *big.Float // formula with the node's exponent constant
	RefLoose *big.Float // formula with the exact rational exponent
	Eps      *big.Float
	Drift    *big.Float
	Lo, Hi   *big.Float // accepted interval of the tight comparison: Lo < impl <= Hi
	Stage2   bool
	Broken   []string
	// ErrLog2 = log2((|impl−ref| − 1) / (max(S,R)·max(1,p))) when |impl−ref| > 1, else -Inf
	ErrLog2 float64
	Trivial bool // shortcut path (amount 0, crr 100, sell-all) or reference value below 1
}

// CallImpl calls the function under test, turning a panic into a string.
func CallImpl(f Func, S, R *big.Int, crr uint32, a *big.Int) (res *big.Int, panicked string) {
	defer func() {
		if r := recover(); r != nil {
			res, panicked = nil, fmt.Sprint(r)
		}
	}()
	switch f {
	case PurchaseReturn:
		res = formula.CalculatePurchaseReturn(S, R, crr, a)
	case PurchaseAmount:
		res = formula.CalculatePurchaseAmount(S, R, crr, a)
	case SaleReturn:
		res = formula.CalculateSaleReturn(S, R, crr, a)
	case SaleAmount:
		res = formula.CalculateSaleAmount(S, R, crr, a)
	}
	return
}

func within(x, lo, hi *big.Float) bool { return x.Cmp(lo) > 0 && x.Cmp(hi) <= 0 }

// Eval runs the function for one crr and applies the pointwise rules.
func (l *Line) Eval(crr uint32) *Result {
	r := &Result{ErrLog2: math.Inf(-1)}
	r.Impl, r.Panic = CallImpl(l.F, l.S, l.R, crr, l.A)
	wi := 0
	if l.F.inverseW() {
		wi = 1
	}
	wt, we := wTight[wi][crr], wExact[wi][crr]
	var pe *big.Float
	if crr == 100 {
		// w = 1 exactly for both constants: the formula is the rational M·a/X
		r.P = nf().Set(l.z)
		pe = r.P
		r.Ref = nf().Mul(l.m, l.ratio)
		r.RefLoose = r.Ref
	} else {
		r.P = PowLn(l.lnz, wt)
		pe = PowLn(l.lnz, we)
		r.Ref = l.formulaValue(r.P)
		r.RefLoose = l.formulaValue(pe)
	}
	pm := r.P
	if pm.Cmp(fOne) < 0 {
		pm = fOne
	}
	r.Eps = nf().Mul(twoM90, l.maxSR)
	r.Eps.Mul(r.Eps, pm)
	r.Drift = nf()
	if l.lnz != nil && crr != 100 {
		r.Drift.Mul(twoM52, l.m).Mul(r.Drift, pe).Mul(r.Drift, we).Mul(r.Drift, l.absLn)
	}
	r.Lo = nf().Sub(r.Ref, r.Eps)
	r.Lo.Sub(r.Lo, fOne)
	r.Hi = nf().Add(r.Ref, r.Eps)
	r.Trivial = l.A.Sign() == 0 || crr == 100 || (l.F == SaleReturn && l.A.Cmp(l.S) == 0) || r.Ref.Cmp(fOne) < 0

	if r.Panic != "" {
		r.Broken = append(r.Broken, RulePanic)
		return r
	}
	if r.Impl.Sign() < 0 {
		r.Broken = append(r.Broken, RuleNegative)
	}
	fi := nf().SetInt(r.Impl)
	if !within(fi, r.Lo, r.Hi) && crr != 100 && l.stage2() {
		// conditioning: formula at z−dz and z+dz (see the header comment)
		vLo := l.formulaValue(PowLn(l.lnzLo, wt))
		vHi := l.formulaValue(PowLn(l.lnzH, wt))
		if vLo.Cmp(vHi) > 0 {
			vLo, vHi = vHi, vLo
		}
		lo2 := nf().Sub(vLo, r.Eps)
		lo2.Sub(lo2, fOne)
		hi2 := nf().Add(vHi, r.Eps)
		if lo2.Cmp(r.Lo) < 0 {
			r.Lo = lo2
		}
		if hi2.Cmp(r.Hi) > 0 {
			r.Hi = hi2
		}
		r.Stage2 = true
	}
	d := nf().Sub(fi, r.Ref)
	if ad := nf().Abs(d); ad.Cmp(fOne) > 0 {
		ad.Sub(ad, fOne)
		ad.Quo(ad, nf().Mul(l.maxSR, pm))
		if ad.Sign() > 0 {
			mant := new(big.Float)
			e := ad.MantExp(mant)
			mf, _ := mant.Float64()
			r.ErrLog2 = float64(e) + math.Log2(mf)
		}
	}
	if !within(fi, r.Lo, r.Hi) {
		r.Broken = append(r.Broken, RuleTight)
	}
	// loose: same interval widths around the exact-exponent formula, plus the drift
	lo := nf().Sub(r.RefLoose, nf().Sub(r.Ref, r.Lo))
	lo.Sub(lo, r.Drift)
	hi := nf().Add(r.RefLoose, nf().Sub(r.Hi, r.Ref))
	hi.Add(hi, r.Drift)
	// reported only where the tight comparison passed: there it means that the
	// node's exponent constant itself is off; elsewhere it would repeat the tight verdict
	if !within(fi, lo, hi) && crr != 100 && within(fi, r.Lo, r.Hi) {
		r.Broken = append(r.Broken, RuleLoose)
	}
	if l.F == SaleReturn {
		if r.Impl.Cmp(l.R) > 0 {
			r.Broken = append(r.Broken, RuleReserve)
		}
		if l.A.Cmp(l.S) == 0 && r.Impl.Cmp(l.R) != 0 {
			r.Broken = append(r.Broken, RuleSellAll)
		}
	}
	return r
}

// RoundTrip buys with `deposit`, sells what was bought on the coin as it is
// after the purchase, and returns what came back with the tolerance allowed.
//
// Tolerance (composition of the pointwise tolerances, so that an implementation
// that satisfies them can never fire this rule): got <= g* + eps1 and
// back <= B(got) + eps2 with B(g) = R'(1 − (S/(S+g))^c2), dB/dg <= R'·c2/S';
// B(g*) = deposit + R·(1 − (R/R')^delta) <= deposit + R·delta⁺·ln(R'/R) where
// 1+delta = c1·c2 is the product of the node's two float64 exponent constants
// (float64(crr)/100 and 100/float64(crr) are not exact reciprocals, |delta| <=
// 2^-52: a relative 2^-52 that belongs to the "bounded relative error" of the
// float64 exponent). tol = 1 + eps2 + eps1·c2·R'/S' + 1.01·R·delta⁺·ln(R'/R).
type RoundTripResult struct {
	Got, Back *big.Int
	Panic     string
	Tol       *big.Float
	Broken    bool
}

// RoundTrip evaluates the round trip for a CalculatePurchaseReturn line.
func (l *Line) RoundTrip(crr uint32, got *big.Int, p *big.Float) *RoundTripResult {
	rt := &RoundTripResult{Got: got}
	s2 := new(big.Int).Add(l.S, got)
	r2 := new(big.Int).Add(l.R, l.A)
	rt.Back, rt.Panic = CallImpl(SaleReturn, s2, r2, crr, got)
	if rt.Panic != "" {
		rt.Broken = true
		return rt
	}
	fs2, fr2 := fInt(s2), fInt(r2)
	mx := fs2
	if fr2.Cmp(fs2) > 0 {
		mx = fr2
	}
	eps2 := nf().Mul(twoM90, mx)
	pm := p
	if pm.Cmp(fOne) < 0 {
		pm = fOne
	}
	eps1 := nf().Mul(twoM90, l.maxSR)
	eps1.Mul(eps1, pm)
	t := nf().Mul(eps1, wTight[1][crr])
	t.Mul(t, fr2).Quo(t, fs2)
	tol := nf().Add(fOne, eps2)
	tol.Add(tol, t)
	if l.lnz != nil && deltaPos[crr].Sign() > 0 {
		dl := nf().Mul(fInt(l.R), deltaPos[crr])
		dl.Mul(dl, l.absLn).Mul(dl, nf().SetFloat64(1.01))
		tol.Add(tol, dl)
	}
	rt.Tol = tol
	lim := nf().Add(fInt(l.A), tol)
	rt.Broken = nf().SetInt(rt.Back).Cmp(lim) > 0
	return rt
}

// AmountClass classifies the amount relative to the operand it is divided by (no concrete numbers).
func AmountClass(a, X *big.Int) string {
	switch {
	case a.Sign() == 0:
		return "amount=0"
	case a.Cmp(big.NewInt(2)) <= 0:
		return "amount=1..2pip"
	case a.Cmp(X) == 0:
		return "amount=whole-scale"
	case a.Cmp(X) > 0:
		return "amount>scale"
	case new(big.Int).Add(a, big.NewInt(1)).Cmp(X) == 0:
		return "amount=scale-1"
	}
	t := new(big.Int).Mul(a, big.NewInt(1e12))
	if t.Cmp(X) < 0 {
		return "amount<1e-12*scale"
	}
	t.Mul(a, big.NewInt(8))
	if t.Cmp(new(big.Int).Mul(X, big.NewInt(7))) >= 0 {
		return "amount>=7/8*scale"
	}
	return "amount-mid"
}

const narrowOperands = "operands<=2^100"

// WidthClass tells whether every operand fits the 100-bit mantissa of the
// implementation exactly (supply, reserve and amount all below 2^100) or not.
func WidthClass(S, R, a *big.Int) string {
	if S.BitLen() > 100 || R.BitLen() > 100 || a.BitLen() > 100 {
		return "operands>2^100"
	}
	return narrowOperands
}

// CrrClass is the crr part of a signature.
func CrrClass(crr uint32) string {
	if crr == 100 {
		return "crr=100"
	}
	return "crr<100"
}
