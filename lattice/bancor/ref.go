// Package bancor enumerates a finite lattice of (supply, reserve, crr, amount)
// tuples and compares the four Bancor functions of /repo/formula with an
// independent high-precision reference of the closed formulas (property C12).
//
// ref.go: the reference arithmetic. Everything is math/big.Float at 512 bits
// (576 working bits); ln and exp are implemented here from their series and do
// not share any code with /repo/math (which uses AGM + Newton at 164 bits).
package bancor

import (
	"math"
	"math/big"
)

const (
	// Prec is the guaranteed precision of reference values, Work the working precision.
	Prec = 512
	Work = Prec + 64
)

func nf() *big.Float { return new(big.Float).SetPrec(Work) }

func fInt(x *big.Int) *big.Float { return nf().SetInt(x) }

var (
	fOne      = nf().SetInt64(1)
	ln2       *big.Float
	sqrtHalf  *big.Float
	smallInts [400]*big.Float
)

func init() {
	for i := range smallInts {
		smallInts[i] = new(big.Float).SetPrec(64).SetInt64(int64(i))
	}
	// ln 2 = 2·atanh(1/3)
	third := nf().Quo(fOne, nf().SetInt64(3))
	ln2 = atanh2(third)
	sqrtHalf = nf().Sqrt(nf().SetFloat64(0.5))
}

// atanh2 returns 2·atanh(t) = 2·Σ t^(2k+1)/(2k+1) for |t| < 1/2.
func atanh2(t *big.Float) *big.Float {
	if t.Sign() == 0 {
		return nf()
	}
	t2 := nf().Mul(t, t)
	term := nf().Set(t)
	sum := nf().Set(t)
	q := nf()
	for k := 1; k < len(smallInts)/2; k++ {
		term.Mul(term, t2)
		q.Quo(term, smallInts[2*k+1])
		if q.Sign() == 0 || q.MantExp(nil) < sum.MantExp(nil)-Work-4 {
			break
		}
		sum.Add(sum, q)
	}
	return sum.Mul(sum, smallInts[2])
}

// Ln returns the natural logarithm of z > 0 (absolute error below 2^-560·max(1,|ln z|)).
func Ln(z *big.Float) *big.Float {
	if z.Sign() <= 0 {
		panic("bancor.Ln: argument not positive")
	}
	m := nf()
	e := z.MantExp(m) // z = m·2^e, m in [0.5,1)
	if m.Cmp(sqrtHalf) < 0 {
		m.Mul(m, smallInts[2])
		e--
	}
	// m in [0.7071, 1.4143): three square roots bring it to [0.957, 1.045]
	const roots = 3
	for i := 0; i < roots; i++ {
		m.Sqrt(m)
	}
	num := nf().Sub(m, fOne)
	den := nf().Add(m, fOne)
	l := atanh2(num.Quo(num, den)) // ln of the reduced mantissa
	l.SetMantExp(l, roots)         // ·2^roots
	if e != 0 {
		l.Add(l, nf().Mul(ln2, nf().SetInt64(int64(e))))
	}
	return l
}

// Exp returns e^y for |y| < 10^6.
func Exp(y *big.Float) *big.Float {
	if y.Sign() == 0 {
		return nf().SetInt64(1)
	}
	yf, _ := y.Float64()
	k := int(math.Round(yf / math.Ln2))
	r := nf().Set(y)
	if k != 0 {
		r.Sub(r, nf().Mul(ln2, nf().SetInt64(int64(k))))
	}
	const halvings = 8
	r.SetMantExp(r, -halvings) // |r| <= ln2/2 / 256
	sum := nf().SetInt64(1)
	term := nf().SetInt64(1)
	for n := 1; n < len(smallInts); n++ {
		term.Mul(term, r)
		term.Quo(term, smallInts[n])
		if term.Sign() == 0 || term.MantExp(nil) < -Work-4 {
			break
		}
		sum.Add(sum, term)
	}
	for i := 0; i < halvings; i++ {
		sum.Mul(sum, sum)
	}
	return sum.SetMantExp(sum, k)
}

// PowLn returns e^(w·lnz); lnz == nil stands for z = 0 (result 0 for w > 0).
func PowLn(lnz *big.Float, w *big.Float) *big.Float {
	if lnz == nil {
		return nf()
	}
	return Exp(nf().Mul(w, lnz))
}
