package events

import (
	"fmt"
	"strconv"
	"strings"
	"sync"

	ev "github.com/MinterTeam/minter-go-node/coreV2/events"
	tmdb "github.com/tendermint/tm-db"

	"verif/vdb"
)

// Diff is one observed difference between what was added for a height and what LoadEvents returned.
type Diff struct {
	Sig        string `json:"signature"`
	Type       string `json:"event_type"`
	Field      string `json:"field"`
	Height     uint32 `json:"height"`
	Index      int    `json:"index"`
	ViaRestart bool   `json:"via_restart"`
	Detail     string `json:"detail"`
}

// Result of one scenario.
type Result struct {
	Diffs      []Diff         // first difference per signature, in order of discovery
	Counts     map[string]int // differing events per signature
	Heights    int            // (height, verification point) comparisons made
	Events     int            // events compared
	Nontrivial bool           // a restart happened and a non-empty batch of the scenario was reloaded by a later store object
	Restarts   int
}

type commit struct {
	height uint32
	specs  []Spec
	res    Resolver
	gen    int  // store generation that committed it (-1: priming store)
	heavy  bool // large priming batch, only verified when asked
	keys   int  // part B: distinct keys committed up to and including this height
}

type run struct {
	db      tmdb.DB
	st      ev.IEventsDB
	gen     int
	commits []commit
	class   string // small | 300 | 64k
	keys    int    // part B: distinct keys committed so far
	out     *Result
}

func (r *run) restart() {
	r.st = ev.NewEventsStore(r.db)
	r.gen++
	r.out.Restarts++
}

func (r *run) add(d Diff) {
	if r.out.Counts == nil {
		r.out.Counts = map[string]int{}
	}
	r.out.Counts[d.Sig]++
	if r.out.Counts[d.Sig] == 1 {
		r.out.Diffs = append(r.out.Diffs, d)
	}
}

func yn(b bool) string {
	if b {
		return "yes"
	}
	return "no"
}

// sig builds the signature. Differences of a public-key field (or a panic of
// the loader) once 65 535 or more distinct keys are in the table are the
// 16-bit key-id table overflowing; they get their own narrow signature.
func (r *run) sig(typ, field string, via bool) string {
	if r.class == "64k" && r.keys >= 65535 && (IsKeyField(field) || field == "panic") {
		return "pubkey-id-wrap|" + typ
	}
	return typ + "|" + field + "|" + yn(via) + "|" + r.class
}

func safeLoad(st ev.IEventsDB, h uint32) (out ev.Events, pan string) {
	defer func() {
		if x := recover(); x != nil {
			pan = fmt.Sprint(x)
		}
	}()
	return st.LoadEvents(h), ""
}

func safeCommit(st ev.IEventsDB, h uint32) (pan string) {
	defer func() {
		if x := recover(); x != nil {
			pan = "panic: " + fmt.Sprint(x)
		}
	}()
	if err := st.CommitEvents(h); err != nil {
		return "error: " + err.Error()
	}
	return ""
}

// commit adds the events of the specs and commits them at the height; false = the store failed.
func (r *run) commit(h uint32, specs []Spec, res Resolver) bool {
	for _, s := range specs {
		r.st.AddEvent(Build(s, res))
	}
	if p := safeCommit(r.st, h); p != "" {
		f := "error"
		if strings.HasPrefix(p, "panic") {
			f = "panic"
		}
		r.add(Diff{Sig: r.sig("CommitEvents", f, false), Type: "CommitEvents", Field: f, Height: h, Detail: fmt.Sprintf("CommitEvents(%d) %s", h, p)})
		return false
	}
	r.commits = append(r.commits, commit{height: h, specs: specs, res: res, gen: r.gen, keys: r.keys})
	return true
}

// verify loads one committed height and compares it with the model.
func (r *run) verify(c *commit) {
	via := r.gen != c.gen
	r.out.Heights++
	got, pan := safeLoad(r.st, c.height)
	if pan != "" {
		r.add(Diff{Sig: r.sig("LoadEvents", "panic", via), Type: "LoadEvents", Field: "panic", Height: c.height, ViaRestart: via,
			Detail: fmt.Sprintf("LoadEvents(%d) panicked: %s (the height holds %d events)", c.height, pan, len(c.specs))})
		return
	}
	if c.gen >= 0 && r.gen > c.gen && len(c.specs) > 0 {
		r.out.Nontrivial = true
	}
	n := len(c.specs)
	if len(got) < n {
		n = len(got)
	}
	for i := 0; i < n; i++ {
		exp := Build(c.specs[i], c.res)
		r.out.Events++
		if f, d := Compare(exp, got[i]); f != "" {
			r.add(Diff{Sig: r.sig(exp.Type(), f, via), Type: exp.Type(), Field: f, Height: c.height, Index: i, ViaRestart: via,
				Detail: fmt.Sprintf("height %d event #%d (%s): %s", c.height, i, c.specs[i].Kind, d)})
		}
	}
	if len(got) < len(c.specs) {
		t := Build(c.specs[len(got)], c.res).Type()
		r.add(Diff{Sig: r.sig(t, "missing-event", via), Type: t, Field: "missing-event", Height: c.height, Index: len(got), ViaRestart: via,
			Detail: fmt.Sprintf("height %d: %d events added, %d loaded", c.height, len(c.specs), len(got))})
	} else if len(got) > len(c.specs) {
		t := "nil"
		if got[len(c.specs)] != nil {
			t = got[len(c.specs)].Type()
		}
		r.add(Diff{Sig: r.sig(t, "extra-event", via), Type: t, Field: "extra-event", Height: c.height, Index: len(c.specs), ViaRestart: via,
			Detail: fmt.Sprintf("height %d: %d events added, %d loaded", c.height, len(c.specs), len(got))})
	}
}

func (r *run) verifyAll(heavy bool) {
	for i := range r.commits {
		if r.commits[i].heavy && !heavy {
			continue
		}
		r.verify(&r.commits[i])
	}
}

// verifyUnused checks that a height nothing was committed at loads no events.
func (r *run) verifyUnused(h uint32) {
	r.out.Heights++
	got, pan := safeLoad(r.st, h)
	if pan != "" {
		r.add(Diff{Sig: r.sig("LoadEvents", "panic", false), Type: "LoadEvents", Field: "panic", Height: h, Detail: "LoadEvents of a never committed height panicked: " + pan})
	} else if len(got) != 0 {
		r.add(Diff{Sig: r.sig(got[0].Type(), "extra-event", false), Type: got[0].Type(), Field: "extra-event", Height: h, Detail: fmt.Sprintf("never committed height %d loads %d events", h, len(got))})
	}
}

// ---------------------------------------------------------------- part A

// HeightsA are the increasing heights of the batches of a part-A sequence (they cross the byte boundaries of the 4-byte key).
var HeightsA = []uint32{3, 255, 256, 65536, 16777216, 4294967295}

// UnusedHeight is never committed.
const UnusedHeight = 7

// ScenarioA is one case of part A.
type ScenarioA struct {
	Seq  []int  `json:"menu_indexes"`
	Pool int    `json:"pool"`         // 1, 2 or 300
	Mask uint   `json:"restart_mask"` // bit i: the store object is replaced after batch i
	Mode string `json:"mode"`         // "L": LoadEvents is the first call on a new store; "C": CommitEvents of the next batch is (LoadEvents only after the last batch)
}

func (s ScenarioA) String() string {
	var parts []string
	for i, m := range s.Seq {
		p := fmt.Sprintf("h%d:%s", HeightsA[i], MenuNames[m])
		if s.Mask&(1<<uint(i)) != 0 {
			p += " |restart|"
		}
		parts = append(parts, p)
	}
	return fmt.Sprintf("pool=%d mode=%s :: %s", s.Pool, s.Mode, strings.Join(parts, " "))
}

var (
	primeOnce sync.Once
	primeDump [][2][]byte
	primeLog  []commit
)

// prime builds (once) the database of pool class 300: elements 0..297 of both
// universes registered by 298 reward events at height 1, and a sentinel batch
// at height 2 whose events sit on the ids around 255/256 and on the last ids.
func prime() {
	primeOnce.Do(func() {
		primeSet := vdb.NewSet()
		r := &run{db: primeSet.Get("events"), class: "300", out: &Result{}, gen: -1}
		r.st = ev.NewEventsStore(r.db)
		var bulk []Spec
		for i := 0; i < 298; i++ {
			bulk = append(bulk, Spec{Kind: KReward, Role: []string{"Validator", "Delegator", "DAO", "Developers"}[i%4], A: i, K: i, Amount: strconv.Itoa(i), Coin: uint64(i%3) + 5})
		}
		sentinel := []Spec{
			{Kind: KSlash, A: 254, K: 254, Amount: "11", Coin: 3},
			{Kind: KUnbond, A: 255, K: 255, Amount: "12", Coin: 4},
			{Kind: KKick, A: 256, K: 256, Amount: "13", Coin: 5},
			{Kind: KMove, A: 257, K: 0, K2: 297, Amount: "14", Coin: 6},
			{Kind: KJail, K: 253, N: 15},
			{Kind: KRemove, K: 255},
			{Kind: KOrder, A: 297, N: 16, Coin: 7, Amount: "17"},
			{Kind: KUnlock, A: 0, Amount: "18", Coin: 8},
		}
		if !r.commit(1, bulk, Direct{}) || !r.commit(2, sentinel, Direct{}) {
			panic("priming failed: " + r.out.Diffs[0].Detail)
		}
		r.commits[0].heavy = true
		primeLog = r.commits
		primeDump = primeSet.Dump("events")
	})
}

func classOf(pool int) string {
	if pool == 300 {
		return "300"
	}
	return "small"
}

// RunA executes one scenario of part A on the real store.
//
// Verification protocol: right after every commit that is not the last one the
// height just committed is loaded and compared (and once more after the
// restart that follows it, in mode "L"); after the last commit, and again
// after the restart that follows it, EVERY committed height is loaded and
// compared. Every prefix of a scenario (same menu indexes, same restart bits,
// same mode) is itself an enumerated scenario with exactly the same call
// history up to its end, so every commit point of every scenario has all of
// its heights verified - in the scenario that ends there.
//
// For pool class 300 the 8-event sentinel priming height counts as a committed
// height; the 298-event priming height is included when fullPrime is set.
func RunA(sc ScenarioA, fullPrime bool) *Result {
	out := &Result{}
	r := &run{class: classOf(sc.Pool), out: out}
	if sc.Pool == 300 {
		prime()
		d := vdb.NewSet().Get("events")
		for _, kv := range primeDump {
			_ = d.Set(kv[0], kv[1])
		}
		r.db = d
		r.commits = append(r.commits, primeLog...)
	} else {
		r.db = vdb.NewSet().Get("events")
	}
	r.st = ev.NewEventsStore(r.db)
	last := len(sc.Seq) - 1
	for pos, m := range sc.Seq {
		if !r.commit(HeightsA[pos], Menu[m], Pool{Class: sc.Pool, Pos: pos}) {
			return out
		}
		if pos == last {
			r.verifyAll(fullPrime)
		} else {
			r.verify(&r.commits[len(r.commits)-1])
		}
		if sc.Mask&(1<<uint(pos)) != 0 {
			r.restart()
			if pos == last {
				r.verifyAll(fullPrime)
			} else if sc.Mode != "C" {
				r.verify(&r.commits[len(r.commits)-1])
			}
		}
	}
	r.verifyUnused(UnusedHeight)
	return out
}

// ---------------------------------------------------------------- part B

// ParamsB is one run of part B: NKeys distinct validator keys and NAddrs
// distinct addresses spread over four heights.
type ParamsB struct {
	NKeys    int    `json:"distinct_pubkeys"`
	NAddrs   int    `json:"distinct_addresses"` // 0: only the addresses the key events need
	Restarts string `json:"restarts"`           // "none" | "every" (new store after every commit) | "last" (only before the final verification)
}

func (p ParamsB) String() string {
	if p.NAddrs == 0 {
		return fmt.Sprintf("keys=%d addresses=as-many-as-the-key-events-need restarts=%s", p.NKeys, p.Restarts)
	}
	return fmt.Sprintf("keys=%d addresses=%d restarts=%s", p.NKeys, p.NAddrs, p.Restarts)
}

// HeightsB are the heights of part B.
var HeightsB = []uint32{10, 20, 30, 40}

var amountsB = []string{"0", "1", Big40}
var coinsB = []uint64{0, 1, MaxU32}

// PlanB lays the events out: keys 1..30000 at height 10, 30001..65530 at
// height 20, 65531..NKeys at height 30 (so the keys around number 65536 sit in
// a small batch of their own), and at height 40 a batch that uses old and new
// keys again. In the two bulk heights two of three events are stake moves that
// introduce two new keys each, the third is a reward / slash / jail / unbond /
// kick with one new key; at height 30 key number n (1-based) is first used by
// an event of type (n-1) mod 6 of {reward, slash, jail, unbond, kick, move}.
// These are the types whose keys go through the id table; a removeCandidate
// event, which is stored with its key inline, follows now and then with an
// already known key. Every event that has an address takes a fresh one;
// unlock / expired-order events with further fresh addresses fill up to NAddrs
// (when NAddrs is larger than what the key events use). Unbond events without
// a key are sprinkled in (a nil key is stored as id 0).
func PlanB(p ParamsB) (batches [4][]Spec, keysAfter [4]int) {
	addr := 0
	next := func() int { addr++; return addr - 1 }
	vals := func(i int) (string, uint64) {
		am := amountsB[i%3]
		if i%5 == 4 {
			am = strconv.Itoa(i*1000003 + 11)
		}
		co := coinsB[(i/3)%3]
		if i%4 == 3 {
			co = uint64(i) + 2
		}
		return am, co
	}
	oneKey := func(i, kind int) Spec {
		am, co := vals(i)
		switch kind % 6 {
		case 0:
			return Spec{Kind: KReward, Role: []string{"Validator", "Delegator", "DAO", "Developers"}[(i/6)%4], A: next(), K: i, Amount: am, Coin: co}
		case 1:
			return Spec{Kind: KSlash, A: next(), K: i, Amount: am, Coin: co}
		case 2:
			return Spec{Kind: KJail, K: i, N: uint64(i)*4294967311 + 1}
		case 3:
			return Spec{Kind: KUnbond, A: next(), K: i, Amount: am, Coin: co}
		case 4:
			return Spec{Kind: KKick, A: next(), K: i, Amount: am, Coin: co}
		}
		return Spec{Kind: KMove, A: next(), K: i, K2: i / 2, Amount: am, Coin: co}
	}
	segs := [3][2]int{{0, 30000}, {30000, 65530}, {65530, p.NKeys}}
	for s, seg := range segs {
		if s == 0 || s == 2 {
			batches[s] = append(batches[s], Spec{Kind: KUnbond, A: next(), K: -1, Amount: "1", Coin: 1})
		}
		n := 0
		for i := seg[0]; i < seg[1]; n++ {
			switch {
			case s == 2:
				batches[s] = append(batches[s], oneKey(i, i))
				i++
			case n%3 != 2 && i+1 < seg[1]:
				am, co := vals(i)
				batches[s] = append(batches[s], Spec{Kind: KMove, A: next(), K: i, K2: i + 1, Amount: am, Coin: co})
				i += 2
			default:
				batches[s] = append(batches[s], oneKey(i, n/3%5))
				i++
			}
			if n%11 == 0 { // removals do not go through the id table, so they reuse a key
				batches[s] = append(batches[s], Spec{Kind: KRemove, K: i - 1})
			}
		}
		keysAfter[s] = seg[1]
	}
	keysAfter[3] = p.NKeys
	// fresh addresses still needed: 7 more are used by height 40
	extra := p.NAddrs - addr - 7
	for j := 0; j < extra; j++ {
		s := j % 2
		if j%3 == 0 {
			batches[s] = append(batches[s], Spec{Kind: KOrder, A: next(), N: uint64(j) + 1, Coin: coinsB[j%3], Amount: amountsB[(j/3)%3]})
		} else {
			batches[s] = append(batches[s], Spec{Kind: KUnlock, A: next(), Amount: amountsB[j%3], Coin: uint64(j) + 3})
		}
	}
	batches[3] = []Spec{
		{Kind: KReward, Role: "Validator", A: next(), K: 0, Amount: "1", Coin: 0},
		{Kind: KJail, K: 1, N: 99},
		{Kind: KUnbond, A: next(), K: -1, Amount: Big40, Coin: 1},
		{Kind: KKick, A: next(), K: p.NKeys - 1, Amount: "2", Coin: MaxU32},
		{Kind: KMove, A: next(), K: 65530, K2: 0, Amount: "3", Coin: 2},
		{Kind: KRemove, K: 65533},
		{Kind: KUnlock, A: next(), Amount: "4", Coin: 5},
		{Kind: KSlash, A: next(), K: 30000, Amount: "5", Coin: 6},
		{Kind: KOrder, A: next(), N: 8, Coin: 9, Amount: "6"},
	}
	return
}

// RunB executes one run of part B. The height just committed is loaded and
// compared after each of the first three commits (and again after the restart
// that follows, if any); after the last commit - when all keys are in the
// table - and after the restart that follows it, all four heights are.
func RunB(p ParamsB) *Result {
	out := &Result{}
	r := &run{class: "64k", out: out, db: vdb.NewSet().Get("events")}
	r.st = ev.NewEventsStore(r.db)
	batches, keysAfter := PlanB(p)
	last := len(batches) - 1
	check := func(i int) {
		if i == last {
			r.verifyAll(true)
		} else {
			r.verify(&r.commits[len(r.commits)-1])
		}
	}
	for i := range batches {
		r.keys = keysAfter[i]
		if !r.commit(HeightsB[i], batches[i], Direct{}) {
			return out
		}
		check(i)
		if p.Restarts == "every" || (p.Restarts == "last" && i == last) {
			r.restart()
			check(i)
		}
	}
	r.verifyUnused(UnusedHeight)
	return out
}

// CountB reports the distinct keys / addresses / events a plan really contains (measured, for the evidence).
func CountB(p ParamsB) (keys, addrs, events int) {
	batches, _ := PlanB(p)
	ks, as := map[int]bool{}, map[int]bool{}
	for _, b := range batches {
		events += len(b)
		for _, s := range b {
			switch s.Kind {
			case KReward, KSlash, KKick:
				ks[s.K], as[s.A] = true, true
			case KUnbond:
				as[s.A] = true
				if s.K >= 0 {
					ks[s.K] = true
				}
			case KJail, KRemove:
				ks[s.K] = true
			case KMove:
				ks[s.K], ks[s.K2], as[s.A] = true, true, true
			case KUnlock, KOrder:
				as[s.A] = true
			}
		}
	}
	return len(ks), len(as), events
}
