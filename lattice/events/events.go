// Package events is the bounded lattice for property C24 ("events are stored
// and reloaded faithfully"). It drives the real events store of the node
// (coreV2/events: NewEventsStore / AddEvent / CommitEvents / LoadEvents) over a
// harness-owned in-memory tm-db that outlives the store object, so that a
// "restart" is a new store object over the same database.
//
// The oracle is a boring model: the list of event *specs* added for a height.
// Expected events are rebuilt from the specs (never taken from the store) and
// compared with what LoadEvents returns, type and every exported field.
package events

import (
	"encoding/binary"
	"fmt"
	"reflect"
	"strconv"

	ev "github.com/MinterTeam/minter-go-node/coreV2/events"
	"github.com/MinterTeam/minter-go-node/coreV2/types"
)

// Kind is the event type of a spec.
type Kind int

const (
	KReward Kind = iota
	KSlash
	KJail
	KUnbond
	KUnlock
	KKick
	KMove
	KNetwork
	KCommissions
	KOrder
	KRemove
	KBlockReward
)

var kindNames = []string{"reward", "slash", "jail", "unbond", "unlock", "kick", "move", "updateNetwork", "updateCommissions", "orderExpired", "removeCandidate", "updatedBlockReward"}

func (k Kind) String() string { return kindNames[k] }

// Spec is the symbolic description of one event. A, K, K2 are *slots* that a
// Resolver turns into concrete addresses / public keys (K = -1: nil pointer,
// only meaningful for the one event type with an optional key, UnbondEvent).
type Spec struct {
	Kind   Kind
	A      int
	K, K2  int
	Amount string
	Coin   uint64
	Role   string
	N      uint64 // JailedUntil / order id
	S      string // version / free text
}

// Resolver maps slots to concrete values.
type Resolver interface {
	Addr(slot int) types.Address
	Key(slot int) types.Pubkey
}

// Addr is the i-th address of the universe (all distinct, none zero, every byte depends on i).
func Addr(i int) (a types.Address) {
	for j := 0; j < 16; j++ {
		a[j] = byte(0x11*j + 5*i + 0xA1)
	}
	binary.BigEndian.PutUint32(a[16:], uint32(i)+1)
	return
}

// Key is the i-th validator public key of the universe (all distinct, none zero).
func Key(i int) (k types.Pubkey) {
	for j := 0; j < 28; j++ {
		k[j] = byte(0x07*j + 3*i + 0x4B)
	}
	binary.BigEndian.PutUint32(k[28:], uint32(i)+1)
	return
}

// Direct resolves slot i to universe element i (part B).
type Direct struct{}

func (Direct) Addr(s int) types.Address { return Addr(s) }
func (Direct) Key(s int) types.Pubkey   { return Key(s) }

// Pool resolves the slots of a menu batch at position Pos of a sequence into a
// pool of Class distinct addresses and Class distinct keys.
//
//	class 1  : every slot -> element 0
//	class 2  : (slot+pos) mod 2
//	class 300: (base[slot]+pos) mod 300; elements 0..297 were registered by the
//	           priming batches (ids in order, so 254/255/256 straddle the one-byte
//	           boundary of the id), 298 and 299 are first seen inside the scenario.
type Pool struct {
	Class int
	Pos   int
}

var addrBase300 = []int{0, 255, 256, 298, 299, 254}
var keyBase300 = []int{0, 255, 254, 298, 299, 256}

func (p Pool) idx(slot int, base []int) int {
	switch p.Class {
	case 1:
		return 0
	case 2:
		return (slot + p.Pos) % 2
	default:
		return (base[slot%len(base)] + p.Pos) % 300
	}
}
func (p Pool) Addr(s int) types.Address { return Addr(p.idx(s, addrBase300)) }
func (p Pool) Key(s int) types.Pubkey   { return Key(p.idx(s, keyBase300)) }

// Build makes a fresh concrete event from a spec.
func Build(s Spec, r Resolver) ev.Event {
	switch s.Kind {
	case KReward:
		return &ev.RewardEvent{Role: s.Role, Address: r.Addr(s.A), Amount: s.Amount, ValidatorPubKey: r.Key(s.K), ForCoin: s.Coin}
	case KSlash:
		return &ev.SlashEvent{Address: r.Addr(s.A), Amount: s.Amount, Coin: s.Coin, ValidatorPubKey: r.Key(s.K)}
	case KJail:
		return &ev.JailEvent{ValidatorPubKey: r.Key(s.K), JailedUntil: s.N}
	case KUnbond:
		e := &ev.UnbondEvent{Address: r.Addr(s.A), Amount: s.Amount, Coin: s.Coin}
		if s.K >= 0 {
			k := r.Key(s.K)
			e.ValidatorPubKey = &k
		}
		return e
	case KUnlock:
		return &ev.UnlockEvent{Address: r.Addr(s.A), Amount: s.Amount, Coin: s.Coin}
	case KKick:
		return &ev.StakeKickEvent{Address: r.Addr(s.A), Amount: s.Amount, Coin: s.Coin, ValidatorPubKey: r.Key(s.K)}
	case KMove:
		return &ev.StakeMoveEvent{Address: r.Addr(s.A), Amount: s.Amount, Coin: s.Coin, CandidatePubKey: r.Key(s.K), ToCandidatePubKey: r.Key(s.K2)}
	case KNetwork:
		return &ev.UpdateNetworkEvent{Version: s.S}
	case KCommissions:
		e := &ev.UpdateCommissionsEvent{Coin: s.Coin}
		v := reflect.ValueOf(e).Elem()
		for i := 0; i < v.NumField(); i++ { // every price field gets its own value
			if v.Field(i).Kind() == reflect.String {
				v.Field(i).SetString(s.S + strconv.Itoa(i*1000003+7))
			}
		}
		return e
	case KOrder:
		return &ev.OrderExpiredEvent{ID: s.N, Address: r.Addr(s.A), Coin: s.Coin, Amount: s.Amount}
	case KRemove:
		return &ev.RemoveCandidateEvent{CandidatePubKey: r.Key(s.K)}
	case KBlockReward:
		return &ev.UpdatedBlockRewardEvent{Value: s.Amount, ValueLockedStakeRewards: s.S}
	}
	panic("unknown kind")
}

// Amount and coin corner values.
const (
	Big40  = "1234567890123456789012345678901234567890" // 40 digits
	MaxU32 = uint64(4294967295)
)

// Menu is the batch menu of part A. The batches are cut along the way the
// store treats the events: both id tables (stake events), the key table only
// (jail), the address table only (unlock, expired order, key-less unbond),
// neither table (events stored inline), and a mix. Every event type occurs,
// one batch is empty, three hold pairs of identical events, the optional key
// of UnbondEvent is both nil and set, amounts are 0 / 1 / 40 digits / other,
// coin ids 0 / 1 / 2^32-1 / other. Inside one event all field values differ, so
// a swap of two stored fields shows.
var Menu = [][]Spec{
	0: {},
	1: { // both tables (stake moves carry two keys)
		{Kind: KReward, Role: "Validator", A: 0, K: 0, Amount: "1", Coin: 0},
		{Kind: KReward, Role: "Delegator", A: 1, K: 0, Amount: Big40, Coin: MaxU32},
		{Kind: KSlash, A: 0, K: 1, Amount: Big40, Coin: 1},
		{Kind: KKick, A: 1, K: 0, Amount: "0", Coin: MaxU32},
		{Kind: KUnbond, A: 1, K: 1, Amount: Big40, Coin: 1},
		{Kind: KMove, A: 0, K: 0, K2: 1, Amount: "7", Coin: 1},
		{Kind: KMove, A: 2, K: 2, K2: 0, Amount: "0", Coin: 0},
		{Kind: KMove, A: 3, K: 1, K2: 1, Amount: Big40, Coin: MaxU32},
	},
	2: { // key table only, with an identical pair
		{Kind: KJail, K: 0, N: 12345678901234},
		{Kind: KJail, K: 1, N: 0},
		{Kind: KJail, K: 0, N: 9},
		{Kind: KJail, K: 0, N: 9},
	},
	3: { // address table only (a nil key is stored as id 0), with an identical pair
		{Kind: KUnlock, A: 0, Amount: "0", Coin: MaxU32},
		{Kind: KOrder, A: 3, N: MaxU32, Coin: 1, Amount: Big40},
		{Kind: KOrder, A: 1, N: 77, Coin: MaxU32, Amount: "0"},
		{Kind: KUnbond, A: 0, K: -1, Amount: "1", Coin: 0},
		{Kind: KUnbond, A: 2, K: -1, Amount: "3", Coin: 2},
		{Kind: KUnbond, A: 2, K: -1, Amount: "3", Coin: 2},
	},
	4: { // stored inline, no table
		{Kind: KNetwork, S: "v2.6.0"},
		{Kind: KCommissions, Coin: 1, S: "9"},
		{Kind: KBlockReward, Amount: Big40, S: "1"},
		{Kind: KRemove, K: 1},
		{Kind: KRemove, K: 3},
	},
	5: { // mix on the late slots, with an identical pair
		{Kind: KUnbond, A: 4, K: 3, Amount: "1", Coin: MaxU32},
		{Kind: KReward, Role: "DAO", A: 5, K: 4, Amount: Big40, Coin: 0},
		{Kind: KNetwork, S: "v3"},
		{Kind: KSlash, A: 4, K: 4, Amount: "0", Coin: 2},
		{Kind: KJail, K: 3, N: 1 << 40},
		{Kind: KUnlock, A: 5, Amount: "1", Coin: 0},
		{Kind: KMove, A: 4, K: 4, K2: 3, Amount: "1", Coin: MaxU32},
		{Kind: KOrder, A: 5, N: 3, Coin: 2, Amount: "1"},
		{Kind: KRemove, K: 4},
		{Kind: KUnbond, A: 5, K: -1, Amount: "0", Coin: 1},
		{Kind: KReward, Role: "Developers", A: 1, K: 1, Amount: "1000000000000000000", Coin: 1},
		{Kind: KReward, Role: "Developers", A: 1, K: 1, Amount: "1000000000000000000", Coin: 1},
	},
}

// MenuNames label the menu batches in samples and details.
var MenuNames = []string{"empty", "stake(both-tables)", "jail(keys-only)", "unlock/order/unbond-nil(addresses-only)", "inline(no-table)", "mixed-late-slots"}

func show(v reflect.Value) string {
	switch x := v.Interface().(type) {
	case types.Address:
		return x.String()
	case types.Pubkey:
		return x.String()
	case *types.Pubkey:
		if x == nil {
			return "<nil>"
		}
		return x.String()
	}
	return fmt.Sprintf("%v", v.Interface())
}

// Compare returns "" when got is the same event as exp (same concrete type,
// every exported field equal), otherwise the name of the first differing field
// ("type" for a different event type) and a description.
func Compare(exp, got ev.Event) (field, detail string) {
	if got == nil {
		return "nil-event", "loaded event is nil"
	}
	te, tg := reflect.TypeOf(exp), reflect.TypeOf(got)
	if te != tg {
		return "type", fmt.Sprintf("stored %s, loaded %s", exp.Type(), got.Type())
	}
	// fast paths: all event structs but UnbondEvent are comparable values
	switch e := exp.(type) {
	case *ev.RewardEvent:
		if *e == *got.(*ev.RewardEvent) {
			return "", ""
		}
	case *ev.SlashEvent:
		if *e == *got.(*ev.SlashEvent) {
			return "", ""
		}
	case *ev.JailEvent:
		if *e == *got.(*ev.JailEvent) {
			return "", ""
		}
	case *ev.UnlockEvent:
		if *e == *got.(*ev.UnlockEvent) {
			return "", ""
		}
	case *ev.StakeKickEvent:
		if *e == *got.(*ev.StakeKickEvent) {
			return "", ""
		}
	case *ev.StakeMoveEvent:
		if *e == *got.(*ev.StakeMoveEvent) {
			return "", ""
		}
	case *ev.OrderExpiredEvent:
		if *e == *got.(*ev.OrderExpiredEvent) {
			return "", ""
		}
	case *ev.RemoveCandidateEvent:
		if *e == *got.(*ev.RemoveCandidateEvent) {
			return "", ""
		}
	case *ev.UpdateNetworkEvent:
		if *e == *got.(*ev.UpdateNetworkEvent) {
			return "", ""
		}
	case *ev.UpdatedBlockRewardEvent:
		if *e == *got.(*ev.UpdatedBlockRewardEvent) {
			return "", ""
		}
	case *ev.UpdateCommissionsEvent:
		if *e == *got.(*ev.UpdateCommissionsEvent) {
			return "", ""
		}
	}
	ve, vg := reflect.ValueOf(exp), reflect.ValueOf(got)
	if ve.IsNil() != vg.IsNil() {
		return "nil-event", "loaded event pointer is nil"
	}
	ve, vg = ve.Elem(), vg.Elem()
	for i := 0; i < ve.NumField(); i++ {
		fe, fg := ve.Field(i), vg.Field(i)
		name := te.Elem().Field(i).Name
		if fe.Kind() == reflect.Ptr {
			if fe.IsNil() != fg.IsNil() || (!fe.IsNil() && !reflect.DeepEqual(fe.Elem().Interface(), fg.Elem().Interface())) {
				return name, fmt.Sprintf("%s.%s stored %s, loaded %s", exp.Type(), name, show(fe), show(fg))
			}
			continue
		}
		if !reflect.DeepEqual(fe.Interface(), fg.Interface()) {
			return name, fmt.Sprintf("%s.%s stored %s, loaded %s", exp.Type(), name, show(fe), show(fg))
		}
	}
	return "", ""
}

// IsKeyField tells whether a field of an event holds a validator public key.
func IsKeyField(f string) bool {
	return f == "ValidatorPubKey" || f == "CandidatePubKey" || f == "ToCandidatePubKey"
}
