// Package poolprice holds the pure-function lattice engines: exhaustive
// enumeration of a finite grid of inputs of arithmetic functions of the node,
// every result compared with an exact big-integer / rational reference.
//
// pairs.go: swap pool arithmetic of coreV2/state/swap (PairV2), property C13.
package poolprice

import (
	"encoding/json"
	"fmt"
	"math/big"
	"sort"
	"sync"
	"sync/atomic"
	"time"

	"github.com/MinterTeam/minter-go-node/coreV2/state/bus"
	"github.com/MinterTeam/minter-go-node/coreV2/state/swap"
	"github.com/MinterTeam/minter-go-node/tree"
	db "github.com/tendermint/tm-db"
)

// Violation is one oracle failure of a lattice case.
type Violation struct {
	Signature string
	Detail    string
	Replay    interface{}
	Count     int64 // occurrences of the signature in the run
}

// Result is what a lattice run reports back to the check.
type Result struct {
	Evaluations        int64 // calls of real functions whose result was judged or counted as rejected
	Rejected           int64 // cases the real code refused (nil / error / panic with its own error)
	DistinctNontrivial int64
	Exhaustive         bool
	Samples            []interface{}
	Violations         []Violation
	Rule               string
	Extra              map[string]interface{}
}

// PairCase is one point of the pair lattice (also the replay payload).
type PairCase struct {
	Fn      string `json:"fn"`      // sell | buy | sell-exec | buy-exec | mint-burn | burn | create
	Reverse bool   `json:"reverse"` // evaluated on pair.reverse() (the view s.Pair(1,0)) instead of the sorted pair
	R0      string `json:"r0"`      // reserve of the coin going in (reserve0 of the view)
	R1      string `json:"r1"`      // reserve of the coin going out (reserve1 of the view)
	Supply  string `json:"supply,omitempty"`
	Amount  string `json:"amount"`            // amount in (sell), amount out (buy), amount0 (mint/create), liquidity (burn)
	Amount1 string `json:"amount1,omitempty"` // create: amount1
}

func (c PairCase) String() string {
	s := fmt.Sprintf("%s reverse=%v r0=%s r1=%s", c.Fn, c.Reverse, c.R0, c.R1)
	if c.Supply != "" {
		s += " supply=" + c.Supply
	}
	s += " amount=" + c.Amount
	if c.Amount1 != "" {
		s += " amount1=" + c.Amount1
	}
	return s
}

// pcase is the parsed form used while enumerating (no string conversions on the hot path).
type pcase struct {
	fn                            string
	reverse                       bool
	r0, r1, supply, amount, amnt1 *big.Int
}

func str(v *big.Int) string {
	if v == nil {
		return ""
	}
	return v.String()
}

func (p pcase) export() PairCase {
	return PairCase{Fn: p.fn, Reverse: p.reverse, R0: str(p.r0), R1: str(p.r1), Supply: str(p.supply), Amount: str(p.amount), Amount1: str(p.amnt1)}
}

func (c PairCase) parse() pcase {
	p := pcase{fn: c.Fn, reverse: c.Reverse, r0: bi(c.R0), r1: bi(c.R1), amount: bi(c.Amount)}
	if c.Supply != "" {
		p.supply = bi(c.Supply)
	}
	if c.Amount1 != "" {
		p.amnt1 = bi(c.Amount1)
	}
	return p
}

// ---------------------------------------------------------------------------
// big helpers

func bi(s string) *big.Int {
	v, ok := new(big.Int).SetString(s, 10)
	if !ok {
		panic("bad integer " + s)
	}
	return v
}
func n(v int64) *big.Int                { return big.NewInt(v) }
func mul(a, b *big.Int) *big.Int        { return new(big.Int).Mul(a, b) }
func add(a, b *big.Int) *big.Int        { return new(big.Int).Add(a, b) }
func sub(a, b *big.Int) *big.Int        { return new(big.Int).Sub(a, b) }
func quo(a, b *big.Int) *big.Int        { return new(big.Int).Quo(a, b) }
func pow10(k int) *big.Int              { return new(big.Int).Exp(n(10), n(int64(k)), nil) }
func pow2(k int) *big.Int               { return new(big.Int).Lsh(n(1), uint(k)) }
func lt(a, b *big.Int) bool             { return a.Cmp(b) < 0 }
func le(a, b *big.Int) bool             { return a.Cmp(b) <= 0 }
func eq(a, b *big.Int) bool             { return a.Cmp(b) == 0 }
func cp(a *big.Int) *big.Int            { return new(big.Int).Set(a) }
func muln(a *big.Int, k int64) *big.Int { return new(big.Int).Mul(a, n(k)) }

const piDigits = "3141592653589793238462643383279502884197"

// ragged returns the integer made of the first k+1 digits of pi (≈3.14·10^k): a reserve with no round factors.
func ragged(k int) *big.Int { return bi(piDigits[:k+1]) }

func uniqSorted(vs []*big.Int, keep func(*big.Int) bool) []*big.Int {
	seen := map[string]bool{}
	var out []*big.Int
	for _, v := range vs {
		if keep != nil && !keep(v) {
			continue
		}
		k := v.String()
		if seen[k] {
			continue
		}
		seen[k] = true
		out = append(out, v)
	}
	sort.Slice(out, func(i, j int) bool { return out[i].Cmp(out[j]) < 0 })
	return out
}

func pm1(vs ...*big.Int) []*big.Int {
	var out []*big.Int
	for _, v := range vs {
		out = append(out, sub(v, n(1)), cp(v), add(v, n(1)))
	}
	return out
}

// ---------------------------------------------------------------------------
// the lattice

// PairBounds describes the enumerated grid.
type PairBounds struct {
	Exps      []int   // reserves m·10^k for k in Exps …
	Mantissas []int64 // … and m in Mantissas, each with ±1, plus one ragged value per k
	RatioMax  int64   // pairs (a,b) with a ≤ RatioMax·b and b ≤ RatioMax·a
	Dense     bool    // more amounts per reserve
}

// QuickPairBounds / ThoroughPairBounds are the two tiers.
func QuickPairBounds() PairBounds {
	return PairBounds{Exps: []int{3, 4, 6, 9, 12, 18, 24, 30}, Mantissas: []int64{1}, RatioMax: 4000000}
}
func ThoroughPairBounds() PairBounds {
	e := []int{}
	for k := 3; k <= 30; k++ {
		e = append(e, k)
	}
	return PairBounds{Exps: e, Mantissas: []int64{1, 2, 5}, RatioMax: 4000000, Dense: true}
}

func (b PairBounds) reserveValues() []*big.Int {
	var vs []*big.Int
	for _, k := range b.Exps {
		for _, m := range b.Mantissas {
			vs = append(vs, pm1(muln(pow10(k), m))...)
		}
		vs = append(vs, ragged(k))
	}
	for _, k := range []int{53, 64, 100} {
		vs = append(vs, pm1(pow2(k))...)
	}
	return uniqSorted(vs, nil)
}

var smallAmounts = []int64{1, 2, 3, 4, 5, 9, 10, 11, 99, 100, 101, 499, 500, 501, 502, 997, 998, 999, 1000, 1001, 1002, 1003}

func smalls() []*big.Int {
	var out []*big.Int
	for _, v := range smallAmounts {
		out = append(out, n(v))
	}
	return out
}

func fractions(r *big.Int, dense bool) []*big.Int {
	divs := []int64{1000000000, 1000000, 1000, 100, 10, 3, 2}
	if dense {
		divs = []int64{1000000000000, 1000000000, 1000000, 10000, 1000, 500, 100, 30, 10, 7, 3, 2}
	}
	var out []*big.Int
	for _, d := range divs {
		out = append(out, pm1(quo(r, n(d)))...)
	}
	out = append(out, pm1(quo(muln(r, 9), n(10)))...)
	out = append(out, pm1(quo(muln(r, 999), n(1000)))...)
	return out
}

// sellAmounts: amounts of the coin going in for reserves (rin, rout).
func sellAmounts(rin, rout *big.Int, dense bool) []*big.Int {
	vs := smalls()
	vs = append(vs, fractions(rin, dense)...)
	vs = append(vs, pm1(rin)...)
	mults := []int64{2, 10, 1000, 1000000}
	for _, m := range mults {
		vs = append(vs, pm1(muln(rin, m))...)
	}
	// inputs around the smallest ones that buy 1..2 units: rin/rout, 2·rin/rout, rin/(0.998·rout)
	q := quo(rin, rout)
	vs = append(vs, pm1(q)...)
	vs = append(vs, pm1(muln(q, 2))...)
	vs = append(vs, pm1(quo(muln(rin, 1000), muln(rout, 998)))...)
	return uniqSorted(vs, func(v *big.Int) bool { return v.Sign() > 0 })
}

// buyAmounts: amounts of the coin going out.
func buyAmounts(rin, rout *big.Int, dense bool) []*big.Int {
	vs := smalls()
	vs = append(vs, fractions(rout, dense)...)
	vs = append(vs, sub(rout, n(3)), sub(rout, n(2)), sub(rout, n(1)), cp(rout), add(rout, n(1)), muln(rout, 2))
	vs = append(vs, pm1(sub(rout, quo(rout, n(1000000))))...)
	q := quo(rout, rin) // outputs that cost about one unit
	vs = append(vs, pm1(q)...)
	vs = append(vs, pm1(muln(q, 2))...)
	return uniqSorted(vs, func(v *big.Int) bool { return v.Sign() > 0 })
}

func isqrt(v *big.Int) *big.Int { // Newton on integers, independent of big.Int.Sqrt
	if v.Sign() <= 0 {
		return n(0)
	}
	x := pow2((v.BitLen() + 1) / 2)
	for {
		y := new(big.Int).Rsh(add(x, quo(v, x)), 1)
		if y.Cmp(x) >= 0 {
			return x
		}
		x = y
	}
}

var bound = n(1000) // minimum liquidity locked at creation (the property's constant, not read from the code)

func supplies(r0, r1 *big.Int, dense bool) []*big.Int {
	l := isqrt(mul(r0, r1))
	vs := []*big.Int{n(1001), quo(l, n(2)), cp(l), add(l, n(1))}
	if dense {
		vs = append(vs, quo(l, n(1000)), sub(l, n(1)), muln(l, 10))
	}
	return uniqSorted(vs, func(v *big.Int) bool { return v.Cmp(bound) > 0 })
}

func mintAmounts(r0 *big.Int, dense bool) []*big.Int {
	vs := smalls()
	vs = append(vs, fractions(r0, dense)...)
	vs = append(vs, pm1(r0)...)
	vs = append(vs, pm1(muln(r0, 10))...)
	vs = append(vs, pm1(muln(r0, 1000000))...)
	return uniqSorted(vs, func(v *big.Int) bool { return v.Sign() > 0 })
}

func burnAmounts(s *big.Int, dense bool) []*big.Int {
	vs := smalls()
	vs = append(vs, fractions(s, dense)...)
	vs = append(vs, sub(s, n(1001)), sub(s, n(1000)), sub(s, n(999)), sub(s, n(1)), cp(s))
	return uniqSorted(vs, func(v *big.Int) bool { return v.Sign() > 0 && v.Cmp(s) <= 0 })
}

// createGrid: small amounts around the minimum-liquidity boundary sqrt(a0·a1) = 1000 / 1001.
func createGrid() [][2]*big.Int {
	vals := []int64{1, 2, 10, 31, 32, 100, 999, 1000, 1001, 1002, 1003, 10000, 100000, 1000000, 1002000, 1002001, 1002002, 1000000000}
	var out [][2]*big.Int
	for _, a := range vals {
		for _, b := range vals {
			out = append(out, [2]*big.Int{n(a), n(b)})
		}
	}
	// exact boundary products: a0·a1 = 1001² − 1, 1001², 1000², 1000² − 1 with skewed factors
	for _, p := range [][2]int64{{1, 1002000}, {1, 1002001}, {3, 334000}, {3, 333999}, {7, 143143}, {7, 143142}, {1001, 1001}, {1001, 1000}, {500, 2000}, {500, 2004}, {500, 2005}, {1, 1000000}, {1, 999999}} {
		out = append(out, [2]*big.Int{n(p[0]), n(p[1])}, [2]*big.Int{n(p[1]), n(p[0])})
	}
	seen := map[string]bool{}
	var u [][2]*big.Int
	for _, p := range out {
		k := p[0].String() + "," + p[1].String()
		if !seen[k] {
			seen[k] = true
			u = append(u, p)
		}
	}
	return u
}

// ---------------------------------------------------------------------------
// the real code under test

type pairEnv struct {
	s        *swap.SwapV2
	fwd, rev *swap.PairV2
}

func newPairEnv() *pairEnv {
	mt, err := tree.NewMutableTree(0, db.NewMemDB(), 1024, 0)
	if err != nil {
		panic(err)
	}
	s := swap.NewV2(bus.NewBus(), mt.GetLastImmutable())
	fwd := s.ReturnPair(0, 1) // sorted key: the pair itself
	*fwd.ID = 1
	rev := s.Pair(1, 0) // unsorted key: the real pair.reverse() view over the same reserves
	if rev == nil || !fwd.IsSorted() || rev.IsSorted() {
		panic("lattice: cannot build the pair views")
	}
	return &pairEnv{s: s, fwd: fwd, rev: rev}
}

func (e *pairEnv) view(reverse bool) *swap.PairV2 {
	if reverse {
		return e.rev
	}
	return e.fwd
}

// set writes the reserves of the view (the same way SwapV2.Import does: Set on the pair's big.Ints).
func set(v *swap.PairV2, r0, r1 *big.Int) {
	v.Reserve0.Set(r0)
	v.Reserve1.Set(r1)
}

// try runs f and converts a panic into a value.
func try(f func()) (panicked bool, val interface{}) {
	defer func() {
		if r := recover(); r != nil {
			panicked, val = true, r
		}
	}()
	f()
	return false, nil
}

func magClass(r0, r1 *big.Int) string {
	b := r0.BitLen()
	if r1.BitLen() > b {
		b = r1.BitLen()
	}
	switch {
	case b <= 53:
		return "reserves<=2^53"
	case b <= 64:
		return "reserves<=2^64"
	}
	return "reserves>2^64"
}

type caseOut struct {
	defined bool // the real code produced a result that was judged
	evals   int  // real-function calls made
	vs      []Violation
	want    bool
	sample  map[string]interface{}
}

// lazyCase exports the case to its string form only when a violation or a sample needs it.
type lazyCase struct {
	p  pcase
	Fn string
	x  *PairCase
}

func (l *lazyCase) get() PairCase {
	if l.x == nil {
		x := l.p.export()
		l.x = &x
	}
	return *l.x
}

// feeOK: the fee-adjusted constant product the code documents — 0.2 % of the input stays outside the product:
// (r0 + 0.998·in)·(r1 − out) ≥ r0·r1, in integers (1000·r0 + 998·in)·(r1 − out) ≥ 1000·r0·r1.
func feeOK(r0, r1, in, out *big.Int) bool {
	lhs := mul(add(muln(r0, 1000), muln(in, 998)), sub(r1, out))
	return lhs.Cmp(muln(mul(r0, r1), 1000)) >= 0
}
func productOK(r0, r1, in, out *big.Int) bool {
	return mul(add(r0, in), sub(r1, out)).Cmp(mul(r0, r1)) >= 0
}

// minimalIn is the smallest integer input satisfying feeOK for the given output (exact, rational ceiling).
func minimalIn(r0, r1, out *big.Int) *big.Int {
	// (1000 r0 + 998 in)(r1-out) >= 1000 r0 r1  <=>  in >= 1000·r0·out / (998·(r1-out))
	num := muln(mul(r0, out), 1000)
	den := muln(sub(r1, out), 998)
	q, m := new(big.Int).QuoRem(num, den, new(big.Int))
	if m.Sign() > 0 {
		q.Add(q, n(1))
	}
	return q
}

// evalPair evaluates one lattice case on the real code and judges it.
func (e *pairEnv) evalPair(pc pcase, wantSample bool) (o caseOut) {
	c := &lazyCase{p: pc, Fn: pc.fn}
	o.want = wantSample
	v := e.view(pc.reverse)
	r0, r1 := pc.r0, pc.r1
	amt := pc.amount
	bad := func(rule, format string, a ...interface{}) {
		cls := magClass(r0, r1)
		if pc.fn == "create" {
			cls = magClass(amt, pc.amnt1)
		}
		x := c.get()
		o.vs = append(o.vs, Violation{Signature: pc.fn + "|" + rule + "|" + cls, Detail: x.String() + ": " + fmt.Sprintf(format, a...), Replay: x})
	}
	unchanged := func() bool {
		a, b := v.Reserves()
		return eq(a, r0) && eq(b, r1)
	}
	set(v, r0, r1)
	defer set(v, n(0), n(0))

	switch c.Fn {
	case "sell":
		out := v.CalculateBuyForSell(cp(amt))
		o.evals++
		if out == nil {
			return
		}
		o.defined = true
		if !unchanged() {
			bad("pure", "a calculation changed the reserves")
		}
		if out.Sign() <= 0 || !lt(out, r1) {
			bad("out-lt-reserve", "out=%s is not inside (0, reserveOut)", out)
			return
		}
		if !productOK(r0, r1, amt, out) {
			bad("product", "out=%s: (r0+in)(r1-out) < r0·r1", out)
		}
		if !feeOK(r0, r1, amt, out) {
			bad("fee-rule", "out=%s: (r0+0.998·in)(r1-out) < r0·r1", out)
		}
		err := v.CheckSwap(cp(amt), cp(out))
		o.evals++
		if err != nil {
			bad("checkswap", "out=%s computed by CalculateBuyForSell is refused by the pool's own check: %v", out, err)
		}
		back := v.CalculateSellForBuy(cp(out))
		o.evals++
		if back == nil || back.Cmp(add(amt, n(1))) > 0 {
			bad("roundtrip", "out=%s; buying that output back costs %v > in+1", out, back)
		}
		if o.want {
			o.sample = map[string]interface{}{"case": c.get(), "out": out.String(), "sell_for_buy_of_out": fmt.Sprint(back)}
		}
	case "buy":
		in := v.CalculateSellForBuy(cp(amt))
		o.evals++
		if in == nil {
			return
		}
		o.defined = true
		if !unchanged() {
			bad("pure", "a calculation changed the reserves")
		}
		if !lt(amt, r1) {
			bad("out-lt-reserve", "in=%s quoted for out >= reserveOut", in)
			return
		}
		if in.Sign() <= 0 {
			bad("product", "in=%s is not positive", in)
			return
		}
		if !productOK(r0, r1, in, amt) {
			bad("product", "in=%s: (r0+in)(r1-out) < r0·r1", in)
		}
		if !feeOK(r0, r1, in, amt) {
			bad("fee-rule", "in=%s: (r0+0.998·in)(r1-out) < r0·r1", in)
		}
		if min := minimalIn(r0, r1, amt); in.Cmp(add(min, n(1))) > 0 {
			bad("minimal-input", "in=%s exceeds the minimal sufficient input %s by more than one unit", in, min)
		}
		err := v.CheckSwap(cp(in), cp(amt))
		o.evals++
		if err != nil {
			bad("checkswap", "in=%s computed by CalculateSellForBuy is refused by the pool's own check: %v", in, err)
		}
		if in2 := sub(in, n(2)); in2.Sign() > 0 {
			o.evals++
			if err := v.CheckSwap(in2, cp(amt)); err == nil {
				// the pool's own check accepts two units less: either the quote is not minimal or the check is too lax
				if !feeOK(r0, r1, in2, amt) {
					bad("checkswap", "the pool's check accepts in-2=%s although (r0+0.998·in)(r1-out) < r0·r1", in2)
				} else {
					bad("minimal-input", "in=%s but in-2 already passes the pool's check", in)
				}
			}
		}
		if o.want {
			o.sample = map[string]interface{}{"case": c.get(), "in": in.String()}
		}
	case "sell-exec", "buy-exec":
		e.evalExec(c, v, r0, r1, amt, &o, bad)
	case "mint-burn":
		e.evalMintBurn(c, v, r0, r1, amt, &o, bad)
	case "burn":
		e.evalBurn(c, v, r0, r1, amt, &o, bad)
	case "create":
		e.evalCreate(c, v, amt, pc.amnt1, &o, bad)
	default:
		panic("unknown fn " + c.Fn)
	}
	return
}

// evalExec runs the trade the way transactions do (SellWithOrders / BuyWithOrders) on an empty order book
// and judges the change of the reserves.
func (e *pairEnv) evalExec(c *lazyCase, v *swap.PairV2, r0, r1, amt *big.Int, o *caseOut, bad func(string, string, ...interface{})) {
	// The order-aware methods print and panic when the plain quote fails the pool's own check; look at that
	// first so that a defect there is reported once (and quietly) as a violation of this case.
	if c.Fn == "sell-exec" {
		burn := quo(add(amt, n(999)), n(1000)) // 0.1 % of a sale is burned before it reaches the pool (rounded up)
		if net := sub(amt, burn); net.Sign() > 0 {
			o.evals++
			if pre := v.CalculateBuyForSell(cp(net)); pre != nil {
				o.evals++
				if err := v.CheckSwap(cp(net), cp(pre)); err != nil {
					bad("checkswap", "pool input %s, quoted output %s is refused by the pool's own check: %v", net, pre, err)
					return
				}
			}
		}
	} else if lt(amt, r1) {
		o.evals++
		if pre := v.CalculateSellForBuy(cp(amt)); pre != nil {
			o.evals++
			if err := v.CheckSwap(cp(pre), cp(amt)); err != nil {
				bad("checkswap", "quoted input %s is refused by the pool's own check: %v", pre, err)
				return
			}
		}
	}
	var quoted *big.Int
	qp, qv := try(func() {
		if c.Fn == "sell-exec" {
			quoted, _ = v.CalculateBuyForSellWithOrders(cp(amt))
		} else {
			quoted, _ = v.CalculateSellForBuyWithOrders(cp(amt))
		}
	})
	o.evals++
	if qp {
		bad("quote-exec", "the quoting method panicked: %v", qv)
		return
	}
	if c.Fn == "buy-exec" && !lt(amt, r1) {
		if quoted != nil && quoted.Sign() > 0 {
			bad("out-lt-reserve", "a price %s is quoted for out >= reserveOut", quoted)
		}
		return // BuyWithOrders refuses (and logs) such an amount
	}
	if quoted == nil || quoted.Sign() <= 0 {
		return // rejected: the executing method refuses the same way
	}
	var got *big.Int
	var details *swap.ChangeDetailsWithOrders
	panicked, pv := try(func() {
		if c.Fn == "sell-exec" {
			got, _, details, _ = v.SellWithOrders(cp(amt))
		} else {
			got, _, details, _ = v.BuyWithOrders(cp(amt))
		}
	})
	o.evals++
	if panicked {
		bad("quote-exec", "quote %s but the executing method refused: %v", quoted, pv)
		return
	}
	o.defined = true
	a0, a1 := v.Reserves()
	d0, d1 := sub(a0, r0), sub(r1, a1) // what the pool received / paid
	if !eq(got, quoted) {
		bad("quote-exec", "quote %s differs from the executed amount %s", quoted, got)
	}
	var paid, received *big.Int // by / to the trader
	if c.Fn == "sell-exec" {
		paid, received = amt, got
	} else {
		paid, received = got, amt
	}
	if !eq(d1, received) {
		bad("out-lt-reserve", "the pool paid %s but the trader receives %s", d1, received)
	}
	if d1.Sign() <= 0 || !lt(d1, r1) {
		bad("out-lt-reserve", "the pool paid %s of a reserve of %s", d1, r1)
		return
	}
	if d0.Sign() <= 0 || d0.Cmp(paid) > 0 {
		bad("product", "the pool received %s although the trader pays %s", d0, paid)
		return
	}
	if mul(a0, a1).Cmp(mul(r0, r1)) < 0 {
		bad("product", "reserves (%s,%s) -> (%s,%s): the product fell", r0, r1, a0, a1)
	}
	if !feeOK(r0, r1, d0, d1) {
		bad("fee-rule", "pool in %s, pool out %s: (r0+0.998·in)(r1-out) < r0·r1", d0, d1)
	}
	if details != nil && (!eq(details.AmountIn, d0) || !eq(details.AmountOut, d1)) {
		bad("quote-exec", "reported pool change (%s,%s) differs from the change of the reserves (%s,%s)", details.AmountIn, details.AmountOut, d0, d1)
	}
	if o.want {
		o.sample = map[string]interface{}{"case": c.get(), "trader_pays": paid.String(), "trader_receives": received.String(), "pool_in": d0.String(), "pool_out": d1.String()}
	}
}

func (e *pairEnv) evalMintBurn(c *lazyCase, v *swap.PairV2, r0, r1, a0 *big.Int, o *caseOut, bad func(string, string, ...interface{})) {
	s := c.p.supply
	liqC, a1C := v.CalculateAddLiquidity(cp(a0), cp(s))
	o.evals++
	errCheck := v.CheckMint(cp(a0), cp(a1C), cp(s))
	o.evals++
	if liqC.Sign() <= 0 {
		if errCheck == nil {
			bad("check-consistency", "CheckMint accepts an addition that mints %s pool tokens", liqC)
		}
		return
	}
	if errCheck != nil {
		bad("check-consistency", "CheckMint refuses (%v) although exactly the needed amount1=%s is offered", errCheck, a1C)
	}
	var liq *big.Int
	if p, pv := try(func() { liq = v.Mint(cp(a0), cp(a1C), cp(s)) }); p {
		bad("check-consistency", "Mint panicked: %v", pv)
		return
	}
	o.evals++
	o.defined = true
	m0, m1 := v.Reserves()
	if !eq(sub(m0, r0), a0) || !eq(sub(m1, r1), a1C) || !eq(liq, liqC) {
		bad("mint-reserves", "deposit (%s,%s) liquidity %s, but reserves moved by (%s,%s) and %s was announced", a0, a1C, liq, sub(m0, r0), sub(m1, r1), liqC)
		return
	}
	if a1C.Sign() < 0 || liq.Sign() <= 0 {
		bad("mint-reserves", "negative deposit or no liquidity: amount1=%s liquidity=%s", a1C, liq)
		return
	}
	ns := add(s, liq)
	var b0, b1 *big.Int
	if p, pv := try(func() { b0, b1 = v.Burn(cp(liq), n(0), n(0), cp(ns)) }); p {
		bad("check-consistency", "Burn of the minted tokens panicked: %v", pv)
		return
	}
	o.evals++
	if b0.Cmp(a0) > 0 || b1.Cmp(a1C) > 0 {
		bad("add-remove", "deposited (%s,%s) for %s pool tokens, removing them returns (%s,%s)", a0, a1C, liq, b0, b1)
	}
	if mul(b0, ns).Cmp(mul(liq, m0)) > 0 || mul(b1, ns).Cmp(mul(liq, m1)) > 0 {
		bad("share", "removing %s of %s returns (%s,%s) of reserves (%s,%s): more than the proportional share", liq, ns, b0, b1, m0, m1)
	}
	f0, f1 := v.Reserves()
	if !eq(sub(m0, f0), b0) || !eq(sub(m1, f1), b1) {
		bad("burn-reserves", "Burn returned (%s,%s) but the reserves fell by (%s,%s)", b0, b1, sub(m0, f0), sub(m1, f1))
	}
	if o.want {
		o.sample = map[string]interface{}{"case": c.get(), "amount1": a1C.String(), "minted": liq.String(), "returned0": b0.String(), "returned1": b1.String()}
	}
}

func (e *pairEnv) evalBurn(c *lazyCase, v *swap.PairV2, r0, r1, liq *big.Int, o *caseOut, bad func(string, string, ...interface{})) {
	s := c.p.supply
	q0, q1 := v.Amounts(cp(liq), cp(s))
	o.evals++
	var b0, b1 *big.Int
	if p, pv := try(func() { b0, b1 = v.Burn(cp(liq), n(0), n(0), cp(s)) }); p {
		bad("check-consistency", "Burn panicked: %v", pv)
		return
	}
	o.evals++
	o.defined = true
	if !eq(q0, b0) || !eq(q1, b1) {
		bad("check-consistency", "Amounts says (%s,%s), Burn returns (%s,%s)", q0, q1, b0, b1)
	}
	if b0.Sign() < 0 || b1.Sign() < 0 || b0.Cmp(r0) > 0 || b1.Cmp(r1) > 0 {
		bad("out-lt-reserve", "Burn returns (%s,%s) of reserves (%s,%s)", b0, b1, r0, r1)
	}
	if mul(b0, s).Cmp(mul(liq, r0)) > 0 || mul(b1, s).Cmp(mul(liq, r1)) > 0 {
		bad("share", "removing %s of %s returns (%s,%s): more than floor(liquidity·reserve/supply)", liq, s, b0, b1)
	}
	f0, f1 := v.Reserves()
	if !eq(sub(r0, f0), b0) || !eq(sub(r1, f1), b1) {
		bad("burn-reserves", "Burn returned (%s,%s) but the reserves fell by (%s,%s)", b0, b1, sub(r0, f0), sub(r1, f1))
	}
	set(v, r0, r1)
	o.evals += 2
	if err := v.CheckBurn(cp(liq), cp(b0), cp(b1), cp(s)); err != nil {
		bad("check-consistency", "CheckBurn refuses the minimums Burn pays: %v", err)
	}
	if err := v.CheckBurn(cp(liq), add(b0, n(1)), cp(b1), cp(s)); err == nil {
		bad("check-consistency", "CheckBurn accepts a minimum above what Burn pays")
	}
	if o.want {
		o.sample = map[string]interface{}{"case": c.get(), "returned0": b0.String(), "returned1": b1.String()}
	}
}

func (e *pairEnv) evalCreate(c *lazyCase, v *swap.PairV2, a0, a1 *big.Int, o *caseOut, bad func(string, string, ...interface{})) {
	set(v, n(0), n(0))
	prod := mul(a0, a1)
	// pool tokens minted = floor(sqrt(a0·a1)) must exceed the locked minimum of 1000: a0·a1 ≥ 1001²
	wantOK := prod.Cmp(n(1001*1001)) >= 0
	err := v.CheckCreate(cp(a0), cp(a1))
	o.evals++
	if (err == nil) != wantOK {
		bad("create-minimum", "CheckCreate says %v although floor(sqrt(a0·a1)) = %s", err, isqrt(prod))
	}
	var l *big.Int
	panicked, pv := try(func() { l = v.Create(cp(a0), cp(a1)) })
	o.evals++
	if panicked != !wantOK {
		bad("create-minimum", "Create panicked=%v (%v) although floor(sqrt(a0·a1)) = %s", panicked, pv, isqrt(prod))
	}
	if panicked {
		return
	}
	o.defined = true
	m0, m1 := v.Reserves()
	if !eq(m0, a0) || !eq(m1, a1) {
		bad("mint-reserves", "created with (%s,%s) but the reserves are (%s,%s)", a0, a1, m0, m1)
		return
	}
	if mul(l, l).Cmp(prod) > 0 || mul(add(l, n(1)), add(l, n(1))).Cmp(prod) <= 0 {
		bad("create-sqrt", "minted %s is not floor(sqrt(a0·a1)) = %s", l, isqrt(prod))
	}
	if l.Cmp(bound) <= 0 {
		return // (already reported as create-minimum)
	}
	// the creator holds l − 1000; removing all of it must leave the locked share in the pool
	mine := sub(l, bound)
	var b0, b1 *big.Int
	if p, pv := try(func() { b0, b1 = v.Burn(cp(mine), n(0), n(0), cp(l)) }); p {
		bad("check-consistency", "Burn of the creator's tokens panicked: %v", pv)
		return
	}
	o.evals++
	if b0.Cmp(a0) >= 0 || b1.Cmp(a1) >= 0 {
		bad("locked-minimum", "creator removes %s of %s and receives (%s,%s) of (%s,%s): nothing stays for the locked 1000", mine, l, b0, b1, a0, a1)
	}
	if mul(b0, l).Cmp(mul(mine, a0)) > 0 || mul(b1, l).Cmp(mul(mine, a1)) > 0 {
		bad("share", "creator removes %s of %s and receives (%s,%s): more than the proportional share", mine, l, b0, b1)
	}
	if o.want {
		o.sample = map[string]interface{}{"case": c.get(), "minted": l.String(), "creator_removes_all": []string{b0.String(), b1.String()}}
	}
}

// ---------------------------------------------------------------------------
// enumeration

// casesOfPair lists every case of one reserve pair (a = reserve in, b = reserve out) in one orientation.
func casesOfPair(a, b *big.Int, reverse bool, dense bool, f func(pcase)) {
	for _, x := range sellAmounts(a, b, dense) {
		f(pcase{fn: "sell", reverse: reverse, r0: a, r1: b, amount: x})
		f(pcase{fn: "sell-exec", reverse: reverse, r0: a, r1: b, amount: x})
	}
	for _, x := range buyAmounts(a, b, dense) {
		f(pcase{fn: "buy", reverse: reverse, r0: a, r1: b, amount: x})
		f(pcase{fn: "buy-exec", reverse: reverse, r0: a, r1: b, amount: x})
	}
	ma := mintAmounts(a, dense)
	for _, s := range supplies(a, b, dense) {
		for _, x := range ma {
			f(pcase{fn: "mint-burn", reverse: reverse, r0: a, r1: b, supply: s, amount: x})
		}
		for _, x := range burnAmounts(s, dense) {
			f(pcase{fn: "burn", reverse: reverse, r0: a, r1: b, supply: s, amount: x})
		}
	}
}

type sigAgg struct {
	first Violation
	unit  int
	seq   int
	count int64
}

// RunPairs enumerates the pair lattice on `workers` goroutines. The result does not depend on scheduling.
func RunPairs(b PairBounds, deadline time.Time, workers int) Result {
	vals := b.reserveValues()
	rmax := n(b.RatioMax)
	type unit struct {
		a, b   *big.Int
		create [][2]*big.Int
	}
	var units []unit
	for _, a := range vals {
		for _, c := range vals {
			if a.Cmp(mul(c, rmax)) > 0 || c.Cmp(mul(a, rmax)) > 0 {
				continue
			}
			units = append(units, unit{a: a, b: c})
		}
	}
	nPairs := len(units)
	// pool creation: the small grid around the minimum plus every reserve pair as the initial amounts (de-duplicated)
	var creates [][2]*big.Int
	seenCreate := map[string]bool{}
	addCreate := func(p [2]*big.Int) {
		k := p[0].String() + "," + p[1].String()
		if !seenCreate[k] {
			seenCreate[k] = true
			creates = append(creates, p)
		}
	}
	for _, p := range createGrid() {
		addCreate(p)
	}
	for _, u := range units {
		addCreate([2]*big.Int{u.a, u.b})
	}
	for i := 0; i < len(creates); i += 400 {
		j := i + 400
		if j > len(creates) {
			j = len(creates)
		}
		units = append(units, unit{create: creates[i:j]})
	}

	var evals, rejected, nontrivial, cases int64
	perFn := map[string]*[3]int64{} // cases, defined, rejected
	var mu sync.Mutex
	aggs := map[string]*sigAgg{}
	samples := map[int][]interface{}{}
	sampleUnits := map[int]bool{0: true, nPairs / 3: true, 2 * nPairs / 3: true, nPairs - 1: true, nPairs: true}
	var next int64 = -1
	var timedOut int32
	var wg sync.WaitGroup
	for w := 0; w < workers; w++ {
		wg.Add(1)
		go func() {
			defer wg.Done()
			env := newPairEnv()
			local := map[string]*[3]int64{}
			var lEvals, lRej, lNon, lCases int64
			for {
				i := int(atomic.AddInt64(&next, 1))
				if i >= len(units) {
					break
				}
				if time.Now().After(deadline) {
					atomic.StoreInt32(&timedOut, 1)
					break
				}
				u := units[i]
				seq := 0
				sampled := map[string]bool{}
				handle := func(c pcase) {
					seq++
					want := sampleUnits[i] && !sampled[c.fn] && (seq%7 == 3 || c.fn == "create")
					o := env.evalPair(c, want)
					lCases++
					lEvals += int64(o.evals)
					st := local[c.fn]
					if st == nil {
						st = &[3]int64{}
						local[c.fn] = st
					}
					st[0]++
					if o.defined {
						lNon++
						st[1]++
					} else {
						lRej++
						st[2]++
					}
					if len(o.vs) > 0 {
						mu.Lock()
						for _, v := range o.vs {
							g := aggs[v.Signature]
							if g == nil {
								g = &sigAgg{first: v, unit: i, seq: seq}
								aggs[v.Signature] = g
							} else if i < g.unit || (i == g.unit && seq < g.seq) {
								g.first, g.unit, g.seq = v, i, seq
							}
							g.count++
						}
						mu.Unlock()
					}
					if o.sample != nil {
						sampled[c.fn] = true
						mu.Lock()
						samples[i] = append(samples[i], o.sample)
						mu.Unlock()
					}
				}
				if u.create != nil {
					for _, p := range u.create {
						for _, rv := range []bool{false, true} {
							handle(pcase{fn: "create", reverse: rv, r0: n(0), r1: n(0), amount: p[0], amnt1: p[1]})
						}
					}
					continue
				}
				casesOfPair(u.a, u.b, false, b.Dense, handle)
				casesOfPair(u.a, u.b, true, b.Dense, handle)
			}
			mu.Lock()
			evals += lEvals
			rejected += lRej
			nontrivial += lNon
			cases += lCases
			for k, v := range local {
				t := perFn[k]
				if t == nil {
					t = &[3]int64{}
					perFn[k] = t
				}
				for j := range v {
					t[j] += v[j]
				}
			}
			mu.Unlock()
		}()
	}
	wg.Wait()

	res := Result{Evaluations: evals, Rejected: rejected, DistinctNontrivial: nontrivial, Exhaustive: timedOut == 0}
	var sigs []string
	for s := range aggs {
		sigs = append(sigs, s)
	}
	sort.Strings(sigs)
	for _, s := range sigs {
		g := aggs[s]
		v := g.first
		v.Count = g.count
		res.Violations = append(res.Violations, v)
	}
	var su []int
	for i := range samples {
		su = append(su, i)
	}
	sort.Ints(su)
	for _, i := range su {
		res.Samples = append(res.Samples, samples[i]...)
	}
	if len(res.Samples) > 12 {
		res.Samples = res.Samples[:12]
	}
	fn := map[string]interface{}{}
	for k, v := range perFn {
		fn[k] = map[string]int64{"cases": v[0], "defined": v[1], "rejected": v[2]}
	}
	res.Extra = map[string]interface{}{
		"reserve_values": len(vals), "reserve_pairs": nPairs, "create_cases_per_orientation": len(creates), "cases": cases, "rejected_by_code": rejected, "per_function": fn,
		"exponents": b.Exps, "mantissas": b.Mantissas, "ratio_max": b.RatioMax, "dense_amounts": b.Dense, "orientations": 2,
	}
	res.Rule = "pair lattice: reserves m·10^k (±1), one ragged value per decade and 2^53, 2^64, 2^100 (±1), all ordered pairs within the ratio bound, both orientations (pair and pair.reverse()); " +
		"per pair every amount of a fixed list (1 pip … multiples of the reserve, fractions of the reserve ±1, amounts that buy/cost about one unit), for liquidity every supply of {1001, L/2, L, L+1} (thorough: also L/1000, L−1, 10L; L = isqrt(r0·r1)); " +
		"each case calls the real PairV2 methods and is judged with exact big.Int arithmetic. Reserve values, amounts and cases are de-duplicated when generated, so every case is distinct; " +
		"a case is non-trivial when the real code returned a defined result (not nil / refused), which is what distinct_nontrivial counts; one evaluation = one call of a real method"
	return res
}

// ReplayPair re-executes one case.
func ReplayPair(payload json.RawMessage) (bool, string) {
	var c PairCase
	if err := json.Unmarshal(payload, &c); err != nil {
		return false, err.Error()
	}
	o := newPairEnv().evalPair(c.parse(), true)
	text := c.String() + "\n"
	if o.sample != nil {
		b, _ := json.Marshal(o.sample)
		text += "observed: " + string(b) + "\n"
	}
	for _, v := range o.vs {
		text += "violation " + v.Signature + ": " + v.Detail + "\n"
	}
	return len(o.vs) > 0, text
}
