package poolprice

// price.go: the block reward rule of coreV2/appdb (AppDB.UpdatePriceFix), property C28.
//
// Reference model (from the property text): the price is p = r1/r0 (USDT reserve over BIP reserve of the
// BIP/USDT pool); the price-derived level is 350·p^(1/4) BIP; the change of the price against the previous
// update is taken in percent and rounded down (toward −∞) to a whole percent; when that is −10 or lower the
// validators' reward drops to zero ("off"); while off, each further update raises the reward by 10 BIP until it
// reaches the level, where the rule ends; otherwise the reward is the level. The second return value (the
// "safe" reward) is always the level.

import (
	"encoding/json"
	"fmt"
	"math/big"
	"sort"
	"sync"
	"sync/atomic"
	"time"

	"github.com/MinterTeam/minter-go-node/config"
	"github.com/MinterTeam/minter-go-node/coreV2/appdb"
)

// PriceStep is one update: the reserves the pool has at that update.
type PriceStep struct {
	R0   string `json:"r0"` // BIP reserve
	R1   string `json:"r1"` // USDT reserve
	Note string `json:"note,omitempty"`
}

// PriceCase is one case of the price lattice (also the replay payload).
type PriceCase struct {
	Kind  string      `json:"kind"` // first | single | sequence
	R0Old string      `json:"r0_old,omitempty"`
	R1Old string      `json:"r1_old,omitempty"`
	Off   bool        `json:"off"`
	Last  string      `json:"last,omitempty"` // stored last reward before the first step
	Steps []PriceStep `json:"steps"`
}

func (c PriceCase) String() string {
	s := fmt.Sprintf("%s old=(%s,%s) off=%v last=%s", c.Kind, c.R0Old, c.R1Old, c.Off, c.Last)
	for _, st := range c.Steps {
		s += fmt.Sprintf(" -> (%s,%s)", st.R0, st.R1)
		if st.Note != "" {
			s += "[" + st.Note + "]"
		}
	}
	return s
}

var (
	bip    = pow10(18)
	tenBip = pow10(19)
	tBase  = time.Date(2024, 1, 1, 12, 0, 0, 0, time.UTC)
)

type priceEnv struct {
	cfg *config.Config
	db  *appdb.AppDB
	pcs map[string]*big.Int
}

func newAppDB(cfg *config.Config) *appdb.AppDB {
	return appdb.NewAppDB("/verif/.scratch/lattice-price-never-created", cfg) // memdb: the directory is not touched
}

func newPriceEnv() *priceEnv {
	cfg := config.DefaultConfig()
	cfg.DBBackend = "memdb"
	return &priceEnv{cfg: cfg, db: newAppDB(cfg), pcs: map[string]*big.Int{}}
}

// level asks the real code for the price-derived level of (r0,r1): the reward of a first update on an empty AppDB.
func (e *priceEnv) level(r0, r1 *big.Int) *big.Int {
	k := r0.String() + "/" + r1.String()
	if v, ok := e.pcs[k]; ok {
		return v
	}
	_, safe := newAppDB(e.cfg).UpdatePriceFix(tBase, cp(r0), cp(r1))
	e.pcs[k] = safe
	return safe
}

// levelRef: 350·10^18·(r1/r0)^(1/4) with 512-bit floats (two square roots).
func levelRef(r0, r1 *big.Int) *big.Float {
	x := new(big.Float).SetPrec(512).Quo(new(big.Float).SetPrec(512).SetInt(r1), new(big.Float).SetPrec(512).SetInt(r0))
	x.Sqrt(x)
	x.Sqrt(x)
	return x.Mul(x, new(big.Float).SetPrec(512).SetInt(muln(bip, 350)))
}

// levelAccurate: |got − ref| ≤ 10^-12·ref.
func levelAccurate(got *big.Int, r0, r1 *big.Int) (bool, string) {
	ref := levelRef(r0, r1)
	d := new(big.Float).SetPrec(512).Sub(new(big.Float).SetPrec(512).SetInt(got), ref)
	d.Abs(d)
	tol := new(big.Float).SetPrec(512).Quo(ref, new(big.Float).SetPrec(512).SetInt(pow10(12)))
	return d.Cmp(tol) <= 0, ref.Text('f', 3)
}

// percentFloor returns floor(100·(pNew−pOld)/pOld) for p = r1/r0, and whether the change is a whole percent.
func percentFloor(r0o, r1o, r0n, r1n *big.Int) (*big.Int, bool) {
	num := muln(sub(mul(r1n, r0o), mul(r1o, r0n)), 100)
	den := mul(r1o, r0n)
	q, m := new(big.Int).QuoRem(num, den, new(big.Int)) // truncated
	if m.Sign() < 0 {
		q.Sub(q, n(1))
	}
	return q, m.Sign() == 0
}

type modelState struct {
	r0, r1 *big.Int
	last   *big.Int
	off    bool
}

// modelStep applies the rule; level is the price-derived level of the new reserves. phase names the branch.
func modelStep(s modelState, r0n, r1n, level *big.Int) (reward *big.Int, ns modelState, phase string, pct *big.Int, whole bool) {
	pct, whole = percentFloor(s.r0, s.r1, r0n, r1n)
	ns = modelState{r0: r0n, r1: r1n}
	switch {
	case pct.Cmp(n(-10)) <= 0:
		reward, ns.off, phase = n(0), true, "drop"
	case s.off:
		cand := add(s.last, tenBip)
		if cand.Cmp(level) >= 0 {
			reward, ns.off, phase = cp(level), false, "cap"
		} else {
			reward, ns.off, phase = cand, true, "recovery-step"
		}
	default:
		reward, ns.off, phase = cp(level), false, "level"
	}
	ns.last = cp(reward)
	return
}

type priceOut struct {
	evals      int
	nontrivial bool
	phases     []string
	whole      int // steps whose change is exactly a whole percent
	vs         []Violation
	sample     map[string]interface{}
}

func offName(off bool) string {
	if off {
		return "off=true"
	}
	return "off=false"
}

// evalPrice runs one case on the real code and compares every step with the model.
func (e *priceEnv) evalPrice(c PriceCase, wantSample bool) (o priceOut) {
	bad := func(rule string, off bool, format string, a ...interface{}) {
		o.vs = append(o.vs, Violation{Signature: "price|" + rule + "|" + offName(off), Detail: c.String() + ": " + fmt.Sprintf(format, a...), Replay: c})
	}
	var trace []map[string]interface{}
	defer func() {
		if wantSample {
			o.sample = map[string]interface{}{"case": c, "trace": trace}
		}
	}()
	d := e.db
	var st modelState
	if c.Kind == "first" {
		d = newAppDB(e.cfg)
	} else {
		st = modelState{r0: bi(c.R0Old), r1: bi(c.R1Old), last: bi(c.Last), off: c.Off}
		d.SetPrice(tBase, cp(st.r0), cp(st.r1), cp(st.last), st.off)
	}
	for i, step := range c.Steps {
		r0n, r1n := bi(step.R0), bi(step.R1)
		t := tBase.Add(time.Duration(i+1) * 24 * time.Hour)
		in0, in1 := cp(r0n), cp(r1n)
		reward, safe := d.UpdatePriceFix(t, in0, in1)
		o.evals++
		if reward == nil || safe == nil {
			bad("level", st.off, "step %d: nil result", i)
			return
		}
		rewardS, safeS := reward.String(), safe.String()
		if ok, ref := levelAccurate(safe, r0n, r1n); !ok {
			bad("root-accuracy", st.off, "step %d: safe reward %s, 350·p^(1/4)·10^18 = %s", i, safe, ref)
			return
		}
		if c.Kind != "first" || i > 0 {
			if lv := e.level(r0n, r1n); !eq(lv, safe) {
				bad("root-accuracy", st.off, "step %d: safe reward %s differs from the level %s the same reserves give on a first update", i, safe, lv)
			}
		}
		var want *big.Int
		var ns modelState
		phase := "first"
		pct, whole := n(0), false
		before := st
		if c.Kind == "first" && i == 0 {
			want, ns = cp(safe), modelState{r0: r0n, r1: r1n, last: cp(safe), off: false}
		} else {
			want, ns, phase, pct, whole = modelStep(st, r0n, r1n, safe)
			if whole {
				o.whole++
			}
			if phase != "level" {
				o.nontrivial = true
			}
		}
		o.phases = append(o.phases, phase)
		// the caller may do anything with the returned numbers and with its own arguments
		reward.Add(reward, n(12345))
		safe.Add(safe, n(12345))
		in0.Add(in0, n(7))
		in1.Add(in1, n(7))
		gt, g0, g1, gl, goff := d.GetPrice()
		o.evals++
		if wantSample {
			trace = append(trace, map[string]interface{}{"r0": step.R0, "r1": step.R1, "percent_floor": pct.String(), "whole_percent": whole, "phase": phase, "reward": rewardS, "safe_reward": safeS, "stored_last": gl.String(), "stored_off": goff})
		}
		if rewardS != want.String() {
			rule := phase
			implDrop := rewardS == "0" && goff && gl.Sign() == 0
			if (phase == "drop") != implDrop { // the disagreement is about whether the drop applies
				rule = "percent-floor"
				if whole {
					rule = "boundary"
				}
			}
			if rule == "first" {
				rule = "level"
			}
			bad(rule, before.off, "step %d: price change floor %s%% (whole percent: %v), model phase %s: reward %s, expected %s (level %s, last %v)", i, pct, whole, phase, rewardS, want, safeS, before.last)
			return
		}
		if !eq(gl, ns.last) || goff != ns.off || !eq(g0, r0n) || !eq(g1, r1n) || !gt.Equal(t) {
			bad("stored-state", before.off, "step %d (phase %s): stored (t=%v r0=%s r1=%s last=%s off=%v), expected (t=%v r0=%s r1=%s last=%s off=%v)", i, phase, gt, g0, g1, gl, goff, t, r0n, r1n, ns.last, ns.off)
			return
		}
		st = ns
	}
	return
}

// ---------------------------------------------------------------------------
// enumeration

// PriceBounds describes the grid.
type PriceBounds struct {
	States     []oldSpec  // previous states of the single-update lattice
	SeqStates  []oldSpec  // previous states of the sequences
	RootMags   []int      // first-update cases (fourth root accuracy): BIP reserve 10^k and the ragged value …
	RootPrices [][2]int64 // … × these prices
	Percents   []int64    // price moves in percent
	SeqMenu    []int64    // sequence moves in percent
	SeqLen     int
}

var allPercents = []int64{-50, -12, -11, -10, -9, -8, -5, -1, 0, 1, 5, 9, 10, 11, 100}

func QuickPriceBounds() PriceBounds {
	return PriceBounds{
		States:    []oldSpec{{18, false, 1, 1000000}, {24, true, 1, 20}, {30, false, 1000, 1}},
		SeqStates: []oldSpec{{24, false, 1, 20}, {24, true, 1, 1}},
		RootMags:  []int{18, 24, 30}, RootPrices: allPrices,
		Percents: allPercents, SeqMenu: []int64{-11, -10, -9, 0, 5}, SeqLen: 3}
}
func ThoroughPriceBounds() PriceBounds {
	b := PriceBounds{RootMags: []int{18, 19, 20, 21, 22, 23, 24, 25, 26, 27, 28, 29, 30}, RootPrices: allPrices,
		Percents: allPercents, SeqMenu: []int64{-11, -10, -9, 0, 5}, SeqLen: 3}
	for _, k := range []int{18, 21, 24, 27, 30} {
		for _, rag := range []bool{false, true} {
			for _, p := range allPrices {
				b.States = append(b.States, oldSpec{k, rag, p[0], p[1]})
			}
			for _, p := range [][2]int64{{1, 1000000}, {1, 20}, {1, 1}, {1000, 1}} {
				if k != 21 && k != 27 {
					b.SeqStates = append(b.SeqStates, oldSpec{k, rag, p[0], p[1]})
				}
			}
		}
	}
	return b
}

var allPrices = [][2]int64{{1, 1000000}, {1, 10000}, {1, 100}, {1, 20}, {1, 3}, {1, 1}, {73, 10}, {1000, 1}}

// oldSpec: BIP reserve 10^Mag (or the ragged value of that magnitude), USDT reserve = BIP·PNum/PDen.
type oldSpec struct {
	Mag        int
	Ragged     bool
	PNum, PDen int64
}

func (o oldSpec) reserves() oldState {
	b := pow10(o.Mag)
	if o.Ragged {
		b = ragged(o.Mag)
	}
	return oldState{b, quo(muln(b, o.PNum), n(o.PDen))}
}

type move struct {
	r0, r1 *big.Int
	note   string
}

// movesOf realises "new price = old price·(100+d)/100" three ways, each exactly and one pip to either side.
func movesOf(r0o, r1o *big.Int, d int64) []move {
	var out []move
	f := 100 + d
	pip := func(tag string, r0, r1 *big.Int, onR1 bool) {
		out = append(out, move{cp(r0), cp(r1), fmt.Sprintf("%+d%% %s", d, tag)})
		if onR1 {
			out = append(out, move{cp(r0), sub(r1, n(1)), fmt.Sprintf("%+d%% %s, r1-1", d, tag)}, move{cp(r0), add(r1, n(1)), fmt.Sprintf("%+d%% %s, r1+1", d, tag)})
		} else {
			out = append(out, move{sub(r0, n(1)), cp(r1), fmt.Sprintf("%+d%% %s, r0-1", d, tag)}, move{add(r0, n(1)), cp(r1), fmt.Sprintf("%+d%% %s, r0+1", d, tag)})
		}
	}
	// (1) only the USDT reserve moves: r1' = floor(r1·f/100) (exact when r1 is a multiple of 100)
	pip("by r1", r0o, quo(muln(r1o, f), n(100)), true)
	// (2) only the BIP reserve moves: r0' = floor(r0·100/f) (exact when divisible)
	pip("by r0", quo(muln(r0o, 100), n(f)), r1o, false)
	// (3) both scaled: r0' = 100·r0, r1' = f·r1 — the ratio is exactly f/100 for any reserves; then one pip on either reserve
	pip("scaled", muln(r0o, 100), muln(r1o, f), true)
	pip("scaled", muln(r0o, 100), muln(r1o, f), false)
	seen := map[string]bool{}
	var u []move
	for _, m := range out {
		k := m.r0.String() + "/" + m.r1.String()
		if !seen[k] && m.r0.Sign() > 0 && m.r1.Sign() > 0 {
			seen[k] = true
			u = append(u, m)
		}
	}
	return u
}

func uniqStrings(vs []*big.Int) []string {
	seen := map[string]bool{}
	var out []string
	for _, v := range vs {
		if v.Sign() < 0 {
			continue
		}
		if s := v.String(); !seen[s] {
			seen[s] = true
			out = append(out, s)
		}
	}
	return out
}

type oldState struct{ r0, r1 *big.Int }

// RunPrice enumerates the price lattice. Work units: (previous state, percentage) for single updates,
// (previous state, first move) for sequences, one magnitude for the first-update cases.
func RunPrice(b PriceBounds, deadline time.Time, workers int) Result {
	type unit struct {
		kind string // roots | single | seq
		old  oldState
		k    int // roots: magnitude; single: index into Percents; seq: index of the first move
	}
	var units []unit
	for _, k := range b.RootMags {
		units = append(units, unit{kind: "roots", k: k})
	}
	nRoots := len(units)
	for _, o := range b.States {
		for i := range b.Percents {
			units = append(units, unit{kind: "single", old: o.reserves(), k: i})
		}
	}
	nSingle := len(units)
	for _, o := range b.SeqStates {
		for i := range b.SeqMenu {
			units = append(units, unit{kind: "seq", old: o.reserves(), k: i})
		}
	}
	sampleUnit := map[int]bool{0: true, nRoots: true, nRoots + 3: true, (nRoots + nSingle) / 2: true, nSingle: true, len(units) - 1: true}

	var evals, cases int64
	var mu sync.Mutex
	aggs := map[string]*sigAgg{}
	distinct := map[string]bool{}
	allKeys := map[string]bool{}
	phases := map[string]int64{}
	var wholeSteps int64
	samples := map[int][]interface{}{}
	var next int64 = -1
	var timedOut int32
	var wg sync.WaitGroup
	for w := 0; w < workers; w++ {
		wg.Add(1)
		go func() {
			defer wg.Done()
			env := newPriceEnv()
			for {
				i := int(atomic.AddInt64(&next, 1))
				if i >= len(units) {
					break
				}
				if time.Now().After(deadline) {
					atomic.StoreInt32(&timedOut, 1)
					break
				}
				u := units[i]
				seq := 0
				nSamples := 0
				lNon := map[string]bool{}
				lAll := map[string]bool{}
				lPh := map[string]int64{}
				var lEvals, lCases, lWhole int64
				handle := func(c PriceCase) {
					seq++
					want := sampleUnit[i] && nSamples < 1 && seq%37 == 5
					o := env.evalPrice(c, want)
					lCases++
					lEvals += int64(o.evals)
					lWhole += int64(o.whole)
					key := c.String()
					lAll[key] = true
					if o.nontrivial {
						lNon[key] = true
					}
					for _, p := range o.phases {
						lPh[p]++
					}
					if o.sample != nil {
						nSamples++
						mu.Lock()
						samples[i] = append(samples[i], o.sample)
						mu.Unlock()
					}
					if len(o.vs) > 0 {
						mu.Lock()
						for _, v := range o.vs {
							g := aggs[v.Signature]
							if g == nil {
								g = &sigAgg{first: v, unit: i, seq: seq}
								aggs[v.Signature] = g
							} else if i < g.unit || (i == g.unit && seq < g.seq) {
								g.first, g.unit, g.seq = v, i, seq
							}
							g.count++
						}
						mu.Unlock()
					}
				}
				switch u.kind {
				case "roots":
					for _, rag := range []bool{false, true} {
						for _, p := range b.RootPrices {
							o := oldSpec{u.k, rag, p[0], p[1]}.reserves()
							for _, r1 := range pm1(o.r1) {
								if seq == 0 {
									seq = 4 // (so that the first one is sampled)
								}
								handle(PriceCase{Kind: "first", Steps: []PriceStep{{R0: o.r0.String(), R1: r1.String()}}})
							}
						}
					}
				case "single":
					r0o, r1o := u.old.r0, u.old.r1
					levelOld := env.level(r0o, r1o)
					for _, m := range movesOf(r0o, r1o, b.Percents[u.k]) {
						lv := env.level(m.r0, m.r1)
						lasts := uniqStrings([]*big.Int{n(0), muln(bip, 5), sub(sub(lv, tenBip), n(1)), sub(lv, tenBip), add(sub(lv, tenBip), n(1)), sub(lv, n(1)), cp(lv), add(lv, n(1)), cp(levelOld)})
						for _, off := range []bool{false, true} {
							for _, last := range lasts {
								handle(PriceCase{Kind: "single", R0Old: r0o.String(), R1Old: r1o.String(), Off: off, Last: last, Steps: []PriceStep{{R0: m.r0.String(), R1: m.r1.String(), Note: m.note}}})
							}
						}
					}
				case "seq":
					// every sequence of SeqLen moves of the menu starting with move k (exact percentages: both
					// reserves scaled), from both off states
					r0o, r1o := u.old.r0, u.old.r1
					levelOld := env.level(r0o, r1o)
					type start struct {
						off  bool
						last *big.Int
					}
					starts := []start{{false, cp(levelOld)}}
					for _, l := range uniqStrings([]*big.Int{n(0), sub(levelOld, muln(bip, 25)), sub(levelOld, muln(bip, 20)), sub(levelOld, muln(bip, 10)), sub(levelOld, muln(bip, 5))}) {
						starts = append(starts, start{true, bi(l)})
					}
					idx := make([]int, b.SeqLen)
					idx[0] = u.k
					for {
						var steps []PriceStep
						r0, r1 := r0o, r1o
						for _, k := range idx {
							d := b.SeqMenu[k]
							r0, r1 = muln(r0, 100), muln(r1, 100+d)
							steps = append(steps, PriceStep{R0: r0.String(), R1: r1.String(), Note: fmt.Sprintf("%+d%%", d)})
						}
						for _, s := range starts {
							handle(PriceCase{Kind: "sequence", R0Old: r0o.String(), R1Old: r1o.String(), Off: s.off, Last: s.last.String(), Steps: steps})
						}
						j := b.SeqLen - 1
						for j >= 1 {
							idx[j]++
							if idx[j] < len(b.SeqMenu) {
								break
							}
							idx[j] = 0
							j--
						}
						if j < 1 {
							break
						}
					}
				}
				mu.Lock()
				evals += lEvals
				cases += lCases
				wholeSteps += lWhole
				for k := range lNon {
					distinct[k] = true
				}
				for k := range lAll {
					allKeys[k] = true
				}
				for k, v := range lPh {
					phases[k] += v
				}
				mu.Unlock()
			}
		}()
	}
	wg.Wait()

	res := Result{Evaluations: evals, DistinctNontrivial: int64(len(distinct)), Exhaustive: timedOut == 0}
	var sigs []string
	for s := range aggs {
		sigs = append(sigs, s)
	}
	sort.Strings(sigs)
	for _, s := range sigs {
		g := aggs[s]
		v := g.first
		v.Count = g.count
		res.Violations = append(res.Violations, v)
	}
	var su []int
	for i := range samples {
		su = append(su, i)
	}
	sort.Ints(su)
	for _, i := range su {
		res.Samples = append(res.Samples, samples[i]...)
	}
	res.Extra = map[string]interface{}{
		"cases": cases, "distinct_cases": len(allKeys), "previous_states_single": b.States, "previous_states_sequences": b.SeqStates, "percent_moves": b.Percents,
		"sequence_menu_percent": b.SeqMenu, "sequence_length": b.SeqLen, "steps_per_model_phase": phases, "steps_on_exact_whole_percent": wholeSteps,
		"first_update_magnitudes_pow10": b.RootMags, "first_update_prices": b.RootPrices, "root_tolerance_relative": "1e-12", "work_units": len(units),
	}
	res.Rule = "price lattice: previous reserves (BIP reserve 10^k or a ragged value, USDT reserve = BIP·price) × price moves of the listed whole percentages realised by changing r1 only, r0 only, or both reserves (exact ratio), each exactly and one pip to either side × off ∈ {false,true} × stored last reward ∈ {0, 5 BIP, level−10 BIP−1, level−10 BIP, level−10 BIP+1, level−1, level, level+1, old level}; " +
		"plus first updates on an empty store over magnitudes × prices (±1 pip) and every sequence of 3 updates over the menu from both off states (several stored rewards). Every step calls the real UpdatePriceFix and GetPrice and is compared with the model (exact rational floor percentage, 512-bit fourth root). " +
		"Cases are keyed by their full description; distinct_nontrivial counts distinct cases in which a step took a branch other than 'reward = level' (drop, recovery step, cap); one evaluation = one call of a real method"
	return res
}

// ReplayPrice re-executes one case.
func ReplayPrice(payload json.RawMessage) (bool, string) {
	var c PriceCase
	if err := json.Unmarshal(payload, &c); err != nil {
		return false, err.Error()
	}
	o := newPriceEnv().evalPrice(c, true)
	text := c.String() + "\n"
	if o.sample != nil {
		b, _ := json.Marshal(o.sample["trace"])
		text += "observed: " + string(b) + "\n"
	}
	for _, v := range o.vs {
		text += "violation " + v.Signature + ": " + v.Detail + "\n"
	}
	return len(o.vs) > 0, text
}
