// Package lab runs a real minter.Blockchain on harness-owned storage and turns
// every ABCI call into an observation (response, panic, exit).
package lab

import (
	"context"
	"crypto/sha256"
	"fmt"
	"io"
	stdlog "log"
	"math/big"
	"os"
	"runtime/debug"
	"strings"
	"sync"
	"sync/atomic"
	"time"
	_ "unsafe"

	"github.com/MinterTeam/minter-go-node/cmd/utils"
	"github.com/MinterTeam/minter-go-node/config"
	"github.com/MinterTeam/minter-go-node/coreV2/minter"
	"github.com/MinterTeam/minter-go-node/coreV2/state"
	"github.com/MinterTeam/minter-go-node/coreV2/transaction"
	"github.com/MinterTeam/minter-go-node/coreV2/types"
	"github.com/cosmos/cosmos-sdk/snapshots"
	"github.com/tendermint/go-amino"
	abci "github.com/tendermint/tendermint/abci/types"
	tmlog "github.com/tendermint/tendermint/libs/log"
	tmproto "github.com/tendermint/tendermint/proto/tendermint/types"
	db "github.com/tendermint/tm-db"

	"verif/vdb"
	"verif/vos"
)

//go:linkname registerDBCreator github.com/tendermint/tm-db.registerDBCreator
func registerDBCreator(backend db.BackendType, creator func(name, dir string) (db.DB, error), force bool)

var (
	regMu    sync.Mutex
	registry = map[string]*vdb.Set{}
	homeSeq  uint64
)

func init() {
	stdlog.SetOutput(io.Discard)
	registerDBCreator("verifdb", func(name, dir string) (db.DB, error) {
		regMu.Lock()
		defer regMu.Unlock()
		s, ok := registry[dir]
		if !ok {
			return nil, fmt.Errorf("verifdb: no set registered for %q", dir)
		}
		return s.Get(name), nil
	}, true)
}

// Params are the constructor parameters of a node.
type Params struct {
	StakePeriod    uint64 // updateStakesAndPayRewardsPeriod
	OrdersPeriod   uint64 // expiredOrdersPeriod
	InitialHeight  int64  // RequestInitChain.InitialHeight (first block height)
	KeepLastStates int64
	HaltHeight     int
	GenesisTime    time.Time
}

// Fault describes an abnormal end of an ABCI call.
type Fault struct {
	Call  string
	Kind  string // panic | exit | crash (injected)
	Value string
	Code  int
	Stack string
	Top   string // top-most frame inside the repository
}

func (f *Fault) String() string {
	if f == nil {
		return ""
	}
	return fmt.Sprintf("%s in %s: %s (top %s)", f.Kind, f.Call, f.Value, f.Top)
}

// Node is a real application instance over a vdb.Set.
type Node struct {
	P    Params
	Set  *vdb.Set
	App  *minter.Blockchain
	home string

	Height   int64     // last committed height
	LastTime time.Time // header time of the last block
	InBlock  bool
	Dead     *Fault // set once a call ended with a panic/exit: the process is gone

	// ValidatorsHint is the validator set to vote with while the node has no state object yet.
	ValidatorsHint []types.TmAddress

	snapDir      string
	snapInterval int
	snapKeep     int
}

func newHome() string {
	return fmt.Sprintf("/verif-virtual/n%d", atomic.AddUint64(&homeSeq, 1))
}

func (n *Node) cfg() *config.Config {
	cfg := config.DefaultConfig()
	cfg.SetRoot(n.home)
	cfg.DBBackend = "verifdb"
	cfg.ValidatorMode = false
	cfg.KeepLastStates = n.P.KeepLastStates
	if cfg.KeepLastStates == 0 {
		cfg.KeepLastStates = 120
	}
	cfg.StateCacheSize = 10000
	cfg.HaltHeight = n.P.HaltHeight
	return cfg
}

// guard runs f and converts panics into a Fault.
func guard(call string, f func()) (flt *Fault) {
	defer func() {
		if r := recover(); r != nil {
			st := string(debug.Stack())
			flt = &Fault{Call: call, Stack: st, Top: topFrame(st)}
			switch v := r.(type) {
			case vos.ExitPanic:
				flt.Kind, flt.Code, flt.Value = "exit", v.Code, fmt.Sprintf("os.Exit(%d)", v.Code)
			case vdb.Crash:
				flt.Kind, flt.Value = "crash", fmt.Sprintf("injected crash after mutation %d", v.After)
			default:
				flt.Kind, flt.Value = "panic", fmt.Sprint(r)
			}
		}
	}()
	f()
	return nil
}

func topFrame(stack string) string {
	lines := strings.Split(stack, "\n")
	seenPanic := false
	for i := 0; i+1 < len(lines); i++ {
		l := lines[i]
		if strings.HasPrefix(l, "panic(") {
			seenPanic = true
			continue
		}
		if !seenPanic {
			continue
		}
		if strings.HasPrefix(l, "github.com/MinterTeam/minter-go-node/") {
			fn := strings.TrimPrefix(l, "github.com/MinterTeam/minter-go-node/")
			if j := strings.LastIndex(fn, "("); j > 0 {
				fn = fn[:j]
			}
			return fn
		}
	}
	return "?"
}

func (n *Node) open() *Fault {
	regMu.Lock()
	registry[n.home+"/data"] = n.Set
	regMu.Unlock()
	return guard("NewMinterBlockchain", func() {
		st := utils.NewStorageWithDBs(n.home, n.home+"/config/config.toml", n.Set.Get("state"), n.Set.Get("events"), n.Set.Get("snapshot"))
		n.App = minter.NewMinterBlockchain(st, n.cfg(), context.Background(), n.P.StakePeriod, n.P.OrdersPeriod, tmlog.NewNopLogger())
		if n.snapDir != "" {
			if err := n.attachSnapshots(); err != nil {
				panic(err)
			}
		}
	})
}

// Release forgets the registry entry of the node (memory hygiene in long runs).
func (n *Node) Release() {
	regMu.Lock()
	delete(registry, n.home+"/data")
	regMu.Unlock()
	n.App = nil
}

// NewNode builds a node over a fresh set of databases and runs InitChain.
func NewNode(p Params, genesis *types.AppState) (*Node, *Fault) {
	return NewNodeOn(vdb.NewSet(), p, genesis)
}

// NewNodeOn is NewNode over given (empty) databases.
func NewNodeOn(set *vdb.Set, p Params, genesis *types.AppState) (*Node, *Fault) {
	n := &Node{P: p, Set: set, home: newHome()}
	if f := n.open(); f != nil {
		n.Dead = f
		return n, f
	}
	js, err := amino.MarshalJSON(genesis)
	if err != nil {
		panic(err)
	}
	var vals []abci.ValidatorUpdate
	for _, v := range genesis.Validators {
		vals = append(vals, abci.Ed25519ValidatorUpdate(v.PubKey.Bytes(), 1))
	}
	if p.GenesisTime.IsZero() {
		p.GenesisTime = time.Date(2022, 5, 1, 8, 0, 0, 0, time.UTC)
		n.P.GenesisTime = p.GenesisTime
	}
	f := guard("InitChain", func() {
		n.App.InitChain(abci.RequestInitChain{Time: p.GenesisTime, ChainId: "verif", Validators: vals, InitialHeight: p.InitialHeight, AppStateBytes: js})
	})
	n.Height = p.InitialHeight - 1
	n.LastTime = p.GenesisTime
	if f != nil {
		n.Dead = f
	}
	return n, f
}

// Reopen builds a node object over existing databases (a process start).
func Reopen(set *vdb.Set, p Params, height int64, lastTime time.Time) (*Node, *Fault) {
	n := &Node{P: p, Set: set, home: newHome(), Height: height, LastTime: lastTime}
	f := n.open()
	if f != nil {
		n.Dead = f
	}
	return n, f
}

// Restart drops the application object and builds a new one from the databases.
func (n *Node) Restart() *Fault {
	if n.InBlock {
		panic("lab: restart inside a block")
	}
	n.Release()
	n.home = newHome()
	n.Dead = nil
	f := n.open()
	if f != nil {
		n.Dead = f
	}
	return f
}

// Vote is one entry of LastCommitInfo.
type Vote struct {
	Addr   types.TmAddress
	Signed bool
}

// Env is the environment part of a block.
type Env struct {
	DT       time.Duration // header time = last time + DT (0 => 5s)
	Time     time.Time     // absolute header time if non-zero
	Votes    []Vote        // nil => every current validator signed
	Absent   []int         // indexes (into the current validator list) that did not sign (used when Votes == nil)
	Evidence []types.TmAddress
}

// Validators returns the tendermint addresses of the current validator set (state order).
func (n *Node) Validators() []types.TmAddress {
	var out []types.TmAddress
	cs := n.App.CurrentState()
	if cs == nil {
		// no state object yet (state-synced node before its first block): the caller knows the set
		return n.ValidatorsHint
	}
	for _, v := range cs.Validators().GetValidators() {
		out = append(out, v.GetAddress())
	}
	return out
}

// Begin starts block Height+1.
func (n *Node) Begin(env Env) *Fault {
	if n.Dead != nil {
		return n.Dead
	}
	t := env.Time
	if t.IsZero() {
		dt := env.DT
		if dt == 0 {
			dt = 5 * time.Second
		}
		t = n.LastTime.Add(dt)
	}
	var votes []abci.VoteInfo
	if env.Votes != nil {
		for _, v := range env.Votes {
			a := v.Addr
			votes = append(votes, abci.VoteInfo{Validator: abci.Validator{Address: a[:], Power: 1}, SignedLastBlock: v.Signed})
		}
	} else {
		vals := n.Validators()
		for i, a := range vals {
			signed := true
			for _, x := range env.Absent {
				if x == i {
					signed = false
				}
			}
			a := a
			votes = append(votes, abci.VoteInfo{Validator: abci.Validator{Address: a[:], Power: 1}, SignedLastBlock: signed})
		}
	}
	var ev []abci.Evidence
	for _, a := range env.Evidence {
		a := a
		ev = append(ev, abci.Evidence{Type: abci.EvidenceType_DUPLICATE_VOTE, Validator: abci.Validator{Address: a[:], Power: 1}, Height: n.Height, Time: t})
	}
	h := n.Height + 1
	f := guard("BeginBlock", func() {
		n.App.BeginBlock(abci.RequestBeginBlock{
			Header:              tmproto.Header{Height: h, Time: t, ChainID: "verif"},
			LastCommitInfo:      abci.LastCommitInfo{Votes: votes},
			ByzantineValidators: ev,
		})
	})
	n.InBlock = true
	n.LastTime = t
	if f != nil {
		n.Dead = f
	}
	return f
}

// Deliver delivers one transaction.
func (n *Node) Deliver(tx []byte) (abci.ResponseDeliverTx, *Fault) {
	if n.Dead != nil {
		return abci.ResponseDeliverTx{}, n.Dead
	}
	var r abci.ResponseDeliverTx
	f := guard("DeliverTx", func() { r = n.App.DeliverTx(abci.RequestDeliverTx{Tx: tx}) })
	if f != nil {
		n.Dead = f
	}
	return r, f
}

// Check is CheckTx without the two mempool-only rules (gas-price floor from the
// mempool size, one transaction per sender): the statement Blockchain.CheckTx
// consists of, with a fresh mempool map and floor 0.
func (n *Node) Check(tx []byte) (transaction.Response, *Fault) {
	if n.Dead != nil {
		return transaction.Response{}, n.Dead
	}
	var r transaction.Response
	f := guard("CheckTx", func() {
		r = minter.GetExecutor("").RunTx(n.App.CurrentState(), tx, nil, n.App.Height()+1, &sync.Map{}, 0, true)
	})
	// a panic in CheckTx kills a real node as well
	if f != nil {
		n.Dead = f
	}
	return r, f
}

// End runs EndBlock.
func (n *Node) End() (abci.ResponseEndBlock, *Fault) {
	if n.Dead != nil {
		return abci.ResponseEndBlock{}, n.Dead
	}
	var r abci.ResponseEndBlock
	f := guard("EndBlock", func() { r = n.App.EndBlock(abci.RequestEndBlock{Height: n.Height + 1}) })
	if f != nil {
		n.Dead = f
	}
	return r, f
}

// Commit runs Commit.
func (n *Node) Commit() ([]byte, *Fault) {
	if n.Dead != nil {
		return nil, n.Dead
	}
	var r abci.ResponseCommit
	f := guard("Commit", func() { r = n.App.Commit() })
	if f != nil {
		n.Dead = f
		return nil, f
	}
	n.App.VerifWaitSnapshot()
	n.Height++
	n.InBlock = false
	return r.Data, nil
}

// TxObs is what a delivered transaction returned.
type TxObs struct {
	Bytes []byte
	Resp  abci.ResponseDeliverTx
	Check *transaction.Response // set when the block was run with CheckFirst
}

// BlockObs is everything a block returned.
type BlockObs struct {
	Height  int64
	Time    time.Time
	Txs     []TxObs
	End     abci.ResponseEndBlock
	AppHash []byte
	Fault   *Fault
	Rewards *big.Int // GetCurrentRewards() after the last DeliverTx
}

// RunBlock executes a whole block.
func (n *Node) RunBlock(env Env, txs [][]byte) *BlockObs {
	o := &BlockObs{Height: n.Height + 1}
	if o.Fault = n.Begin(env); o.Fault != nil {
		return o
	}
	o.Time = n.LastTime
	for _, tx := range txs {
		r, f := n.Deliver(tx)
		o.Txs = append(o.Txs, TxObs{Bytes: tx, Resp: r})
		if f != nil {
			o.Fault = f
			return o
		}
	}
	o.Rewards = new(big.Int).Set(n.App.GetCurrentRewards())
	var f *Fault
	if o.End, f = n.End(); f != nil {
		o.Fault = f
		return o
	}
	if o.AppHash, f = n.Commit(); f != nil {
		o.Fault = f
	}
	return o
}

// Export returns the export of the live check state.
func (n *Node) Export() types.AppState { return n.App.CurrentState().Export() }

// DiskExport returns the export of a fresh state object read from the state DB
// at the last committed height.
func (n *Node) DiskExport() (types.AppState, error) {
	cs, err := state.NewCheckStateAtHeightV3(uint64(n.Height), n.Set.Get("state"))
	if err != nil {
		return types.AppState{}, err
	}
	return cs.Export(), nil
}

// AppDBDigest hashes the records of the application database that feed block execution.
func (n *Node) AppDBDigest() string {
	h := sha256.New()
	for _, kv := range n.Set.Dump("app") {
		k := string(kv[0])
		fmt.Fprintf(h, "%s=%x;", k, kv[1])
	}
	return fmt.Sprintf("%x", h.Sum(nil)[:12])
}

// Decode decodes transaction bytes with the node's current decoder.
func Decode(b []byte) (tx *transaction.Transaction, err error) {
	defer func() {
		if r := recover(); r != nil {
			tx, err = nil, fmt.Errorf("decoder panic: %v", r)
		}
	}()
	return minter.GetExecutor("").DecodeFromBytes(b)
}

// Guard runs f and converts a panic / exit into a Fault (exported for drivers).
func Guard(call string, f func()) *Fault { return guard(call, f) }

// GenesisFromExport assembles a genesis state from the node's current export the way
// cmd/minter/cmd/export.go does (versions, emission and previous reward come from the app DB).
func (n *Node) GenesisFromExport() (*types.AppState, error) {
	st, err := n.DiskExport()
	if err != nil {
		return nil, err
	}
	adb := n.App.VerifAppDB()
	for _, v := range adb.GetVersions() {
		st.Versions = append(st.Versions, types.Version{Height: v.Height, Name: v.Name})
	}
	st.Emission = adb.Emission().String()
	t, r0, r1, reward, off := adb.GetPrice()
	st.PrevReward = types.RewardPrice{Time: uint64(t.UTC().UnixNano()), AmountBIP: r0.String(), AmountUSDT: r1.String(), Off: off, Reward: reward.String()}
	return &st, nil
}

var snapSeq uint64

// EnableSnapshots gives the node a state-sync snapshot store (chunks are files: the only
// place where the lab needs a real directory) and makes it snapshot every `interval` blocks.
func (n *Node) EnableSnapshots(interval, keep int) error {
	if n.snapDir == "" {
		n.snapDir = fmt.Sprintf("%s/.scratch/snap/%d-%d", scratchRoot(), os.Getpid(), atomic.AddUint64(&snapSeq, 1))
		if err := os.MkdirAll(n.snapDir, 0o755); err != nil {
			return err
		}
	}
	n.snapInterval, n.snapKeep = interval, keep
	return n.attachSnapshots()
}

func (n *Node) attachSnapshots() error {
	if n.snapInterval <= 0 && n.snapDir == "" {
		return nil
	}
	store, err := snapshots.NewStore(n.Set.Get("snapshot"), n.snapDir)
	if err != nil {
		return err
	}
	n.App.SetSnapshotStore(store, n.snapInterval, n.snapKeep)
	return nil
}

// Cleanup removes the files a node created (snapshot chunks).
func (n *Node) Cleanup() {
	if n.snapDir != "" {
		_ = os.RemoveAll(n.snapDir)
		n.snapDir = ""
	}
}

func scratchRoot() string {
	if r := os.Getenv("VERIF_ROOT"); r != "" {
		return r
	}
	return "/verif"
}

// NewBareNode builds a node object over empty databases without InitChain (a node that is
// about to be state-synced).
func NewBareNode(p Params) (*Node, *Fault) {
	n := &Node{P: p, Set: vdb.NewSet(), home: newHome()}
	f := n.open()
	if f != nil {
		n.Dead = f
	}
	return n, f
}
