// Package report turns monitor verdicts into VIOLATION / KNOWN-FINDING lines,
// replay files and the evidence file.
package report

import (
	"crypto/sha256"
	"encoding/json"
	"fmt"
	"os"
	"path/filepath"
	"sort"
	"strings"
	"sync"
	"time"
)

// Root is /verif (overridable for tests).
var Root = func() string {
	if r := os.Getenv("VERIF_ROOT"); r != "" {
		return r
	}
	return "/verif"
}()

// Finding is one entry of known_findings.json.
type Finding struct {
	Property  string `json:"property"`
	Status    string `json:"status"` // known | fixed
	Signature string `json:"signature"`
	What      string `json:"what"`
	Where     string `json:"where,omitempty"`
	Commit    string `json:"commit,omitempty"`
	Replay    string `json:"replay,omitempty"`
}

// LoadFindings reads known_findings.json (missing file = none).
func LoadFindings() []Finding {
	b, err := os.ReadFile(filepath.Join(Root, "known_findings.json"))
	if err != nil {
		return nil
	}
	var f []Finding
	if err := json.Unmarshal(b, &f); err != nil {
		fmt.Fprintln(os.Stderr, "known_findings.json: ", err)
		os.Exit(2)
	}
	return f
}

func matchSig(pattern, sig string) bool {
	if strings.HasSuffix(pattern, "*") {
		return strings.HasPrefix(sig, strings.TrimSuffix(pattern, "*"))
	}
	return pattern == sig
}

// Item is a violation handed to the reporter.
type Item struct {
	Property  string      `json:"property"`
	Signature string      `json:"signature"`
	Detail    string      `json:"detail"`
	Replay    interface{} `json:"replay"` // engine-specific replay payload
	Engine    string      `json:"engine"`
}

// Reporter collects violations of one check run.
type Reporter struct {
	Property string
	// Alias lists temporary property ids (parts of this property built separately) whose
	// verdicts are reported under Property.
	Alias map[string]bool
	mu       sync.Mutex
	bySig    map[string]*Item
	count    map[string]int
	order    []string
	known    []Finding
}

// New creates a reporter for a property.
func New(property string) *Reporter {
	return &Reporter{Property: property, bySig: map[string]*Item{}, count: map[string]int{}, known: LoadFindings()}
}

// Add records a violation; only the first item per signature is kept (the
// search is breadth-first, so the first is among the shortest).
func (r *Reporter) Add(it Item) {
	if r.Alias[it.Property] {
		it.Property = r.Property
	}
	if it.Property != r.Property {
		return
	}
	r.mu.Lock()
	defer r.mu.Unlock()
	r.count[it.Signature]++
	if _, ok := r.bySig[it.Signature]; ok {
		return
	}
	c := it
	r.bySig[it.Signature] = &c
	r.order = append(r.order, it.Signature)
}

// Result of Finish.
type Result struct {
	Violations int      // unlisted signatures
	Known      []string // matched known findings
	Lines      []string
}

// Finish prints KNOWN-FINDING / VIOLATION lines, writes replay files, returns counts.
func (r *Reporter) Finish() Result {
	r.mu.Lock()
	defer r.mu.Unlock()
	var res Result
	sigs := append([]string{}, r.order...)
	sort.Strings(sigs)
	knownPrinted := map[string]bool{}
	for _, sig := range sigs {
		it := r.bySig[sig]
		var kf *Finding
		for i := range r.known {
			f := &r.known[i]
			if f.Status == "known" && f.Property == it.Property && matchSig(f.Signature, sig) {
				kf = f
				break
			}
		}
		if kf != nil {
			if !knownPrinted[kf.Signature] {
				knownPrinted[kf.Signature] = true
				line := fmt.Sprintf("KNOWN-FINDING: property=%s %s — %s", it.Property, kf.Signature, kf.What)
				fmt.Println(line)
				res.Lines = append(res.Lines, line)
				res.Known = append(res.Known, kf.Signature)
			}
			continue
		}
		h := sha256.Sum256([]byte(sig))
		name := fmt.Sprintf("%s-%x.json", it.Property, h[:5])
		dir := filepath.Join(Root, "replays")
		_ = os.MkdirAll(dir, 0o755)
		path := filepath.Join(dir, name)
		payload := map[string]interface{}{"property": it.Property, "signature": sig, "detail": it.Detail, "engine": it.Engine, "replay": it.Replay, "occurrences": r.count[sig]}
		b, _ := json.MarshalIndent(payload, "", " ")
		_ = os.WriteFile(path, b, 0o644)
		fmt.Printf("  signature: %s (%d occurrences)\n  detail: %s\n", sig, r.count[sig], firstLines(it.Detail, 6))
		line := fmt.Sprintf("VIOLATION property=%s replay=%s", it.Property, path)
		fmt.Println(line)
		res.Lines = append(res.Lines, line)
		res.Violations++
	}
	return res
}

func firstLines(s string, n int) string {
	l := strings.Split(s, "\n")
	if len(l) > n {
		l = l[:n]
	}
	return strings.Join(l, "\n    ")
}

// Evidence is the evidence file (EVIDENCE.schema.json).
type Evidence struct {
	PropertyID  string                 `json:"property_id"`
	Tier        string                 `json:"tier"`
	Seed        int64                  `json:"seed"`
	Level       string                 `json:"level"`
	Coverage    map[string]interface{} `json:"coverage"`
	Assumptions []string               `json:"assumptions"`
	WallS       float64                `json:"wall_s"`
	Violations  int                    `json:"violations"`
}

// Write stores the evidence file.
func (e *Evidence) Write(start time.Time) {
	e.WallS = time.Since(start).Seconds()
	dir := filepath.Join(Root, "evidence")
	_ = os.MkdirAll(dir, 0o755)
	b, _ := json.MarshalIndent(e, "", " ")
	if err := os.WriteFile(filepath.Join(dir, e.PropertyID+".json"), b, 0o644); err != nil {
		fmt.Fprintln(os.Stderr, "evidence:", err)
		os.Exit(2)
	}
}
