#!/bin/bash
# Runs every mutant of /verif/mutants (overlay-applied, /repo untouched) against the quick check of its property
# and records whether a VIOLATION was printed. usage: scripts/selftest.sh [pattern] ; parallelism via SELFTEST_JOBS (default 3)
cd /verif
pat="${1:-*}"
jobs="${SELFTEST_JOBS:-3}"
mkdir -p .scratch/selftest
run_one() {
  f="$1"
  name=$(basename "$f" .json)
  id=${name%%-*}
  case "$id" in C28X|C28L) id=C28;; C13L|C13X) id=C13;; esac
  tag="st-$name"
  root=/verif/.scratch/selftest/root-$name
  mkdir -p $root; cp known_findings.json $root/
  out=.scratch/selftest/$name.log
  VERIF_MUTANT="/verif/$f" VERIF_BUILD_TAG="$tag" VERIF_ROOT=$root scripts/check.sh "$id" quick >"$out" 2>&1
  code=$?
  v=$(grep -a -c "^VIOLATION property=$id" "$out")
  sigs=$(grep -a "signature:" "$out" | sed 's/ *signature: //; s/ ([0-9]* occurrences)//' | head -3 | tr '\n' ';')
  find .build/bin -name "verif-$tag*" -delete; find .build/ov-$tag -type f -delete 2>/dev/null; find .build/ov-$tag -depth -type d -exec rmdir {} \; 2>/dev/null
  find $root -type f -delete; find $root -depth -type d -exec rmdir {} \; 2>/dev/null
  echo "$name id=$id exit=$code violations=$v sigs=$sigs"
}
export -f run_one
ls mutants/$pat.json 2>/dev/null | grep -v "equivalent\|notcaught" | xargs -P "$jobs" -L 1 bash -c 'run_one $0' | tee -a .scratch/selftest/summary.txt
