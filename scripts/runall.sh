#!/bin/bash
# Runs every registered check (quick by default) on the current tree, one after the other; prints a summary line each.
cd /verif
tier="${1:-quick}"
scripts/build.sh all >/dev/null 2>&1 || { echo "build failed"; exit 2; }
. scripts/env.sh
for id in $(python3 -c "import json; print(' '.join(c['property_id'] for c in json.load(open('MANIFEST.json'))['checks']))"); do
  s=$(date +%s)
  out=$(.build/bin/verif check $id $tier 2>&1); code=$?
  e=$(date +%s)
  echo "$id exit=$code wall=$((e-s))s $(echo "$out" | grep -a -c '^VIOLATION') violations $(echo "$out" | grep -a -c '^KNOWN-FINDING') known"
done
