#!/bin/bash
# Runs a check against /repo's current tree with a seeded change applied through the build overlay
# (/repo itself is not touched). usage: scripts/seedrun.sh <seed id under /verif/seeded | patch file> <check id> [quick|thorough]
cd /verif
s="$1"; id="$2"; mode="${3:-quick}"
patch="$s"; [ -f "$patch" ] || patch="/verif/seeded/$s/patch.diff"
[ -f "$patch" ] || { echo "no such patch: $s"; exit 2; }
name=$(basename "$(dirname "$patch")")-$id
tag="sd-$name"
root=/verif/.scratch/seedrun/root-$name
mkdir -p $root; cp known_findings.json $root/
out=.scratch/seedrun/$name.log
VERIF_PATCH="$patch" VERIF_BUILD_TAG="$tag" VERIF_ROOT=$root timeout ${SEEDRUN_TIMEOUT:-2400} scripts/check.sh "$id" "$mode" >"$out" 2>&1
code=$?
v=$(grep -a -c "^VIOLATION property=$id" "$out")
sigs=$(grep -a "signature:" "$out" | sed 's/ *signature: //; s/ ([0-9]* occurrences)//' | head -4 | tr '\n' ';')
find .build/bin -name "verif-$tag*" -delete; find .build/ov-$tag -type f -delete 2>/dev/null; find .build/ov-$tag -depth -type d -exec rmdir {} \; 2>/dev/null
find $root -type f -delete; find $root -depth -type d -exec rmdir {} \; 2>/dev/null
echo "$name check=$id mode=$mode exit=$code violations=$v sigs=$sigs"
