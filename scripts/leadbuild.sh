#!/bin/bash
# Lead's private build: tracked files + explicitly listed new files, copied to .scratch/lead
# (other builders' half-written untracked files are left out). Usage: scripts/leadbuild.sh [extra files...]
set -e
cd /verif
. scripts/env.sh
dst=/verif/.scratch/lead
mkdir -p $dst
( git ls-files | while read f; do [ -e "$f" ] && echo "$f"; done; for f in "$@"; do echo "$f"; done ) | sort -u > .scratch/lead.files
rsync -a --delete --files-from=.scratch/lead.files /verif/ $dst/
cp /repo/go.sum $dst/go.sum
VERIF_BUILD_TAG=lead python3 scripts/overlaygen.py >/dev/null
cd $dst && go build -tags verif -overlay /verif/.build/overlay-lead-base.json -o /verif/.build/bin/verif-lead ./cmd/verif
# seeds binary for C08
cd /verif && VERIF_BUILD_TAG=lead python3 scripts/runtimepatch.py >/dev/null
cd $dst && go build -tags verif -overlay /verif/.build/overlay-lead-seeds.json -o /verif/.build/bin/verif-lead.seeds ./cmd/verif
