#!/bin/bash
# Runs every kept seeded change (seeded/<id>/patch.diff) against the quick check of its property through the
# build overlay (scripts/seedrun.sh); prints one line per seed. usage: scripts/seedmatrix.sh [jobs, default 3]
cd /verif
jobs="${1:-3}"
ls -d seeded/*/ | xargs -n1 basename | xargs -P "$jobs" -I{} bash -c 'id={}; p=${id%%-*}; scripts/seedrun.sh $id $p quick' | tee .scratch/seedmatrix-last.txt
echo "caught: $(grep -c "exit=1 violations=[1-9]" .scratch/seedmatrix-last.txt) of $(ls -d seeded/*/ | wc -l)"
