#!/usr/bin/env python3
"""Generate build overlays from the *current* /repo tree.

base overlay : hook files added to repo packages + "os" -> verif/vos in the two
               coreV2/minter files that call os.Exit.
sched overlay: base + "sync" -> verif/vsync in the non-test files of coreV2/**,
               tree, api/v2/service (except mempool, statistics).
Extra replacements (mutants for selftest) come from VERIF_MUTANT=<json file>:
  {"file": "coreV2/...go", "old": "...", "new": "..."} or a list of those.
"""
import json, os, re, sys

REPO = os.environ.get("VERIF_REPO", "/repo")
VERIF = os.path.dirname(os.path.dirname(os.path.abspath(__file__)))
TAG = os.environ.get("VERIF_BUILD_TAG", "main")
OUT = os.path.join(VERIF, ".build", "ov-" + TAG)


def die(msg):
    sys.stderr.write("overlaygen: " + msg + "\n")
    sys.exit(2)


def read(p):
    with open(p, encoding="utf-8") as f:
        return f.read()


def write(p, s):
    os.makedirs(os.path.dirname(p), exist_ok=True)
    old = None
    if os.path.exists(p):
        old = read(p)
    if old != s:
        with open(p, "w", encoding="utf-8") as f:
            f.write(s)


def swap_import(src, pkg, repl, path):
    pat = re.compile(r'^(\s*)"%s"\s*$' % re.escape(pkg), re.M)
    if not pat.search(src):
        return None
    return pat.sub(lambda m: '%s%s "%s"' % (m.group(1), pkg, repl), src, count=1)


def main():
    mutants = []
    mf = os.environ.get("VERIF_MUTANT")
    if mf:
        m = json.load(open(mf))
        mutants = m if isinstance(m, list) else m.get("edits", [m])
    edited = {}  # repo-relative path -> text

    def cur(rel):
        if rel not in edited:
            edited[rel] = read(os.path.join(REPO, rel))
        return edited[rel]

    for e in mutants:
        s = cur(e["file"])
        if s.count(e["old"]) != 1:
            die("mutant anchor not unique/present in %s: %r (count %d)" % (e["file"], e["old"][:60], s.count(e["old"])))
        edited[e["file"]] = s.replace(e["old"], e["new"])

    # VERIF_PATCH=<unified diff>: apply it to copies of the current files (the seeded changes of
    # /verif/seeded are checked this way without touching /repo)
    pf = os.environ.get("VERIF_PATCH")
    if pf:
        import subprocess, tempfile, shutil
        rels = [l[6:].strip() for l in open(pf) if l.startswith("+++ b/")]
        tmp = tempfile.mkdtemp(dir=os.path.join(VERIF, ".build"))
        try:
            for rel in rels:
                os.makedirs(os.path.dirname(os.path.join(tmp, rel)), exist_ok=True)
                with open(os.path.join(tmp, rel), "w") as f:
                    f.write(cur(rel))
            r = subprocess.run(["patch", "-p1", "-s", "-d", tmp, "-i", os.path.abspath(pf)], capture_output=True, text=True)
            if r.returncode != 0:
                die("VERIF_PATCH does not apply: " + r.stdout + r.stderr)
            for rel in rels:
                edited[rel] = read(os.path.join(tmp, rel))
        finally:
            shutil.rmtree(tmp, ignore_errors=True)

    base = {}
    # hooks
    hooks = {
        "cmd/utils/zz_verif_hooks.go": "hooks/utils_verif.go.txt",
        "coreV2/minter/zz_verif_hooks.go": "hooks/minter_verif.go.txt",
    }
    for rel, h in hooks.items():
        base[os.path.join(REPO, rel)] = os.path.join(VERIF, h)
    # os shim
    for rel in ["coreV2/minter/blockchain.go", "coreV2/minter/minter.go"]:
        s = swap_import(cur(rel), "os", "verif/vos", rel)
        if s is not None:
            edited[rel] = s
        elif "os.Exit" in cur(rel):
            die("cannot find os import in " + rel)
    for rel, s in edited.items():
        p = os.path.join(OUT, "base", rel + ".txt")
        write(p, s)
        base[os.path.join(REPO, rel)] = p
    write(os.path.join(VERIF, ".build", "overlay-%s-base.json" % TAG), json.dumps({"Replace": base}, indent=1))

    # sched overlay
    sched = dict(base)
    roots = ["coreV2", "tree", "api/v2/service"]
    skip = ("coreV2/mempool", "coreV2/statistics")
    n = 0
    for root in roots:
        for dp, dn, fn in os.walk(os.path.join(REPO, root)):
            rel_dir = os.path.relpath(dp, REPO)
            if rel_dir.startswith(skip):
                continue
            for f in fn:
                if not f.endswith(".go") or f.endswith("_test.go"):
                    continue
                rel = os.path.join(rel_dir, f)
                s = edited.get(rel) or read(os.path.join(REPO, rel))
                t = swap_import(s, "sync", "verif/vsync", rel)
                if t is None:
                    if rel in edited:
                        continue
                    continue
                p = os.path.join(OUT, "sched", rel + ".txt")
                write(p, t)
                sched[os.path.join(REPO, rel)] = p
                n += 1
    write(os.path.join(VERIF, ".build", "overlay-%s-sched.json" % TAG), json.dumps({"Replace": sched}, indent=1))
    print("overlaygen: base=%d files, sched=%d sync rewrites" % (len(base), n))


main()
