#!/bin/bash
# Runs the repository's own test suite (guard off: no tag, no overlay) and compares with BASELINE.json stable_pass.
# usage: scripts/baseline.sh [out.json] [repo dir]
repo="${2:-/repo}"
cd "$repo"
export GOFLAGS=-mod=mod GOPROXY=off GOSUMDB=off GOTOOLCHAIN=local
out=${1:-/verif/.scratch/baseline.json}
mkdir -p $(dirname $out)
go test -mod=mod -json -vet=off -count=1 -timeout 25m $(go list ./... | grep -v "/OUT") > $out 2>/dev/null
python3 - "$out" <<'PY'
import json,sys
res={}
for l in open(sys.argv[1]):
    try: e=json.loads(l)
    except: continue
    if e.get('Test') and e.get('Action') in ('pass','fail','skip'):
        res[e['Package']+'::'+e['Test']]=e['Action']
base=json.load(open('/root/.vp/BASELINE.json'))['stable_pass']
missing=[t for t in base if res.get(t)!='pass']
print("baseline stable_pass=%d, now passing of those=%d, missing=%d"%(len(base),len(base)-len(missing),len(missing)))
for t in missing[:40]: print("  NOT PASSING:",t,res.get(t))
sys.exit(1 if missing else 0)
PY
