#!/bin/bash
# usage: scripts/seed_keep.sh <seed id, e.g. C13-adv1> <worktree with the change applied and OUT/ filled>
# Copies the adversarial change into /verif/seeded/<id>/ and checks that the repository's own suite still passes with it.
id="$1"; wt="$2"
d=/verif/seeded/$id
mkdir -p $d
cp $wt/OUT/patch.diff $d/patch.diff
cp $wt/OUT/demo_test.go $d/demo_test.go.txt 2>/dev/null
cp $wt/OUT/README.md $d/README.md 2>/dev/null
cp $wt/OUT/demo_output.txt $d/demo_output.txt 2>/dev/null
# the demo file must not take part in the baseline run
mkdir -p /verif/.scratch/seedtmp
find $wt -name "demo_test.go" -not -path "*/OUT/*" -exec mv {} /verif/.scratch/seedtmp/$id-demo_test.go \;
/verif/scripts/baseline.sh /verif/.scratch/baseline-$id.json $wt > $d/baseline.txt 2>&1
tail -3 $d/baseline.txt
