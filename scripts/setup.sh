#!/bin/bash
# Run once after a fresh restore, offline: build the framework from files on disk.
set -e
cd /verif
mkdir -p .build/bin .cache/go evidence replays
scripts/build.sh all
scripts/build_sched.sh all
echo "setup ok"
