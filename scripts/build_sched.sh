#!/bin/bash
# Build the two C25 binaries from ./cmd/verif with the "sched" overlay (import "sync" -> verif/vsync
# in coreV2/**, tree, api/v2/service):
#   .build/bin/verif<suffix>.sched   cooperative scheduler runs
#   .build/bin/verif<suffix>.race    the same, built with -race (free-running pass)
# Honours VERIF_BUILD_TAG and VERIF_MUTANT like build.sh. usage: scripts/build_sched.sh [sched|race|all]
set -e
cd /verif
. scripts/env.sh
cp /repo/go.sum go.sum
python3 scripts/overlaygen.py >/dev/null
tag="${VERIF_BUILD_TAG:-main}"
suffix=""; [ "$tag" != "main" ] && suffix="-$tag"
which="${1:-all}"
ov=.build/overlay-$tag-sched.json
# the scheduler binary additionally gets the map-iteration-order patch of the C08 "seeds" binary
# (scripts/runtimepatch.py): with VERIF_MAPSEED set, a schedule replays identically
python3 scripts/runtimepatch.py >/dev/null
ovd=.build/overlay-$tag-scheddet.json
python3 - "$ov" ".build/overlay-$tag-seeds.json" "$ovd" <<'PY'
import json, sys
a = json.load(open(sys.argv[1]))["Replace"]
b = json.load(open(sys.argv[2]))["Replace"]
for k, v in b.items():
    if "/src/runtime/" in k:
        a[k] = v
json.dump({"Replace": a}, open(sys.argv[3], "w"), indent=1)
PY
case "$which" in
 sched) go build -tags verif -overlay $ovd -o .build/bin/verif$suffix.sched ./cmd/verif ;;
 race)  go build -race -tags verif -overlay $ov -o .build/bin/verif$suffix.race ./cmd/verif ;;
 all)   go build -tags verif -overlay $ovd -o .build/bin/verif$suffix.sched ./cmd/verif &
        p1=$!
        go build -race -tags verif -overlay $ov -o .build/bin/verif$suffix.race ./cmd/verif
        wait $p1 ;;
esac
