#!/bin/bash
# usage: scripts/check.sh <property id> quick|thorough
# exit 0: property held on everything explored; 1: VIOLATION line printed; 2: harness error (no VIOLATION line)
cd /verif
id="$1"; tier="${2:-quick}"
tag="${VERIF_BUILD_TAG:-main}"
suffix=""; [ "$tag" != "main" ] && suffix="-$tag"
mkdir -p .build
what=base; [ "$id" = "C08" ] && what=all
if ! scripts/build.sh $what >.build/build-$tag-$id.log 2>&1; then
  echo "harness build failed (see .build/build-$tag-$id.log)"; tail -20 .build/build-$tag-$id.log; exit 2
fi
if [ "$id" = "C25" ]; then
  scripts/build_sched.sh all >>.build/build-$tag-$id.log 2>&1 || { echo "harness build failed (see .build/build-$tag-$id.log)"; tail -20 .build/build-$tag-$id.log; exit 2; }
fi
. scripts/env.sh
exec .build/bin/verif$suffix check "$id" "$tier"
