#!/usr/bin/env python3
"""Generates patched copies of runtime/{map,rand,alg}.go of the installed Go toolchain and an
overlay (base overlay + these three files) for the C08 "seeds" binary.

With VERIF_MAPSEED=<n> set in the environment of a process built this way
  * every map iteration starts at bucket (n>>3) & mask and in-bucket offset n & 7,
  * per-map hash seeds (hash0) are a constant,
and unconditionally (alginit runs before the environment is available)
  * the process-wide hash keys are constants.
So the iteration order of every map is a function of its insertion history and of n only.
Without VERIF_MAPSEED the iteration start stays random as in stock Go.
Anchors are asserted: on another Go release the script fails loudly instead of mis-patching."""
import json, os, subprocess, sys

VERIF = os.path.dirname(os.path.dirname(os.path.abspath(__file__)))
TAG = os.environ.get("VERIF_BUILD_TAG", "main")
goroot = subprocess.check_output(["go", "env", "GOROOT"]).decode().strip()
src = os.path.join(goroot, "src", "runtime")
out = os.path.join(VERIF, ".build", "ov-" + TAG, "runtime")
os.makedirs(out, exist_ok=True)


def die(m):
    sys.stderr.write("runtimepatch: " + m + "\n")
    sys.exit(2)


def sub(s, old, new, count, what):
    if s.count(old) != count:
        die("%s: expected %d occurrences of %r, found %d" % (what, count, old, s.count(old)))
    return s.replace(old, new)


# ---- map.go
m = open(os.path.join(src, "map.go")).read()
m = sub(m, "h.hash0 = uint32(rand())", "h.hash0 = verifHash0()", 4, "map.go hash0")
m = sub(m, "\tr := uintptr(rand())\n\tit.startBucket = r & bucketMask(h.B)", "\tr := verifIterRand(h)\n\tit.startBucket = r & bucketMask(h.B)", 1, "map.go mapiterinit")
m = sub(m, "\tr := int(rand())\n\toffset := uint8(r >> h.B & (abi.MapBucketCount - 1))", "\tr := int(verifIterRand(h))\n\toffset := uint8(r >> h.B & (abi.MapBucketCount - 1))", 2, "map.go keys/values")
m += '''

// ---- verification patch (see /verif/scripts/runtimepatch.py)

var verifSeedCache int32 = -2

// verifSeed returns VERIF_MAPSEED (>=0) or -1 when unset.
func verifSeed() int32 {
	if verifSeedCache == -2 {
		s := gogetenv("VERIF_MAPSEED")
		v := int32(-1)
		if s != "" {
			if n, ok := atoi(s); ok && n >= 0 {
				v = int32(n)
			}
		}
		verifSeedCache = v
	}
	return verifSeedCache
}

func verifHash0() uint32 {
	if verifSeed() >= 0 {
		return 0x9e3779b9
	}
	return uint32(rand())
}

func verifIterRand(h *hmap) uintptr {
	s := verifSeed()
	if s < 0 {
		return uintptr(rand())
	}
	return (uintptr(s>>3) & bucketMask(h.B)) | uintptr(s&7)<<h.B
}
'''
open(os.path.join(out, "map.go"), "w").write(m)

# ---- rand.go: rand32 is called by compiler-generated code for stack-allocated maps
r = open(os.path.join(src, "rand.go")).read()
r = sub(r, "func rand32() uint32 {\n\treturn uint32(rand())\n}", "func rand32() uint32 {\n\tif verifSeed() >= 0 {\n\t\treturn 0x9e3779b9\n\t}\n\treturn uint32(rand())\n}", 1, "rand.go rand32")
open(os.path.join(out, "rand.go"), "w").write(r)

# ---- alg.go: process-wide hash keys
a = open(os.path.join(src, "alg.go")).read()
a = sub(a, "\t\thashkey[i] = uintptr(bootstrapRand())\n", "\t\thashkey[i] = uintptr(0x9e3779b97f4a7c15 * uint64(i+1))\n", 1, "alg.go hashkey")
a = sub(a, "\t\tkey[i] = bootstrapRand()\n", "\t\tkey[i] = 0x9e3779b97f4a7c15 * uint64(i+1)\n", 1, "alg.go aeskeysched")
open(os.path.join(out, "alg.go"), "w").write(a)

base = json.load(open(os.path.join(VERIF, ".build", "overlay-%s-base.json" % TAG)))
rep = dict(base["Replace"])
for f in ("map.go", "rand.go", "alg.go"):
    rep[os.path.join(src, f)] = os.path.join(out, f)
json.dump({"Replace": rep}, open(os.path.join(VERIF, ".build", "overlay-%s-seeds.json" % TAG), "w"), indent=1)
print("runtimepatch: ok (%s)" % goroot)
