# sourced by every script: offline Go environment, caches inside /verif
export GOFLAGS=-mod=mod GOPROXY=off GOSUMDB=off GOTOOLCHAIN=local
export GOCACHE=/verif/.cache/go
export VERIF_ROOT="${VERIF_ROOT:-/verif}"
mkdir -p /verif/.cache/go /verif/.build/bin
