#!/bin/bash
# Rebuild the harness binaries against /repo's current working tree (hooks on: -tags verif + overlay).
set -e
cd /verif
. scripts/env.sh
cp /repo/go.sum go.sum
python3 scripts/overlaygen.py >/dev/null
which="${1:-base}"
case "$which" in
 base) go build -tags verif -overlay .build/overlay-base.json -o .build/bin/verif ./cmd/verif ;;
esac
