#!/bin/bash
# Rebuild the harness binaries against /repo's current working tree (hooks on: -tags verif + overlay).
# VERIF_BUILD_TAG (default "main") separates overlay files and binaries of concurrent builds.
set -e
cd /verif
. scripts/env.sh
cp /repo/go.sum go.sum
python3 scripts/overlaygen.py >/dev/null
tag="${VERIF_BUILD_TAG:-main}"
suffix=""; [ "$tag" != "main" ] && suffix="-$tag"
which="${1:-base}"
case "$which" in
 base) go build -tags verif -overlay .build/overlay-$tag-base.json -o .build/bin/verif$suffix ./cmd/verif ;;
 seeds) python3 scripts/runtimepatch.py >/dev/null
        go build -tags verif -overlay .build/overlay-$tag-seeds.json -o .build/bin/verif$suffix.seeds ./cmd/verif ;;
 all) "$0" base && "$0" seeds ;;
esac
