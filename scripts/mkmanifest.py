#!/usr/bin/env python3
"""Regenerates /verif/MANIFEST.json from scripts/checks_meta.json (kept valid at all times).

checks_meta.json: { "<id>": {"level": ..., "engine": ..., "technique": ..., "text": ..., "note": ...}, ... }
Properties without an entry are listed under not_applicable with the reason in NOT_YET / "na" entries.
"""
import json, os

ROOT = os.path.dirname(os.path.dirname(os.path.abspath(__file__)))
TRUST = ("Trusted base: IAVL, tm-db MemDB, the Go runtime and compiler; the node runs on harness-owned in-memory databases "
         "through the production constructor path; os.Exit in coreV2/minter is replaced by a panic sentinel via build overlay. ")
NOT_YET = "check not built yet in this session (see DESIGN.md §6 for the plan)"

ENGINES = {
    "explorer": ("/verif/explore", "explicit-state breadth-first search over block histories executed on real minter.Blockchain instances, with differential twins (parent/empty block, restart, import) and reference-model monitors"),
    "crash": ("/verif/explore/crash.go", "crash enumerator: every prefix of the database writes of a Commit, process death injected by the storage layer, Tendermint handshake model, comparison with the uncrashed run"),
    "lattice": ("/verif/lattice", "exhaustive enumeration of finite input lattices of pure functions against exact reference arithmetic"),
    "sched": ("/verif/sched", "cooperative scheduler over hooked sync primitives with bounded preemptions plus a free-running -race pass"),
    "seeds": ("/verif/seeds", "same histories executed in separate processes under enumerated map-iteration seeds / GOMAXPROCS / GOGC"),
}


def main():
    props = [json.loads(l) for l in open(os.path.join(ROOT, "properties.jsonl"))]
    meta = json.load(open(os.path.join(ROOT, "scripts", "checks_meta.json")))
    checks, na, served = [], [], {}
    for p in props:
        pid = p["id"]
        m = meta.get(pid)
        if m and not m.get("na"):
            eng = m.get("engine", "explorer")
            served.setdefault(eng, []).append(pid)
            c = {
                "property_id": pid,
                "quick_cmd": "scripts/check.sh %s quick" % pid,
                "thorough_cmd": "scripts/check.sh %s thorough" % pid,
                "evidence_file": "/verif/evidence/%s.json" % pid,
                "replay_cmd_template": ".build/bin/verif replay {path}",
                "engine": eng,
                "level_claimed": {"category": m["level"], "text": m["text"], "design_ref": "DESIGN.md §6 " + pid},
                "level_note": TRUST + m.get("note", ""),
                "technique": m["technique"],
            }
            checks.append(c)
        else:
            na.append({"property_id": pid, "reason": (m or {}).get("na", NOT_YET)})
    engines = []
    for name, pids in served.items():
        path, kind = ENGINES.get(name, ("/verif", name))
        engines.append({"name": name, "path": path, "serves_properties": sorted(pids), "kind_free_text": kind})
    m = {
        "version": 1,
        "setup_cmd": "scripts/setup.sh",
        "hooks": {
            "guard": "verif",
            "enable": "go build -tags verif -overlay /verif/.build/overlay-main-base.json (overlay generated from the current /repo tree by scripts/overlaygen.py; no hook file is committed to /repo: hooks/*.go.txt are added to repo packages and the os import of coreV2/minter is redirected at build time only)",
            "baseline_off_cmd": json.load(open("/root/.vp/BASELINE.json"))["cmd"],
            "source_commits": [],
            "add_only": True,
        },
        "engines": engines,
        "checks": checks,
        "not_applicable": na,
        "notes": "All checks rebuild the harness against /repo's working tree (scripts/build.sh). Exit 2 = harness error, never a VIOLATION. Genuine defects repaired in /repo are 'fix:' commits listed in known_findings.json (status fixed); unrepaired ones have status known.",
    }
    json.dump(m, open(os.path.join(ROOT, "MANIFEST.json"), "w"), indent=1)
    print("MANIFEST: %d checks, %d not_applicable" % (len(checks), len(na)))


main()
