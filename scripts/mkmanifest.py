#!/usr/bin/env python3
"""Regenerates /verif/MANIFEST.json from the table below (kept valid at all times)."""
import json, os, subprocess

ROOT = os.path.dirname(os.path.dirname(os.path.abspath(__file__)))
TRUST = ("Trusted base: IAVL, tm-db MemDB, the Go runtime and compiler; the node runs on harness-owned in-memory databases "
         "through the production constructor path; os.Exit in coreV2/minter is replaced by a panic sentinel via build overlay. ")

X = "explicit-state BFS over histories executed on the real node (harness-written explorer)"

# id -> (level, technique, text, note)
CHECKS = {
 "C01": ("model_checking", X + "; ledger recomputed from exports vs emission counter",
         "Every history of the worlds within the bound is executed on a real node; after each Commit the ledger is recomputed from holdings in the export and compared with coin volumes and the emission counter.",
         "Bound: see evidence (T transactions, K per block, B blocks per world). Histories longer than the bound and amounts outside the menus are not covered."),
 "C02": ("model_checking", X + "; sign/max-supply/reserve invariant on every committed state",
         "State invariant evaluated on the export of every state reached within the bound.",
         "Same bounds as C01."),
 "C03": ("model_checking", X + "; differential twin (block with vs without the last transaction)",
         "For every state within the bound and every menu transaction: the block [..t] is compared with its twin [..]; a rejected t may differ only in failure-fee effects.",
         "Twin comparison at block level off payout boundaries; menus fix the inputs."),
 "C04": ("model_checking", X + "; nonce reference model incl. replays and stale/gap nonces",
         "Every accepted delivery is compared with a nonce map; replays of accepted bytes, nonce-1/+1 and foreign-chain variants are menu items.",
         "Menu-bounded."),
 "C07": ("model_checking", X + "; recover() around every ABCI call",
         "Every ABCI call of every explored history is guarded; a panic or exit is a violation.",
         "Go runtime fatal errors kill the worker and are reported as harness errors."),
 "C26": ("model_checking", X + "; differential twin for re-delivered bytes",
         "Every delivered byte string is delivered again (same block, later block); the payer's balances must not drop.",
         "Known finding recorded for first-delivery-failed-in-Run."),
}

NOT_YET = "check not built yet in this session (see DESIGN.md §6 for the plan)"

def main():
    props = [json.loads(l) for l in open(os.path.join(ROOT, "properties.jsonl"))]
    checks, na = [], []
    for p in props:
        pid = p["id"]
        if pid in CHECKS:
            level, tech, text, note = CHECKS[pid]
            checks.append({
                "property_id": pid,
                "quick_cmd": "scripts/check.sh %s quick" % pid,
                "thorough_cmd": "scripts/check.sh %s thorough" % pid,
                "evidence_file": "/verif/evidence/%s.json" % pid,
                "replay_cmd_template": ".build/bin/verif replay {path}",
                "engine": "explorer",
                "level_claimed": {"category": level, "text": text, "design_ref": "DESIGN.md §6 " + pid},
                "level_note": TRUST + note,
                "technique": tech,
            })
        else:
            na.append({"property_id": pid, "reason": NOT_YET})
    m = {
        "version": 1,
        "setup_cmd": "scripts/setup.sh",
        "hooks": {
            "guard": "verif",
            "enable": "go build -tags verif -overlay /verif/.build/overlay-base.json (overlay generated from the current /repo tree by scripts/overlaygen.py; no hook file is committed to /repo)",
            "baseline_off_cmd": json.load(open("/root/.vp/BASELINE.json"))["cmd"],
            "source_commits": [],
            "add_only": True,
        },
        "engines": [
            {"name": "explorer", "path": "/verif/explore", "serves_properties": sorted(CHECKS), "kind_free_text": "explicit-state breadth-first search over block histories executed on real minter.Blockchain instances, with differential twins and reference-model monitors"},
        ],
        "checks": checks,
        "not_applicable": na,
        "notes": "All checks rebuild the harness against /repo's working tree (scripts/build.sh). Exit 2 = harness error, never a VIOLATION.",
    }
    json.dump(m, open(os.path.join(ROOT, "MANIFEST.json"), "w"), indent=1)
    print("MANIFEST: %d checks, %d not_applicable" % (len(checks), len(na)))

main()
