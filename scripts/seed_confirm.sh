#!/bin/bash
# usage: scripts/seed_confirm.sh <seed id> <worktree> <test name regex> [package dir of the demonstration, default tests]
# Confirms a seeded change in its scratch worktree: the demonstration (package tests) fails with the
# change and passes without it; then keeps it (seed_keep.sh: copies OUT/, runs the repository's suite with the change).
id="$1"; wt="$2"; rx="$3"; pkg="${4:-tests}"
export GOFLAGS=-mod=mod GOPROXY=off GOSUMDB=off GOTOOLCHAIN=local GOCACHE=/verif/.cache/go
d=/verif/seeded/$id; mkdir -p $d
cd $wt
cp OUT/patch.diff /verif/.scratch/seedtmp-$id.diff
cp OUT/demo_test.go $pkg/demo_test.go
echo "== with the change" > $d/confirm.txt
timeout 900 go test -vet=off -count=1 -run "$rx" ./$pkg/ 2>&1 | grep -a -v '^I\[' | grep -a "^--- \|^FAIL\|^ok\|^PASS\|panic:" | head -20 >> $d/confirm.txt
git apply -R /verif/.scratch/seedtmp-$id.diff
echo "== without the change" >> $d/confirm.txt
timeout 900 go test -vet=off -count=1 -run "$rx" ./$pkg/ 2>&1 | grep -a -v '^I\[' | grep -a "^--- \|^FAIL\|^ok\|^PASS\|panic:" | head -20 >> $d/confirm.txt
git apply /verif/.scratch/seedtmp-$id.diff
rm -f $pkg/demo_test.go
cat $d/confirm.txt
/verif/scripts/seed_keep.sh $id $wt
