// Package vos replaces "os" in coreV2/minter/{blockchain,minter}.go through the
// build overlay: Exit panics with a sentinel instead of killing the harness.
package vos

import "os"

// ExitPanic is the sentinel panic value raised by Exit.
type ExitPanic struct{ Code int }

func Exit(code int) { panic(ExitPanic{code}) }

func Getenv(k string) string                 { return os.Getenv(k) }
func ExpandEnv(s string) string              { return os.ExpandEnv(s) }
func Getpid() int                            { return os.Getpid() }
func Remove(n string) error                  { return os.Remove(n) }
func RemoveAll(n string) error               { return os.RemoveAll(n) }
func MkdirAll(p string, m os.FileMode) error { return os.MkdirAll(p, m) }

var (
	Stdout = os.Stdout
	Stderr = os.Stderr
)
