package checks

import (
	"fmt"
	"sync/atomic"

	"verif/explore"
	"verif/monitors"
	"verif/obs"
)

// Same-failure probe of C03. What a rejected transaction costs depends on who pays, in which
// coin, at which gas price and with how many payload bytes — not on what the transaction wanted
// to do. For every transaction rejected by its own Run, the block is executed again with that
// transaction replaced by the world's reference failure of the same payer and gas coin (a Send of
// more than the payer owns, menu tag "failref"): both blocks must leave the same state.
func c03SameFailure(probes *int64) func(t *explore.Transition, newState bool) []explore.Violation {
	return func(t *explore.Transition, newState bool) []explore.Violation {
		r := t.LastTx()
		if r == nil || r.Resp.Code == 0 || t.Cur.Fault != nil || t.Cur.Final() == nil || r.T == nil || r.T.Replay != 0 || r.T.FixedBytes != nil {
			return nil
		}
		if monitors.C03EarlyCode(r.Resp.Code) || hasTag(r.T.Tags, "failref") {
			return nil
		}
		ref := -1
		for i := range t.W.Menu {
			m := &t.W.Menu[i]
			if hasTag(m.Tags, "failref") && m.Multisig == nil && r.T.Multisig == nil && m.Signer == r.T.Signer && m.GasCoin == r.T.GasCoin &&
				m.GasPrice == r.T.GasPrice && len(m.Payload)+len(m.Service) == len(r.T.Payload)+len(r.T.Service) {
				ref = i
			}
		}
		if ref < 0 {
			return nil
		}
		h := t.Cur.Hist
		alt := h.Clone()
		lt := alt[len(alt)-1].Txs
		lt[len(lt)-1] = ref
		b := explore.Exec(t.W, alt, explore.Opts{NoDisk: true, Pre: t.Cur.Pre})
		atomic.AddInt64(probes, 1)
		if b.Fault != nil || b.Final() == nil || b.Last() == nil || len(b.Last().Txs) == 0 {
			return nil
		}
		rb := b.Last().Txs[len(b.Last().Txs)-1]
		if rb.Resp.Code == 0 || monitors.C03EarlyCode(rb.Resp.Code) {
			return nil // the reference did not fail in its Run on this state
		}
		d := obs.Diff(t.Cur.Final().Flat, b.Final().Flat)
		if len(d) == 0 {
			return nil
		}
		return []explore.Violation{{Property: "C03", Signature: fmt.Sprintf("rejection-leaves-more-than-the-failure-fee|%s|%s", typeHex(r.Bytes), obs.KeyClass(d[0].Key)), Hist: h, World: t.W.Name,
			Detail: fmt.Sprintf("tx %q rejected with code %d leaves another state than the reference failure %q of the same payer and gas coin (code %d): %d keys differ, first %s", r.T.Name, r.Resp.Code, t.W.Menu[ref].Name, rb.Resp.Code, len(d), d[0])}}
	}
}

func hasTag(tags []string, s string) bool {
	for _, t := range tags {
		if t == s {
			return true
		}
	}
	return false
}
