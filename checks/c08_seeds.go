package checks

import (
	"context"
	"crypto/sha256"
	"encoding/json"
	"fmt"
	"os"
	"os/exec"
	"path/filepath"
	"runtime/debug"
	"sort"
	"strconv"
	"strings"
	"sync"
	"syscall"
	"time"

	"verif/explore"
	"verif/report"
	"verif/worlds"
)

// c08Line renders the consensus-relevant observations of a transition's last block.
func c08Line(t *explore.Trace) string {
	l := t.Last()
	if l == nil {
		return ""
	}
	codes, tags := "", sha256.New()
	for _, x := range l.Txs {
		codes += fmt.Sprintf("%d/%d/%d/%x,", x.Resp.Code, x.Resp.GasWanted, x.Resp.GasUsed, x.Resp.Data)
		for _, e := range x.Resp.Events {
			for _, a := range e.Attributes {
				fmt.Fprintf(tags, "%s=%s;", a.Key, a.Value)
			}
		}
	}
	end := ""
	for _, v := range l.Obs.End.ValidatorUpdates {
		end += fmt.Sprintf("%x:%d;", v.PubKey.GetEd25519(), v.Power)
	}
	if cp := l.Obs.End.ConsensusParamUpdates; cp != nil && cp.Block != nil {
		end += fmt.Sprintf("gas=%d", cp.Block.MaxGas)
	}
	fault := ""
	if t.Fault != nil {
		fault = t.Fault.Kind + ":" + t.Fault.Call
	}
	return fmt.Sprintf("%s\t%s\t%x\t%s\t%x\t%s", t.Hist.String(), codes, tags.Sum(nil)[:8], end, l.Obs.AppHash, fault)
}

var c08Fields = []string{"history", "codes-gas-data", "tags", "endblock", "apphash", "fault"}

// C08Worker explores a world in this process (whose runtime map order is fixed by
// VERIF_MAPSEED) and writes one line per transition.
func C08Worker(args []string) int {
	if len(args) < 5 {
		fmt.Fprintln(os.Stderr, "usage: c08worker <world> T K B <outfile> | c08worker <world> one <history json> <outfile>")
		return 2
	}
	w := worlds.Get(args[0])
	noReplay(w)
	var lines []string
	var mu sync.Mutex
	if args[1] == "one" {
		var h explore.History
		if err := json.Unmarshal([]byte(args[2]), &h); err != nil {
			fmt.Fprintln(os.Stderr, err)
			return 2
		}
		tr := explore.Exec(w, h, explore.Opts{NoDisk: true})
		lines = append(lines, c08Line(tr))
		return writeLines(args[3], lines)
	}
	maxEnv, _ := strconv.Atoi(os.Getenv("VERIF_C08_ENVS")) // only the first n block environments (0: all)
	if g, err := strconv.Atoi(os.Getenv("GOGC")); err == nil && g > 0 {
		debug.SetGCPercent(g) // main() raises it for the explorer; here it is one of the varied settings
	}
	T, _ := strconv.Atoi(args[1])
	K, _ := strconv.Atoi(args[2])
	B, _ := strconv.Atoi(args[3])
	cfg := explore.Config{World: w, Bounds: explore.Bounds{T: T, K: K, B: B}, Dedupe: true, Workers: 1, Opts: explore.Opts{NoDisk: true}, // one worker: the set of explored histories is then a function of the node's behaviour only
		MenuFilter: func(depth int, prefix []int, item int) bool { return w.Menu[item].Replay == 0 && !w.Menu[item].StealSig },
		EnvFilter:  func(depth, env int) bool { return maxEnv <= 0 || env < maxEnv },
		OnTransition: func(t *explore.Transition, newState bool) []explore.Violation {
			mu.Lock()
			lines = append(lines, c08Line(t.Cur))
			mu.Unlock()
			return nil
		}}
	explore.Search(cfg)
	sort.Strings(lines)
	return writeLines(args[4], lines)
}

func writeLines(path string, lines []string) int {
	if err := os.WriteFile(path, []byte(strings.Join(lines, "\n")+"\n"), 0o644); err != nil {
		fmt.Fprintln(os.Stderr, err)
		return 2
	}
	return 0
}

type c08Config struct {
	Seed, Procs, GC int
}

func (c c08Config) String() string {
	return fmt.Sprintf("mapseed=%d GOMAXPROCS=%d GOGC=%d", c.Seed, c.Procs, c.GC)
}

func seedsBinary() string {
	exe, _ := os.Executable()
	return exe + ".seeds"
}

// c08Envs limits the block environments of the world being explored (set per world by the check).
var c08Envs int

// c08Deadline: workers still running at this time are killed (the world is then not judged).
var c08Deadline time.Time

var errC08Deadline = fmt.Errorf("time budget of the tier exhausted")

func runC08Worker(cfg c08Config, args []string) error {
	ctx := context.Background()
	if !c08Deadline.IsZero() {
		var cancel context.CancelFunc
		ctx, cancel = context.WithDeadline(ctx, c08Deadline)
		defer cancel()
	}
	cmd := exec.CommandContext(ctx, seedsBinary(), append([]string{"c08worker"}, args...)...)
	cmd.SysProcAttr = &syscall.SysProcAttr{Pdeathsig: syscall.SIGKILL} // no worker outlives the check
	cmd.Env = append(os.Environ(), fmt.Sprintf("VERIF_MAPSEED=%d", cfg.Seed), fmt.Sprintf("GOMAXPROCS=%d", cfg.Procs), fmt.Sprintf("GOGC=%d", cfg.GC), fmt.Sprintf("VERIF_C08_ENVS=%d", c08Envs))
	out, err := cmd.CombinedOutput()
	if ctx.Err() != nil {
		return errC08Deadline
	}
	if err != nil {
		return fmt.Errorf("%s: %v: %s", cfg, err, out)
	}
	return nil
}

type c08Replay struct {
	World   string          `json:"world"`
	History explore.History `json:"history"`
	A, B    c08Config
}

func init() {
	Replayers["seeds"] = func(property string, payload json.RawMessage) (bool, string) {
		var p c08Replay
		if err := json.Unmarshal(payload, &p); err != nil {
			return false, err.Error()
		}
		hj, _ := json.Marshal(p.History)
		dir := filepath.Join(report.Root, ".scratch", "c08")
		_ = os.MkdirAll(dir, 0o755)
		var got [2]string
		for i, cfg := range []c08Config{p.A, p.B} {
			f := filepath.Join(dir, fmt.Sprintf("replay-%d-%d.txt", os.Getpid(), i))
			if err := runC08Worker(cfg, []string{p.World, "one", string(hj), f}); err != nil {
				return false, err.Error()
			}
			b, _ := os.ReadFile(f)
			_ = os.Remove(f)
			got[i] = strings.TrimSpace(string(b))
		}
		text := fmt.Sprintf("%s:\n  %s\n%s:\n  %s\n", p.A, got[0], p.B, got[1])
		return got[0] != got[1], text
	}
	Register(&Check{ID: "C08", Level: "model_checking", Run: func(c *Ctx) {
		if _, err := os.Stat(seedsBinary()); err != nil {
			fmt.Println("harness error: seeds binary missing:", seedsBinary())
			os.Exit(2)
		}
		type wr struct {
			world   string
			T, K, B int
			envs    int // only the first n block environments (0: all); the fast-forward environments of the staking worlds run hundreds of blocks per step
		}
		// quick: one block of up to two transactions in the two widest transaction worlds, short
		// histories in the staking / order-book worlds, and the worlds with more than 100 candidates
		// (the structures whose iteration order matters are the ones with many entries)
		worldsQ := []wr{{"pay", 2, 2, 1, 0}, {"coin", 2, 2, 1, 0}, {"stake", 2, 2, 2, 1}, {"book", 1, 1, 2, 0}, {"stakemany", 1, 1, 3, 1}, {"stakemanytie", 2, 2, 2, 1},
			// four transactions in ONE block: three orders at one price behind a better resting order, then a taker
			{"bookties", 4, 4, 1, 1}}
		// thorough: deeper histories, 64 seeds x GOMAXPROCS {1,16}; cheapest worlds first, the time budget cuts the tail
		worldsT := []wr{{"bookties", 5, 5, 1, 1}, {"stakemanytie", 2, 2, 3, 1}, {"stakemany102", 1, 1, 3, 1}, {"stakemany", 2, 1, 3, 1}, {"book", 2, 2, 2, 0}, {"stake", 2, 2, 2, 1}, {"pool", 2, 2, 1, 0}, {"coin", 2, 2, 2, 0}, {"pay", 2, 2, 2, 0}, {"stake", 1, 1, 2, 0}}
		var cfgs []c08Config
		if c.Quick() {
			// seed = start bucket << 3 | in-bucket offset: 16 different start buckets, all 8 offsets
			for i := 0; i < 16; i++ {
				cfgs = append(cfgs, c08Config{Seed: i*8 + i%8, Procs: []int{1, 16}[i%2], GC: []int{100, 10}[(i/2)%2]})
			}
		} else {
			for i := 0; i < 64; i++ {
				for _, p := range []int{1, 16} {
					cfgs = append(cfgs, c08Config{Seed: i*8 + (i+i/8)%8, Procs: p, GC: []int{100, 10}[i%2]})
				}
			}
			worldsQ = worldsT
		}
		dir := filepath.Join(report.Root, ".scratch", "c08", fmt.Sprint(os.Getpid()))
		_ = os.MkdirAll(dir, 0o755)
		defer os.RemoveAll(dir)
		var transitions, states, rerun int64
		distinct := map[string]bool{}
		var samples []interface{}
		exhaustive := true
		c08Deadline = c.Deadline
		for _, w := range worldsQ {
			if time.Now().After(c.Deadline) {
				exhaustive = false
				fmt.Printf("  world %-8s skipped: the time budget of the tier is used up\n", w.world)
				continue
			}
			c08Envs = w.envs
			files := make([]string, len(cfgs))
			errs := make([]error, len(cfgs))
			sem := make(chan struct{}, 16)
			var wg sync.WaitGroup
			for i, cfg := range cfgs {
				files[i] = filepath.Join(dir, fmt.Sprintf("%s-%d.txt", w.world, i))
				wg.Add(1)
				sem <- struct{}{}
				go func(i int, cfg c08Config) {
					defer wg.Done()
					defer func() { <-sem }()
					errs[i] = runC08Worker(cfg, []string{w.world, fmt.Sprint(w.T), fmt.Sprint(w.K), fmt.Sprint(w.B), files[i]})
				}(i, cfg)
			}
			wg.Wait()
			timedOut := false
			for _, e := range errs {
				if e == errC08Deadline {
					timedOut = true
				}
			}
			if timedOut {
				exhaustive = false
				fmt.Printf("  world %-8s not judged: the time budget of the tier ran out while its configurations were running\n", w.world)
				continue
			}
			for i, e := range errs {
				if e != nil {
					// a worker that dies is a determinism/crash observation of its own
					c.Rep.Add(report.Item{Property: "C08", Signature: "worker-died", Detail: e.Error(), Engine: "seeds", Replay: c08Replay{World: w.world, A: cfgs[0], B: cfgs[i]}})
				}
			}
			read := func(i int) map[string]string {
				m := map[string]string{}
				b, _ := os.ReadFile(files[i])
				for _, l := range strings.Split(string(b), "\n") {
					if l == "" {
						continue
					}
					m[strings.SplitN(l, "\t", 2)[0]] = l
				}
				return m
			}
			ref := read(0)
			transitions += int64(len(ref)) * int64(len(cfgs))
			states += int64(len(ref))
			for _, l := range ref {
				f := strings.Split(l, "\t")
				distinct[w.world+f[1]] = true
				if len(samples) < 3 && len(f[1]) > 0 {
					samples = append(samples, fmt.Sprintf("world=%s %s", w.world, l))
				}
			}
			for i := 1; i < len(cfgs); i++ {
				m := read(i)
				keys := map[string]bool{}
				for k := range ref {
					keys[k] = true
				}
				for k := range m {
					keys[k] = true
				}
				for k := range keys {
					a, b := ref[k], m[k]
					if a == b {
						continue
					}
					if a == "" || b == "" {
						// the history was explored in one configuration only (its state was reached
						// through another history first there): execute it in the other one
						lack := cfgs[0]
						if b == "" {
							lack = cfgs[i]
						}
						var h explore.History
						hj, _ := json.Marshal(parseHistory(k, h))
						f := filepath.Join(dir, fmt.Sprintf("%s-one-%d.txt", w.world, i))
						if err := runC08Worker(lack, []string{w.world, "one", string(hj), f}); err != nil {
							c.Rep.Add(report.Item{Property: "C08", Signature: "worker-died", Detail: err.Error(), Engine: "seeds", Replay: c08Replay{World: w.world, History: parseHistory(k, h), A: cfgs[0], B: cfgs[i]}})
							continue
						}
						bs, _ := os.ReadFile(f)
						line := strings.TrimSpace(string(bs))
						if a == "" {
							a = line
						} else {
							b = line
						}
						rerun++
						if a == b {
							continue
						}
					}
					what := "history-set"
					if a != "" && b != "" {
						fa, fb := strings.Split(a, "\t"), strings.Split(b, "\t")
						for j := range fa {
							if j < len(fb) && fa[j] != fb[j] {
								what = c08Fields[j]
								break
							}
						}
					}
					var h explore.History
					c.Rep.Add(report.Item{Property: "C08", Signature: "diverges|" + what, Engine: "seeds",
						Detail: fmt.Sprintf("world %s history %s\n%s:\n  %s\n%s:\n  %s", w.world, k, cfgs[0], a, cfgs[i], b),
						Replay: c08Replay{World: w.world, History: parseHistory(k, h), A: cfgs[0], B: cfgs[i]}})
				}
			}
			fmt.Printf("  world %-8s T<=%d,K<=%d,B<=%d transitions=%d x %d configurations\n", w.world, w.T, w.K, w.B, len(ref), len(cfgs))
		}
		cv := c.Ev.Coverage
		cv["states"] = states
		cv["transitions"] = transitions
		cv["traces_validated_against_impl"] = transitions
		cv["configurations"] = len(cfgs)
		cv["histories_executed_singly_in_the_other_configuration"] = rerun
		cv["evaluations"] = transitions
		cv["distinct_nontrivial"] = int64(len(distinct))
		cv["samples"] = samples
		cv["exhaustive"] = exhaustive
		cv["rule"] = "every transition of the explorer within the bounds is executed in separate processes, one per configuration (VERIF_MAPSEED = map iteration start bucket / in-bucket offset fixed by a runtime patch, GOMAXPROCS, GOGC); per transition the DeliverTx codes, gas, data, tags, EndBlock validator updates / max gas and the app hash are compared with configuration 0; distinct_nontrivial = distinct response-code vectors of transitions with transactions"
		c.Ev.Assumptions = append(c.Ev.Assumptions, baseAssumptions...)
		c.Ev.Assumptions = append(c.Ev.Assumptions, "map iteration order is controlled by patched copies of runtime/map.go, rand.go, alg.go (scripts/runtimepatch.py); GC timing is only sampled through the GOGC settings")
	}})
}

// parseHistory parses the History.String() form "[e0:[1 2]] R[e1:[]]".
func parseHistory(s string, _ explore.History) explore.History {
	var h explore.History
	for _, part := range strings.Split(s, "] ") {
		part = strings.TrimSpace(part)
		if part == "" {
			continue
		}
		var b explore.Block
		if strings.HasPrefix(part, "R") {
			b.Restart = true
			part = part[1:]
		}
		part = strings.TrimPrefix(part, "[e")
		i := strings.Index(part, ":")
		if i < 0 {
			continue
		}
		b.Env, _ = strconv.Atoi(part[:i])
		rest := strings.Trim(part[i+1:], "[]")
		for _, f := range strings.Fields(rest) {
			n, err := strconv.Atoi(f)
			if err == nil {
				b.Txs = append(b.Txs, n)
			}
		}
		h = append(h, b)
	}
	return h
}
