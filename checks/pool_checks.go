package checks

import (
	"verif/monitors"
)

func init() {
	pool := WorldRun{World: "pool", Quick: b(2, 2, 2), Thorough: b(3, 2, 2), OneEnv: true}
	coin := WorldRun{World: "coin", Quick: b(2, 2, 2), Thorough: b(3, 2, 3), OneEnv: true}
	regExplore("C15", []WorldRun{pool, coin}, one(monitors.Slippage{}))
	regExplore("C13X", []WorldRun{pool}, one(monitors.PoolsNeverLose{}))
}
