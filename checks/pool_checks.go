package checks

import (
	"verif/monitors"
)

func init() {
	pool := WorldRun{World: "pool", Quick: b(2, 2, 2), Thorough: b(3, 2, 2), OneEnv: true}
	coin := WorldRun{World: "coin", Quick: b(2, 2, 2), Thorough: b(3, 2, 3), OneEnv: true}
	// poolfee: limits calibrated to the outcome with / without the fee conversion through the traded pool
	regExplore("C15", []WorldRun{pool, coin, wrPoolFee}, one(monitors.Slippage{}))
	regExplore("C13X", []WorldRun{pool, wrPoolFee}, one(monitors.Committed(monitors.PoolsNeverLose{}, "pool/")))
}
