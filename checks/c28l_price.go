package checks

import (
	"encoding/json"
	"runtime"
	"time"

	"verif/lattice/poolprice"
)

// C28 (lattice part): the block reward rule of AppDB.UpdatePriceFix — 350·p^(1/4) BIP, the drop to zero when the
// price fell by 10 % or more (change rounded down to a whole percent) and the recovery by 10 BIP per update up
// to the price-derived level — compared with a rational / 512-bit reference over a finite grid of previous
// states and price moves and over all 3-update sequences of a small menu. When the update runs (block period,
// time window, emission cap) and where the withheld part goes is the explorer part of the final C28 check,
// which calls RunC28Lattice as one of its parts.

const enginePrice = "lattice-price"

func init() {
	Register(&Check{ID: "C28L", Level: "exploration", Run: RunC28Lattice})
	Replayers[enginePrice] = func(property string, payload json.RawMessage) (bool, string) {
		return poolprice.ReplayPrice(payload)
	}
}

// RunC28Lattice runs the price lattice and merges its verdicts and counts into c.
func RunC28Lattice(c *Ctx) {
	b, max := poolprice.QuickPriceBounds(), 35*time.Second
	if !c.Quick() {
		b, max = poolprice.ThoroughPriceBounds(), 9*time.Minute
	}
	t0 := time.Now()
	res := poolprice.RunPrice(b, latticeDeadline(c, max), runtime.NumCPU())
	mergeLattice(c, enginePrice, "lattice_price", res, time.Since(t0))
	c.Ev.Assumptions = append(c.Ev.Assumptions,
		"math/big is trusted for the reference (integer QuoRem with an explicit floor correction; big.Float at 512 bits: Quo, Sqrt twice, Mul)",
		"the price-derived level used by the state-machine model is the safe reward the real code returns, after it was checked against the 512-bit reference with relative tolerance 1e-12 and against the level a first update gives for the same reserves",
		"an isolated AppDB over an in-memory database; the previous state is installed with SetPrice; r0 is the BIP reserve and r1 the USDT reserve as in Blockchain.BeginBlock")
}
