package checks

// C24 — events are stored and reloaded faithfully (observe at IEventsDB.LoadEvents).
//
// Engine "lattice-events" (package verif/lattice/events) drives the real events
// store of the node over a harness database that outlives the store object.
//
// Part A: every sequence of <=4 (quick) / <=5 (thorough; plus length 6 over a
// 4-batch sub-menu) batches of a 6-batch menu, committed at increasing heights,
// x address/key pools of 1 (quick: length<=3), 2 and 300 distinct values x a store restart at
// every subset of the batch boundaries (x which call comes first on the new
// store object: LoadEvents, or - pool 2 and length<=3 in quick, always in
// thorough - the CommitEvents of the next batch). Every committed height is loaded and
// compared with the model, field by field, at the end of every scenario; the
// scenario set is prefix closed, so this covers every commit point (see
// lattice/events.RunA).
//
// Part B: 65 534 ... 65 540 distinct validator keys and 70 000 distinct
// addresses (quick: 70 000 in the 65 534-key run, about 37 000 in the others)
// over four heights; restart policy "last" (no restart until all
// four heights are committed and verified, then one restart and everything is
// verified again), "every" (restart after every commit) and, thorough only,
// "none".
//
// Readings taken where the property text leaves a choice (all in favour of the
// code): an empty batch may load as an empty list or as nil; a height nothing
// was committed at must load no events; amounts are non-negative decimal
// strings, coin and order ids fit 32 bits, roles are the four roles the node
// emits (the node never produces anything else).

import (
	"encoding/json"
	"fmt"
	"os"
	"runtime"
	"runtime/debug"
	"sort"
	"strconv"
	"strings"
	"sync"
	"sync/atomic"
	"time"

	lev "verif/lattice/events"
	"verif/report"
)

const c24Engine = "lattice-events"

type c24Replay struct {
	Part     string         `json:"part"` // "A" | "B"
	Scenario *lev.ScenarioA `json:"scenario,omitempty"`
	Params   *lev.ParamsB   `json:"params,omitempty"`
	Text     string         `json:"rendered"`
}

type c24Hit struct {
	order [2]int // (unit, sub) of the first scenario showing the signature
	diff  lev.Diff
	rep   c24Replay
	count int // differing events over all scenarios
	scen  int // scenarios showing it
}

type c24Agg struct {
	scenarios, heights, events, nontrivial, restarts int64
	perPool                                          map[string]int64
	perLen                                           map[int]int64
	hits                                             map[string]*c24Hit
}

func newC24Agg() *c24Agg {
	return &c24Agg{perPool: map[string]int64{}, perLen: map[int]int64{}, hits: map[string]*c24Hit{}}
}

func (a *c24Agg) take(order [2]int, res *lev.Result, rep c24Replay) {
	a.scenarios++
	a.heights += int64(res.Heights)
	a.events += int64(res.Events)
	a.restarts += int64(res.Restarts)
	if res.Nontrivial {
		a.nontrivial++
	}
	for _, d := range res.Diffs {
		h := a.hits[d.Sig]
		if h == nil {
			h = &c24Hit{order: order, diff: d, rep: rep}
			a.hits[d.Sig] = h
		} else if order[0] < h.order[0] || (order[0] == h.order[0] && order[1] < h.order[1]) {
			h.order, h.diff, h.rep = order, d, rep
		}
		h.count += res.Counts[d.Sig]
		h.scen++
	}
}

func (a *c24Agg) merge(b *c24Agg) {
	a.scenarios += b.scenarios
	a.heights += b.heights
	a.events += b.events
	a.nontrivial += b.nontrivial
	a.restarts += b.restarts
	for k, v := range b.perPool {
		a.perPool[k] += v
	}
	for k, v := range b.perLen {
		a.perLen[k] += v
	}
	for sig, h := range b.hits {
		o := a.hits[sig]
		if o == nil {
			a.hits[sig] = h
			continue
		}
		if h.order[0] < o.order[0] || (h.order[0] == o.order[0] && h.order[1] < o.order[1]) {
			o.order, o.diff, o.rep = h.order, h.diff, h.rep
		}
		o.count += h.count
		o.scen += h.scen
	}
}

// c24Seq decodes the idx-th sequence of length n over a menu of m batches.
func c24Seq(n, idx, m int) []int {
	s := make([]int, n)
	for i := n - 1; i >= 0; i-- {
		s[i] = idx % m
		idx /= m
	}
	return s
}

var c24Pools = []int{1, 2, 300}

// c24Scenarios calls f for every scenario of one sequence, in a fixed order.
func c24Scenarios(seq []int, modeC map[int]bool, modeCMaxLen, pool1MaxLen int, f func(sub int, sc lev.ScenarioA)) {
	n := len(seq)
	sub := 0
	for _, pool := range c24Pools {
		if pool == 1 && n > pool1MaxLen {
			continue // with one address and one key nothing new is registered after the first batch
		}
		for mask := uint(0); mask < 1<<uint(n); mask++ {
			f(sub, lev.ScenarioA{Seq: seq, Pool: pool, Mask: mask, Mode: "L"})
			sub++
			// mode C differs from mode L only when a restart is followed by another batch
			if modeC[pool] && n <= modeCMaxLen && mask&((1<<uint(n-1))-1) != 0 {
				f(sub, lev.ScenarioA{Seq: seq, Pool: pool, Mask: mask, Mode: "C"})
				sub++
			}
		}
	}
}

func c24Render(sc lev.ScenarioA) map[string]interface{} {
	var batches []interface{}
	for pos, m := range sc.Seq {
		var evs []string
		for _, s := range lev.Menu[m] {
			e := lev.Build(s, lev.Pool{Class: sc.Pool, Pos: pos})
			b, _ := json.Marshal(e)
			evs = append(evs, e.Type()+string(b))
		}
		batches = append(batches, map[string]interface{}{"height": lev.HeightsA[pos], "menu": lev.MenuNames[m], "events": evs, "restart_after": sc.Mask&(1<<uint(pos)) != 0})
	}
	return map[string]interface{}{"scenario": sc.String(), "batches": batches}
}

func c24Text(res *lev.Result) string {
	var sb strings.Builder
	for _, d := range res.Diffs {
		fmt.Fprintf(&sb, "%s\n  %s (via restart: %v; %d differing events with this signature)\n", d.Sig, d.Detail, d.ViaRestart, res.Counts[d.Sig])
	}
	if len(res.Diffs) == 0 {
		sb.WriteString("every height loads back unchanged\n")
	}
	return sb.String()
}

func init() {
	Register(&Check{ID: "C24", Level: "exploration", Run: runC24})
	Replayers[c24Engine] = func(property string, payload json.RawMessage) (bool, string) {
		var p c24Replay
		if err := json.Unmarshal(payload, &p); err != nil {
			return false, err.Error()
		}
		switch {
		case p.Part == "A" && p.Scenario != nil:
			res := lev.RunA(*p.Scenario, true)
			return len(res.Diffs) > 0, p.Scenario.String() + "\n" + c24Text(res)
		case p.Part == "B" && p.Params != nil:
			res := lev.RunB(*p.Params)
			return len(res.Diffs) > 0, p.Params.String() + "\n" + c24Text(res)
		}
		return false, "bad payload"
	}
}

func runC24(c *Ctx) {
	// the run allocates and drops gigabytes of decoder garbage; with the binary's GC percent of 800 most
	// allocations land on never-touched pages and page faults dominate the run time, so collect early here
	gcp := 50
	if v, err := strconv.Atoi(os.Getenv("VERIF_C24_GC")); err == nil {
		gcp = v
	}
	defer debug.SetGCPercent(debug.SetGCPercent(gcp))
	menu := len(lev.Menu)
	maxLen := 4                    // full menu up to this length
	var subMenu []int              // thorough: sequences of length maxLen+1 over this sub-menu
	modeC := map[int]bool{2: true} // pools for which "CommitEvents first on the new store" is enumerated too
	modeCMaxLen := 3               // mode C up to this sequence length
	pool1MaxLen := 3               // pool class 1 up to this sequence length
	restartsB := []string{"every", "last"}
	if !c.Quick() {
		modeCMaxLen, pool1MaxLen = 6, 6
		maxLen = 5
		subMenu = []int{0, 2, 3, 5}
		modeC = map[int]bool{1: true, 2: true, 300: true}
		restartsB = []string{"every", "last", "none"}
	}
	const addrsB = 70000

	// work units: part B runs first (the longest), then one unit per part-A sequence
	type unit struct {
		b   *lev.ParamsB
		seq []int
	}
	var units []unit
	for _, rs := range restartsB {
		for k := 65534; k <= 65540; k++ {
			// policy "last" contains the restart-free run (everything it verifies before its one restart);
			// quick adds the policy with a restart after every commit for one key count only
			if c.Quick() && rs == "every" && k != 65537 {
				continue
			}
			// quick: the address table (32-bit ids, independent of the key count) is taken past 65 536 entries in
			// the 65 534-key run only; the other runs use the addresses their key events need (about 37 000)
			na := addrsB
			if c.Quick() && k != 65534 {
				na = 0
			}
			units = append(units, unit{b: &lev.ParamsB{NKeys: k, NAddrs: na, Restarts: rs}})
		}
	}
	nB := len(units)
	pow := 1
	for n := 1; n <= maxLen; n++ {
		pow *= menu
		for i := 0; i < pow; i++ {
			units = append(units, unit{seq: c24Seq(n, i, menu)})
		}
	}
	if len(subMenu) > 0 {
		n, pw := maxLen+1, 1
		for i := 0; i < n; i++ {
			pw *= len(subMenu)
		}
		for i := 0; i < pw; i++ {
			sq := c24Seq(n, i, len(subMenu))
			for j := range sq {
				sq[j] = subMenu[sq[j]]
			}
			units = append(units, unit{seq: sq})
		}
	}
	// the seed only rotates the order in which the part-A units are taken
	rot := 0
	if nA := len(units) - nB; nA > 0 {
		rot = int(((c.Seed % int64(nA)) + int64(nA)) % int64(nA))
	}

	workers := runtime.GOMAXPROCS(0)
	aggA := make([]*c24Agg, workers)
	aggB := make([]*c24Agg, workers)
	resB := make([]*lev.Result, nB)
	wallB := make([]float64, nB)
	var lastB int64 // unix nanos at which the last part-B run ended
	var next int64
	var skipped int64
	var wg sync.WaitGroup
	for w := 0; w < workers; w++ {
		aggA[w], aggB[w] = newC24Agg(), newC24Agg()
		wg.Add(1)
		go func(w int) {
			defer wg.Done()
			for {
				i := int(atomic.AddInt64(&next, 1) - 1)
				if i >= len(units) {
					return
				}
				if i < nB {
					u := units[i]
					t0 := time.Now()
					// a part-B run takes about half a minute; one that has not returned after 15 minutes
					// is a store call that does not return (the goroutine cannot be stopped and is left behind)
					done := make(chan *lev.Result, 1)
					go func() { done <- lev.RunB(*u.b) }()
					var res *lev.Result
					select {
					case res = <-done:
					case <-time.After(15 * time.Minute):
						d := lev.Diff{Sig: "store-call-does-not-return|part-B", Detail: "run " + u.b.String() + " of part B (65534..65540 distinct validator keys) did not return within 15 minutes; it takes about 30 s"}
						res = &lev.Result{Diffs: []lev.Diff{d}, Counts: map[string]int{d.Sig: 1}}
					}
					resB[i] = res
					wallB[i] = time.Since(t0).Seconds()
					atomic.StoreInt64(&lastB, time.Now().UnixNano())
					aggB[w].take([2]int{i, 0}, res, c24Replay{Part: "B", Params: u.b, Text: u.b.String()})
					continue
				}
				if time.Now().After(c.Deadline) {
					atomic.AddInt64(&skipped, 1)
					continue
				}
				ui := nB + (i-nB+rot)%(len(units)-nB)
				u := units[ui]
				seq := u.seq
				c24Scenarios(seq, modeC, modeCMaxLen, pool1MaxLen, func(sub int, sc lev.ScenarioA) {
					res := lev.RunA(sc, len(seq) <= 3)
					a := aggA[w]
					s := sc
					a.take([2]int{ui, sub}, res, c24Replay{Part: "A", Scenario: &s, Text: sc.String()})
					a.perPool[fmt.Sprint(sc.Pool)]++
					a.perLen[len(seq)]++
				})
			}
		}(w)
	}
	wg.Wait()
	A, B := newC24Agg(), newC24Agg()
	for w := 0; w < workers; w++ {
		A.merge(aggA[w])
		B.merge(aggB[w])
	}

	// violations, in a deterministic order: part B by run, then part A by unit
	for _, agg := range []*c24Agg{B, A} {
		var hs []*c24Hit
		for _, h := range agg.hits {
			hs = append(hs, h)
		}
		sort.Slice(hs, func(i, j int) bool {
			if hs[i].order != hs[j].order {
				return hs[i].order[0] < hs[j].order[0] || (hs[i].order[0] == hs[j].order[0] && hs[i].order[1] < hs[j].order[1])
			}
			return hs[i].diff.Sig < hs[j].diff.Sig
		})
		for _, h := range hs {
			c.Rep.Add(report.Item{Property: c.ID, Signature: h.diff.Sig, Engine: c24Engine, Replay: h.rep,
				Detail: fmt.Sprintf("scenario: %s\n%s\n(%d differing events in %d scenarios carry this signature)", h.rep.Text, h.diff.Detail, h.count, h.scen)})
		}
	}

	// evidence
	var runsB []interface{}
	for i := 0; i < nB; i++ {
		p := units[i].b
		k, ad, evn := lev.CountB(*p)
		var sigs []string
		for _, d := range resB[i].Diffs {
			sigs = append(sigs, fmt.Sprintf("%s x%d (first: %s)", d.Sig, resB[i].Counts[d.Sig], d.Detail))
		}
		if sigs == nil {
			sigs = []string{}
		}
		runsB = append(runsB, map[string]interface{}{"params": p, "distinct_pubkeys_measured": k, "distinct_addresses_measured": ad, "events": evn,
			"wall_s": wallB[i], "heights_compared": resB[i].Heights, "events_compared": resB[i].Events, "restarts": resB[i].Restarts, "differences": sigs})
	}
	samples := []interface{}{
		c24Render(lev.ScenarioA{Seq: []int{1, 3}, Pool: 2, Mask: 1, Mode: "L"}),
		c24Render(lev.ScenarioA{Seq: []int{5, 1, 4}, Pool: 300, Mask: 5, Mode: "L"}),
		c24Render(lev.ScenarioA{Seq: []int{2, 0, 3, 5}, Pool: 2, Mask: 7, Mode: "C"}),
		map[string]interface{}{"scenario": "part B " + units[nB-1].b.String(), "layout": "height 10: keys 1..30000, height 20: keys 30001..65530 (two of three events are stake moves with two new keys, the third a reward/slash/jail/unbond/kick with one), height 30: keys 65531..N one event per key of type (key number-1) mod 6 of reward/slash/jail/unbond/kick/move, height 40: old and new keys again; removeCandidate events with known keys in between; every event with an address takes a fresh one, unlock/expired-order events fill up to the address count; key-less unbonds sprinkled in"},
	}
	cv := c.Ev.Coverage
	cv["evaluations"] = A.scenarios + B.scenarios + A.heights + B.heights
	cv["scenarios_part_a"] = A.scenarios
	cv["scenarios_part_b"] = B.scenarios
	cv["heights_compared"] = A.heights + B.heights
	cv["events_compared"] = A.events + B.events
	cv["restarts_performed"] = A.restarts + B.restarts
	cv["distinct_nontrivial"] = A.nontrivial + B.nontrivial
	cv["scenarios_per_pool"] = A.perPool
	perLen := map[string]int64{}
	for k, v := range A.perLen {
		perLen[fmt.Sprint(k)] = v
	}
	cv["scenarios_per_length"] = perLen
	cv["menu_batches"] = menu
	cv["max_sequence_length_full_menu"] = maxLen
	cv["sub_menu_for_one_longer"] = subMenu
	cv["part_b_runs"] = runsB
	cv["sequences_skipped_by_deadline"] = skipped
	cv["part_b_finished_after_s"] = time.Unix(0, lastB).Sub(c.Start).Seconds()
	cv["exhaustive"] = skipped == 0
	cv["samples"] = samples
	modeCPools := "pool class 2 and sequences of length<=3"
	if !c.Quick() {
		modeCPools = "every pool class"
	}
	extra := ""
	if len(subMenu) > 0 {
		extra = fmt.Sprintf(" plus every sequence of %d batches over the sub-menu %v,", maxLen+1, subMenu)
	}
	cv["rule"] = fmt.Sprintf("part A: every sequence of 1..%d batches out of a menu of %d batches (all 12 event types; empty batch; identical events; nil and set optional key; amounts 0, 1, 40 digits; coin ids 0, 1, 2^32-1),%s committed at heights 3, 255, 256, 65536, 16777216, 4294967295, x pool class (1 - for sequences of length<=%d -, 2, 300 distinct addresses and keys; class 300 starts from a database primed with elements 0..297 - a 298-event height and an 8-event sentinel height on the ids around 255/256 - elements 298 and 299 are first seen inside the scenario) x every subset of the batch boundaries at which the store object is replaced by a new one over the same database x mode (L: LoadEvents is the first call on a new object; C, for %s: the CommitEvents of the next batch is). Right after a commit (and after the restart following it, mode L) the height just committed is loaded and compared with the specs added, field by field; after the last commit and again after the restart following it EVERY committed height is (class 300: including the sentinel height, and the 298-event height for sequences of length<=3), and a never-committed height must load nothing. The scenario set is prefix closed with identical call histories, so every commit point of every scenario has all its heights verified in the scenario ending there. part B: one run per (number of distinct keys 65534..65540, restart policy); the height just committed is verified after each of the first three commits (and after the restart following it), all four heights after the last commit (and after the restart following it). A scenario is counted in distinct_nontrivial when at least one restart happened in it AND at least one non-empty batch committed inside the scenario was afterwards loaded by a later store object than the one that committed it (scenarios are distinct tuples by construction; priming batches do not count). evaluations = scenarios executed + (height, store) comparisons made.", maxLen, menu, extra, pool1MaxLen, modeCPools)
	c.Ev.Assumptions = append(c.Ev.Assumptions,
		"tm-db MemDB (wrapped by verif/vdb) stands for the LevelDB the node uses for events; only Get/Set are used by the store",
		"a restart is modelled as a new NewEventsStore object over the same database (all writes of the store are synchronous Set calls, none is buffered in the object)",
		"event field domains are those the node emits: decimal non-negative amounts, 32-bit coin and order ids, the four role names",
		"tendermint/libs/json and the Go runtime are trusted")
	fmt.Printf("  part A: %d scenarios, %d nontrivial; part B: %d runs; %d heights and %d events compared\n", A.scenarios, A.nontrivial, B.scenarios, A.heights+B.heights, A.events+B.events)
}
