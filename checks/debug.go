package checks

import (
	"encoding/json"
	"fmt"
	"os"
	"sort"
	"strings"

	"verif/explore"
	"verif/worlds"
)

// ExecDebug runs one history of a world and prints what happened: verif exec <world> '<history json>'.
func ExecDebug(args []string) int {
	if len(args) < 1 {
		fmt.Println("usage: verif exec <world> [history json]")
		return 2
	}
	w := worlds.Get(args[0])
	var h explore.History
	if len(args) > 1 {
		if err := json.Unmarshal([]byte(args[1]), &h); err != nil {
			fmt.Println(err)
			return 2
		}
	}
	tr := explore.Exec(w, h, explore.Opts{})
	fmt.Println(explore.Describe(tr))
	for _, st := range tr.Steps {
		for _, x := range st.Txs {
			fmt.Printf("  h%d %-50s code=%d %s\n", st.Height, x.T.Name, x.Resp.Code, x.Resp.Log)
		}
	}
	if tr.Fault != nil {
		fmt.Println(tr.Fault.String())
		fmt.Println(tr.Fault.Stack)
		return 1
	}
	if pre := os.Getenv("VERIF_DUMP"); pre != "" && tr.Final() != nil {
		var ks []string
		for k := range tr.Final().Flat {
			if strings.Contains(k, pre) {
				ks = append(ks, k)
			}
		}
		sort.Strings(ks)
		for _, k := range ks {
			fmt.Printf("  state %s = %s\n", k, tr.Final().Flat[k])
		}
	}
	for i, t := range w.Menu {
		fmt.Printf("  menu %2d %s\n", i, t.Name)
	}
	return 0
}
