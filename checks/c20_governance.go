package checks

import (
	"sync/atomic"
	"strings"

	"verif/explore"
	"verif/monitors"
	"verif/worlds"
)

// C20: governance decisions need strictly more than two thirds of the present voting power.
// Explorer over the "gov" family: one world per point of a stake grid around the 2/3 boundary
// (worlds/gov.go), menus of commission / version / halt votes of every validator for the current
// and the next height, environments "everybody signed" and "validator i did not sign".
// Oracle: monitors.Governance (exact integer tally 3·voted > 2·total).
//
// The menu filter keeps a block to votes of ONE group (kind @ target height) so that three votes
// fit into a block (K=3) without the cross product of kinds; the groups offered per depth are
// listed per run.

func c20GovGroup(t *worlds.Tx) string {
	for _, tg := range t.Tags {
		if strings.HasPrefix(tg, "g:") {
			return tg[2:]
		}
	}
	return ""
}

// c20GovFilter: perDepth[d] = groups offered in block d (missing depth = no transactions).
func c20GovFilter(perDepth ...[]string) func(w *worlds.World) func(depth int, prefix []int, item int) bool {
	return func(w *worlds.World) func(depth int, prefix []int, item int) bool {
		return func(depth int, prefix []int, item int) bool {
			if depth >= len(perDepth) {
				return false
			}
			g := c20GovGroup(&w.Menu[item])
			ok := false
			for _, a := range perDepth[depth] {
				if a == g {
					ok = true
				}
			}
			if !ok {
				return false
			}
			return len(prefix) == 0 || c20GovGroup(&w.Menu[prefix[0]]) == g
		}
	}
}

func init() {
	same := []string{"comm@1", "upd@1"}
	var runs []WorldRun
	// exact boundary with one voter, control/stranger signatures, past heights, votes split over two blocks
	runs = append(runs, WorldRun{World: "gov-21", Quick: b(2, 2, 2), Thorough: b(0, 0, 0),
		MenuFilter: c20GovFilter([]string{"comm@1", "upd@1", "upd@2", "halt@2", "past"}, []string{"upd@2", "comm@1"})})
	runs = append(runs, WorldRun{World: "gov-21", Quick: b(0, 0, 0), Thorough: b(3, 3, 2),
		MenuFilter: c20GovFilter([]string{"comm@1", "upd@1", "comm@2", "upd@2", "halt@2", "past"}, []string{"upd@2", "comm@2", "comm@1", "halt@3"})})
	// big-number grid points just below / just above 2/3 and the point that equals float64(2./3.)
	for _, wn := range []string{"gov-21p", "gov-21m", "gov-2kp", "gov-2km", "gov-f64"} {
		runs = append(runs, WorldRun{World: wn, Quick: b(2, 2, 2), Thorough: b(3, 3, 2),
			MenuFilter: c20GovFilter([]string{"comm@1", "upd@1", "halt@2", "upd@2"})})
	}
	// competing proposals, the weaker one first
	runs = append(runs, WorldRun{World: "gov-13", Quick: b(2, 2, 1), Thorough: b(3, 3, 2),
		MenuFilter: c20GovFilter([]string{"comm@1", "upd@1", "comm@2", "halt@2"})})
	// three equal validators: two of three = exactly 2/3; three votes in a block for competing proposals
	runs = append(runs, WorldRun{World: "gov-111", Quick: b(3, 3, 1), Thorough: b(3, 3, 2), MenuFilter: c20GovFilter([]string{"comm@1", "upd@1", "comm@2", "upd@2"}, []string{"upd@2"})})
	runs = append(runs, WorldRun{World: "gov-111", Quick: b(2, 2, 2), Thorough: b(3, 3, 2), MenuFilter: c20GovFilter([]string{"halt@2", "upd@2"})})
	// four validators, one of them tiny: presence of the tiny one decides between below and exactly 2/3
	runs = append(runs, WorldRun{World: "gov-1k", Quick: b(2, 2, 1), Thorough: b(3, 3, 1), MenuFilter: c20GovFilter(same)})
	runs = append(runs, WorldRun{World: "gov-1k", Quick: b(2, 2, 2), Thorough: b(3, 3, 2), MenuFilter: c20GovFilter([]string{"halt@2"})})

	c20mons := one(monitors.Committed(monitors.Governance{}, "cvote/", "uvote/", "halt/", "commission/", "version"))
	// every history of two or more blocks is also executed with a restart before its last block
	// (votes are kept in memory between blocks; a restarted node must tally and refuse the same way)
	var c20Restarts int64
	for i := range runs {
		runs[i].OnTransition = restartVariants("C20", c20mons, &c20Restarts)
	}
	regExplore("C20", runs, c20mons, func(c *Ctx) {
		c.Ev.Coverage["restart_variant_executions"] = atomic.LoadInt64(&c20Restarts)
		var grid []map[string]interface{}
		for _, sp := range worlds.C20GovGrid() {
			var st []string
			for _, s := range sp.Stakes {
				st = append(st, s.String())
			}
			grid = append(grid, map[string]interface{}{"world": sp.Name, "stakes_pip": st, "note": sp.Note})
		}
		c.Ev.Coverage["stake_grid"] = grid
		c.Ev.Coverage["tallies_judged"] = monitors.C20Stats()
		c.Ev.Coverage["oracle"] = "exact integer tally 3*voted > 2*total over the validators that signed the block (stakes from the export before the block); largest support wins; effects read from the exported price table, the version list and the BeginBlock exit"
		c.Ev.Assumptions = append(c.Ev.Assumptions,
			"a vote delivered in block h for height h is tallied in EndBlock(h) (not 'past'); halt votes for the current height are not offered",
			"version names voted for are known to the binary (v310, v320), so that an accepted update does not stop the next block")
	})
	_ = explore.Bounds{}
}
