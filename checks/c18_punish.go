package checks

import (
	"verif/monitors"
)

// C18 — misbehaviour is punished exactly and only once (worlds/val.go, monitors/punish.go).
//
// Enumerated:
//   - valwindow: every signed/missed pattern of v1 over B blocks after the grace period, from a clean window;
//   - valwinA..E: the same from windows primed during the warm-up with 12 (A-D, four shapes) or 11 (E) misses,
//     so that every way of reaching, touching and leaving the limit "more than 12 of the last 24" occurs within few blocks;
//   - valedge: the window reaches 13 misses in the LAST block of the grace period; valgrace: everything inside the grace period
//     (nobody may be jailed or lose stake there);
//   - val: vote vectors of all four validators x switch-on / switch-off transactions (jail set in genesis and by the absence rule);
//   - valjail: jailed by the 13th miss during the warm-up, which ends two blocks before jailed_until: switch on / off by owner,
//     control address and a stranger before, at and after the end of the jail, then back into the validator set;
//   - valbyz: evidence lists (one validator, the same validator twice / three times in one block, two validators, unknown
//     address, offline candidate, online non-validator, evidence together with the 13th miss) at every block incl. payout blocks.
func init() {
	win := func(name string, q, t int) WorldRun {
		return WorldRun{World: name, Quick: b(0, 0, q), Thorough: b(0, 0, t)}
	}
	runs := []WorldRun{
		win("valwindow", 8, 15),
		win("valwinA", 6, 12),
		win("valwinB", 6, 12),
		win("valwinC", 6, 12),
		win("valwinD", 6, 12),
		win("valwinE", 6, 12),
		win("valedge", 3, 6),
		win("valgrace", 3, 6),
		{World: "val", Quick: b(1, 1, 2), Thorough: b(2, 1, 3)},
		{World: "valjail", Quick: b(2, 1, 4), Thorough: b(3, 2, 4)},
		{World: "valbyz", Quick: b(0, 0, 3), Thorough: b(0, 0, 4)},
		{World: "valbyzdue", Quick: b(0, 0, 3), Thorough: b(1, 1, 3)}, // unbonding funds of the accused validator maturing in the explored blocks // today evidence against a live validator in a payout block (3rd block) ends the history: the node crashes there
	}
	regExplore("C18", runs, one(monitors.Punishment{}), func(c *Ctx) {
		c.Ev.Coverage["c18_rule"] = "the oracle replays the vote / evidence / switch history of each trace on a bookkeeping model (sliding 24-block window recomputed from the environments, not from the node's bit array) and compares, for the last block of every history: status, jailed_until (= h+354), membership in the validator set and the power-0 update; SetCandidateOn against the jail; every stake value and every unbonding fund (each stake and each fund from a punished validator loses value-floor(value*95/100) exactly once, the rest of a stake is frozen until h+531); coin volume/reserve; total_slashed (= reward remainder + slashed base value + reserve released by slashed custom coins)"
		c.Ev.Coverage["c18_counters"] = monitors.C18Coverage()
		c.Ev.Assumptions = append(c.Ev.Assumptions,
			"the commit info of a block lists every validator of the signing set (a validator that is not listed keeps a stale window slot in the node; such environments are not generated)",
			"inside a grace period the property only forbids punishment (jail, slashing); that the node still switches the validator off there is accepted",
			"at the block whose height equals jailed_until the node still refuses SetCandidateOn; the property ('before the jail ends') leaves that block open, both answers are accepted there",
			"custom-coin slashing is compared with one bancor sale of all slashed coins within 2 pip per item + 2 (bancor arithmetic is C12's subject); volume, base-coin amounts and unbonding funds are exact")
	})
}
