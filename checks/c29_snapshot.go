package checks

import (
	"encoding/json"
	"sync"

	"verif/explore"
	"verif/monitors"
	"verif/worlds"
)

func init() {
	Replayers["snapshot-twin"] = func(property string, payload json.RawMessage) (bool, string) {
		var p replayPayload
		if err := json.Unmarshal(payload, &p); err != nil {
			return false, err.Error()
		}
		w := worlds.Get(p.World)
		noReplay(w)
		var st explore.SnapStats
		// try the history itself and, for follow-up violations, the history without its two follow-up blocks
		cands := []explore.History{p.History}
		if n := len(p.History); n > 2 {
			cands = append(cands, p.History[:n-2])
		}
		text := ""
		for _, h := range cands {
			plain := h.Clone()
			for i := range plain {
				plain[i].Restart = false
			}
			vs := explore.SnapshotTwin(w, plain, menuNoReplay(w), &st)
			for _, v := range vs {
				text += v.Signature + ": " + v.Detail + "\n"
			}
			if len(vs) > 0 {
				return true, text
			}
		}
		return false, text
	}
	Register(&Check{ID: "C29", Level: "model_checking", Run: func(c *Ctx) {
		var mu sync.Mutex
		var total explore.SnapStats
		runs := []WorldRun{
			// both block-time environments (5 s and 8 s): with slow blocks the gas limit of the next
			// blocks depends on the block-time record, which has to travel with the snapshot
			{World: "pay", Quick: b(1, 1, 2), Thorough: b(2, 2, 2), MenuFilter: noReplay},
			{World: "coin", Quick: b(1, 1, 2), Thorough: b(2, 2, 2), OneEnv: true},
			{World: "pool", Quick: b(1, 1, 1), Thorough: b(2, 2, 2), OneEnv: true},
			{World: "book", Quick: b(1, 1, 1), Thorough: b(2, 2, 2), OneEnv: true},
			{World: "stake", Quick: b(1, 1, 1), Thorough: b(2, 2, 2), OneEnv: true},
		}
		for i := range runs {
			runs[i].OnTransition = func(t *explore.Transition, newState bool) []explore.Violation {
				if t.Cur.Fault != nil || !newState {
					return nil
				}
				var st explore.SnapStats
				menu := menuNoReplay(t.W)
				if c.Quick() && len(t.Cur.Hist) > 1 {
					menu = nil // deeper states: only the empty follow-up block
				}
				vs := explore.SnapshotTwin(t.W, t.Cur.Hist, menu, &st)
				mu.Lock()
				total.Snapshots += st.Snapshots
				total.Producers += st.Producers
				total.FollowUps += st.FollowUps
				total.Executions += st.Executions
				mu.Unlock()
				return vs
			}
		}
		RunExplore(c, runs, one(monitors.NoCrash{}), baseAssumptions...)
		cv := c.Ev.Coverage
		cv["snapshots_restored"] = total.Snapshots
		cv["producer_variants_compared"] = total.Producers
		cv["follow_up_blocks_compared"] = total.FollowUps
		cv["snapshot_twin_executions"] = total.Executions
		if old, ok := cv["traces_validated_against_impl"].(int64); ok {
			cv["traces_validated_against_impl"] = old + int64(total.Executions)
		}
		cv["snapshot_rule"] = "for one representative history per distinct state within the bounds the producer runs with a state-sync snapshot after every block (cosmos-sdk snapshot store, real ListSnapshots/LoadSnapshotChunk); the chunks of the final height are compared byte for byte with those of producers restarted before each single block; the snapshot is fed through OfferSnapshot/ApplySnapshotChunk into a fresh node whose Info must equal the producer's; then the empty block and (quick: for states one block deep, thorough: all) every menu transaction is executed as the next block, followed by one empty block, on the state-synced node and on a node that replayed every block, comparing responses, tags, validator updates, app hashes, exports, emission, versions, Info and events"
		c.Ev.Assumptions = append(c.Ev.Assumptions, "the cosmos-sdk snapshot store and manager are trusted; snapshot chunks are files under /verif/.scratch/snap (removed after each twin)")
	}})
}
