package checks

import (
	"verif/explore"
	"verif/monitors"
	"verif/worlds"
)

// Properties decided by two engines: the explorer part and the lattice part were built
// under temporary ids (C13X/C13L, C28X/C28L); the registered checks C13 and C28 run both.
func combine(id, xid, lid string, lattice func(*Ctx)) {
	MonitorsFor[id] = func(w *worlds.World) []explore.Monitor {
		var out []explore.Monitor
		for _, m := range MonitorsFor[xid](w) {
			out = append(out, monitors.As(id, m))
		}
		return out
	}
	Register(&Check{ID: id, Level: "model_checking", Run: func(c *Ctx) {
		c.Rep.Alias = map[string]bool{xid: true, lid: true, "C13": true, "C28": true}
		delete(c.Rep.Alias, map[string]string{"C13": "C28", "C28": "C13"}[id])
		c.StatID = monitorProperty(xid)
		Get(xid).Run(c)
		c.StatID = ""
		lattice(c)
	}})
}

// monitorProperty is the Property() of the monitors of an explorer check.
func monitorProperty(xid string) string {
	ms := MonitorsFor[xid](nil)
	if len(ms) == 0 {
		return xid
	}
	return ms[0].Property()
}

func init() {
	combine("C13", "C13X", "C13L", func(c *Ctx) { RunC13Lattice(c) })
	combine("C28", "C28X", "C28L", func(c *Ctx) { RunC28Lattice(c) })
}
