package checks

// C25 — concurrent queries never crash or perturb block execution.
//
// The check runs in the ordinary binary and drives two sibling binaries built by
// scripts/build_sched.sh from the same ./cmd/verif with the "sched" overlay
// (`import "sync"` -> verif/vsync in coreV2/**, tree, api/v2/service):
//
//	verif<suffix>.sched  cooperative scheduler + deviation-bounded DFS over schedules (verif/sched)
//	verif<suffix>.race   the same scenario bodies free-running under the race detector
//
// Both are started as `… check C25 <tier>` with VERIF_C25_JOB=<job file>; the Run
// function below then acts as the worker (package verif/sched/scen).
//
// Reading of the property: queries may return errors and may observe a block half
// executed (the live state IS the deliver state: state.NewCheckState(stateDeliver));
// what is demanded is: no panic / fatal error / deadlock in any thread, and the
// block's responses, app hash and the app hash of the following empty block equal
// those of the query-free run of the same block.

import (
	"bytes"
	"encoding/json"
	"fmt"
	"os"
	"os/exec"
	"path/filepath"
	"sort"
	"strings"
	"sync"
	"time"

	"verif/report"
	"verif/sched"
	"verif/sched/scen"
)

type c25Replay struct {
	Kind      string      `json:"kind"` // sched | race
	Scenario  string      `json:"scenario"`
	Devs      []sched.Dev `json:"devs,omitempty"`
	Signature string      `json:"signature,omitempty"`
	Tier      string      `json:"tier,omitempty"`
}

func c25Binary(ext string) string {
	exe, _ := os.Executable()
	return exe + ext
}

func c25Scratch() string {
	dir := filepath.Join(report.Root, ".scratch", "c25", fmt.Sprint(os.Getpid()))
	_ = os.MkdirAll(dir, 0o755)
	return dir
}

type c25Proc struct {
	job    scen.Job
	out    scen.Out
	err    error
	stderr string
	code   int
}

// c25Spawn runs one worker process to completion.
func c25Spawn(ext string, dir string, idx int, job scen.Job, env ...string) *c25Proc {
	p := &c25Proc{job: job}
	jobFile := filepath.Join(dir, fmt.Sprintf("job-%s-%d.json", job.Role, idx))
	p.job.Out = filepath.Join(dir, fmt.Sprintf("out-%s-%d.json", job.Role, idx))
	b, _ := json.Marshal(p.job)
	if err := os.WriteFile(jobFile, b, 0o644); err != nil {
		p.err = err
		return p
	}
	tier := job.Tier
	if tier == "" {
		tier = "quick"
	}
	cmd := exec.Command(c25Binary(ext), "check", "C25", tier)
	cmd.Env = append(os.Environ(), "VERIF_C25_JOB="+jobFile)
	if ext == ".sched" {
		// fixed map iteration order (runtime patch of the scheduler binary): a schedule replays identically
		cmd.Env = append(cmd.Env, "VERIF_MAPSEED=0")
	}
	cmd.Env = append(cmd.Env, env...)
	var eb bytes.Buffer
	cmd.Stderr = &eb
	cmd.Stdout = &eb
	err := cmd.Run()
	p.stderr = eb.String()
	if err != nil {
		p.err = err
		if ee, ok := err.(*exec.ExitError); ok {
			p.code = ee.ExitCode()
		} else {
			p.code = -1
		}
		return p
	}
	ob, err := os.ReadFile(p.job.Out)
	if err != nil {
		p.err = err
		return p
	}
	p.err = json.Unmarshal(ob, &p.out)
	return p
}

func c25Tail(s string, n int) string {
	l := strings.Split(strings.TrimSpace(s), "\n")
	if len(l) > n {
		l = l[len(l)-n:]
	}
	return strings.Join(l, "\n")
}

func c25Head(s string, n int) string {
	l := strings.Split(strings.TrimSpace(s), "\n")
	if len(l) > n {
		l = l[:n]
	}
	return strings.Join(l, " | ")
}

func c25HarnessError(format string, a ...interface{}) {
	fmt.Printf("harness error: "+format+"\n", a...)
	os.Exit(2)
}

// c25RaceFindings turns the race log of one worker into violations (map races in repository code) and warnings.
func c25RaceFindings(ro *scen.RaceOut, logText string, add func(sc string, r *scen.RaceReport), warn func(sc string, r *scen.RaceReport)) int {
	n := 0
	for _, rs := range ro.Scenarios {
		from, to := rs.LogFrom, rs.LogTo
		if to > int64(len(logText)) {
			to = int64(len(logText))
		}
		if from > to {
			from = to
		}
		reps := scen.ParseRaceLog(logText[from:to])
		for i := range reps {
			r := &reps[i]
			n++
			switch {
			case r.A.Loc == "" && r.B.Loc == "":
				// both accesses in harness code (e.g. the cleanup of a node whose threads are stuck): not about the repository
			case r.IsMapRace():
				add(rs.Name, r)
			default:
				warn(rs.Name, r)
			}
		}
	}
	return n
}

func init() {
	Replayers["sched"] = func(property string, payload json.RawMessage) (bool, string) {
		var p c25Replay
		if err := json.Unmarshal(payload, &p); err != nil {
			return false, err.Error()
		}
		dir := c25Scratch()
		defer os.RemoveAll(dir)
		if p.Kind == "race" {
			logPrefix := filepath.Join(dir, "race")
			tier := p.Tier
			if tier == "" {
				tier = "thorough"
			}
			text := ""
			for attempt := 0; attempt < 3; attempt++ {
				pr := c25Spawn(".race", dir, attempt, scen.Job{Role: "race", Tier: tier, NShards: 1, Only: []string{p.Scenario}, Reps: 300, RaceLog: logPrefix,
					Deadline: time.Now().Add(5 * time.Minute).Unix()}, "GORACE=log_path="+logPrefix+" halt_on_error=0 exitcode=0 history_size=3")
				if pr.err != nil {
					if strings.Contains(pr.stderr, "fatal error: concurrent map") {
						return true, "the free-running binary died:\n" + c25Tail(pr.stderr, 60)
					}
					fmt.Println("harness error: race worker failed:", pr.err, c25Tail(pr.stderr, 20))
					os.Exit(2)
				}
				lb, _ := os.ReadFile(pr.out.Race.LogFile)
				found := false
				for _, rs := range pr.out.Race.Scenarios {
					for _, f := range rs.Found {
						if f.Signature == p.Signature {
							found = true
							text = fmt.Sprintf("scenario %s (free-running, -race, attempt %d)\n%s\n", rs.Name, attempt+1, f.Detail)
						}
					}
				}
				c25RaceFindings(pr.out.Race, string(lb), func(sc string, r *scen.RaceReport) {
					if r.Signature() == p.Signature {
						found = true
						text = fmt.Sprintf("scenario %s (free-running, -race, %d repetitions, attempt %d)\n%s\n", sc, 300, attempt+1, r.Text)
					}
				}, func(string, *scen.RaceReport) {})
				if found {
					return true, text
				}
			}
			return false, "the race detector did not report " + p.Signature + " in 3 x 300 repetitions (sampling pass)"
		}
		pr := c25Spawn(".sched", dir, 0, scen.Job{Role: "replay", Scenario: p.Scenario, Devs: p.Devs, NShards: 1})
		if pr.err != nil {
			fmt.Println("harness error: replay worker failed:", pr.err, c25Tail(pr.stderr, 30))
			os.Exit(2)
		}
		rp := pr.out.Replay
		if !rp.Identical {
			fmt.Println(rp.Text)
			fmt.Println("harness error: two runs of the same schedule gave different observations (harness nondeterminism)")
			os.Exit(2)
		}
		return len(rp.Violations) > 0, rp.Text
	}

	Register(&Check{ID: "C25", Level: "model_checking", Run: func(c *Ctx) {
		if job := os.Getenv("VERIF_C25_JOB"); job != "" {
			os.Exit(scen.WorkerMain(job))
		}
		for _, ext := range []string{".sched", ".race"} {
			if _, err := os.Stat(c25Binary(ext)); err != nil {
				c25HarnessError("%s missing: run scripts/build_sched.sh (with the same VERIF_BUILD_TAG / VERIF_MUTANT)", c25Binary(ext))
			}
		}
		dir := c25Scratch()
		defer os.RemoveAll(dir)
		nSched, nRace, reps := 10, 6, 150
		budget := 80 * time.Second
		if !c.Quick() {
			nSched, nRace, reps = 12, 4, 400
			budget = 17 * time.Minute
		}
		if v := os.Getenv("VERIF_BUDGET_S"); v != "" {
			budget = time.Until(c.Deadline) - 10*time.Second
		}
		deadline := c.Start.Add(budget)
		if deadline.After(c.Deadline) {
			deadline = c.Deadline
		}
		// thorough: a deterministic cap on the executions per scenario and shard keeps the run inside its budget on a loaded box
		maxExec := 0
		if !c.Quick() {
			maxExec = 3000
		}
		if v := os.Getenv("VERIF_C25_MAXEXEC"); v != "" {
			fmt.Sscan(v, &maxExec)
		}
		only := []string(nil)
		if v := os.Getenv("VERIF_C25_ONLY"); v != "" {
			only = strings.Split(v, ";")
		}
		var wg sync.WaitGroup
		schedP := make([]*c25Proc, nSched)
		raceP := make([]*c25Proc, nRace)
		logPrefix := filepath.Join(dir, "race")
		for i := 0; i < nSched; i++ {
			wg.Add(1)
			go func(i int) {
				defer wg.Done()
				schedP[i] = c25Spawn(".sched", dir, i, scen.Job{Role: "sched", Tier: c.Tier, Shard: i, NShards: nSched, Deadline: deadline.Unix(), Only: only, MaxExec: maxExec})
			}(i)
		}
		for i := 0; i < nRace; i++ {
			wg.Add(1)
			go func(i int) {
				defer wg.Done()
				raceP[i] = c25Spawn(".race", dir, i, scen.Job{Role: "race", Tier: c.Tier, Shard: i, NShards: nRace, Deadline: deadline.Unix(), Only: only, Reps: reps, RaceLog: logPrefix},
					"GORACE=log_path="+logPrefix+" halt_on_error=0 exitcode=0 history_size=3")
			}(i)
		}
		wg.Wait()

		// ---- scheduler results
		type agg struct {
			scen.Stat
			outcomes map[uint64]struct{}
			shards   int
		}
		stats := map[string]*agg{}
		handlerPanics := map[string]map[string]interface{}{}
		var order []string
		var samples []interface{}
		var allSamples []scen.Sample
		for i, p := range schedP {
			if p.err != nil {
				c25HarnessError("scheduler worker %d failed: %v\n%s", i, p.err, c25Tail(p.stderr, 30))
			}
			for _, st := range p.out.Stats {
				a, ok := stats[st.Name]
				if !ok {
					a = &agg{outcomes: map[uint64]struct{}{}}
					a.Name, a.Bound, a.Complete, a.ByCost = st.Name, st.Bound, true, make([]int, st.Bound+1)
					stats[st.Name] = a
					order = append(order, st.Name)
				}
				a.shards++
				if st.Skip != "" {
					a.Skip = st.Skip
					continue
				}
				a.Executions += st.Executions
				a.Ran += st.Ran
				a.Transitions += st.Transitions
				a.Distinct += st.Distinct
				a.Nontrivial += st.Nontrivial
				a.Violating += st.Violating
				for k, v := range st.ByCost {
					if k < len(a.ByCost) {
						a.ByCost[k] += v
					}
				}
				if !st.Complete {
					a.Complete = false
				}
				if st.WallMS > a.WallMS {
					a.WallMS = st.WallMS
				}
				if st.BasePoints > 0 {
					a.BasePoints, a.Objects, a.SharedSites, a.SharedLabels = st.BasePoints, st.Objects, st.SharedSites, st.SharedLabels
				}
				if st.Eligible > 0 {
					a.Eligible, a.SharedObjs = st.Eligible, st.SharedObjs
				}
				for _, h := range st.Outcomes {
					a.outcomes[h] = struct{}{}
				}
			}
			for _, f := range p.out.Found {
				c.Rep.Add(report.Item{Property: "C25", Signature: f.Signature, Engine: "sched",
					Detail: fmt.Sprintf("scenario %s, schedule with %d preemption(s), %d deviation(s); %d execution(s) of this shard show it\n%s", f.Scenario, f.Cost, len(f.Devs), f.Count, f.Detail),
					Replay: c25Replay{Kind: "sched", Scenario: f.Scenario, Devs: f.Devs}})
			}
			for _, f := range p.out.Warned {
				k := f.Signature
				if handlerPanics[k] == nil {
					handlerPanics[k] = map[string]interface{}{"signature": k, "scenario": f.Scenario, "executions": 0, "schedule": f.Devs, "first_lines": c25Head(f.Detail, 2)}
				}
				handlerPanics[k]["executions"] = handlerPanics[k]["executions"].(int) + f.Count
			}
			allSamples = append(allSamples, p.out.Samples...)
		}
		// three schedules written out: a default one, one with whole calls interleaved, one with a preemption
		sort.SliceStable(allSamples, func(i, j int) bool { return allSamples[i].Scenario < allSamples[j].Scenario })
		pick := func(ok func(s *scen.Sample) bool) {
			for i := range allSamples {
				if ok(&allSamples[i]) {
					samples = append(samples, allSamples[i])
					return
				}
			}
		}
		pick(func(s *scen.Sample) bool { return len(s.Devs) == 0 })
		pick(func(s *scen.Sample) bool { return len(s.Devs) > 0 && s.Cost == 0 })
		pick(func(s *scen.Sample) bool { return s.Cost > 0 })
		sort.Strings(order)
		var states, transitions, execs, nontrivial, outcomes int64
		exhaustive := true
		var perScen []map[string]interface{}
		skipped := 0
		tierA := map[string]int64{}
		var incomplete []string
		for _, n := range order {
			a := stats[n]
			if a.Skip != "" {
				skipped++
				perScen = append(perScen, map[string]interface{}{"scenario": n, "skipped": a.Skip})
				continue
			}
			states += int64(a.Distinct)
			transitions += a.Transitions
			execs += int64(a.Executions)
			nontrivial += int64(a.Nontrivial)
			outcomes += int64(len(a.outcomes))
			if !a.Complete {
				exhaustive = false
				if a.Bound > 0 {
					incomplete = append(incomplete, n)
				}
			}
			if a.Bound == 0 {
				tierA["scenarios"]++
				tierA["executions"] += int64(a.Executions)
				tierA["nontrivial"] += int64(a.Nontrivial)
				tierA["distinct_outcomes"] += int64(len(a.outcomes))
				if !a.Complete {
					tierA["incomplete"]++
					incomplete = append(incomplete, n)
				}
				continue
			}
			perScen = append(perScen, map[string]interface{}{"scenario": n, "preemption_bound": a.Bound, "bound_completed": a.Complete, "executions": a.Executions,
				"executions_by_preemptions": a.ByCost, "scheduling_points": a.Transitions, "nontrivial_executions": a.Nontrivial, "distinct_outcomes": len(a.outcomes),
				"points_in_default_schedule": a.BasePoints, "lock_objects": a.Objects, "lock_objects_shared": a.SharedObjs, "shared_operation_sites": a.SharedSites, "shared_object_labels": a.SharedLabels,
				"preemption_points_in_default_schedule": a.Eligible, "violating_executions": a.Violating, "slowest_shard_wall_s": float64(a.WallMS) / 1000})
			fmt.Printf("  %-78s bound=%d complete=%v executions=%d %v nontrivial=%d outcomes=%d points=%d\n", n, a.Bound, a.Complete, a.Executions, a.ByCost, a.Nontrivial, len(a.outcomes), a.Transitions)
		}
		fmt.Printf("  tier A (0 preemptions, every placement of whole handler calls between ABCI calls): scenarios=%d executions=%d nontrivial=%d outcomes=%d skipped=%d\n",
			tierA["scenarios"], tierA["executions"], tierA["nontrivial"], tierA["distinct_outcomes"], skipped)

		// ---- race pass
		raceSummary := map[string]interface{}{"mode": "sampling, not exhaustive", "repetitions_per_scenario": reps}
		var warnings []string
		warnSeen := map[string]bool{}
		var raceScen []map[string]interface{}
		reports := 0
		for i, p := range raceP {
			if p.err != nil {
				if strings.Contains(p.stderr, "fatal error: concurrent map") {
					top := "?"
					for _, l := range strings.Split(p.stderr, "\n") {
						if strings.HasPrefix(l, "github.com/MinterTeam/minter-go-node/") {
							top = strings.TrimPrefix(l, "github.com/MinterTeam/minter-go-node/")
							if j := strings.LastIndex(top, "("); j > 0 {
								top = top[:j]
							}
							break
						}
					}
					c.Rep.Add(report.Item{Property: "C25", Signature: "map-race|fatal-error|" + top, Engine: "sched",
						Detail: "the free-running binary died with a runtime fatal error:\n" + c25Tail(p.stderr, 80), Replay: c25Replay{Kind: "race", Tier: c.Tier}})
					continue
				}
				c25HarnessError("race worker %d failed: %v\n%s", i, p.err, c25Tail(p.stderr, 30))
			}
			ro := p.out.Race
			lb, _ := os.ReadFile(ro.LogFile)
			reports += c25RaceFindings(ro, string(lb), func(sc string, r *scen.RaceReport) {
				c.Rep.Add(report.Item{Property: "C25", Signature: r.Signature(), Engine: "sched",
					Detail:  fmt.Sprintf("scenario %s, free-running pass under the race detector: an unsynchronised map access (the runtime turns an actual overlap into `fatal error: concurrent map …`)\n%s", sc, r.Text),
					Replay: c25Replay{Kind: "race", Scenario: sc, Signature: r.Signature(), Tier: c.Tier}})
			}, func(sc string, r *scen.RaceReport) {
				s := r.Signature()
				if !warnSeen[s] {
					warnSeen[s] = true
					warnings = append(warnings, s)
				}
			})
			for _, rs := range ro.Scenarios {
				raceScen = append(raceScen, map[string]interface{}{"scenario": rs.Name, "repetitions": rs.Reps, "distinct_outcomes": rs.Outcomes, "skipped": rs.Skip, "wall_s": float64(rs.WallMS) / 1000})
				for _, f := range rs.Warned {
					k := f.Signature
					if handlerPanics[k] == nil {
						handlerPanics[k] = map[string]interface{}{"signature": k, "scenario": f.Scenario, "executions": 0, "first_lines": c25Head(f.Detail, 3), "seen_in": "race pass"}
					}
					handlerPanics[k]["executions"] = handlerPanics[k]["executions"].(int) + f.Count
				}
				for _, f := range rs.Found {
					c.Rep.Add(report.Item{Property: "C25", Signature: f.Signature, Engine: "sched", Detail: fmt.Sprintf("scenario %s\n%s", f.Scenario, f.Detail),
						Replay: c25Replay{Kind: "race", Scenario: f.Scenario, Signature: f.Signature, Tier: c.Tier}})
				}
			}
		}
		sort.Strings(warnings)
		raceSummary["reports_parsed"] = reports
		raceSummary["other_races_warnings_only"] = warnings
		raceSummary["scenarios"] = raceScen
		fmt.Printf("  race pass (sampling): scenarios=%d reports=%d non-map races (warnings only)=%d\n", len(raceScen), reports, len(warnings))

		cv := c.Ev.Coverage
		cv["states"] = states
		cv["transitions"] = transitions
		cv["traces_validated_against_impl"] = execs
		cv["nontrivial"] = nontrivial
		cv["distinct_outcomes"] = outcomes
		if len(samples) == 0 {
			samples = []interface{}{"(no execution)"}
		}
		cv["samples"] = samples
		cv["exhaustive"] = exhaustive
		cv["scenarios_preempted"] = perScen
		cv["tier_a"] = tierA
		cv["scenarios_skipped"] = skipped
		cv["scenarios_incomplete"] = incomplete
		if len(incomplete) > 0 {
			fmt.Printf("  incomplete (execution cap per shard or deadline reached): %v\n", incomplete)
		}
		cv["race_pass"] = raceSummary
		var hp []interface{}
		var hpKeys []string
		for k := range handlerPanics {
			hpKeys = append(hpKeys, k)
		}
		sort.Strings(hpKeys)
		for _, k := range hpKeys {
			hp = append(hp, handlerPanics[k])
		}
		cv["handler_panics_recovered_by_grpc_middleware"] = hp
		if len(hp) > 0 {
			fmt.Printf("  handler panics (recovered by grpc_recovery in the real server; warnings, VERIF_C25_STRICT=1 makes them violations): %d signatures\n", len(hp))
			for _, k := range hpKeys {
				fmt.Printf("    %s (%v executions)\n", k, handlerPanics[k]["executions"])
			}
		}
		cv["workers"] = map[string]int{"scheduler": nSched, "race": nRace}
		cv["max_executions_per_scenario_and_shard"] = maxExec
		cv["rule"] = "states = distinct schedules (hand-over sequences) executed, each on a fresh node; transitions = scheduling points (lock / waitgroup operations and ABCI-call boundaries) executed; " +
			"an execution is non-trivial when at least one thread was suspended unfinished while another ran; schedules are enumerated depth-first as deviations from 'keep running the current thread', " +
			"cost = preemptions (switching away from a thread that could continue, other than at an ABCI-call / handler-call boundary), bound per scenario; " +
			"preemptions are tried only before operations on lock objects that another thread also touches: either in one of the zero-preemption executions of the scenario (objects are matched across executions by a per-thread label: the thread, the code site of its first operation on the object, and the sequence number among the objects it first used there) or already in the execution being extended"
		c.Ev.Assumptions = append(c.Ev.Assumptions,
			"IAVL, tm-db, the harness DB and everything else that does not import the rewritten sync package run atomically between two scheduling points (their own thread-safety is trusted)",
			"channels / select / atomics in the explored code are not scheduling points (the explored paths use ctx.Done() polls and atomic.Value only)",
			"the cooperative scheduler's hand-overs are happens-before edges: unsynchronised accesses are only visible to the free-running -race pass, which samples timings (race_pass.mode)",
			"the reduction profile comes from the zero-preemption executions: a lock object that two threads share only in states unreachable without preemption is missed",
			"a panic inside a handler is recovered by grpc_recovery.UnaryServerInterceptor in the real server (api/v2/v2.go) and answered with codes.Internal: it is listed under handler_panics_recovered_by_grpc_middleware and is not a violation (set VERIF_C25_STRICT=1 to make it one); what it leaves behind is judged by the rest of the execution",
			"tier A uses one-transaction blocks (every menu item of the worlds) with CheckTx before DeliverTx; queries run with height 0 (live state)")
	}})
}
