package checks

import (
	"fmt"

	"verif/explore"
	"verif/monitors"
	"verif/worlds"
)

// C17 — validator set and powers follow the stake ranking.
//
// Reading of the property text used here (the one the current code satisfies):
//  * "at most 64" validators, "at least 1000 base-coin": as written.
//  * "Candidates ranked beyond the first 100 are removed": the removal in
//    Candidates.RecalculateStakesV2 really uses 100 (ranking: total stake descending, ties by
//    lower id first). validators.GetCandidatesCountForBlock() returns 192, but that number only
//    gates DeclareCandidacy (a 101st…192nd candidate can be declared with any stake and lives until the
//    next update). The oracle demands removal beyond rank 100 at every update; the 192 is reported to
//    the lead as a text/code curiosity, not fired on.
//  * "replaces the smallest stake only if it is not smaller": judged where the replacement happens (the
//    stake recalculation of an update): among more than 1000 entries the 1000 largest hold the slots, an
//    incoming entry wins a tie against existing stakes, every loser appears in the waitlist with its
//    full value. (The Delegate transaction itself refuses a value that is not larger than some stake
//    of a full candidate; that is stricter than the text and allowed by it.)
//
// Every update inside a history is judged by monitors.ValidatorRanking on the states before/after the
// block and the ValidatorUpdates of EndBlock; InitChain (import + first update) is judged as a
// transition from the genesis document to the first state.

func init() {
	cut := []string{"stakecut-0", "stakecut-1", "stakecut-2", "stakecut-3"}
	runs := func(quick bool) []c16Run {
		n := 3
		if !quick {
			n = 4
		}
		return []c16Run{
			{Worlds: []string{"stake"}, Quick: b(2, 2, 2), Thorough: b(3, 2, 3)},
			{Worlds: []string{"stake6"}, Quick: b(1, 1, 2), Thorough: b(2, 2, 3)},
			{Worlds: []string{"stakepending"}, Quick: b(1, 1, 3), Thorough: b(2, 2, 4)},
			{Worlds: []string{"stakefull"}, Quick: b(1, 1, 2), Thorough: b(2, 2, 3)},
			{Worlds: []string{"stakefullcoin"}, Quick: b(2, 2, 3), Thorough: b(3, 2, 3)},
			{Worlds: []string{"stakemany"}, Quick: b(1, 1, 2), Thorough: b(2, 1, 3)},
			{Worlds: []string{"stakemany102"}, Quick: b(1, 1, 2), Thorough: b(1, 1, 3)},
			{Worlds: []string{"stakemanytie"}, Quick: b(1, 1, 2), Thorough: b(2, 2, 3)},
			{Worlds: worlds.C16GridWorldNames(n), Label: fmt.Sprintf("stakegrid%d", n), Quick: b(1, 1, 2), Thorough: b(2, 2, 2)},
			{Worlds: cut, Label: "stakecut", Quick: b(1, 1, 2), Thorough: b(2, 2, 2)},
		}
	}
	MonitorsFor["C17"] = one(monitors.ValidatorRanking{})
	Register(&Check{ID: "C17", Level: "model_checking", Run: func(c *Ctx) {
		c16Explore(c, "C17", runs(c.Quick()), func() explore.Monitor { return monitors.ValidatorRanking{} })
		c.Ev.Coverage["grid_rule"] = "stakegridN-<code>: one fixed validator plus N candidates, each taking every (status on/off) x (stake 1000 BIP - 1 pip, exactly 1000 BIP, 1500 BIP) combination (6^N genesis documents, ties included); stakecut-v: 66 online candidates around the 64-seat cut (all distinct / ranks 64-66 tied / ranks 64 and 65 one pip apart / ranks 63-66 tied); each with its menu (set on/off, +1 pip, -1 pip) within the bounds; InitChain and the boundary at block 2 are both judged"
		c.Ev.Coverage["oracle"] = "reference model on the exported states: validators == the (at most 64) online candidates with total stake >= 1000 BIP of largest total stake (ties at the cut as a set), validator stake == candidate total == sum of the stakes' base-coin values, ValidatorUpdates power == max(1, floor(stake*10^8/sum)) and power 0 exactly for the validators that left; no candidate beyond rank 100 (total desc, id asc) survives unless it was a validator when the update started, no such validator is ever removed, a removed candidate is listed as deleted and everything it held is frozen for 531 blocks; slot rule: of more than 1000 entries the 1000 largest hold the slots, incoming entries win ties, each loser is wait-listed with its full value"
		c.Ev.Assumptions = append(c.Ev.Assumptions,
			"the validator set handed to Tendermint at InitChain is not observable through the lab (ResponseInitChain is dropped); the state after InitChain is judged instead",
			"base-coin values of custom-coin stakes (bancor formula) are taken from the export (C12 covers the formula); the slot model is exact for base-coin entries",
			"rewards restaked into validators' candidates at payout boundaries are outside the slot model: slot/removal value checks are made on candidates that are not validators and are not named by a transaction of the update block",
			"the export(live)==export(disk) comparison of every state is switched off in these runs (C09 covers it)")
	}})
}
