package checks

import (
	"verif/monitors"
)

// C28X: node-level part of C28 (block reward rule and emission cap); the pure price function is
// covered by the lattice check C28L. Explorer over the "mint" family (worlds/mint.go): StakePeriod 4,
// blocks at heights ≡ 0, 1, 2 (mod 4), environments = times of day around the 12:00–14:59 window,
// genesis PrevReward times that make the 3-hour rule decide, pool trades moving the price, emission
// far from / 1 pip below / one reward below / at the cap, and a world without the BIP/USDT pool.
// Oracle: monitors.BlockReward.

func c28xEnvsAt(perDepth ...[]int) func(depth, env int) bool {
	return func(depth, env int) bool {
		if depth >= len(perDepth) {
			return true
		}
		for _, e := range perDepth[depth] {
			if e == env {
				return true
			}
		}
		return false
	}
}

func init() {
	// environment indexes: 0 = +5 s, 1 = 11:59:59, 2 = 12:00:00, 3 = 12:00:01, 4 = 14:59:59, 5 = 15:00:00
	all := []int{0, 1, 2, 3, 4, 5}
	few := []int{0, 3}
	// six blocks: two firsts of a period (blocks 2 and 6); quiet blocks only advance by 5 s
	six := c28xEnvsAt([]int{0}, all, []int{0}, []int{0}, []int{0}, all)
	runs := []WorldRun{
		{World: "mint", Quick: b(1, 1, 3), Thorough: b(2, 1, 3), EnvFilter: c28xEnvsAt(few, all, all)},
		{World: "mint-day", Quick: b(1, 1, 2), EnvFilter: c28xEnvsAt([]int{0, 2}, all)},
		{World: "mint-sameday", Quick: b(0, 1, 2), EnvFilter: c28xEnvsAt([]int{0, 5}, all)},
		{World: "mint-rec", Quick: b(2, 1, 3), EnvFilter: c28xEnvsAt([]int{0}, all, []int{0, 3, 5})},
		{World: "mint-rec70", Quick: b(0, 1, 3), EnvFilter: c28xEnvsAt([]int{0}, []int{0, 3}, few)},
		{World: "mint-nopool", Quick: b(1, 1, 2), EnvFilter: c28xEnvsAt(few, all)},
		{World: "mint-cap0", Quick: b(1, 1, 3), EnvFilter: c28xEnvsAt(few, few, few)},
		{World: "mint-cap1", Quick: b(1, 1, 3), EnvFilter: c28xEnvsAt(few, few, few)},
		{World: "mint-capR", Quick: b(1, 1, 3), EnvFilter: c28xEnvsAt(few, few, few)},
	}
	for i := range runs {
		if runs[i].Thorough.B == 0 {
			runs[i].Thorough = runs[i].Quick
		}
	}
	// thorough: two updates in one history (recovery by 10 BIP twice, second update on the same day refused)
	runs = append(runs,
		WorldRun{World: "mint", Quick: b(0, 0, 0), Thorough: b(2, 1, 6), EnvFilter: six},
		WorldRun{World: "mint-rec", Quick: b(0, 0, 0), Thorough: b(2, 1, 6), EnvFilter: six},
		WorldRun{World: "mint-nopool", Quick: b(0, 0, 0), Thorough: b(1, 1, 6), EnvFilter: six},
	)
	regExplore("C28X", runs, one(monitors.BlockReward{}), func(c *Ctx) {
		c.Ev.Coverage["oracle"] = "state machine over the whole history: update iff first block of a period, 12:00:00-14:59:59 UTC, more than 3 h after the last update, emission below the cap; level 350*p^(1/4) by 512-bit floats (relative tolerance 1e-12); percentage by exact rationals with floor; per block: emission delta == level (0 at the cap), validators' accumulated rewards == share, zero address == level - share"
		c.Ev.Coverage["rule_branches_exercised"] = monitors.C28XStats()
		c.Ev.Assumptions = append(c.Ev.Assumptions,
			"transaction fees of a block are taken from Blockchain.GetCurrentRewards() (C27's subject) when the validators' share is measured",
			"the validators' share is not measured on payout blocks (height divisible by the stake period)")
	})
}
