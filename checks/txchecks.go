package checks

import (
	"verif/explore"
	"verif/monitors"
	"verif/worlds"
)

var baseAssumptions = []string{
	"IAVL, tm-db MemDB and the Go runtime are trusted",
	"block execution is driven through the ABCI methods of minter.Blockchain on harness-owned in-memory databases (vdb) instead of LevelDB",
	"os.Exit in coreV2/minter is replaced by a panic sentinel through a build overlay",
}

func b(t, k, bl int) explore.Bounds { return explore.Bounds{T: t, K: k, B: bl} }

func one(m ...explore.Monitor) func(*worlds.World) []explore.Monitor {
	return func(*worlds.World) []explore.Monitor { return m }
}

// regExplore registers an explorer-based check.
func regExplore(id string, runs []WorldRun, mons func(*worlds.World) []explore.Monitor, extra ...func(c *Ctx)) {
	MonitorsFor[id] = mons
	Register(&Check{ID: id, Level: "model_checking", Run: func(c *Ctx) {
		RunExplore(c, runs, mons, baseAssumptions...)
		for _, f := range extra {
			f(c)
		}
	}})
}

// The transaction worlds shared by the generic monitors. Replays are history-dependent menu
// items that only C04 and C26 need; everybody else filters them out, which lets states merge.
var (
	wrPayReplay = WorldRun{World: "pay", Quick: b(2, 2, 2), Thorough: b(3, 2, 3)}
	wrPay       = WorldRun{World: "pay", Quick: b(2, 2, 2), Thorough: b(3, 2, 3), MenuFilter: noReplay}
	wrCoin      = WorldRun{World: "coin", Quick: b(2, 2, 2), Thorough: b(3, 2, 3), OneEnv: true}
	wrPool      = WorldRun{World: "pool", Quick: b(2, 2, 2), Thorough: b(3, 2, 2), OneEnv: true}
	wrBook      = WorldRun{World: "book", Quick: b(2, 2, 2), Thorough: b(3, 2, 3), OneEnv: true}
	wrBookTiny  = WorldRun{World: "booktiny", Quick: b(3, 3, 2), Thorough: b(4, 3, 2), OneEnv: true}
	wrStake     = WorldRun{World: "stake", Quick: b(2, 2, 2), Thorough: b(3, 2, 2), OneEnv: true}
	wrPoolFee   = WorldRun{World: "poolfee", Quick: b(2, 2, 1), Thorough: b(3, 3, 2), OneEnv: true}
)

// txWorlds are the worlds over which the generic per-transaction monitors run.
func txWorlds() []WorldRun {
	return []WorldRun{wrPay, wrCoin, wrPool, wrBook, wrStake, wrBookTiny, wrPoolFee}
}

func init() {
	// both speak about "every committed height": the amounts of the committed state must be the node's
	amounts := []string{"acct/", "coin/", "pool/", "cand/", "frozen/", "wait/", "order/", "total_slashed"}
	regExplore("C01", txWorlds(), one(monitors.Committed(monitors.Conservation{}, amounts...)))
	regExplore("C02", txWorlds(), one(monitors.Committed(monitors.NonNegative{}, amounts...)))
	// C03: the twin monitor plus the inert-rejection probe (checks/c03_inert.go)
	MonitorsFor["C03"] = one(monitors.FailedTxOnlyFee{})
	Register(&Check{ID: "C03", Level: "model_checking", Run: func(c *Ctx) {
		var probes int64
		runs := txWorlds()
		for i := range runs {
			inert, same := c03InertProbe(c, &probes), c03SameFailure(&probes)
			runs[i].OnTransition = func(t *explore.Transition, newState bool) []explore.Violation {
				return append(inert(t, newState), same(t, newState)...)
			}
		}
		RunExplore(c, runs, one(monitors.FailedTxOnlyFee{}), baseAssumptions...)
		c.Ev.Coverage["inert_rejection_probe_pairs"] = probes
		c.Ev.Coverage["inert_rejection_rule"] = "for every rejected transaction t whose block twin shows no difference at all (quick: only when t is the first transaction on the genesis state) and every menu transaction p, the blocks [..,t,p] and [..,p] must give p the same response and leave the same state"
		if old, ok := c.Ev.Coverage["traces_validated_against_impl"].(int64); ok {
			c.Ev.Coverage["traces_validated_against_impl"] = old + 2*probes
		}
	}})
	// C05 keeps the history-dependent items of the pay world (replays, forged bodies carrying an earlier signature)
	regExplore("C05", append([]WorldRun{wrPayReplay}, txWorlds()[1:]...), one(monitors.Authorization{}))
	regExplore("C22", []WorldRun{wrCoin, wrPool}, one(monitors.Registry{}))
	// paytable: the pay world under a price table denominated in a custom coin
	regExplore("C27", append(txWorlds(), WorldRun{World: "paytable", Quick: b(2, 2, 1), Thorough: b(2, 2, 2), MenuFilter: noReplay, OneEnv: true}),
		// the price table the fees are judged by is the node's own: it has to be the committed one
		one(monitors.Committed(monitors.Fees{}, "commission/")))
	regExplore("C04", []WorldRun{wrPayReplay}, one(monitors.OnceInOrder{}))
	// C07: the transaction worlds, the block-environment worlds (evidence, absences, block
	// times, period boundaries), then the byte-edit neighbourhoods
	c07 := []WorldRun{
		wrPoolFee, wrCoin, wrPool, wrBook,
		{World: "bookdisk", Quick: b(2, 2, 1), Thorough: b(3, 3, 1)},
		{World: "mint", Quick: b(1, 1, 2), Thorough: b(1, 1, 3)},
		{World: "mint-nopool", Quick: b(1, 1, 2), Thorough: b(1, 1, 3)},
		{World: "valbyz", Quick: b(0, 0, 3), Thorough: b(2, 1, 4)},
		wrBookTiny, wrStake,
		{World: "val", Quick: b(1, 1, 2), Thorough: b(1, 1, 3)},
		wrPay,
		{World: "stakemany", Quick: b(0, 0, 2), Thorough: b(1, 1, 3)},
		{World: "stakepending", Quick: b(1, 1, 2), Thorough: b(2, 1, 4)},
	}
	// the byte-edit pass runs first (it is cheap); the explorations follow in ascending cost, so that
	// a tier's time budget running out cuts the most expensive tail only (reported as exhaustive=false)
	MonitorsFor["C07"] = one(monitors.NoCrash{})
	Register(&Check{ID: "C07", Level: "model_checking", Run: func(c *Ctx) {
		RunC07Bytes(c)
		RunExplore(c, c07, one(monitors.NoCrash{}), baseAssumptions...)
	}})
	regExplore("C21", []WorldRun{wrPay}, one(monitors.Committed(monitors.Checks{}, "check/")))
	regExplore("C26", []WorldRun{wrPayReplay, {World: "pool", Quick: b(2, 2, 1), Thorough: b(2, 2, 2), OneEnv: true, Prepare: addReplayItems}}, one(monitors.ChargedOnce{}))
	c06 := txWorlds()
	for i := range c06 {
		c06[i].CheckFirst = true
		// "the same state": the CheckTx issued before every DeliverTx must leave no trace. Twin: the
		// same history without any CheckTx; responses of the last block and the app hash must agree.
		c06[i].OnTransition = c06NoTrace
	}
	regExplore("C06", c06, one(monitors.CheckEqDeliver{}))
}

// addReplayItems appends the two replay items to a world's menu.
func addReplayItems(w *worlds.World) {
	w.Menu = append(w.Menu, worlds.Tx{Name: "replay last", Replay: 1}, worlds.Tx{Name: "replay 2nd last", Replay: 2})
	w.UsesReplay = true
}
