package checks

import (
	"verif/explore"
	"verif/monitors"
	"verif/worlds"
)

var baseAssumptions = []string{
	"IAVL, tm-db MemDB and the Go runtime are trusted",
	"block execution is driven through the ABCI methods of minter.Blockchain on harness-owned in-memory databases (vdb) instead of LevelDB",
	"os.Exit in coreV2/minter is replaced by a panic sentinel through a build overlay",
}

func b(t, k, bl int) explore.Bounds { return explore.Bounds{T: t, K: k, B: bl} }

func one(m ...explore.Monitor) func(*worlds.World) []explore.Monitor {
	return func(*worlds.World) []explore.Monitor { return m }
}

// regExplore registers an explorer-based check.
func regExplore(id string, runs []WorldRun, mons func(*worlds.World) []explore.Monitor, extra ...func(c *Ctx)) {
	MonitorsFor[id] = mons
	Register(&Check{ID: id, Level: "model_checking", Run: func(c *Ctx) {
		RunExplore(c, runs, mons, baseAssumptions...)
		for _, f := range extra {
			f(c)
		}
	}})
}

func init() {
	pay := []WorldRun{{World: "pay", Quick: b(2, 2, 2), Thorough: b(3, 2, 3)}}
	coin := WorldRun{World: "coin", Quick: b(2, 2, 2), Thorough: b(3, 2, 3), OneEnv: true}
	pay = append(pay, coin)
	regExplore("C01", pay, one(monitors.Conservation{}))
	regExplore("C02", pay, one(monitors.NonNegative{}))
	regExplore("C03", pay, one(monitors.FailedTxOnlyFee{}))
	regExplore("C22", []WorldRun{coin}, one(monitors.Registry{}))
	regExplore("C27", pay, one(monitors.Fees{}))
	regExplore("C04", pay, one(monitors.OnceInOrder{}))
	regExplore("C07", pay, one(monitors.NoCrash{}))
	regExplore("C26", pay, one(monitors.ChargedOnce{}))
	regExplore("C06", []WorldRun{{World: "pay", Quick: b(2, 2, 2), Thorough: b(3, 2, 3), CheckFirst: true}}, one(monitors.CheckEqDeliver{}))
}
