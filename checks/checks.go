// Package checks registers one check per property.
package checks

import (
	"fmt"
	"os"
	"path/filepath"
	"runtime"
	"runtime/debug"
	"sort"
	"strconv"
	"strings"
	"syscall"
	"time"

	"verif/explore"
	"verif/report"
	"verif/worlds"
)

// Ctx is the context of one check run.
type Ctx struct {
	ID       string
	Tier     string
	Seed     int64
	Start    time.Time
	Deadline time.Time
	Rep      *report.Reporter
	Ev       *report.Evidence
	StatID   string // see sid()
}

// Quick reports whether the quick tier runs.
func (c *Ctx) Quick() bool { return c.Tier != "thorough" }

// Check is a registered check.
type Check struct {
	ID    string
	Level string // model_checking | fault_enumeration | exploration
	Run   func(c *Ctx)
}

var registry = map[string]*Check{}

// Register adds a check.
func Register(c *Check) { registry[c.ID] = c }

// Get looks a check up.
func Get(id string) *Check { return registry[id] }

// IDs lists the registered checks.
func IDs() []string {
	var out []string
	for k := range registry {
		out = append(out, k)
	}
	sort.Strings(out)
	return out
}

// budget returns the internal time cap of a tier (exceeding it ends the run with exhaustive=false, exit 0).
func budget(tier string) time.Duration {
	if v := os.Getenv("VERIF_BUDGET_S"); v != "" {
		if n, err := strconv.Atoi(v); err == nil {
			return time.Duration(n) * time.Second
		}
	}
	if tier == "thorough" {
		return 40 * time.Minute
	}
	return 9 * time.Minute
}

// Main runs a check and returns the process exit code.
func Main(id, tier string) int {
	ck := Get(id)
	if ck == nil {
		fmt.Fprintf(os.Stderr, "unknown check %s (have %v)\n", id, IDs())
		return 2
	}
	seed, _ := strconv.ParseInt(os.Getenv("VERIF_SEED"), 10, 64)
	c := &Ctx{ID: id, Tier: tier, Seed: seed, Start: time.Now()}
	c.Deadline = c.Start.Add(budget(tier))
	c.Rep = report.New(id)
	c.Ev = &report.Evidence{PropertyID: id, Tier: tier, Seed: seed, Level: ck.Level, Coverage: map[string]interface{}{}}
	explore.LoadPoison()
	stopWatch := watchdog(c)
	ck.Run(c)
	close(stopWatch)
	if len(explore.Poisoned) > 0 {
		var l []string
		for _, s := range explore.Poisoned {
			l = append(l, s.String())
		}
		c.Ev.Coverage["abandoned_blocks"] = l
		c.Ev.Coverage["abandoned_blocks_rule"] = "blocks that did not finish in an earlier process of this run (watchdog: 10 minutes or 24 GiB); the run was started over and these blocks end with a fault of kind hang, which C07 reports and twins compare"
		os.Remove(os.Getenv("VERIF_POISON"))
	}
	if d := explore.MaxExecution(); d > 0 {
		c.Ev.Coverage["longest_execution_s"] = d.Seconds()
	}
	res := c.Rep.Finish()
	c.Ev.Violations = res.Violations
	if res.Known == nil {
		res.Known = []string{}
	}
	c.Ev.Coverage["known_findings_seen"] = res.Known
	c.Ev.Write(c.Start)
	fmt.Printf("check %s %s: violations=%d known=%d wall=%.1fs exhaustive=%v\n", id, tier, res.Violations, len(res.Known), time.Since(c.Start).Seconds(), c.Ev.Coverage["exhaustive"])
	if res.Violations > 0 {
		return 1
	}
	return 0
}

// WorldRun is one exploration of a world within a check.
type WorldRun struct {
	World      string
	Quick      explore.Bounds
	Thorough   explore.Bounds
	NoDedupe   bool
	CheckFirst bool
	OneEnv     bool // only environment 0
	EnvFilter  func(depth, env int) bool
	MenuFilter func(w *worlds.World) func(depth int, prefix []int, item int) bool
	Monitors   func(w *worlds.World) []explore.Monitor // overrides the check's monitors
	OnTransition func(t *explore.Transition, newState bool) []explore.Violation
	Prepare      func(w *worlds.World) // adjusts the world object before the search
}

// replayPayload is what a replay file of the explorer engine contains.
type replayPayload struct {
	World      string          `json:"world"`
	History    explore.History `json:"history"`
	CheckFirst bool            `json:"check_first,omitempty"`
	Rendered   string          `json:"rendered"`
}

// RunExplore runs the explorer over the given worlds and fills the evidence.
func RunExplore(c *Ctx, runs []WorldRun, mons func(w *worlds.World) []explore.Monitor, assumptions ...string) {
	var states, transitions, histories, blocks, evals, nontrivial int64
	distinct := 0
	outcomes := 0
	exhaustive := true
	var samples []interface{}
	var perWorld []map[string]interface{}
	for _, r := range runs {
		w := worlds.Get(r.World)
		if r.Prepare != nil {
			r.Prepare(w)
		}
		b := r.Quick
		if !c.Quick() {
			b = r.Thorough
		}
		cfg := explore.Config{World: w, Bounds: b, Dedupe: !r.NoDedupe, Deadline: c.Deadline, Opts: explore.Opts{CheckFirst: r.CheckFirst}}
		if r.Monitors != nil {
			cfg.Monitors = r.Monitors(w)
		} else {
			cfg.Monitors = mons(w)
		}
		cfg.EnvFilter = r.EnvFilter
		if r.OneEnv {
			cfg.EnvFilter = func(depth, env int) bool { return env == 0 }
		}
		if r.MenuFilter != nil {
			cfg.MenuFilter = r.MenuFilter(w)
		}
		cfg.OnTransition = r.OnTransition
		st, vs := explore.Search(cfg)
		for _, v := range vs {
			engine := "explore"
			if e, ok := v.Extra["engine"].(string); ok {
				engine = e
			}
			c.Rep.Add(report.Item{Property: v.Property, Signature: v.Signature, Detail: fmt.Sprintf("world %s, history %s\n%s", v.World, v.Hist.String(), v.Detail), Engine: engine,
				Replay: mergeExtra(replayPayload{World: v.World, History: v.Hist, CheckFirst: r.CheckFirst}, v.Extra)})
		}
		states += st.States
		transitions += st.Transitions
		histories += st.Histories
		blocks += st.BlocksRun
		evals += st.MonitorEvals[c.sid()]
		nontrivial += st.Nontrivial[c.sid()]
		distinct += len(st.NontrivialDistinct[c.sid()])
		outcomes += len(st.Outcomes)
		if !st.Exhaustive {
			exhaustive = false
		}
		for _, s := range st.Samples {
			if len(samples) < 6 {
				samples = append(samples, s)
			}
		}
		perWorld = append(perWorld, map[string]interface{}{"world": r.World, "bounds": b.String(), "dedupe": !r.NoDedupe, "states": st.States, "transitions": st.Transitions,
			"histories_executed": st.Histories, "blocks_executed": st.BlocksRun, "levels_completed": st.LevelsDone, "exhaustive": st.Exhaustive, "distinct_outcomes": len(st.Outcomes),
			"monitor_evaluations": st.MonitorEvals[c.sid()], "nontrivial": st.Nontrivial[c.sid()], "faults_seen": st.Faults, "wall_s": st.Wall.Seconds(), "menu": len(w.Menu), "envs": len(w.Envs)})
		fmt.Printf("  world %-10s %s states=%d transitions=%d histories=%d outcomes=%d nontrivial=%d exhaustive=%v wall=%.1fs\n", r.World, b, st.States, st.Transitions, st.Histories, len(st.Outcomes), st.Nontrivial[c.sid()], st.Exhaustive, st.Wall.Seconds())
	}
	cv := c.Ev.Coverage
	addI := func(k string, v int64) {
		old, _ := cv[k].(int64)
		cv[k] = old + v
	}
	addI("states", states)
	addI("transitions", transitions)
	addI("traces_validated_against_impl", histories)
	addI("blocks_executed_on_impl", blocks)
	addI("evaluations", evals)
	addI("nontrivial_evaluations", nontrivial)
	addI("distinct_nontrivial", int64(distinct))
	addI("distinct_outcomes", int64(outcomes))
	if old, ok := cv["samples"].([]interface{}); ok {
		samples = append(old, samples...)
	}
	if len(samples) == 0 {
		samples = []interface{}{"(no transaction-bearing transition in this run)"}
	}
	cv["samples"] = samples
	if old, ok := cv["exhaustive"].(bool); ok {
		exhaustive = exhaustive && old
	}
	cv["exhaustive"] = exhaustive
	if old, ok := cv["worlds"].([]map[string]interface{}); ok {
		perWorld = append(old, perWorld...)
	}
	cv["worlds"] = perWorld
	cv["rule"] = "breadth-first enumeration of all histories of the world within the bounds (every menu transaction list of length<=K in every block, every environment, <=T transactions, <=B blocks, closed by one empty block); every history is executed on a fresh real node; a case is non-trivial when the property's guarded mechanism fired (see DESIGN.md §6), distinct = distinct (depth, response-code vector)"
	c.Ev.Assumptions = append(c.Ev.Assumptions, assumptions...)
}

// mergeExtra adds the engine-specific fields of a violation to the replay payload.
func mergeExtra(p replayPayload, extra map[string]interface{}) interface{} {
	if len(extra) == 0 {
		return p
	}
	m := map[string]interface{}{"world": p.World, "history": p.History, "check_first": p.CheckFirst}
	for k, v := range extra {
		m[k] = v
	}
	return m
}

// sid is the property id under which the monitors of this run report (StatID overrides ID
// when a property is assembled from parts built under temporary ids).
func (c *Ctx) sid() string {
	if c.StatID != "" {
		return c.StatID
	}
	return c.ID
}

// watchdog aborts the process (exit 2: harness error, never a VIOLATION line) when an execution
// has been running for 10 minutes or the process holds more than 24 GiB: an infinite loop or
// unbounded allocation in the code under test would otherwise take the machine down. The
// suspects are named so that the run can be repeated on the single history.
func watchdog(c *Ctx) chan struct{} {
	stop := make(chan struct{})
	go func() {
		for {
			select {
			case <-stop:
				return
			case <-time.After(5 * time.Second):
			}
			var ms runtime.MemStats
			runtime.ReadMemStats(&ms)
			if ms.Sys > 12<<30 {
				debug.SetGCPercent(100) // the harness itself must not be what fills the memory
			}
			// every engine watches its deadline (the tier's budget) and winds down on its own; a check
			// still running at four times the budget is stuck in code that cannot be interrupted
			if b := c.Deadline.Sub(c.Start); time.Since(c.Start) > 4*b && len(explore.InFlight(time.Minute)) == 0 {
				fmt.Printf("harness error: check %s did not finish within four times its time budget (%s)\n", c.ID, b)
				os.Exit(2)
			}
			// an execution takes milliseconds, the fast-forward ones of the staking worlds up to a few
			// seconds (evidence field longest_execution_s); five minutes without returning is a block that
			// does not finish. All of them are abandoned at once.
			stuck := explore.InFlight(5 * time.Minute)
			if ms.Sys > 24<<30 || len(stuck) > 0 {
				if len(stuck) == 0 {
					// memory: the longest-running execution is the suspect, if it is running for two minutes
					// or more (an execution takes milliseconds, the longest fast-forward ones a few seconds)
					if l := explore.InFlight(2 * time.Minute); len(l) > 0 {
						stuck = l[:1]
					}
				}
				fmt.Printf("watchdog: check %s stopped (memory %d MiB, %d blocks that do not finish)\n", c.ID, ms.Sys>>20, len(stuck))
				for _, s := range stuck {
					fmt.Println("  abandoned:", s)
				}
				restarts, _ := strconv.Atoi(os.Getenv("VERIF_RESTARTS"))
				if len(stuck) == 0 || restarts >= 8 {
					fmt.Printf("harness error: check %s aborted by the watchdog\n", c.ID)
					os.Exit(2)
				}
				// start over in a new process that ends the abandoned blocks with a fault of kind "hang"
				path := os.Getenv("VERIF_POISON")
				if path == "" {
					root := os.Getenv("VERIF_ROOT")
					if root == "" {
						root = "/verif"
					}
					os.MkdirAll(filepath.Join(root, ".scratch"), 0o755)
					path = filepath.Join(root, ".scratch", fmt.Sprintf("abandoned-%s-%s-%d.json", c.ID, c.Tier, os.Getpid()))
				}
				if err := explore.SavePoison(path, stuck); err != nil {
					fmt.Println("harness error:", err)
					os.Exit(2)
				}
				env := []string{"VERIF_POISON=" + path, fmt.Sprintf("VERIF_RESTARTS=%d", restarts+1)}
				for _, e := range os.Environ() {
					if !strings.HasPrefix(e, "VERIF_POISON=") && !strings.HasPrefix(e, "VERIF_RESTARTS=") {
						env = append(env, e)
					}
				}
				exe, err := os.Executable()
				if err == nil {
					err = syscall.Exec(exe, os.Args, env)
				}
				fmt.Println("harness error: cannot start over:", err)
				os.Exit(2)
			}
		}
	}()
	return stop
}
