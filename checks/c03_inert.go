package checks

import (
	"bytes"
	"encoding/json"
	"fmt"
	"sync/atomic"

	"verif/explore"
	"verif/monitors"
	"verif/obs"
	"verif/worlds"
)

// Inert-rejection probe of C03. A rejected transaction that left no trace in the committed
// state (fee capped at 0, or rejected before the fee branch) must be invisible to everything
// that follows: for every menu transaction p, the block [.., t, p] must give p the same
// response and leave the same state as the block [.., p]. This is what exposes a rejected
// transaction that damaged an in-memory cache (order lists, dirty sets) without touching disk.
func c03InertProbe(c *Ctx, probes *int64) func(t *explore.Transition, newState bool) []explore.Violation {
	return func(t *explore.Transition, newState bool) []explore.Violation {
		r := t.LastTx()
		if r == nil || r.Resp.Code == 0 || t.Parent == nil || t.Cur.Fault != nil || t.Parent.Final() == nil || t.Cur.Final() == nil {
			return nil
		}
		if len(monitors.TwinDiff(t)) != 0 {
			return nil
		}
		h := t.Cur.Hist
		last := h[len(h)-1]
		n := len(last.Txs)
		if c.Quick() && (len(h) > 1 || n > 1) {
			return nil // quick: rejected transactions delivered first on the genesis state only
		}
		var out []explore.Violation
		for p := range t.W.Menu {
			if t.W.Menu[p].Replay != 0 || t.W.Menu[p].StealSig {
				continue
			}
			with := h.Clone()
			with[len(with)-1].Txs = append(append([]int{}, last.Txs...), p)
			without := h.Clone()
			without[len(without)-1].Txs = append(append([]int{}, last.Txs[:n-1]...), p)
			a := explore.Exec(t.W, with, explore.Opts{NoDisk: true, Pre: t.Cur.Pre})
			b := explore.Exec(t.W, without, explore.Opts{NoDisk: true, Pre: t.Cur.Pre})
			atomic.AddInt64(probes, 1)
			if (a.Fault == nil) != (b.Fault == nil) {
				out = append(out, explore.Violation{Extra: map[string]interface{}{"engine": "inert-probe"}, Property: "C03", Signature: "inert-rejection-changes-later-fault", Hist: with,
					Detail: fmt.Sprintf("after the rejected %q the next transaction %q: fault %v, without it: %v", r.T.Name, t.W.Menu[p].Name, a.Fault, b.Fault)})
				continue
			}
			if a.Fault != nil || a.Final() == nil || b.Final() == nil {
				continue
			}
			la, lb := a.Last(), b.Last()
			if len(la.Txs) == 0 || len(lb.Txs) == 0 {
				continue
			}
			ra, rb := la.Txs[len(la.Txs)-1], lb.Txs[len(lb.Txs)-1]
			ty := "?"
			if inf := monitors.Info(&ra); inf.OK {
				ty = inf.Type.String()
			}
			if ra.Resp.Code != rb.Resp.Code || !bytes.Equal(ra.Resp.Data, rb.Resp.Data) {
				out = append(out, explore.Violation{Extra: map[string]interface{}{"engine": "inert-probe"}, Property: "C03", Signature: "inert-rejection-changes-later-response|" + ty, Hist: with,
					Detail: fmt.Sprintf("after the rejected %q (which changed nothing on disk) the next transaction %q gets code %d, without it code %d", r.T.Name, t.W.Menu[p].Name, ra.Resp.Code, rb.Resp.Code)})
				continue
			}
			if d := obs.Diff(a.Final().Flat, b.Final().Flat); len(d) > 0 {
				out = append(out, explore.Violation{Extra: map[string]interface{}{"engine": "inert-probe"}, Property: "C03", Signature: "inert-rejection-changes-later-state|" + ty + "|" + obs.KeyClass(d[0].Key), Hist: with,
					Detail: fmt.Sprintf("after the rejected %q (which changed nothing on disk) the next transaction %q leaves a different state than without it: %d keys, first %s", r.T.Name, t.W.Menu[p].Name, len(d), d[0])})
			}
		}
		return out
	}
}

func init() {
	Replayers["inert-probe"] = func(property string, payload json.RawMessage) (bool, string) {
		var p replayPayload
		if err := json.Unmarshal(payload, &p); err != nil {
			return false, err.Error()
		}
		w := worlds.Get(p.World)
		h := p.History
		last := h[len(h)-1]
		n := len(last.Txs)
		if n < 2 {
			return false, "history has no (rejected, probe) pair in its last block"
		}
		without := h.Clone()
		without[len(without)-1].Txs = append(append([]int{}, last.Txs[:n-2]...), last.Txs[n-1])
		a, b := explore.Exec(w, h, explore.Opts{NoDisk: true}), explore.Exec(w, without, explore.Opts{NoDisk: true})
		text := "with the rejected transaction:    " + explore.Describe(a) + "\nwithout the rejected transaction: " + explore.Describe(b) + "\n"
		if a.Final() == nil || b.Final() == nil {
			return (a.Fault == nil) != (b.Fault == nil), text
		}
		ra, rb := a.Last().Txs[len(a.Last().Txs)-1], b.Last().Txs[len(b.Last().Txs)-1]
		if ra.Resp.Code != rb.Resp.Code {
			return true, text + fmt.Sprintf("probe response code %d vs %d", ra.Resp.Code, rb.Resp.Code)
		}
		if d := obs.Diff(a.Final().Flat, b.Final().Flat); len(d) > 0 {
			return true, text + fmt.Sprintf("states differ in %d keys, first %s", len(d), d[0])
		}
		return false, text
	}
}
