package checks

import (
	"sync/atomic"

	"verif/explore"
	"verif/monitors"
	"verif/worlds"
)

// C14 — limit orders: price, priority, exact refunds.
//
// Runs (all on the real node, every history from a fresh node):
//   book      — book built by transactions; blocks at heights +3,+4,+5, the closing empty block is the expiry boundary
//   book/ff   — the second block is fast-forwarded onto the expiry boundary: fills / cancels and expiry in ONE block
//   bookdisk  — book in the genesis pool, node re-opened after one block (orders paged in from disk)
// thorough adds deeper bounds, dedupe off, and restart variants: every explored history of >= 2 blocks is
// re-executed with the node object rebuilt from its databases (a) before the last block, (b) before every block
// but the first, and the monitor judges the transition of the restarted executions as well.

// c14Filter keeps the menu of the deep runs sharp: only items tagged "core" (the items that decide
// the rules), and as the first transaction of the first block only items tagged "open" (orders, one
// cancel and one trade on the empty book; every other item on an empty book is covered by the full-menu runs).
func c14Filter(w *worlds.World) func(depth int, prefix []int, item int) bool {
	has := func(item int, tag string) bool {
		for _, t := range w.Menu[item].Tags {
			if t == tag {
				return true
			}
		}
		return false
	}
	return func(depth int, prefix []int, item int) bool {
		if !has(item, "core") {
			return false
		}
		if depth == 0 && len(prefix) == 0 {
			return has(item, "open")
		}
		return true
	}
}

// c14CoreOnly: the core items without the restriction on the first transaction (worlds that start with a full book).
func c14CoreOnly(w *worlds.World) func(depth int, prefix []int, item int) bool {
	f := c14Filter(w)
	return func(depth int, prefix []int, item int) bool { return f(1, nil, item) }
}

func c14FF(depth, env int) bool {
	if depth == 1 {
		return env == 1
	}
	return env == 0
}

func init() {
	mons := one(monitors.Committed(monitors.Orders{}, "order/", "pool/", "next_order_id"))
	MonitorsFor["C14"] = mons
	Register(&Check{ID: "C14", Level: "model_checking", Run: func(c *Ctx) {
		var restartRuns, restartViol int64
		// restart variants of an explored history, judged by the same monitor
		withRestarts := func(t *explore.Transition, newState bool) []explore.Violation {
			h := t.Cur.Hist
			if t.Cur.Fault != nil || len(h) < 2 || len(h[len(h)-1].Txs) == 0 {
				return nil
			}
			var out []explore.Violation
			variants := []explore.History{h.Clone()}
			variants[0][len(h)-1].Restart = true
			if len(h) > 2 {
				v := h.Clone()
				for i := 1; i < len(v); i++ {
					v[i].Restart = true
				}
				variants = append(variants, v)
			}
			for _, v := range variants {
				tr := explore.MakeTransition(t.W, v, explore.Opts{})
				atomic.AddInt64(&restartRuns, 3)
				for _, m := range mons(t.W) {
					vs, _ := m.Check(tr)
					for i := range vs {
						vs[i].Property = "C14"
						vs[i].Hist = v
						vs[i].World = t.W.Name
					}
					out = append(out, vs...)
				}
			}
			atomic.AddInt64(&restartViol, int64(len(out)))
			return out
		}
		var runs []WorldRun
		if c.Quick() {
			runs = []WorldRun{
				{World: "book", Quick: b(3, 2, 2), OneEnv: true, MenuFilter: c14Filter},
				{World: "book", Quick: b(2, 2, 2), OneEnv: true},
				{World: "book", Quick: b(2, 2, 2), EnvFilter: c14FF},
				{World: "bookdisk", Quick: b(2, 2, 2), EnvFilter: c14FF},
				{World: "bookdisk", Quick: b(3, 3, 1), OneEnv: true, MenuFilter: c14CoreOnly}, // three transactions in ONE block
				{World: "book", Quick: b(2, 2, 2), OneEnv: true, MenuFilter: c14Filter, NoDedupe: true, OnTransition: withRestarts},
				// tiny orders (10^13 pip): the 53-bit price key of an order moves on a partial fill
				{World: "booktiny", Quick: b(3, 3, 2), OneEnv: true},
				// the small-remainder boundary of an order whose two volumes differ by a factor of two
				{World: "bookrem", Quick: b(2, 2, 2), OneEnv: true},
			}
		} else {
			runs = []WorldRun{
				{World: "book", Thorough: b(4, 2, 2), OneEnv: true, MenuFilter: c14Filter},
				{World: "book", Thorough: b(3, 2, 3), OneEnv: true},
				{World: "book", Thorough: b(3, 2, 3), EnvFilter: c14FF, MenuFilter: c14Filter},
				{World: "book", Thorough: b(2, 2, 3)},
				{World: "bookdisk", Thorough: b(3, 2, 3), OneEnv: true, MenuFilter: c14CoreOnly},
				{World: "bookdisk", Thorough: b(2, 2, 3)},
				{World: "bookdisk", Thorough: b(3, 3, 2), OneEnv: true, MenuFilter: c14CoreOnly}, // three transactions in ONE block
				{World: "book", Thorough: b(3, 3, 2), OneEnv: true, MenuFilter: c14Filter},
				{World: "book", Thorough: b(3, 2, 3), OneEnv: true, MenuFilter: c14Filter, NoDedupe: true, OnTransition: withRestarts},
				{World: "bookdisk", Thorough: b(3, 2, 2), OneEnv: true, MenuFilter: c14CoreOnly, NoDedupe: true, OnTransition: withRestarts},
				{World: "booktiny", Thorough: b(4, 3, 2), OneEnv: true},
				{World: "bookrem", Thorough: b(3, 3, 3)},
			}
		}
		RunExplore(c, runs, mons, baseAssumptions...)
		c.Ev.Coverage["restart_variant_executions"] = restartRuns
		c.Ev.Coverage["restart_variant_violations"] = restartViol
		c.Ev.Coverage["skipped_ambiguous_expiry_block_transitions"] = atomic.LoadInt64(&monitors.C14SkippedAmbiguous)
		c.Ev.Coverage["mechanisms_observed"] = monitors.C14StatsCopy()
		c.Ev.Coverage["oracle"] = "list-of-orders reference with exact rational prices; fills from tx.pools tied to the book export, maker balances and OrderExpiredEvents of the twin executions (see monitors/orders.go)"
		if old, ok := c.Ev.Coverage["traces_validated_against_impl"].(int64); ok {
			c.Ev.Coverage["traces_validated_against_impl"] = old + restartRuns
		}
		c.Ev.Assumptions = append(c.Ev.Assumptions,
			"fees of AddLimitOrder / RemoveLimitOrder are read from the tx.commission_amount tag (judged by C26/C27)",
			"math/big (Rat, Float at 53 bits) is trusted for the reference prices")
	}})
}
