package checks

import (
	"sync/atomic"

	"verif/explore"
	"verif/worlds"
)

// restartVariants returns an OnTransition hook that re-executes every explored history of two or
// more blocks with the node rebuilt from its databases before the last block (and, for longer
// histories, before every block but the first) and lets the property's own monitors judge the
// variant: what a property says must also hold on a node that was restarted in between.
func restartVariants(property string, mons func(*worlds.World) []explore.Monitor, runs *int64) func(t *explore.Transition, newState bool) []explore.Violation {
	return func(t *explore.Transition, newState bool) []explore.Violation {
		h := t.Cur.Hist
		if t.Cur.Fault != nil || len(h) < 2 || len(h[len(h)-1].Txs) == 0 {
			return nil
		}
		variants := []explore.History{h.Clone()}
		variants[0][len(h)-1].Restart = true
		if len(h) > 2 {
			v := h.Clone()
			for i := 1; i < len(v); i++ {
				v[i].Restart = true
			}
			variants = append(variants, v)
		}
		var out []explore.Violation
		for _, v := range variants {
			tr := explore.MakeTransition(t.W, v, explore.Opts{})
			atomic.AddInt64(runs, 3)
			for _, m := range mons(t.W) {
				vs, _ := m.Check(tr)
				for i := range vs {
					vs[i].Property = property
					vs[i].Hist = v
					vs[i].World = t.W.Name
					vs[i].Signature += "|after-restart"
				}
				out = append(out, vs...)
			}
		}
		return out
	}
}
