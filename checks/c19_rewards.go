package checks

import (
	"verif/explore"
	"verif/monitors"
	"verif/worlds"
)

// c19RegTiered is regExplore with separate run lists per tier (the tiers differ in filters, not only in bounds).
func c19RegTiered(id string, quick, thorough []WorldRun, mons func(*worlds.World) []explore.Monitor, extra ...func(c *Ctx)) {
	MonitorsFor[id] = mons
	Register(&Check{ID: id, Level: "model_checking", Run: func(c *Ctx) {
		runs := quick
		if !c.Quick() {
			runs = thorough
		}
		RunExplore(c, runs, mons, baseAssumptions...)
		for _, f := range extra {
			f(c)
		}
	}})
}

// C19 — rewards are distributed proportionally and never over-paid (worlds/val.go, monitors/rewards.go).
//
// valpay / valpay0 / valpayL: the same world with a mixed, an empty and a full set of stake locks; the first
// explored block is the one before a payout (warm-up 122, period 4): payouts happen in the 2nd, 6th and 10th
// explored block. Environments of valpay*: 0 all sign, 1 v1 absent, 2 v2's 13th miss (dropped: its accrual
// returns to the pool), 3 v3+v4 absent, 4 nobody signs, 5 evidence [v4], 6 v1 not listed in the commit at all. val adds the other vote vectors and the
// switch transactions.
func init() {
	// the first n environments plus environment 6 (a validator that the commit does not list at all)
	first := func(n int) func(depth, env int) bool { return func(depth, env int) bool { return env < n || env == 6 } }
	// quick: the fee-paying Send only in the payout block (depth 1) and in the middle of the next period (depth 4)
	sendAt := func(w *worlds.World) func(depth int, prefix []int, item int) bool {
		return func(depth int, prefix []int, item int) bool { return item == 0 && (depth == 1 || depth == 4) }
	}
	quick := []WorldRun{
		{World: "valpay", Quick: b(1, 1, 5), EnvFilter: first(3), MenuFilter: sendAt},
		{World: "valpay0", Quick: b(0, 0, 5), EnvFilter: first(2)},
		{World: "valpayL", Quick: b(0, 0, 5), EnvFilter: first(2)},
		{World: "val", Quick: b(1, 1, 2)},
	}
	thorough := []WorldRun{
		// three payout periods, v1 and v2 varying
		{World: "valpay", Thorough: b(0, 0, 10), EnvFilter: first(3)},
		// every environment (two absent, nobody signs, evidence) and both transactions, two payouts
		{World: "valpay", Thorough: b(1, 1, 5)},
		{World: "valpay0", Thorough: b(1, 1, 6), EnvFilter: first(3), MenuFilter: sendAt},
		{World: "valpayL", Thorough: b(1, 1, 6), EnvFilter: first(3), MenuFilter: sendAt},
		{World: "val", Thorough: b(2, 1, 3)},
	}
	c19RegTiered("C19", quick, thorough, one(monitors.Rewards{}), func(c *Ctx) {
		c.Ev.Coverage["c19_rule"] = "per block: accum_reward of every validator == previous + floor(pool*stake/sum of stakes of the validators that signed and are not dropped), pool = block reward + fees + accruals of validators dropped in this block; remainder == growth of total_slashed; emission grows by the block reward. Per payout block (height % 4 == 0): DAO and developers floor(10 %) each, validator floor(commission % of the rest), every unlocked delegator floor(rest*bip/total) exactly (locked ones: at least that), recipients, one event per role and stake, stake credits == event amounts, accruals cleared, paid - plain shares == emission growth beyond the block reward (0 without locked stakes), payout remainder == accrued - plain shares"
		c.Ev.Coverage["c19_counters"] = monitors.C19Coverage()
		c.Ev.Assumptions = append(c.Ev.Assumptions,
			"the block reward is the genesis value (74 BIP) throughout: block times stay before 12:00 UTC, so the daily re-pricing (C28) never runs; safe reward == reward",
			"the formula of the threefold reward of a locked stake is not re-derived: for locked stakes the monitor demands 'at least the plain share' per recipient and, in total, 'paid beyond the plain shares == extra emission' exactly")
	})
}
