package checks

import (
	"strings"
	"encoding/json"
	"fmt"
	"sync/atomic"

	"verif/explore"
	"verif/monitors"
	"verif/report"
	"verif/worlds"
)

// noReplay removes history-dependent items so that states merge on the persisted data only.
func noReplay(w *worlds.World) func(depth int, prefix []int, item int) bool {
	w.UsesReplay = false
	return func(depth int, prefix []int, item int) bool { return w.Menu[item].Replay == 0 && !w.Menu[item].StealSig }
}

type json2 = json.RawMessage

// replayRestart re-executes a history with its restart flags and without them and compares.
func replayRestart(payload json.RawMessage) (bool, string) {
	var p replayPayload
	if err := json.Unmarshal(payload, &p); err != nil {
		return false, err.Error()
	}
	w := worlds.Get(p.World)
	plain := p.History.Clone()
	first := -1
	for i := range plain {
		if plain[i].Restart && first < 0 {
			first = i
		}
		plain[i].Restart = false
	}
	o := explore.Opts{CaptureAll: true, NoDisk: true}
	a, bb := explore.Exec(w, plain, o), explore.Exec(w, p.History, o)
	text := "never restarted: " + explore.Describe(a) + "\nwith restarts:   " + explore.Describe(bb) + "\n"
	if first < 0 {
		first = 0
	}
	if d := explore.CompareTraces(a, bb, first); d != nil {
		return true, text + "divergence: " + d.Text
	}
	return false, text
}

func init() {
	MonitorsFor["C09"] = one(monitors.LiveEqDisk{})
	Replayers["restart-twin"] = func(property string, payload json2) (bool, string) { return replayRestart(payload) }
	Register(&Check{ID: "C09", Level: "model_checking", Run: func(c *Ctx) {
		type run struct {
			world           string
			quick, thorough explore.Bounds
		}
		runs := []run{{"booktiny", b(3, 2, 2), b(4, 2, 3)}, {"book", b(2, 2, 2), b(3, 2, 3)}, {"pay", b(1, 1, 2), b(3, 2, 3)}, {"pool", b(1, 1, 2), b(2, 2, 2)}, {"stake", b(1, 1, 2), b(2, 2, 2)}, {"coin", b(1, 1, 2), b(2, 2, 2)},
			{"stakepending", b(0, 0, 3), b(1, 1, 3)}, {"valbyz", b(0, 0, 2), b(0, 0, 3)},
			// block times only (5 s and 8 s blocks, no transactions): the gas limit of a block follows the
			// recorded times of the previous blocks, which a restarted node has to read back
			{"pay+times", b(0, 0, 4), b(0, 0, 6)},
			// blocks that re-price the block reward (header times around noon)
			{"mint+times", b(0, 0, 2), b(1, 1, 3)}}
		var twinRuns, twinHist int64
		var wr []WorldRun
		for _, r := range runs {
			allEnvs := r.world == "valbyz" || strings.HasSuffix(r.world, "+times") || (!c.Quick() && r.world == "pay")
			wr = append(wr, WorldRun{World: strings.TrimSuffix(r.world, "+times"), Quick: r.quick, Thorough: r.thorough, OneEnv: !allEnvs, MenuFilter: noReplay,
				NoDedupe: !c.Quick(),
				OnTransition: func(t *explore.Transition, newState bool) []explore.Violation {
					if t.Cur.Fault != nil || (c.Quick() && !newState) {
						return nil
					}
					vs, n := explore.RestartTwin(t.W, t.Cur.Hist, explore.Opts{})
					atomic.AddInt64(&twinRuns, int64(n))
					atomic.AddInt64(&twinHist, 1)
					for i := range vs {
						vs[i].Extra = map[string]interface{}{"engine": "restart-twin"}
					}
					return vs
				}})
		}
		RunExplore(c, wr, one(monitors.LiveEqDisk{}), baseAssumptions...)
		c.Ev.Coverage["restart_twin_histories"] = twinHist
		c.Ev.Coverage["restart_twin_executions"] = twinRuns
		c.Ev.Coverage["restart_rule"] = "for every explored history (quick: one representative history per distinct state; thorough: every history, dedupe off) closed by an empty block, every non-empty subset of restart positions (after InitChain, between any two blocks) is executed and compared block by block (responses, tags, validator updates, app hashes, exports, emission, versions, Info, events) with the never-restarted execution; additionally on every state export(live caches)==export(fresh from disk)"
		if old, ok := c.Ev.Coverage["traces_validated_against_impl"].(int64); ok {
			c.Ev.Coverage["traces_validated_against_impl"] = old + twinRuns
		}
		_ = fmt.Sprint
		_ = report.Root
	}})
}
