package checks

import (
	"bytes"
	"fmt"

	"verif/explore"
	"verif/lab"
)

// c06NoTrace: the exploration of C06 issues CheckTx right before every DeliverTx. The twin executes
// the same history without any CheckTx; every DeliverTx response of the last block (code, data,
// gas, tags) and the app hash must be the same: CheckTx works on the state, it must not change it.
func c06NoTrace(t *explore.Transition, newState bool) []explore.Violation {
	cur := t.Cur
	if cur.Fault != nil || len(cur.Hist) == 0 || cur.Last() == nil || len(cur.Last().Txs) == 0 {
		return nil
	}
	tw := explore.Exec(t.W, cur.Hist, explore.Opts{NoDisk: true, Pre: cur.Pre})
	mk := func(sig, text string) []explore.Violation {
		return []explore.Violation{{Property: "C06", Signature: sig, Detail: text, Hist: cur.Hist, World: t.W.Name}}
	}
	if tw.Fault != nil || tw.Last() == nil {
		return nil // faults are C07's subject
	}
	a, b := cur.Last(), tw.Last()
	if len(a.Txs) != len(b.Txs) {
		return nil
	}
	for i := range a.Txs {
		x, y := a.Txs[i], b.Txs[i]
		what := ""
		switch {
		case x.Resp.Code != y.Resp.Code:
			what = fmt.Sprintf("code %d after CheckTx, %d without", x.Resp.Code, y.Resp.Code)
		case !bytes.Equal(x.Resp.Data, y.Resp.Data) || x.Resp.GasUsed != y.Resp.GasUsed || x.Resp.GasWanted != y.Resp.GasWanted:
			what = "data / gas differ"
		case fmt.Sprint(x.Resp.Events) != fmt.Sprint(y.Resp.Events):
			what = "tags differ"
		}
		if what != "" {
			return mk(fmt.Sprintf("checktx-leaves-a-trace|response|%s", typeHex(x.Bytes)), fmt.Sprintf("tx %q: DeliverTx answers differently when a CheckTx of the same bytes ran right before it: %s", x.T.Name, what))
		}
	}
	if !bytes.Equal(a.Obs.AppHash, b.Obs.AppHash) {
		return mk("checktx-leaves-a-trace|apphash", "the block commits to another app hash when CheckTx ran before every DeliverTx")
	}
	return nil
}

// typeHex is the transaction type of raw bytes as 0x.., or "undecodable".
func typeHex(b []byte) string {
	tx, err := lab.Decode(b)
	if err != nil {
		return "undecodable"
	}
	return fmt.Sprintf("0x%02x", byte(tx.Type))
}
