package checks

// C12 — Bancor conversions follow the bonding-curve formulas.
//
// Engine "lattice-bancor": complete enumeration of the cross product
// functions × supplies × reserves × amounts × crr (10..100) defined in
// verif/lattice/bancor; every tuple calls the real /repo/formula function and
// compares it with an independent 512-bit evaluation of the closed formula
// (tolerances and their error analysis: lattice/bancor/eval.go).

import (
	"encoding/json"
	"fmt"
	"math/big"
	"os"
	"strconv"

	"verif/lattice/bancor"
	"verif/report"
)

const c12Engine = "lattice-bancor"

func init() {
	Register(&Check{ID: "C12", Level: "exploration", Run: runC12})
	Replayers[c12Engine] = replayC12
}

func runC12(c *Ctx) {
	lat := bancor.Build(c.Quick())
	workers := 0
	if v := os.Getenv("VERIF_WORKERS"); v != "" {
		workers, _ = strconv.Atoi(v)
	}
	st := bancor.Run(lat, c.Deadline, workers)
	seen := map[string]bool{}
	for _, v := range st.Violations {
		if seen[v.Signature] {
			continue
		}
		seen[v.Signature] = true
		c.Rep.Add(report.Item{Property: c.ID, Signature: v.Signature, Detail: v.Detail, Engine: c12Engine, Replay: v.Case})
		// occurrences beyond the first (the reporter only counts them)
		for n := st.SigCounts[v.Signature]; n > 1 && n < 1<<22; n-- {
			c.Rep.Add(report.Item{Property: c.ID, Signature: v.Signature})
		}
	}
	cv := c.Ev.Coverage
	cv["evaluations"] = st.Evaluations
	cv["distinct_nontrivial"] = st.Nontrivial
	cv["exhaustive"] = st.Exhaustive
	cv["rule"] = "full cross product of the per-argument value lists (4 functions × supplies × reserves × amounts(function, supply, reserve) × every crr 10..100); the lists are duplicate-free, so every evaluation is a distinct tuple; each tuple calls the real formula function once and the 512-bit reference twice (node exponent constant, exact exponent); a tuple is non-trivial when the floating-point path runs (amount > 0, crr < 100, not the sell-all shortcut) and the formula value is at least 1 pip"
	samples := []interface{}{}
	for _, s := range st.Samples {
		samples = append(samples, s)
	}
	if len(samples) == 0 {
		samples = append(samples, "(run stopped before the first line was complete)")
	}
	cv["samples"] = samples
	cv["lattice"] = map[string]interface{}{
		"tier": lat.Name, "supplies": len(lat.Supplies), "reserves": len(lat.Reserves), "crr_values": len(lat.Crrs),
		"supply_range":           []string{lat.Supplies[0].String(), lat.Supplies[len(lat.Supplies)-1].String()},
		"reserve_range":          []string{lat.Reserves[0].String(), lat.Reserves[len(lat.Reserves)-1].String()},
		"amount_ratio_exponents": lat.RatioExps, "amount_fractions": lat.Fractions, "amount_near_all_exponents": lat.NearAll, "amount_multiples_exponents": lat.Multiples,
		"lines_function_supply_reserve_amount": st.Lines, "units": st.Units, "units_done": st.UnitsDone,
	}
	per := map[string]interface{}{}
	var mono, rts, s2 int64
	for f := bancor.Func(0); f < bancor.NFuncs; f++ {
		p := st.PerFunc[f]
		m := map[string]interface{}{"evaluations": p.Evaluations, "nontrivial": p.Nontrivial, "monotone_pairs": p.MonotonePairs, "accepted_by_conditioning_stage2": p.Stage2, "stage2_with_all_operands_below_2^100": p.Stage2Narrow}
		if p.WorstErrLog2 > -1e8 {
			m["worst_stage1_error_log2_relative_to_operand_magnitude"] = p.WorstErrLog2
			m["worst_stage1_at"] = p.WorstAt
		}
		if p.WorstS2Log2 > -1e8 {
			m["worst_stage2_error_log2_relative_to_operand_magnitude"] = p.WorstS2Log2
			m["worst_stage2_at"] = p.WorstS2At
		}
		if f == bancor.PurchaseReturn {
			m["round_trips"] = p.RoundTrips
		}
		if f == bancor.SaleReturn {
			m["sell_all_points"] = p.SellAll
		}
		per[bancor.FuncNames[f]] = m
		mono += p.MonotonePairs
		rts += p.RoundTrips
		s2 += p.Stage2
	}
	cv["per_function"] = per
	cv["monotone_pairs_checked"] = mono
	cv["round_trips_checked"] = rts
	cv["accepted_by_conditioning_stage2"] = s2
	cv["tolerance"] = "tight: ref-eps-1 < impl <= ref+eps, eps = 2^-90*max(supply,reserve)*max(1,powerTerm), reference = closed formula at 512 bits with the node's float64 exponent constant; stage 2 (only where 1-amount/scale lost relative accuracy: dz/z > 2^-94) accepts the formula value for operands perturbed by a relative 2^-97; loose: same widths around the exact-exponent formula plus 2^-52*M*p*w*|ln z|; crr=100: reference is the exact rational M*amount/scale"
	c.Ev.Assumptions = append(c.Ev.Assumptions,
		"math/big (Int, Float arithmetic and Float.Sqrt) of the Go standard library is trusted; ln and exp of the reference are own series implementations at 576 working bits, validated by lattice/bancor/ref_test.go against identities that need no transcendental function",
		"the lattice is restricted to the arguments the node's callers can pass: supply in [10^18,10^33], reserve in [10^22,10^33], sell <= supply, wantReceive <= reserve, supply+wantReceive <= 10^33, deposit <= 10^33, crr in 10..100",
		"'bounded relative floating-point error' is read relative to the magnitude of the operands (max(supply,reserve) times the power term), and, where 1-amount/scale cancels, as the formula value of operands perturbed by a relative 2^-97 (error analysis in lattice/bancor/eval.go)",
		"the round-trip rule allows the relative 2^-52 by which the node's two float64 exponent constants (float64(crr)/100 and 100/float64(crr)) fail to be reciprocal")
	fmt.Printf("  lattice %s: supplies=%d reserves=%d lines=%d evaluations=%d nontrivial=%d stage2=%d monotone_pairs=%d round_trips=%d exhaustive=%v wall=%.1fs\n",
		lat.Name, len(lat.Supplies), len(lat.Reserves), st.Lines, st.Evaluations, st.Nontrivial, s2, mono, rts, st.Exhaustive, st.Wall.Seconds())
}

// replayC12 recomputes one case on the real code and on the reference and prints both.
func replayC12(property string, payload json.RawMessage) (bool, string) {
	var cs bancor.Case
	if err := json.Unmarshal(payload, &cs); err != nil {
		return false, err.Error()
	}
	f, ok := bancor.FuncByName(cs.Function)
	S, ok1 := new(big.Int).SetString(cs.Supply, 10)
	R, ok2 := new(big.Int).SetString(cs.Reserve, 10)
	a, ok3 := new(big.Int).SetString(cs.Amount, 10)
	if !ok || !ok1 || !ok2 || !ok3 {
		return false, "bad payload"
	}
	line := bancor.NewLine(f, S, R, a)
	r := line.Eval(cs.Crr)
	text := bancor.DetailOf(line, cs.Crr, r)
	switch cs.Rule {
	case bancor.RuleMonotone:
		pa, ok := new(big.Int).SetString(cs.PrevAmount, 10)
		if !ok {
			return false, "bad prev_amount"
		}
		pr, pp := bancor.CallImpl(f, S, R, cs.Crr, pa)
		text += fmt.Sprintf("\nsmaller amount %s gives %v %s", pa, pr, pp)
		return r.Panic == "" && pp == "" && r.Impl.Cmp(pr) < 0, text
	case bancor.RuleRoundTrip:
		if r.Panic != "" || r.Impl.Sign() <= 0 {
			return false, text
		}
		rt := line.RoundTrip(cs.Crr, r.Impl, r.P)
		return rt.Broken, text + "\n" + bancor.RoundTripDetail(line, cs.Crr, rt)
	}
	for _, b := range r.Broken {
		if b == cs.Rule {
			return true, text
		}
	}
	return false, text
}
