package checks

import (
	"encoding/json"
	"fmt"
	"runtime"
	"time"

	"verif/lattice/poolprice"
	"verif/report"
)

// C13 (lattice part): swap pools never lose value to traders — the arithmetic of
// PairV2 (quotes, the executed trade on an empty order book, add / remove /
// create liquidity) judged with exact integers over a finite grid of reserves
// and amounts. The explorer part of C13 (fills of limit orders, the zero
// address balance, the transaction layer) is added by the final check; it calls
// RunC13Lattice as one of its parts.

const enginePairs = "lattice-pairs"

func init() {
	Register(&Check{ID: "C13L", Level: "exploration", Run: RunC13Lattice})
	Replayers[enginePairs] = func(property string, payload json.RawMessage) (bool, string) {
		return poolprice.ReplayPair(payload)
	}
}

// latticeDeadline: the lattice part may use at most `max` of the run, and never more than the check's deadline.
func latticeDeadline(c *Ctx, max time.Duration) time.Time {
	d := time.Now().Add(max)
	if c.Deadline.Before(d) {
		d = c.Deadline
	}
	return d
}

// RunC13Lattice runs the pair lattice and merges its verdicts and counts into c.
func RunC13Lattice(c *Ctx) {
	b, max := poolprice.QuickPairBounds(), 35*time.Second
	if !c.Quick() {
		b, max = poolprice.ThoroughPairBounds(), 9*time.Minute
	}
	t0 := time.Now()
	res := poolprice.RunPairs(b, latticeDeadline(c, max), runtime.NumCPU())
	mergeLattice(c, enginePairs, "lattice_pairs", res, time.Since(t0))
	c.Ev.Assumptions = append(c.Ev.Assumptions,
		"math/big is trusted (the reference uses only Add, Sub, Mul, Quo/QuoRem, Cmp and its own integer square root)",
		"reserves are written into an isolated PairV2 (SwapV2 over an empty in-memory IAVL tree) with Set on the pair's exported big.Ints, the way SwapV2.Import does; the order book of the pair is empty",
		"the lattice judges the pair-level numbers only; who is credited (zero address, burn address) is the transaction layer's part")
}

// mergeLattice adds a lattice result to the reporter and the evidence (adding to counts that are already there).
func mergeLattice(c *Ctx, engine, key string, res poolprice.Result, wall time.Duration) {
	for _, v := range res.Violations {
		c.Rep.Add(report.Item{Property: c.ID, Signature: v.Signature, Detail: fmt.Sprintf("%s\n(%d cases of the lattice break this rule; this is the first in enumeration order)", v.Detail, v.Count), Engine: engine, Replay: v.Replay})
	}
	cv := c.Ev.Coverage
	addI := func(k string, v int64) {
		switch old := cv[k].(type) {
		case int64:
			cv[k] = old + v
		case int:
			cv[k] = int64(old) + v
		case float64:
			cv[k] = int64(old) + v
		default:
			cv[k] = v
		}
	}
	addI("evaluations", res.Evaluations)
	addI("distinct_nontrivial", res.DistinctNontrivial)
	samples := res.Samples
	if old, ok := cv["samples"].([]interface{}); ok {
		samples = append(old, samples...)
	}
	cv["samples"] = samples
	ex := res.Exhaustive
	if old, ok := cv["exhaustive"].(bool); ok {
		ex = ex && old
	}
	cv["exhaustive"] = ex
	if old, ok := cv["rule"].(string); ok && old != "" {
		cv["rule"] = old + " || " + res.Rule
	} else {
		cv["rule"] = res.Rule
	}
	extra := map[string]interface{}{"evaluations": res.Evaluations, "distinct_nontrivial": res.DistinctNontrivial, "exhaustive": res.Exhaustive, "wall_s": wall.Seconds(), "violating_signatures": len(res.Violations), "rule": res.Rule}
	for k, v := range res.Extra {
		extra[k] = v
	}
	cv[key] = extra
	fmt.Printf("  %s: evaluations=%d distinct_nontrivial=%d rejected=%d signatures=%d exhaustive=%v wall=%.1fs\n", engine, res.Evaluations, res.DistinctNontrivial, res.Rejected, len(res.Violations), res.Exhaustive, wall.Seconds())
}
