package checks

import (
	"encoding/json"
	"fmt"
	"os"

	"verif/explore"
	"verif/worlds"
)

// Replayers re-evaluate a replay payload of an engine; they return whether the violation reproduced.
var Replayers = map[string]func(property string, payload json.RawMessage) (bool, string){}

// Replay re-executes a replay file without the explorer; exit 1 if the violation reproduces.
func Replay(path string) int {
	b, err := os.ReadFile(path)
	if err != nil {
		fmt.Fprintln(os.Stderr, err)
		return 2
	}
	var f struct {
		Property  string          `json:"property"`
		Signature string          `json:"signature"`
		Engine    string          `json:"engine"`
		Replay    json.RawMessage `json:"replay"`
	}
	if err := json.Unmarshal(b, &f); err != nil {
		fmt.Fprintln(os.Stderr, err)
		return 2
	}
	rp, ok := Replayers[f.Engine]
	if !ok {
		fmt.Fprintf(os.Stderr, "no replayer for engine %q\n", f.Engine)
		return 2
	}
	repro, text := rp(f.Property, f.Replay)
	fmt.Println(text)
	if repro {
		fmt.Printf("REPRODUCED property=%s signature=%s\n", f.Property, f.Signature)
		return 1
	}
	fmt.Println("not reproduced")
	return 0
}

// MonitorsFor returns all monitors able to judge a property on explorer transitions.
var MonitorsFor = map[string]func(w *worlds.World) []explore.Monitor{}

func init() {
	Replayers["explore"] = func(property string, payload json.RawMessage) (bool, string) {
		var p replayPayload
		if err := json.Unmarshal(payload, &p); err != nil {
			return false, err.Error()
		}
		w := worlds.Get(p.World)
		t := explore.MakeTransition(w, p.History, explore.Opts{CheckFirst: p.CheckFirst})
		text := explore.Describe(t.Cur) + "\n"
		mf := MonitorsFor[property]
		if mf == nil {
			return false, text + "no monitor registered for " + property
		}
		repro := false
		for _, m := range mf(w) {
			vs, _ := m.Check(t)
			for _, v := range vs {
				if v.Property == "" || v.Property == property {
					repro = true
					text += fmt.Sprintf("violation %s: %s\n", v.Signature, v.Detail)
				}
			}
		}
		return repro, text
	}
}
