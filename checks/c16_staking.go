package checks

import (
	"strings"
	"fmt"
	"sync"
	"time"

	"github.com/MinterTeam/minter-go-node/coreV2/transaction"

	"verif/explore"
	"verif/monitors"
	"verif/report"
	"verif/worlds"
)

// C16 — staked coins leave staking only on schedule.
//
// Runs (all on real nodes through the explorer, worlds in worlds/stake.go):
//  * "stake"        every history of the staking menu within the bounds, plain blocks only
//                   (the second block is a payout / validator-update boundary);
//  * "stake" + FF   one or two stake-leaving transactions in block 1 (height h), then a
//                   fast-forward to the block before the move maturity (h+176) or before the unbond
//                   maturity (h+530), then the maturity block, then one more block:
//                   maturity −1 / 0 / +1 of funds created by real transactions;
//  * "stakepending" genesis with funds due at blocks 2 and 3 (unbond, move to a live candidate, Lock,
//                   in BIP and in a reserve coin) and a stake lock that ends at block 2;
//  * "stakepending" + evidence: duplicate-vote evidence against validator 2 in block 1, then the same
//                   fast-forward to the end of the unbond period (byzantine unbonding);
//  * "stake6"       6 validators (20 % rule active);
//  * "stakemany"    101 candidates; a move (in the genesis) whose target candidate is removed at the
//                   boundary before the move matures; "stakemanytx": the same made by transactions only;
//  * "stakefull"    a candidate with all 1000 slots taken (waitlist interplay of Unbond).

// c16Run is one exploration: one world, or a family of small worlds searched in parallel.
type c16Run struct {
	Worlds     []string
	Label      string
	Quick      explore.Bounds
	Thorough   explore.Bounds
	EnvFilter  func(depth, env int) bool // nil: environment 0 only
	MenuFilter func(w *worlds.World) func(depth int, prefix []int, item int) bool
}

func c16EnvZero(depth, env int) bool { return env == 0 }

// c16Explore is RunExplore for the staking worlds: the same search and evidence, but the
// fresh-from-disk export comparison of every state (C09's business, and expensive with
// hundreds of candidates of 1000 slots each) is switched off, and families of worlds run in parallel.
func c16Explore(c *Ctx, id string, runs []c16Run, mon func() explore.Monitor) {
	cv := c.Ev.Coverage
	addI := func(k string, v int64) {
		old, _ := cv[k].(int64)
		cv[k] = old + v
	}
	exhaustive := true
	var samples []interface{}
	var perRun []map[string]interface{}
	for _, r := range runs {
		bd := r.Quick
		if !c.Quick() {
			bd = r.Thorough
		}
		start := time.Now()
		var mu sync.Mutex
		var tot explore.Stats
		tot.Exhaustive = true
		distinct, outcomes, menu := 0, 0, 0
		search := func(name string, workers int) {
			w := worlds.Get(name)
			cfg := explore.Config{World: w, Bounds: bd, Dedupe: true, Deadline: c.Deadline, Workers: workers, Monitors: []explore.Monitor{mon()}, Opts: explore.Opts{NoDisk: true}}
			cfg.EnvFilter = r.EnvFilter
			if cfg.EnvFilter == nil {
				cfg.EnvFilter = c16EnvZero
			}
			if r.MenuFilter != nil {
				cfg.MenuFilter = r.MenuFilter(w)
			}
			st, vs := explore.Search(cfg)
			mu.Lock()
			defer mu.Unlock()
			for _, v := range vs {
				c.Rep.Add(report.Item{Property: v.Property, Signature: v.Signature, Detail: fmt.Sprintf("world %s, history %s\n%s", v.World, v.Hist.String(), v.Detail), Engine: "explore",
					Replay: replayPayload{World: v.World, History: v.Hist}})
			}
			tot.States += st.States
			tot.Transitions += st.Transitions
			tot.Histories += st.Histories
			tot.BlocksRun += st.BlocksRun
			tot.Faults += st.Faults
			addI("evaluations", st.MonitorEvals[id])
			addI("nontrivial_evaluations", st.Nontrivial[id])
			distinct += len(st.NontrivialDistinct[id])
			outcomes += len(st.Outcomes)
			menu = len(w.Menu)
			if st.LevelsDone > tot.LevelsDone {
				tot.LevelsDone = st.LevelsDone
			}
			if !st.Exhaustive {
				tot.Exhaustive = false
			}
			for _, s := range st.Samples {
				if len(samples) < 8 && len(tot.Samples) < 2 {
					tot.Samples = append(tot.Samples, s)
					samples = append(samples, s)
				}
			}
		}
		if len(r.Worlds) == 1 {
			search(r.Worlds[0], 16)
		} else {
			jobs := make(chan string, len(r.Worlds))
			for _, n := range r.Worlds {
				jobs <- n
			}
			close(jobs)
			var wg sync.WaitGroup
			for i := 0; i < 16; i++ {
				wg.Add(1)
				go func() {
					defer wg.Done()
					for n := range jobs {
						search(n, 1)
					}
				}()
			}
			wg.Wait()
		}
		label := r.Label
		if label == "" {
			label = r.Worlds[0]
		}
		addI("states", tot.States)
		addI("transitions", tot.Transitions)
		addI("traces_validated_against_impl", tot.Histories)
		addI("blocks_executed_on_impl", tot.BlocksRun)
		addI("distinct_nontrivial", int64(distinct))
		addI("distinct_outcomes", int64(outcomes))
		if !tot.Exhaustive {
			exhaustive = false
		}
		perRun = append(perRun, map[string]interface{}{"world": label, "worlds_in_family": len(r.Worlds), "bounds": bd.String(), "dedupe": true, "states": tot.States, "transitions": tot.Transitions,
			"histories_executed": tot.Histories, "blocks_executed": tot.BlocksRun, "levels_completed": tot.LevelsDone, "exhaustive": tot.Exhaustive, "distinct_outcomes": outcomes,
			"distinct_nontrivial": distinct, "faults_seen": tot.Faults, "wall_s": time.Since(start).Seconds(), "menu": menu, "fast_forward_schedule": r.EnvFilter != nil, "menu_filter": r.MenuFilter != nil})
		fmt.Printf("  %-13s (%d world(s)) %s states=%d transitions=%d histories=%d outcomes=%d distinct-nontrivial=%d exhaustive=%v wall=%.1fs\n", label, len(r.Worlds), bd, tot.States, tot.Transitions, tot.Histories, outcomes, distinct, tot.Exhaustive, time.Since(start).Seconds())
	}
	if len(samples) == 0 {
		samples = []interface{}{"(no transaction-bearing transition in this run)"}
	}
	cv["samples"] = samples
	cv["exhaustive"] = exhaustive
	cv["worlds"] = perRun
	cv["rule"] = "breadth-first enumeration of all histories of each world within its bounds (every menu transaction list of length<=K in every block, every allowed environment, <=T transactions, <=B blocks, closed by one empty block); every history is executed on a fresh real node; a case is non-trivial when the property's guarded mechanism fired in the transition (a fund matured / a stake-leaving or locking transaction was judged / a validator-set update happened); distinct = distinct (world, depth, response-code vector)"
	c.Ev.Assumptions = append(c.Ev.Assumptions, baseAssumptions...)
}

// c16LeavingOnly keeps, in the first block, the menu items through which stake leaves a candidate
// (and LockStake); later blocks stay empty.
func c16LeavingOnly(w *worlds.World) func(depth int, prefix []int, item int) bool {
	return func(depth int, prefix []int, item int) bool {
		if depth != 0 {
			return false
		}
		switch w.Menu[item].Type {
		case transaction.TypeUnbond, transaction.TypeMoveStake, transaction.TypeLockStake:
			return true
		}
		return false
	}
}

// c16FirstBlockOnly allows transactions in the first block only.
// c16LateMoveOnly: only the move towards the removed candidate's key, and only from the third block on.
func c16LateMoveOnly(w *worlds.World) func(depth int, prefix []int, item int) bool {
	return func(depth int, prefix []int, item int) bool {
		if depth == 0 {
			return strings.Contains(w.Menu[item].Name, "declares candidate 301") // pushes candidate 4 to rank 101: removed at the boundary
		}
		return depth >= 2 && strings.Contains(w.Menu[item].Name, "removed at the boundary")
	}
}

func c16FirstBlockOnly(w *worlds.World) func(depth int, prefix []int, item int) bool {
	return func(depth int, prefix []int, item int) bool { return depth == 0 }
}

// c16FfSchedule: block 1 plain, block 2 one of the fast-forward environments, block 3 plain.
func c16FfSchedule(depth, env int) bool {
	if depth == 1 {
		return env == 1 || env == 2
	}
	return env == 0
}

// c16Byzantine: block 1 carries evidence against validator 2, block 2 follows a fast-forward to the block
// before the end of the unbond period, block 3 is the maturity.
func c16ByzSchedule(depth, env int) bool {
	switch depth {
	case 0:
		return env == 3
	case 1:
		return env == 2
	}
	return env == 0
}

// c16FfMove: block 1 plain, block 2 after a fast-forward to the block before the move maturity, block 3 plain.
func c16FfMove(depth, env int) bool {
	if depth == 1 {
		return env == 1
	}
	return env == 0
}

func init() {
	runs := []c16Run{
		{Worlds: []string{"stake"}, Quick: b(2, 2, 2), Thorough: b(3, 2, 3)},
		{Worlds: []string{"stake"}, Label: "stake+ff", Quick: b(1, 1, 3), Thorough: b(2, 2, 3), EnvFilter: c16FfSchedule, MenuFilter: c16LeavingOnly},
		{Worlds: []string{"stakepending"}, Quick: b(1, 1, 4), Thorough: b(2, 2, 4)},
		{Worlds: []string{"stake6"}, Quick: b(1, 1, 2), Thorough: b(2, 2, 3)},
		// wait-listed stakes taken out by unbond / move (to a candidate, to a key that is not one), with maturity by fast-forward
		{Worlds: []string{"stakewait"}, Quick: b(2, 2, 2), Thorough: b(3, 2, 3)},
		{Worlds: []string{"stakewait"}, Label: "stakewait+ff", Quick: b(1, 1, 3), Thorough: b(2, 2, 3), EnvFilter: c16FfSchedule},
		// byzantine unbonding: evidence in block 1 (with the pending funds of the genesis), maturity −1 / 0 / +1 after the unbond period
		{Worlds: []string{"stakepending"}, Label: "stakepending+evidence", Quick: b(1, 1, 3), Thorough: b(2, 2, 3), EnvFilter: c16ByzSchedule, MenuFilter: c16FirstBlockOnly},
		// 101 candidates; a move (in the genesis) towards the lowest one matures at block 3, after the boundary at block 2
		{Worlds: []string{"stakemany"}, Quick: b(1, 1, 3), Thorough: b(2, 2, 4), MenuFilter: c16FirstBlockOnly},
		// a MoveStake delivered AFTER the boundary towards the key of the candidate that the boundary removed
		{Worlds: []string{"stakemany"}, Label: "stakemany+move-to-removed", Quick: b(2, 1, 3), Thorough: b(2, 1, 4), MenuFilter: c16LateMoveOnly},
		// the same by transactions only: MoveStake towards the lowest candidate and a DeclareCandidacy that pushes it
		// out in block 1, boundary inside the fast-forward, maturity of the move at block 3
		{Worlds: []string{"stakemanytx"}, Label: "stakemanytx+ff", Quick: b(2, 2, 3), Thorough: b(2, 2, 3), EnvFilter: c16FfMove, MenuFilter: c16FirstBlockOnly},
		{Worlds: []string{"stakefull"}, Quick: b(1, 1, 2), Thorough: b(2, 2, 3)},
	}
	MonitorsFor["C16"] = one(monitors.StakeSchedule{})
	Register(&Check{ID: "C16", Level: "model_checking", Run: func(c *Ctx) {
		c16Explore(c, "C16", runs, func() explore.Monitor { return monitors.StakeSchedule{} })
		c.Ev.Coverage["oracle"] = "reference schedule model: (block rule, state before/after a step) funds due in the step are gone, funds due later are untouched, every new fund belongs to an accepted Unbond (+531) / MoveStake (+177) / Lock (due block) of the block or to a candidate removal (+531); in steps without transactions every balance changes by exactly the sum of the non-move funds due for it and every due move raises what its live target candidate holds for the owner by exactly its value (only exception: a move whose target candidate was removed before the due block returns its full value to the owner's balance at the due block); a fault of BeginBlock while a move is due is a violation; (transaction rule, twin without the last transaction) exactly one new fund with the right due height / value / owner / source / target id, stake+updates+waitlist of the sender at the source falls by exactly the value, nothing reaches the sender's balance, MoveStake only towards a live candidate, Unbond rejected while LockStakeUntilBlock > height, no other transaction type changes the frozen funds"
		c.Ev.Assumptions = append(c.Ev.Assumptions,
			"periods are the testnet ones (unbond 531, move 177 blocks; types.CurrentChainID = ChainTestnet in all worlds); the mainnet values differ only in the constants returned by types.Get*PeriodWithChain",
			"byzantine unbonding: the schedule (stakes leave for exactly one unbond period, funds of the candidate keep their due block) is judged here with the 95 % factor taken as given; the amounts of the slash are C18's subject",
			"base-coin holdings of candidates may additionally grow at payout boundaries (rewards are restaked); the exact stake-delta rules therefore skip the base coin in boundary blocks",
			"the export(live)==export(disk) comparison of every state is switched off in these runs (C09 covers it)")
	}})
}
