package checks

import (
	"encoding/hex"
	"encoding/json"
	"fmt"
	"os"
	"strings"

	"github.com/MinterTeam/minter-go-node/coreV2/types"

	enc "verif/lattice/encoding"
	"verif/report"
)

// C23 — transaction and check encodings are canonical and signatures bind the signer.
//
// Engine "lattice-encoding": around one honestly signed byte string of every
// registered transaction type (+ a rich send, a 2-signer multisig send, two
// checks) every 1-edit byte neighbour, a signature malleation menu and all very
// short strings are pushed through minter.GetExecutor("").DecodeFromBytes /
// check.DecodeFromBytes and Sender().
//
// Reading choices (demand only what the text says):
//   - "accepted" = decodes without error AND Sender() succeeds (multisig: every member signature recovers).
//   - an accepted neighbour with the same signed hash but ANOTHER recovered sender (v flipped to the
//     other valid recovery id, a byte of r or s changed) is allowed: it is a transaction of somebody else.
//   - multisig: neither the member signature list nor the wallet address is covered by the signed hash.
//     Strict reading for the member list: reordering or dropping member signatures gives a byte-different
//     accepted encoding with the same signed hash and the same sender -> reported under the single
//     signature tx|same-hash-second-encoding|multisig-member-list|sig. A replaced wallet address is a
//     different sender, outside the text: counted only (multisig_address_rebind_accepted).
//   - over-rejection (decoder rejects a canonical well-typed string) is not forbidden; it is counted.
func init() {
	Register(&Check{ID: "C23", Level: "exploration", Run: runC23})
	Replayers["lattice-encoding"] = replayC23
}

func runC23(c *Ctx) {
	cfg := enc.Config{Thorough: !c.Quick(), Deadline: c.Deadline, ShortLen: 2, InsertAll: true}
	if !c.Quick() {
		cfg.ShortLen = 3
	}
	if os.Getenv("VERIF_C23_INSERT_MENU") != "" {
		cfg.InsertAll = false
	}
	st, err := enc.Run(cfg)
	if err != nil {
		fmt.Fprintln(os.Stderr, "C23 harness error:", err)
		os.Exit(2)
	}
	for _, sig := range st.FindingOrder {
		f := st.Findings[sig]
		for i := 0; i < st.FindingCount[sig]; i++ {
			c.Rep.Add(report.Item{Property: c.ID, Signature: sig, Engine: "lattice-encoding", Replay: f,
				Detail: fmt.Sprintf("%s (%s %s, edit %s in region %s)\noriginal %s\nmutated  %s", f.Detail, f.Kind, f.Name, f.Edit, f.Region, f.Original, f.Mutated)})
		}
	}
	cv := c.Ev.Coverage
	cv["evaluations"] = st.Evaluations
	cv["distinct_nontrivial"] = st.AcceptedNeighbours + st.RejectedMalleations
	cv["distinct_accepted_neighbours"] = st.AcceptedNeighbours
	cv["distinct_rejected_malleations"] = st.RejectedMalleations
	cv["accepted_malleations"] = st.AcceptedMalleations
	cv["rejected_by_decoder"] = st.RejectedDecode
	cv["rejected_by_sender"] = st.RejectedSender
	cv["decoder_panics"] = st.Panics
	cv["decoder_panic_samples"] = orEmpty(st.PanicSamples)
	cv["model_canonical_but_decoder_rejects"] = st.ModelCanonRejected
	cv["model_canonical_but_decoder_rejects_samples"] = orEmpty(st.ModelCanonSamples)
	cv["multisig_address_rebind_accepted"] = st.Rebind
	cv["multisig_member_list_rewrite_accepted"] = st.RebindMembers
	cv["short_string_evaluations"] = st.ShortStrings
	cv["short_strings_accepted"] = st.ShortAccepted
	cv["short_string_max_len"] = cfg.ShortLen
	cv["pair_substitution_evaluations"] = st.PairEvaluations
	cv["originals"] = len(st.PerOrig)
	cv["per_original"] = st.PerOrig
	cv["insertion_values_per_position"] = map[bool]int{true: 256, false: len(enc.QuickInsertMenu)}[cfg.InsertAll]
	cv["jobs_done"] = st.JobsDone
	cv["jobs_total"] = st.JobsTotal
	cv["exhaustive"] = st.Exhaustive
	cv["samples"] = st.Samples
	rule := "originals: one honestly signed transaction per registered type (0x01..0x26 without 0x13, data structs of GetDataV3 filled with small values), a send with long payload/service data, a 2-signer multisig send, 2 checks. " +
		"For every original x: every single-byte substitution (255 values x every position), every single-byte deletion, every single-byte insertion (every position incl. the end, values: see insertion_values_per_position), every truncation; " +
		"a menu of 23 malleations of (v,r,s) of every signature re-assembled into x (multisig additionally: member list reversed / first / last member dropped); all byte strings of length <= short_string_max_len through both decoders (one evaluation per decoder). " +
		"Thorough adds all pairs of substitutions (255x255 values) among the first 12 bytes and among the structural positions of the signature region (all header bytes, v, first and last byte of every r and s) and structural position (255 values) x every other signature byte (values {b^0x01, b^0x80, 0x00, 0xff}). " +
		"evaluations = byte strings handed to a decoder. A case is non-trivial when it is an ACCEPTED neighbour x' != x (decodes and Sender()/RecoverPlain of every signature succeed: the re-encoding, same-hash, forgery and signature-range oracles all run on it) or a REJECTED malleation (the rejection is the behaviour demanded). " +
		"distinct_nontrivial = number of distinct accepted neighbour strings per original (the enumeration skips edits that produce the same string twice; accepted malleations that the neighbour enumeration does not produce are added) + number of distinct rejected malleation strings."
	cv["rule"] = rule
	c.Ev.Assumptions = append(c.Ev.Assumptions,
		"libsecp256k1 (cgo) public-key recovery and Keccak are trusted; the honest signatures are additionally verified with crypto/ecdsa.Verify under the signing key",
		"the table transaction type -> Go data struct (GetDataV3) and the field order/types of the wire structs are taken as the schema of the independent strict RLP reader (lattice/encoding/canon.go), which is written from the RLP specification and shares no code with /repo/rlp",
		"all byte strings are covered only to edit distance 1 (2 in the header and signature regions, thorough) around honest encodings and completely up to length 2 (quick) / 3 (thorough)",
		"multisig: a replaced wallet address (same hash, same member signatures, other sender) is outside the property text and only counted; a rewritten member list (reorder/drop) is reported as a second valid encoding")
}

func orEmpty(s []string) []string {
	if s == nil {
		return []string{}
	}
	return s
}

func replayC23(property string, payload json.RawMessage) (bool, string) {
	var f enc.Finding
	if err := json.Unmarshal(payload, &f); err != nil {
		return false, err.Error()
	}
	x, err1 := hex.DecodeString(f.Original)
	y, err2 := hex.DecodeString(f.Mutated)
	if err1 != nil || err2 != nil {
		return false, "bad hex in replay payload"
	}
	var sb strings.Builder
	show := func(name string, b []byte, o *enc.Outcome) {
		fmt.Fprintf(&sb, "%s (%d bytes) %x\n  panic=%q decodeErr=%q senderErr=%q accepted=%v independent-reader-canonical=%v\n", name, len(b), b, o.Panic, o.DecodeErr, o.SenderErr, o.Accepted, o.ModelCanon)
		if o.Accepted {
			fmt.Fprintf(&sb, "  signed hash %x sender %s signers %s\n", o.Hash[:], o.Sender.String(), enc.Addrs(o.Signers))
		}
	}
	oy := enc.Eval(f.Kind, y)
	viols := oy.Viols
	var signers []types.Address
	for _, s := range f.Signers {
		signers = append(signers, types.HexToAddress(s))
	}
	if len(x) > 0 {
		ox := enc.Eval(f.Kind, x)
		show("original", x, &ox)
		if f.Edit == "none" {
			lp, _ := hex.DecodeString(f.LockPub)
			viols = enc.Honest(&enc.Original{Kind: f.Kind, Name: f.Name, Bytes: x, Signers: signers, LockPub: lp}, &ox)
		} else {
			rel, _ := enc.Relate(x, y, &ox, &oy, signers)
			viols = append(viols, rel...)
		}
	}
	show("mutated ", y, &oy)
	repro := false
	for _, v := range viols {
		fmt.Fprintf(&sb, "rule %s broken: %s\n", v.Rule, v.Detail)
		if v.Rule == f.Rule {
			repro = true
		}
	}
	if f.Rule == "malleation-accepted" && oy.Accepted {
		repro = true
	}
	if len(viols) == 0 {
		sb.WriteString("no rule broken\n")
	}
	return repro, sb.String()
}
