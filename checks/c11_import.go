package checks

import (
	"encoding/json"
	"fmt"
	"sync"

	"verif/explore"
	"verif/monitors"
	"verif/worlds"
)

func menuNoReplay(w *worlds.World) []int {
	var m []int
	for i := range w.Menu {
		if w.Menu[i].Replay == 0 && !w.Menu[i].StealSig {
			m = append(m, i)
		}
	}
	return m
}

func init() {
	Replayers["import-twin"] = func(property string, payload json.RawMessage) (bool, string) {
		var p replayPayload
		if err := json.Unmarshal(payload, &p); err != nil {
			return false, err.Error()
		}
		w := worlds.Get(p.World)
		noReplay(w)
		h := p.History
		var menu []int
		// a follow-up violation carries the follow-up block as the last block of the history
		if n := len(h); n > 0 {
			menu = h[n-1].Txs
			h = h[:n-1]
		}
		var st explore.ImportStats
		vs := explore.ImportTwin(w, h, menu, &st)
		if len(vs) == 0 && len(p.History) > 0 {
			// the violation may belong to the state reached by the full history
			vs = explore.ImportTwin(w, p.History, nil, &st)
		}
		text := ""
		for _, v := range vs {
			text += v.Signature + ": " + v.Detail + "\n"
		}
		return len(vs) > 0, text
	}
	Register(&Check{ID: "C11", Level: "model_checking", Run: func(c *Ctx) {
		var mu sync.Mutex
		var total explore.ImportStats
		runs := []WorldRun{
			{World: "pay", Quick: b(1, 1, 2), Thorough: b(2, 2, 2), MenuFilter: noReplay, OneEnv: true},
			{World: "coin", Quick: b(1, 1, 2), Thorough: b(2, 2, 2), OneEnv: true},
			{World: "pool", Quick: b(1, 1, 1), Thorough: b(2, 2, 2), OneEnv: true},
			{World: "book", Quick: b(1, 1, 1), Thorough: b(2, 2, 2), OneEnv: true},
			{World: "stake", Quick: b(1, 1, 1), Thorough: b(2, 2, 2), OneEnv: true},
		}
		for i := range runs {
			runs[i].OnTransition = func(t *explore.Transition, newState bool) []explore.Violation {
				if t.Cur.Fault != nil || !newState {
					return nil
				}
				var st explore.ImportStats
				vs := explore.ImportTwin(t.W, t.Cur.Hist, menuNoReplay(t.W), &st)
				mu.Lock()
				total.States += st.States
				total.FollowUps += st.FollowUps
				total.Executions += st.Executions
				mu.Unlock()
				return vs
			}
		}
		RunExplore(c, runs, one(monitors.NoCrash{}), baseAssumptions...)
		cv := c.Ev.Coverage
		cv["import_twin_states"] = total.States
		cv["import_twin_followup_blocks"] = total.FollowUps
		cv["import_twin_executions"] = total.Executions
		if old, ok := cv["traces_validated_against_impl"].(int64); ok {
			cv["traces_validated_against_impl"] = old + int64(total.Executions)
		}
		cv["import_rule"] = fmt.Sprintf("for one representative history per distinct state within the bounds: the state is exported (fresh from disk) and completed with versions/emission/previous reward as cmd/minter/cmd/export.go does; Verify must accept it; a new chain is started from it (InitialHeight = h+1 so that period arithmetic lines up) and must export the same state; then for the empty block and for EVERY menu transaction t the block [t] is executed on the original and on the re-imported chain and response codes, validator updates, exports and emission are compared (ignored: max_gas, which is recomputed from block times that are not part of the genesis format)")
	}})
}
