package checks

import (
	"encoding/json"
	"fmt"
	"sort"
	"sync"

	"verif/explore"
	"verif/monitors"
	"verif/worlds"
)

// smallKeep makes the state tree prune old versions inside short histories, so that the
// pruning batch is one of the commit's writes.
func smallKeep(w *worlds.World) { w.P.KeepLastStates = 1 }

func init() {
	Replayers["crash"] = func(property string, payload json.RawMessage) (bool, string) {
		var p struct {
			replayPayload
			Target int `json:"target"`
			K      int `json:"k"`
		}
		if err := json.Unmarshal(payload, &p); err != nil {
			return false, err.Error()
		}
		w := worlds.Get(p.World)
		smallKeep(w)
		noReplay(w)
		var st explore.CrashStats
		// the payload history already contains the follow-up blocks
		vs := explore.CrashEnum(w, p.History, 0, false, &st)
		text := fmt.Sprintf("crash enumeration of %s: %d crash points\n", p.History.String(), st.CrashPoints)
		for _, v := range vs {
			text += v.Signature + ": " + v.Detail + "\n"
		}
		return len(vs) > 0, text
	}
	Register(&Check{ID: "C10", Level: "fault_enumeration", Run: func(c *Ctx) {
		var mu sync.Mutex
		total := explore.CrashStats{Labels: map[string]int{}}
		runs := []WorldRun{
			{World: "pay", Quick: b(1, 1, 2), Thorough: b(2, 2, 3), MenuFilter: noReplay},
			{World: "coin", Quick: b(1, 1, 2), Thorough: b(2, 2, 2), OneEnv: true},
			{World: "book", Quick: b(1, 1, 2), Thorough: b(2, 2, 2), OneEnv: true},
			{World: "booktiny", Quick: b(2, 2, 1), Thorough: b(3, 2, 2), OneEnv: true},
			{World: "pool", Quick: b(1, 1, 1), Thorough: b(2, 2, 2), OneEnv: true},
			{World: "stake", Quick: b(1, 1, 2), Thorough: b(2, 2, 2), OneEnv: true},
			{World: "valbyz", Quick: b(0, 0, 2), Thorough: b(0, 0, 3)},
			// blocks that re-price the block reward (header times around noon): the price record of the app DB changes
			{World: "mint", Quick: b(0, 0, 2), Thorough: b(1, 1, 3)},
			{World: "mint-rec", Quick: b(0, 0, 2), Thorough: b(1, 1, 3)},
		}
		for i := range runs {
			runs[i].Prepare = smallKeep
			runs[i].OnTransition = func(t *explore.Transition, newState bool) []explore.Violation {
				if t.Cur.Fault != nil || !newState {
					return nil
				}
				var st explore.CrashStats
				vs := explore.CrashEnum(t.W, t.Cur.Hist, 2, c.Quick(), &st)
				mu.Lock()
				total.Targets += st.Targets
				total.CrashPoints += st.CrashPoints
				total.LostWrites += st.LostWrites
				total.Executions += st.Executions
				for k, v := range st.Labels {
					total.Labels[k] += v
				}
				mu.Unlock()
				return vs
			}
		}
		RunExplore(c, runs, one(monitors.NoCrash{}), baseAssumptions...)
		cv := c.Ev.Coverage
		cv["evaluations"] = int64(total.CrashPoints)
		cv["distinct_nontrivial"] = int64(total.LostWrites)
		cv["crash_targets"] = total.Targets
		cv["crash_executions"] = total.Executions
		var labels []string
		for k, v := range total.Labels {
			labels = append(labels, fmt.Sprintf("%s x%d", k, v))
		}
		sort.Strings(labels)
		cv["write_labels"] = labels
		cv["rule"] = "for one representative history per distinct state reached by the explorer (bounds per world below) and for its last block (thorough: every block), Commit is executed once with the mutation log on (W atomic writes: events id rows, events batch, IAVL SaveVersion batch, pruning batch, app-DB hash/height/validators/blockDelta/versions/emission/price); then for EVERY k in 0..W a fresh node is replayed to just before that Commit, the storage is armed to kill the process after the k-th write, the node object is dropped, a new node is built over the surviving databases and the Tendermint handshake (store=state+1 cases of consensus/replay.go v0.34.19) is played: Info height h-1 => block re-sent to the real app, Info height h => Info hash adopted; then the remaining blocks and 2 empty follow-up blocks are compared with the uncrashed run. evaluations = crash points executed; distinct_nontrivial = crash points that lost at least one write (k<W); every crash point is a distinct (history, block, k) triple"
		c.Ev.Assumptions = append(c.Ev.Assumptions, "process death is modelled at the granularity of tm-db Set / Batch.Write (atomic); torn writes below that are out of scope", "the Tendermint handshake is transcribed from consensus/replay.go of v0.34.19, not executed")
	}})
}
