package checks

import (
	"encoding/hex"
	"encoding/json"
	"fmt"
	"sync"
	"sync/atomic"
	"time"

	"verif/explore"
	"verif/lab"
	"verif/report"
	"verif/worlds"
)

// Byte-edit part of C07: every single-byte substitution, deletion and truncation (thorough:
// also insertion) of every menu transaction of the transaction worlds is given to CheckTx and
// DeliverTx of a real node inside one open block; no call may panic or exit.

type c07Edit struct {
	World string `json:"world"`
	Hex   string `json:"hex"`
	From  string `json:"from"` // menu item the bytes were derived from
}

func c07Mutations(b []byte, full, insertions bool, emit func([]byte)) {
	n := len(b)
	for i := 0; i < n; i++ {
		orig := b[i]
		if full {
			for v := 0; v < 256; v++ {
				if byte(v) == orig {
					continue
				}
				c := append([]byte{}, b...)
				c[i] = byte(v)
				emit(c)
			}
		} else {
			// quick: the substitutions that change RLP structure or flip single bits
			seen := map[byte]bool{orig: true}
			for _, v := range []byte{orig ^ 1, orig ^ 0x80, orig + 1, orig - 1, 0x00, 0x01, 0x7f, 0x80, 0x81, 0xb7, 0xb8, 0xbf, 0xc0, 0xf7, 0xf8, 0xff} {
				if seen[v] {
					continue
				}
				seen[v] = true
				c := append([]byte{}, b...)
				c[i] = v
				emit(c)
			}
		}
		emit(append(append([]byte{}, b[:i]...), b[i+1:]...)) // deletion
		emit(append([]byte{}, b[:i]...))                     // truncation
		if insertions {
			for _, v := range []byte{0x00, 0x01, 0x7f, 0x80, 0x81, 0xb8, 0xc0, 0xf8, 0xff} {
				c := append(append(append([]byte{}, b[:i]...), v), b[i:]...)
				emit(c)
			}
		}
	}
}

func c07DeliverOne(w *worlds.World, bytes []byte) *lab.Fault {
	r := explore.NewRunner(w, explore.Opts{NoDisk: true})
	defer r.N.Release()
	if r.Tr.Fault != nil {
		return nil
	}
	if f := r.N.Begin(lab.Env{}); f != nil {
		return nil
	}
	if _, f := r.N.Check(bytes); f != nil {
		return f
	}
	_, f := r.N.Deliver(bytes)
	return f
}

func init() {
	Replayers["bytes"] = func(property string, payload json.RawMessage) (bool, string) {
		var p c07Edit
		if err := json.Unmarshal(payload, &p); err != nil {
			return false, err.Error()
		}
		b, _ := hex.DecodeString(p.Hex)
		f := c07DeliverOne(worlds.Get(p.World), b)
		if f != nil {
			return true, f.String() + "\n" + f.Stack
		}
		return false, "no fault"
	}
}

// RunC07Bytes is called by the C07 check after the explorer part.
func RunC07Bytes(c *Ctx) {
	ws := []string{"pay", "coin", "pool", "book", "stake"}
	var delivered, accepted, faults int64
	start := time.Now()
	type job struct {
		world string
		item  int
	}
	var jobs []job
	for _, name := range ws {
		w := worlds.Get(name)
		for i := range w.Menu {
			if w.Menu[i].Replay == 0 && !w.Menu[i].StealSig && w.Menu[i].FixedBytes == nil {
				jobs = append(jobs, job{name, i})
			}
		}
	}
	ch := make(chan job, len(jobs))
	for _, j := range jobs {
		ch <- j
	}
	close(ch)
	var wg sync.WaitGroup
	var expired int32
	for k := 0; k < 16; k++ {
		wg.Add(1)
		go func() {
			defer wg.Done()
			for j := range ch {
				if time.Now().After(c.Deadline) {
					atomic.StoreInt32(&expired, 1)
					continue
				}
				w := worlds.Get(j.world)
				t := &w.Menu[j.item]
				var n *lab.Node
				fresh := func() bool {
					if n != nil {
						n.Release()
					}
					r := explore.NewRunner(w, explore.Opts{NoDisk: true})
					n = r.N
					if r.Tr.Fault != nil {
						return false
					}
					return n.Begin(lab.Env{}) == nil
				}
				if !fresh() {
					continue
				}
				nonce := n.App.CurrentState().Accounts().GetNonce(t.Sender())
				orig := t.Render(nonce)
				c07Mutations(orig, !c.Quick(), !c.Quick(), func(b []byte) {
					atomic.AddInt64(&delivered, 1)
					_, f := n.Check(b)
					var code uint32 = 1
					if f == nil {
						resp, f2 := n.Deliver(b)
						f, code = f2, resp.Code
					}
					if f != nil {
						atomic.AddInt64(&faults, 1)
						c.Rep.Add(report.Item{Property: "C07", Engine: "bytes", Signature: fmt.Sprintf("bytes|%s|%s|%s", f.Call, f.Kind, f.Top),
							Detail: fmt.Sprintf("world %s, bytes derived from %q: %s\n%s", j.world, t.Name, f.String(), f.Stack),
							Replay: c07Edit{World: j.world, Hex: hex.EncodeToString(b), From: t.Name}})
						fresh()
						return
					}
					if code == 0 {
						atomic.AddInt64(&accepted, 1)
						// an accepted neighbour consumed the nonce: start over so that the other neighbours are judged on the same state
						fresh()
					}
				})
				n.Release()
			}
		}()
	}
	wg.Wait()
	cv := c.Ev.Coverage
	cv["byte_edit_deliveries"] = delivered
	cv["byte_edit_accepted_neighbours"] = accepted
	cv["byte_edit_faults"] = faults
	cv["byte_edit_items"] = len(jobs)
	cv["byte_edit_wall_s"] = time.Since(start).Seconds()
	cv["byte_edit_rule"] = "for every non-replay menu transaction of the worlds pay, coin, pool, book, stake (rendered with the right nonce on the genesis state): every single-byte substitution (thorough: all 255 values per position; quick: 16 structure-changing / bit-flipping values), every deletion and every truncation (thorough: plus 9 insertion values per position) is given to CheckTx and then DeliverTx of a real node inside an open block; an accepted neighbour resets the node"
	old, _ := cv["traces_validated_against_impl"].(int64)
	cv["traces_validated_against_impl"] = old + delivered
	if atomic.LoadInt32(&expired) == 1 {
		cv["exhaustive"] = false
		cv["byte_edit_note"] = "the time budget of the tier ran out during the byte-edit pass: not every item was covered"
	}
	fmt.Printf("  byte edits: items=%d deliveries=%d accepted=%d faults=%d wall=%.1fs\n", len(jobs), delivered, accepted, faults, time.Since(start).Seconds())
}
