// Package vsync is a drop-in replacement of the standard "sync" package for the
// code under test (the C25 build rewrites `import "sync"` to `sync "verif/vsync"`).
//
// Without an attached scheduler every type behaves exactly like its standard
// counterpart (the real primitive is embedded and used). With a scheduler
// attached (package verif/sched) every Lock / RLock / Unlock / RUnlock / Add /
// Done / Wait first announces itself to the scheduler, which decides which
// thread runs next; the real primitive is still operated, at the moment the
// model grants the operation, with a Try* call that must succeed (otherwise the
// model and the real object disagree: harness error).
//
// Map, Once, Pool, Cond, Locker are aliases of the real types so that exported
// signatures such as `*sync.Map` keep their type.
package vsync

import (
	"sync"
	"sync/atomic"
)

// Aliases of the primitives that are not instrumented.
type (
	Map    = sync.Map
	Once   = sync.Once
	Pool   = sync.Pool
	Cond   = sync.Cond
	Locker = sync.Locker
)

// NewCond is sync.NewCond.
func NewCond(l Locker) *Cond { return sync.NewCond(l) }

// OnceFunc is sync.OnceFunc.
func OnceFunc(f func()) func() { return sync.OnceFunc(f) }

// Kind is the kind of a scheduling point.
type Kind uint8

// Kinds of operations.
const (
	KNone Kind = iota
	KLock
	KUnlock
	KRLock
	KRUnlock
	KWLock   // RWMutex.Lock
	KWUnlock // RWMutex.Unlock
	KTryLock
	KTryRLock
	KTryWLock
	KWgAdd
	KWgWait
	KYield // explicit boundary point of a harness thread
	KStart
	KExit
	// second phases (only ever pending when the first phase could not complete)
	KRLockQueued // reader queued behind an announced writer
	KWDrain      // writer announced, waiting for active readers to leave
	// KAfterUnlock is a point right AFTER a write-unlock (Mutex.Unlock, RWMutex.Unlock): code that
	// releases a lock and then goes on modifying what the lock protected is preemptible there.
	KAfterUnlock
)

var kindNames = [...]string{"none", "Lock", "Unlock", "RLock", "RUnlock", "WLock", "WUnlock", "TryLock", "TryRLock", "TryWLock", "WgAdd", "WgWait", "yield", "start", "exit", "RLock(queued)", "WLock(drain)", "after-Unlock"}

func (k Kind) String() string {
	if int(k) < len(kindNames) {
		return kindNames[k]
	}
	return "?"
}

// Class of a synchronisation object.
const (
	ClassMutex   = 1
	ClassRWMutex = 2
	ClassWG      = 3
)

// Meta is the per-object record the scheduler keeps inside the object. It is
// only meaningful while Epoch equals the epoch of the attached scheduler run;
// the scheduler resets it on first use in a run.
type Meta struct {
	Epoch uint32
	Class uint8
	ID    int32 // index in the object table of the run (stable identity: first-use site + sequence)

	// model state
	Owner   int32 // Mutex: holder thread+1; RWMutex: holder of the writer mutex +1 (announced or active)
	Active  bool  // RWMutex: the writer holds the lock (drained)
	Readers int32 // RWMutex: active readers
	Gen     uint32
	// Released is the writer generation up to which queued readers have been let in.
	Released uint32
	N        int64 // WaitGroup: model counter
}

// Scheduler is implemented by verif/sched.
type Scheduler interface {
	// Op is called before the operation; it returns when the model has granted it
	// (blocking operations) or decided its result (Try*: ok).
	Op(k Kind, m *Meta, delta int64) (ok bool)
}

var cur Scheduler

// Attach installs a scheduler. Must be called while no instrumented code runs.
func Attach(s Scheduler) { cur = s }

// Detach removes the scheduler.
func Detach() { cur = nil }

// Attached tells whether a scheduler is installed.
func Attached() bool { return cur != nil }

// Mismatch is the panic value raised when the real primitive disagrees with the model.
type Mismatch struct{ What string }

func (m Mismatch) Error() string { return "vsync: model/real mismatch: " + m.What }

// ---------------------------------------------------------------- Mutex

// Mutex replaces sync.Mutex.
type Mutex struct {
	mu sync.Mutex
	m  Meta
}

// Lock locks m.
func (m *Mutex) Lock() {
	if s := cur; s != nil {
		m.m.Class = ClassMutex
		s.Op(KLock, &m.m, 0)
		if !m.mu.TryLock() {
			panic(Mismatch{"Mutex.Lock granted by the model but the real mutex is held"})
		}
		return
	}
	m.mu.Lock()
}

// TryLock tries to lock m.
func (m *Mutex) TryLock() bool {
	if s := cur; s != nil {
		m.m.Class = ClassMutex
		ok := s.Op(KTryLock, &m.m, 0)
		if ok && !m.mu.TryLock() {
			panic(Mismatch{"Mutex.TryLock granted by the model but the real mutex is held"})
		}
		return ok
	}
	return m.mu.TryLock()
}

// Unlock unlocks m.
func (m *Mutex) Unlock() {
	if s := cur; s != nil {
		m.m.Class = ClassMutex
		s.Op(KUnlock, &m.m, 0)
		m.mu.Unlock()
		s.Op(KAfterUnlock, &m.m, 0)
		return
	}
	m.mu.Unlock()
}

// ---------------------------------------------------------------- RWMutex

// RWMutex replaces sync.RWMutex.
type RWMutex struct {
	mu sync.RWMutex
	m  Meta
}

// Lock locks rw for writing.
func (rw *RWMutex) Lock() {
	if s := cur; s != nil {
		rw.m.Class = ClassRWMutex
		s.Op(KWLock, &rw.m, 0)
		if !rw.mu.TryLock() {
			panic(Mismatch{"RWMutex.Lock granted by the model but the real lock is held"})
		}
		return
	}
	rw.mu.Lock()
}

// TryLock tries to lock rw for writing.
func (rw *RWMutex) TryLock() bool {
	if s := cur; s != nil {
		rw.m.Class = ClassRWMutex
		ok := s.Op(KTryWLock, &rw.m, 0)
		if ok && !rw.mu.TryLock() {
			panic(Mismatch{"RWMutex.TryLock granted by the model but the real lock is held"})
		}
		return ok
	}
	return rw.mu.TryLock()
}

// Unlock unlocks rw for writing.
func (rw *RWMutex) Unlock() {
	if s := cur; s != nil {
		rw.m.Class = ClassRWMutex
		s.Op(KWUnlock, &rw.m, 0)
		rw.mu.Unlock()
		s.Op(KAfterUnlock, &rw.m, 0)
		return
	}
	rw.mu.Unlock()
}

// RLock locks rw for reading.
func (rw *RWMutex) RLock() {
	if s := cur; s != nil {
		rw.m.Class = ClassRWMutex
		s.Op(KRLock, &rw.m, 0)
		if !rw.mu.TryRLock() {
			panic(Mismatch{"RWMutex.RLock granted by the model but the real lock is write-held"})
		}
		return
	}
	rw.mu.RLock()
}

// TryRLock tries to lock rw for reading.
func (rw *RWMutex) TryRLock() bool {
	if s := cur; s != nil {
		rw.m.Class = ClassRWMutex
		ok := s.Op(KTryRLock, &rw.m, 0)
		if ok && !rw.mu.TryRLock() {
			panic(Mismatch{"RWMutex.TryRLock granted by the model but the real lock is write-held"})
		}
		return ok
	}
	return rw.mu.TryRLock()
}

// RUnlock undoes a single RLock call.
func (rw *RWMutex) RUnlock() {
	if s := cur; s != nil {
		rw.m.Class = ClassRWMutex
		s.Op(KRUnlock, &rw.m, 0)
	}
	rw.mu.RUnlock()
}

// RLocker returns a Locker whose Lock and Unlock call rw.RLock and rw.RUnlock.
func (rw *RWMutex) RLocker() Locker { return (*rlocker)(rw) }

type rlocker RWMutex

func (r *rlocker) Lock()   { (*RWMutex)(r).RLock() }
func (r *rlocker) Unlock() { (*RWMutex)(r).RUnlock() }

// ---------------------------------------------------------------- WaitGroup

// WaitGroup replaces sync.WaitGroup. The wrapper keeps its own copy of the
// counter so that a scheduler attached later knows its value.
type WaitGroup struct {
	wg sync.WaitGroup
	n  int64
	m  Meta
}

// Add adds delta to the counter.
func (wg *WaitGroup) Add(delta int) {
	if s := cur; s != nil {
		wg.m.Class = ClassWG
		wg.m.N = atomic.LoadInt64(&wg.n)
		s.Op(KWgAdd, &wg.m, int64(delta))
	}
	atomic.AddInt64(&wg.n, int64(delta))
	wg.wg.Add(delta)
}

// Done decrements the counter.
func (wg *WaitGroup) Done() { wg.Add(-1) }

// Wait blocks until the counter is zero.
func (wg *WaitGroup) Wait() {
	if s := cur; s != nil {
		wg.m.Class = ClassWG
		wg.m.N = atomic.LoadInt64(&wg.n)
		s.Op(KWgWait, &wg.m, 0)
	}
	wg.wg.Wait()
}

// Go is sync.WaitGroup.Go of newer Go versions (not used by the code under test; kept for completeness).
func (wg *WaitGroup) Go(f func()) {
	wg.Add(1)
	go func() {
		defer wg.Done()
		f()
	}()
}
