package monitors

import (
	"verif/explore"
	"verif/obs"
)

// TwinDiff is the export difference between the twin (block without its last transaction) and the block.
func TwinDiff(t *explore.Transition) []obs.DiffEntry { return twinDiff(t) }
