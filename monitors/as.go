package monitors

import "verif/explore"

// As re-labels a monitor's verdicts with another property id (used when one property is
// decided by several engines whose parts were built under temporary ids).
func As(property string, m explore.Monitor) explore.Monitor { return asMon{property, m} }

type asMon struct {
	p string
	m explore.Monitor
}

func (a asMon) Property() string { return a.p }

func (a asMon) Check(t *explore.Transition) ([]explore.Violation, bool) {
	vs, n := a.m.Check(t)
	for i := range vs {
		vs[i].Property = a.p
	}
	return vs, n
}
