package monitors

import (
	"encoding/json"
	"fmt"
	"math/big"
	"strings"
	"sync"
	"time"

	"github.com/MinterTeam/minter-go-node/coreV2/types"

	"verif/explore"
	"verif/obs"
	"verif/worlds"
)

// ---------------------------------------------------------------- C28 (node level, id C28X)

// BlockReward: while total emission is below the cap every block mints the current price-derived
// reward; the reward is recomputed only on the first block of a stake period whose block time is
// within 12:00:00–14:59:59 UTC and more than 3 hours after the previous update, as 350·p^(1/4) BIP
// (p = USDT reserve / BIP reserve of the BIP/USDT pool before the block); a price change of −10 % or
// worse (rounded down to a whole percent) switches the validators' share to zero, afterwards it
// recovers by 10 BIP per update up to the price-derived level; the withheld part is burned (credited
// to the zero address); once emission has reached the cap nothing is minted.
//
// Reference: a small state machine (time of the last update, reserves at the last update, share,
// off-flag, price-derived level) started from the genesis PrevReward and carried over ALL blocks of
// the history (the history is re-executed with a state capture after every block). Arithmetic: exact
// rationals for the percentage, 512-bit floats (two square roots) for the level with a relative
// tolerance of 1e-12; after the level passed that test the node's own level is used for the exact
// accounting that follows. Only the verdicts about the LAST block are reported (earlier blocks are
// the last block of their own, shorter histories).
//
// Readings in favour of the code: before the first update the block reward and the level both equal
// the genesis PrevReward.Reward even if the genesis off-flag is set; the check of the validators'
// share is skipped on payout blocks (height ≡ 0 mod period), where the accumulated rewards are paid out
// (C19's subject); nothing is demanded about update events once the cap is reached.
type BlockReward struct{}

func (BlockReward) Property() string { return "C28X" }

// c28xStats counts, over the last blocks of all judged histories, which branch of the rule was exercised.
var (
	c28xStatsMu sync.Mutex
	c28xStats   = map[string]int64{}
)

func c28xCount(k string) {
	c28xStatsMu.Lock()
	c28xStats[k]++
	c28xStatsMu.Unlock()
}

// C28XStats returns a copy of the branch counters.
func C28XStats() map[string]int64 {
	c28xStatsMu.Lock()
	defer c28xStatsMu.Unlock()
	out := map[string]int64{}
	for k, v := range c28xStats {
		out[k] = v
	}
	return out
}

type c28xModel struct {
	prevT        time.Time
	oldR0, oldR1 *big.Int
	last         *big.Int // validators' share recorded at the last update
	off          bool
	reward, safe *big.Int // what a block mints for validators / in total
}

var c28xBip10 = new(big.Int).Mul(big.NewInt(10), new(big.Int).Exp(big.NewInt(10), big.NewInt(18), nil))

// c28xLevelRef is floor(350 · (r1/r0)^(1/4) · 10^18) computed with 512-bit floats.
func c28xLevelRef(r0, r1 *big.Int) *big.Int {
	const prec = 512
	x := new(big.Float).SetPrec(prec).Quo(new(big.Float).SetPrec(prec).SetInt(r1), new(big.Float).SetPrec(prec).SetInt(r0))
	x.Sqrt(x)
	x.Sqrt(x)
	x.Mul(x, new(big.Float).SetPrec(prec).SetInt(new(big.Int).Mul(big.NewInt(350), new(big.Int).Exp(big.NewInt(10), big.NewInt(18), nil))))
	out, _ := x.Int(nil)
	return out
}

// c28xPctFloor is floor(100·(pNew − pOld)/pOld) for p = r1/r0.
func c28xPctFloor(oldR0, oldR1, r0, r1 *big.Int) *big.Int {
	// (r1/r0 − o1/o0)/(o1/o0)·100 = 100·(r1·o0 − o1·r0)/(o1·r0)
	num := new(big.Int).Sub(new(big.Int).Mul(r1, oldR0), new(big.Int).Mul(oldR1, r0))
	num.Mul(num, big.NewInt(100))
	den := new(big.Int).Mul(oldR1, r0)
	q, m := new(big.Int).QuoRem(num, den, new(big.Int))
	if m.Sign() < 0 { // QuoRem truncates towards zero; den > 0
		q.Sub(q, big.NewInt(1))
	}
	return q
}

func c28xRewardEvent(s *explore.State) (value, safe *big.Int, found bool) {
	const pfx = "minter/UpdatedBlockRewardEvent:"
	i := strings.Index(s.Events, pfx)
	if i < 0 {
		return nil, nil, false
	}
	rest := s.Events[i+len(pfx):]
	j := strings.Index(rest, "}")
	if j < 0 {
		return nil, nil, false
	}
	var e struct {
		Value string `json:"value"`
		X3    string `json:"value_locked_stake_rewards"`
	}
	if err := json.Unmarshal([]byte(rest[:j+1]), &e); err != nil {
		return nil, nil, false
	}
	x3 := obs.Num(e.X3)
	sf, rem := new(big.Int).QuoRem(x3, big.NewInt(3), new(big.Int))
	if rem.Sign() != 0 {
		return obs.Num(e.Value), nil, true
	}
	return obs.Num(e.Value), sf, true
}

func c28xUsdtPool(s *explore.State) (r0, r1 *big.Int, ok bool) {
	for _, p := range s.Export.Pools {
		if p.Coin0 == 0 && p.Coin1 == types.USDTID {
			return obs.Num(p.Reserve0), obs.Num(p.Reserve1), true
		}
		if p.Coin1 == 0 && p.Coin0 == types.USDTID {
			return obs.Num(p.Reserve1), obs.Num(p.Reserve0), true
		}
	}
	return nil, nil, false
}

func c28xSumAccum(s *explore.State) *big.Int {
	sum := obs.Num(s.Export.TotalSlashed)
	for _, v := range s.Export.Validators {
		sum.Add(sum, obs.Num(v.AccumReward))
	}
	return sum
}

func c28xZeroBal(s *explore.State) *big.Int {
	return obs.Num(s.Flat["acct/"+(types.Address{}).String()+"/bal/0"])
}

func (BlockReward) Check(t *explore.Transition) ([]V, bool) {
	cur := t.Cur
	if len(cur.Steps) == 0 || len(cur.Hist) == 0 {
		return nil, false
	}
	w := t.W
	// single-block histories carry their own before/after states; longer ones are re-executed
	// with a capture after every block (deterministic: same world, same history)
	full, initState := cur, cur.Pre
	if len(cur.Hist) > 1 {
		full = explore.Exec(w, cur.Hist, explore.Opts{CaptureAll: true, NoDisk: true})
		initState = full.Init
	}
	if initState == nil || len(full.Steps) != len(cur.Steps) {
		return nil, false
	}
	gen := w.Genesis()
	period := int64(w.P.StakePeriod)
	capv := worlds.C28XMintCap()
	m := &c28xModel{
		prevT: time.Unix(0, int64(gen.PrevReward.Time)).UTC(),
		oldR0: obs.Num(gen.PrevReward.AmountBIP), oldR1: obs.Num(gen.PrevReward.AmountUSDT),
		last: obs.Num(gen.PrevReward.Reward), off: gen.PrevReward.Off,
		reward: obs.Num(gen.PrevReward.Reward), safe: obs.Num(gen.PrevReward.Reward),
	}
	lastTime := w.P.GenesisTime
	if lastTime.IsZero() {
		lastTime = worlds.C28XMintGenesisTime
	}
	var out []V
	nontrivial := false
	for i := range full.Steps {
		st := &full.Steps[i]
		isLast := i == len(full.Steps)-1
		pre := initState
		if i > 0 {
			pre = full.Steps[i-1].Post
		}
		if pre == nil {
			return nil, false
		}
		if w.Envs[st.Block.Env].FF > 0 {
			return nil, false // fast-forward steps are not modelled
		}
		bt := worlds.C28XMintBlockTime(st.Block.Env, lastTime)
		if st.Obs != nil && !st.Obs.Time.IsZero() && !st.Obs.Time.Equal(bt) {
			return []V{{Signature: "harness|block-time-model", Detail: fmt.Sprintf("block %d: model time %s, node time %s", i, bt, st.Obs.Time)}}, false
		}
		lastTime = bt
		h := st.Height
		var vs []V
		add := func(sig, det string) { vs = append(vs, V{Signature: sig, Detail: fmt.Sprintf("block %d (height %d, %s UTC): %s", i+1, h, bt.Format("2006-01-02 15:04:05"), det)}) }

		capReached := pre.Emission.Cmp(capv) >= 0
		firstOfPeriod := h%period == 1
		inWindow := bt.Hour() >= 12 && bt.Hour() <= 14 // 12:00:00 … 14:59:59
		since := bt.Sub(m.prevT)
		due := !capReached && firstOfPeriod && inWindow && since > 3*time.Hour
		why := ""
		switch {
		case capReached:
			why = "cap-reached"
		case !firstOfPeriod:
			why = "not-first-block-of-period"
		case !inWindow:
			why = "outside-12:00-14:59"
		case since == 3*time.Hour:
			why = "exactly-3h-after-last-update"
		case since < 3*time.Hour:
			why = "less-than-3h-after-last-update"
		}
		if capReached {
			m.reward, m.safe = new(big.Int), new(big.Int)
		}
		if firstOfPeriod || capReached {
			nontrivial = nontrivial || isLast
		}

		r0, r1, hasPool := c28xUsdtPool(pre)
		if st.Obs != nil && st.Obs.Fault != nil || st.Post == nil {
			f := full.Fault
			if isLast && f != nil && f.Kind != "crash" {
				if due && !hasPool && f.Kind == "panic" && f.Call == "BeginBlock" {
					add("panic-no-usdt-pool|BeginBlock", fmt.Sprintf("a reward update is due (first block of a period, inside the window, %s after the last update) but there is no BIP/USDT pool (coin %d): BeginBlock panics instead of minting the block reward: %s", since, types.USDTID, f.String()))
				} else {
					add(fmt.Sprintf("block-fault|%s|%s|%s", f.Call, f.Kind, f.Top), "the block did not complete, no reward was minted: "+f.String())
				}
				out = append(out, vs...)
			}
			return out, true
		}
		post := st.Post
		evValue, evSafe, evFound := c28xRewardEvent(post)

		rule := "none"
		if due && !hasPool {
			// no price exists: nothing is demanded beyond "the block completes"; follow the node
			if evFound && evSafe != nil {
				m.reward, m.safe, m.last, m.prevT = evValue, evSafe, evValue, bt
			}
		} else if due {
			if !evFound {
				add("update-missing|"+fmt.Sprintf("hour-%02d", bt.Hour()), fmt.Sprintf("first block of a period, inside the window, %s after the last update (%s): no UpdatedBlockRewardEvent", since, m.prevT.Format("2006-01-02 15:04:05")))
				// the model goes on as if the update had happened with the reference level
				evSafe = c28xLevelRef(r0, r1)
			} else if evSafe == nil {
				add("update-event-malformed", "value_locked_stake_rewards is not three times a whole number")
				evSafe = c28xLevelRef(r0, r1)
			}
			ref := c28xLevelRef(r0, r1)
			// |node − ref| <= 1e-12 · ref
			diff := new(big.Int).Abs(new(big.Int).Sub(evSafe, ref))
			if new(big.Int).Mul(diff, new(big.Int).Exp(big.NewInt(10), big.NewInt(12), nil)).Cmp(ref) > 0 {
				add("price-reward-level", fmt.Sprintf("reserves %s BIP / %s USDT: the node's price-derived reward %s differs from 350*p^(1/4) = %s by more than 1e-12", r0, r1, evSafe, ref))
			}
			level := evSafe
			pct := c28xPctFloor(m.oldR0, m.oldR1, r0, r1)
			switch {
			case pct.Cmp(big.NewInt(-10)) <= 0:
				rule = "drop"
				m.last, m.off = new(big.Int), true
			case m.off && m.last.Cmp(level) < 0:
				m.last = new(big.Int).Add(m.last, c28xBip10)
				if m.last.Cmp(level) >= 0 {
					rule = "recover-capped"
					m.last, m.off = new(big.Int).Set(level), false
				} else {
					rule = "recover"
				}
			default:
				rule = "normal"
				m.last, m.off = new(big.Int).Set(level), false
			}
			m.reward, m.safe = new(big.Int).Set(m.last), new(big.Int).Set(level)
			m.prevT, m.oldR0, m.oldR1 = bt, r0, r1
			if evFound && evValue.Cmp(m.reward) != 0 {
				add("share-after-update|"+rule, fmt.Sprintf("price change %s %% (rounded down), rule %q: validators' share should become %s, the node announces %s (level %s)", pct, rule, m.reward, evValue, level))
				m.reward, m.last = new(big.Int).Set(evValue), new(big.Int).Set(evValue)
			}
		} else if evFound && capReached {
			// the property states the update rule for emission below the cap only: not judged
		} else if evFound {
			add("update-outside-rule|"+why, fmt.Sprintf("UpdatedBlockRewardEvent although no update is due (%s; %s after the last update at %s)", why, since, m.prevT.Format("2006-01-02 15:04:05")))
			// resynchronise the model with the node
			if evSafe != nil && !capReached {
				m.reward, m.safe, m.last, m.prevT = evValue, evSafe, new(big.Int).Set(evValue), bt
				m.off = evValue.Cmp(evSafe) < 0
				if hasPool {
					m.oldR0, m.oldR1 = r0, r1
				}
			}
		}

		if isLast {
			switch {
			case due:
				c28xCount("update-due|" + rule)
			case firstOfPeriod || capReached || inWindow:
				c28xCount("no-update|" + why)
			}
		}
		// ---- accounting of the block
		capClass := map[bool]string{true: "cap-reached", false: "below-cap"}[capReached]
		dEm := new(big.Int).Sub(post.Emission, pre.Emission)
		if dEm.Cmp(m.safe) != 0 {
			add("emission-delta|"+capClass, fmt.Sprintf("emission %s -> %s (delta %s), the current price-derived reward is %s (cap %s)", pre.Emission, post.Emission, dEm, m.safe, capv))
		}
		withheld := new(big.Int).Sub(m.safe, m.reward)
		if withheld.Sign() < 0 {
			withheld.SetInt64(0)
		}
		if withheld.Sign() > 0 && isLast {
			nontrivial = true
			c28xCount("block-with-withheld-part")
		}
		if isLast && m.safe.Sign() > 0 {
			c28xCount("block-minting")
		}
		if dz := new(big.Int).Sub(c28xZeroBal(post), c28xZeroBal(pre)); dz.Cmp(withheld) != 0 {
			add("withheld-not-burned|"+rule+"|"+capClass, fmt.Sprintf("the zero address received %s, the withheld part of the reward is %s - %s = %s", dz, m.safe, m.reward, withheld))
		}
		if h%period != 0 && st.Obs != nil && st.Obs.Rewards != nil {
			got := new(big.Int).Sub(c28xSumAccum(post), c28xSumAccum(pre))
			got.Sub(got, st.Obs.Rewards) // transaction fees of the block
			if got.Cmp(m.reward) != 0 {
				add("validators-share|"+capClass, fmt.Sprintf("validators' accumulated rewards (+ rounding remainder) grew by %s beyond the fees %s, the current share is %s (level %s)", got, st.Obs.Rewards, m.reward, m.safe))
			}
		}
		if isLast {
			out = append(out, vs...)
		}
	}
	return out, nontrivial
}
