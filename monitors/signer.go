package monitors

import (
	"math/big"

	"github.com/MinterTeam/minter-go-node/coreV2/transaction"
	"github.com/MinterTeam/minter-go-node/coreV2/types"
	"github.com/MinterTeam/minter-go-node/crypto"
	"github.com/MinterTeam/minter-go-node/rlp"
)

// independentSigner recovers the address that signed a single-signature transaction from the
// signed hash and the (v, r, s) values, without going through Transaction.Sender() or
// RecoverPlain (only the raw secp256k1 recovery of the crypto package is trusted).
func independentSigner(tx *transaction.Transaction) (types.Address, bool) {
	var sig struct{ V, R, S *big.Int }
	if err := rlp.DecodeBytes(tx.SignatureData, &sig); err != nil || sig.V == nil || sig.R == nil || sig.S == nil {
		return types.Address{}, false
	}
	if sig.V.BitLen() > 8 {
		return types.Address{}, false
	}
	v := byte(sig.V.Uint64() - 27)
	if v > 1 {
		return types.Address{}, false
	}
	r, s := sig.R.Bytes(), sig.S.Bytes()
	if len(r) > 32 || len(s) > 32 {
		return types.Address{}, false
	}
	b := make([]byte, 65)
	copy(b[32-len(r):32], r)
	copy(b[64-len(s):64], s)
	b[64] = v
	h := tx.Hash()
	pub, err := crypto.Ecrecover(h[:], b)
	if err != nil || len(pub) == 0 || pub[0] != 4 {
		return types.Address{}, false
	}
	var a types.Address
	copy(a[:], crypto.Keccak256(pub[1:])[12:])
	return a, true
}
