package monitors

// C18 — misbehaviour is punished exactly and only once.
//
// The oracle is a boring bookkeeping model of the validator worlds (worlds/val.go):
// it replays the vote / evidence / switch-transaction history of a trace and says, for
// the last block, who must have been switched off and jailed, who must have been slashed
// by how much, and who must have been left alone. It never looks at the node's absence
// bit array: the 24-block window is recomputed from the history of the environments.

import (
	"fmt"
	"math/big"
	"sort"
	"strings"
	"sync"
	"sync/atomic"

	"github.com/MinterTeam/minter-go-node/coreV2/transaction"
	"github.com/MinterTeam/minter-go-node/coreV2/types"
	"github.com/MinterTeam/minter-go-node/formula"

	"verif/explore"
	"verif/lab"
	"verif/obs"
	"verif/worlds"
)

// Constants of the property on the test network (coreV2/types/constants.go) and of the absence rule.
const (
	c18JailPeriod   = 354
	c18UnbondPeriod = 531
	c18Window       = 24
	c18MaxAbsent    = 12
	c18GraceLen     = 120 // the 120 blocks after the start height (= initial height - 1) are a grace period
	c18CodeJailed   = 414
)

var c18MinStake = new(big.Int).Mul(big.NewInt(1000), big.NewInt(1e18))

// c18Cand is the model's view of one candidate.
type c18Cand struct {
	pub         types.Pubkey
	addr        types.TmAddress
	id          uint64
	online      bool
	jailedUntil uint64
	inSet       bool
	eligible    bool            // total stake >= 1000 BIP (static in these worlds, lost by a byzantine punishment)
	flags       map[uint64]bool // height -> missed (recorded while in the set)
	uncertain   bool            // something happened that the property does not regulate (limit reached inside a grace period)

	// facts of the block executed last
	wasInSet, wasOnline bool
	wasJailed           uint64
	toDrop              bool
	missed, signed      bool
	count               int // misses among the last 24 blocks, counted when the block was missed
	limitHit            bool
	limitInGrace        bool
	byz                 int // evidence items that met it online and in the set
	byzSkipped          int // evidence items that met it offline or outside the set
	switched            string
}

// c18Model replays a history.
type c18Model struct {
	cands  []*c18Cand
	byAddr map[types.TmAddress]*c18Cand
	byPub  map[types.Pubkey]*c18Cand
	start  uint64
	period uint64
	h      uint64
	err    string
	// facts of the last block
	grace, payout, ff bool
	signed            map[types.TmAddress]bool
	evidence          []types.TmAddress
	unknownEvidence   int
	reward            *big.Int
}

// c18Counter is a set of named coverage counters filled by a monitor.
type c18Counter struct{ m sync.Map }

func (c *c18Counter) inc(name string) {
	v, _ := c.m.LoadOrStore(name, new(int64))
	atomic.AddInt64(v.(*int64), 1)
}

func (c *c18Counter) snapshot() map[string]int64 {
	out := map[string]int64{}
	c.m.Range(func(k, v interface{}) bool {
		out[k.(string)] = atomic.LoadInt64(v.(*int64))
		return true
	})
	return out
}

var c18Cov c18Counter

// C18Coverage reports how often each guarded mechanism was met by the C18 monitor in this process.
func C18Coverage() map[string]int64 { return c18Cov.snapshot() }

var c18GenesisCache sync.Map // *worlds.World -> *types.AppState

func c18GenesisOf(w *worlds.World) *types.AppState {
	if g, ok := c18GenesisCache.Load(w); ok {
		return g.(*types.AppState)
	}
	g := w.Genesis()
	c18GenesisCache.Store(w, g)
	return g
}

func c18NewModel(w *worlds.World) *c18Model {
	g := c18GenesisOf(w)
	m := &c18Model{byAddr: map[types.TmAddress]*c18Cand{}, byPub: map[types.Pubkey]*c18Cand{}, start: uint64(w.P.InitialHeight), period: w.P.StakePeriod}
	m.h = m.start - 1
	m.reward = obs.Num(g.PrevReward.Reward)
	for _, c := range g.Candidates {
		x := &c18Cand{pub: c.PubKey, addr: worlds.TmAddr(c.PubKey), id: c.ID, online: c.Status == 2, jailedUntil: c.JailedUntil,
			eligible: obs.Num(c.TotalBipStake).Cmp(c18MinStake) >= 0, flags: map[uint64]bool{}}
		m.cands = append(m.cands, x)
		m.byAddr[x.addr] = x
		m.byPub[x.pub] = x
	}
	for _, v := range g.Validators {
		x := m.byPub[v.PubKey]
		if x == nil {
			m.err = "validator without candidate"
			continue
		}
		x.inSet = true
		if v.AbsentTimes != nil {
			for hh := m.start - c18Window; hh < m.start; hh++ {
				if v.AbsentTimes.GetIndex(int(hh % c18Window)) {
					x.flags[hh] = true
				}
			}
		}
	}
	return m
}

func (m *c18Model) countMissed(c *c18Cand, h uint64) int {
	n := 0
	for k := h - c18Window + 1; k <= h; k++ {
		if c.flags[k] {
			n++
		}
	}
	return n
}

type c18TxFact struct {
	on, off bool
	pub     types.Pubkey
	code    uint32
}

func c18TxFactsOf(st *explore.Step) []c18TxFact {
	var out []c18TxFact
	for i := range st.Txs {
		r := &st.Txs[i]
		if r.T == nil {
			continue
		}
		switch d := r.T.Data.(type) {
		case transaction.SetCandidateOnData:
			out = append(out, c18TxFact{on: true, pub: d.PubKey, code: r.Resp.Code})
		case transaction.SetCandidateOffData:
			out = append(out, c18TxFact{off: true, pub: d.PubKey, code: r.Resp.Code})
		}
	}
	return out
}

// step executes one block on the model.
func (m *c18Model) step(env lab.Env, txs []c18TxFact) {
	m.h++
	h := m.h
	m.grace = h <= m.start-1+c18GraceLen
	m.payout = h%m.period == 0
	m.signed = map[types.TmAddress]bool{}
	m.evidence = env.Evidence
	m.unknownEvidence = 0
	for _, c := range m.cands {
		c.wasInSet, c.wasOnline, c.wasJailed = c.inSet, c.online, c.jailedUntil
		c.toDrop, c.missed, c.signed, c.limitHit, c.limitInGrace, c.byz, c.byzSkipped, c.count, c.switched = false, false, false, false, false, 0, 0, 0, ""
	}
	votes := env.Votes
	if votes == nil {
		if len(env.Absent) > 0 {
			m.err = "environment lists absences by index; the model needs explicit votes"
		}
		for _, c := range m.cands {
			if c.inSet {
				votes = append(votes, lab.Vote{Addr: c.addr, Signed: true})
			}
		}
	}
	for _, c := range m.cands {
		if !c.inSet {
			continue
		}
		found := false
		for _, v := range votes {
			if v.Addr == c.addr {
				found = true
			}
		}
		if !found && m.byAddrListed(votes) {
			// a validator that the commit info does not mention keeps a stale window slot in the node;
			// real commit infos list every validator of the signing set (assumption), joining validators excepted
			c.uncertain = c.uncertain || len(c.flags) > 0
		}
	}
	for _, v := range votes {
		if v.Signed {
			m.signed[v.Addr] = true
		}
		c := m.byAddr[v.Addr]
		if c == nil || !c.inSet {
			continue
		}
		if v.Signed {
			c.flags[h] = false
			c.signed = true
			continue
		}
		c.flags[h] = true
		c.missed = true
		c.count = m.countMissed(c, h)
		if c.count > c18MaxAbsent {
			c.limitHit = true
			if m.grace {
				// the property regulates nothing inside a grace period except that nobody is punished
				c.limitInGrace = true
				c.uncertain = true
			} else {
				c.jailedUntil = h + c18JailPeriod
			}
			c.online = false
			c.toDrop = true
			c.flags = map[uint64]bool{}
		}
	}
	for _, a := range env.Evidence {
		c := m.byAddr[a]
		if c == nil {
			m.unknownEvidence++
			continue
		}
		if !c.online || !c.inSet {
			c.byzSkipped++
			continue
		}
		c.byz++
		c.toDrop = true
		c.eligible = false
	}
	for _, t := range txs {
		c := m.byPub[t.pub]
		if c == nil || t.code != 0 {
			continue
		}
		if t.on {
			c.online = true
			c.switched = "on"
		}
		if t.off {
			c.online = false
			c.switched = "off"
			if c.inSet {
				c.toDrop = true
			}
		}
	}
	anyDrop := false
	for _, c := range m.cands {
		if c.toDrop && c.inSet {
			anyDrop = true
		}
	}
	if m.payout || anyDrop {
		for _, c := range m.cands {
			in := c.online && c.eligible
			if in != c.inSet {
				c.flags = map[uint64]bool{}
			}
			c.inSet = in
		}
	}
}

func (m *c18Model) byAddrListed(votes []lab.Vote) bool { return len(votes) > 0 }

// c18RunModel replays the whole trace; the per-block facts describe the last block.
func c18RunModel(tr *explore.Trace) *c18Model {
	w := tr.W
	m := c18NewModel(w)
	for i := 0; i < w.Warmup; i++ {
		var env lab.Env
		if w.WarmupEnv != nil {
			env = w.WarmupEnv(nil, i)
		}
		m.step(env, nil)
	}
	for i, b := range tr.Hist {
		es := w.Envs[b.Env]
		if es.Dyn != nil {
			m.err = "dynamic environment"
			return m
		}
		for k := 0; k < es.FF; k++ {
			m.step(lab.Env{}, nil)
		}
		var txs []c18TxFact
		if i < len(tr.Steps) {
			txs = c18TxFactsOf(&tr.Steps[i])
		}
		m.step(es.Env, txs)
		m.ff = es.FF > 0
		if i < len(tr.Steps) && uint64(tr.Steps[i].Height) != m.h {
			m.err = fmt.Sprintf("height of block %d is %d, the model is at %d", i, tr.Steps[i].Height, m.h)
			return m
		}
	}
	return m
}

// c18IsValWorld tells whether the trace belongs to a world the model understands.
func c18IsValWorld(w *worlds.World) bool { return strings.HasPrefix(w.Name, "val") }

// ---------------------------------------------------------------- export helpers

func c18CandOf(s *explore.State, pub types.Pubkey) *types.Candidate {
	for i := range s.Export.Candidates {
		if s.Export.Candidates[i].PubKey == pub {
			return &s.Export.Candidates[i]
		}
	}
	return nil
}

func c18ValidatorOf(s *explore.State, pub types.Pubkey) *types.Validator {
	for i := range s.Export.Validators {
		if s.Export.Validators[i].PubKey == pub {
			return &s.Export.Validators[i]
		}
	}
	return nil
}

// c18StakeSums adds up the stake values of a candidate per (owner, coin).
func c18StakeSums(c *types.Candidate) map[string]*big.Int {
	out := map[string]*big.Int{}
	if c == nil {
		return out
	}
	for _, lst := range [][]types.Stake{c.Stakes, c.Updates} {
		for _, s := range lst {
			k := fmt.Sprintf("%s/%d", s.Owner.String(), s.Coin)
			if out[k] == nil {
				out[k] = new(big.Int)
			}
			out[k].Add(out[k], obs.Num(s.Value))
		}
	}
	return out
}

func c18FundKey(f *types.FrozenFund) string {
	ck := "-"
	if f.CandidateKey != nil {
		ck = f.CandidateKey.String()
	}
	return fmt.Sprintf("%d/%s/%d/%d/%s/%d", f.Height, f.Address.String(), f.Coin, f.CandidateID, ck, f.MoveToCandidateID)
}

func c18Cut95(v *big.Int) *big.Int {
	return new(big.Int).Div(new(big.Int).Mul(v, big.NewInt(95)), big.NewInt(100))
}

type c18Multiset map[string][]string

func (m c18Multiset) add(k string, v *big.Int) { m[k] = append(m[k], v.String()) }

func (m c18Multiset) norm() {
	for k := range m {
		sort.Strings(m[k])
	}
}

func c18SameMulti(a, b c18Multiset) (string, bool) {
	a.norm()
	b.norm()
	var keys []string
	for k := range a {
		keys = append(keys, k)
	}
	for k := range b {
		if _, ok := a[k]; !ok {
			keys = append(keys, k)
		}
	}
	sort.Strings(keys)
	for _, k := range keys {
		if strings.Join(a[k], ",") != strings.Join(b[k], ",") {
			return k, false
		}
	}
	return "", true
}

// c18SlashOutcome is what punishing a set of candidates `times[c]` times does to the unbonding funds
// and to the counters, computed from the state before the block.
type c18SlashOutcome struct {
	funds     c18Multiset
	baseSlash *big.Int            // base-coin value taken from base-coin stakes and funds
	coinSlash map[uint64]*big.Int // custom coins taken, per coin
	items     map[uint64]int      // number of slashed custom-coin items, per coin
	released  map[string]*big.Int // "address/coin" -> what the funds maturing in this block pay out (slashed first when they come from a punished validator)
}

// c18ExpectSlash applies the punishment to every candidate of `who`: once (what the property asks
// for), or - perEvidence - once per evidence item in a row, the way a node does that does not
// remember that it punished the validator already in this block (the "slashed twice" pattern:
// existing funds are cut again, the funds just made from the stakes are cut again, and the emptied
// stakes leave funds of value 0).
func c18ExpectSlash(pre *explore.State, h uint64, who map[uint64]*c18Cand, perEvidence bool) c18SlashOutcome {
	roundsOf := func(c *c18Cand) int {
		if perEvidence {
			return c.byz
		}
		return 1
	}
	o := c18SlashOutcome{funds: c18Multiset{}, baseSlash: new(big.Int), coinSlash: map[uint64]*big.Int{}, items: map[uint64]int{}, released: map[string]*big.Int{}}
	take := func(coin uint64, v *big.Int) *big.Int {
		nv := c18Cut95(v)
		s := new(big.Int).Sub(v, nv)
		if coin == 0 {
			o.baseSlash.Add(o.baseSlash, s)
		} else {
			if o.coinSlash[coin] == nil {
				o.coinSlash[coin] = new(big.Int)
			}
			o.coinSlash[coin].Add(o.coinSlash[coin], s)
			o.items[coin]++
		}
		return nv
	}
	for i := range pre.Export.FrozenFunds {
		f := &pre.Export.FrozenFunds[i]
		if f.Height == h {
			// released in this very block: the punishment of BeginBlock comes first, so a fund of a
			// punished validator that matures now is paid out at 95 %. (Moves go to a stake: C16.)
			v := obs.Num(f.Value)
			if c := who[f.CandidateID]; c != nil && f.CandidateKey != nil {
				for r := 0; r < roundsOf(c); r++ {
					v = take(f.Coin, v)
				}
			}
			if f.MoveToCandidateID == 0 {
				k := fmt.Sprintf("%s/%d", f.Address.String(), f.Coin)
				if o.released[k] == nil {
					o.released[k] = new(big.Int)
				}
				o.released[k].Add(o.released[k], v)
			}
			continue
		}
		v := obs.Num(f.Value)
		if c := who[f.CandidateID]; c != nil && f.CandidateKey != nil && f.Height >= h && f.Height <= h+c18UnbondPeriod {
			for r := 0; r < roundsOf(c); r++ {
				v = take(f.Coin, v)
			}
		}
		o.funds.add(c18FundKey(f), v)
	}
	for _, c := range who {
		pc := c18CandOf(pre, c.pub)
		if pc == nil {
			continue
		}
		for _, s := range pc.Stakes {
			v := take(s.Coin, obs.Num(s.Value))
			pk := c.pub
			key := c18FundKey(&types.FrozenFund{Height: h + c18UnbondPeriod, Address: s.Owner, CandidateKey: &pk, CandidateID: c.id, Coin: s.Coin})
			for r := 1; r < roundsOf(c); r++ {
				v = take(s.Coin, v) // the fund made from the stake is cut again
				o.funds.add(key, new(big.Int))
			}
			o.funds.add(key, v)
		}
	}
	return o
}

func c18FundsOf(s *explore.State) c18Multiset {
	m := c18Multiset{}
	for i := range s.Export.FrozenFunds {
		f := &s.Export.FrozenFunds[i]
		m.add(c18FundKey(f), obs.Num(f.Value))
	}
	return m
}

// ---------------------------------------------------------------- the monitor

// Punishment is the C18 monitor.
type Punishment struct{}

func (Punishment) Property() string { return "C18" }

func (Punishment) Check(t *explore.Transition) ([]V, bool) {
	cur := t.Cur
	if len(cur.Hist) == 0 || !c18IsValWorld(cur.W) {
		return nil, false
	}
	m := c18RunModel(cur)
	if m.err != "" {
		return []V{{Signature: "harness|model-cannot-follow", Detail: m.err}}, false
	}
	anyByz, anyLimit, anyEvidence := false, false, len(m.evidence) > 0
	for _, c := range m.cands {
		if c.byz > 0 {
			anyByz = true
		}
		if c.limitHit {
			anyLimit = true
		}
	}
	if f := cur.Fault; f != nil {
		// a crash is C07's subject, except where it keeps a due punishment from happening
		if anyByz && len(cur.Steps) == len(cur.Hist) {
			c18Cov.inc("evidence_block_crashed")
			when := "block"
			if m.payout {
				when = "payout-block"
			}
			return []V{{Signature: fmt.Sprintf("evidence-in-%s|%s-%s|%s", when, f.Call, f.Kind, f.Top),
				Detail: fmt.Sprintf("height %d: byzantine evidence against a live validator, and %s; the punishment is never committed", m.h, f.String())}}, true
		}
		return nil, false
	}
	pre, post, last := cur.Pre, cur.Final(), cur.Last()
	if pre == nil || post == nil || last == nil {
		return nil, false
	}
	var out []V
	add := func(sig, format string, a ...interface{}) {
		out = append(out, V{Signature: sig, Detail: fmt.Sprintf("height %d (%s): ", m.h, cur.W.Envs[last.Block.Env].Name) + fmt.Sprintf(format, a...)})
	}
	h := m.h
	nontrivial := anyLimit || anyEvidence

	// (−1) the record of missed blocks as the committed state holds it (what a restarted node,
	// a query at this height or an export counts from) must be the node's
	for _, d := range post.DiskDiff {
		if obs.KeyClass(d.Key) == "val/*/absent" {
			add("absence-window|committed-record-differs", "%s: the node holds %q, its committed state %q", d.Key, d.A, d.B)
		}
	}

	// (0) the model and the node agree on who was a validator before the block (else the model is lost: report once, loudly)
	if !m.ff {
		for _, c := range m.cands {
			if c.uncertain {
				continue
			}
			if (c18ValidatorOf(pre, c.pub) != nil) != c.wasInSet {
				if len(cur.Hist) > 1 {
					return nil, nontrivial // the deviation arose in an earlier block and was reported there
				}
				add("validator-set-before-block-differs-from-model", "candidate %d: in the set before the block: node %v, model %v", c.id, c18ValidatorOf(pre, c.pub) != nil, c.wasInSet)
				return out, nontrivial
			}
		}
	}

	// (1) absence rule, jail, status, membership
	updates := map[types.Pubkey]int64{}
	for _, u := range last.Obs.End.ValidatorUpdates {
		var p types.Pubkey
		copy(p[:], u.PubKey.GetEd25519())
		updates[p] = u.Power
	}
	for _, c := range m.cands {
		pc := c18CandOf(post, c.pub)
		if pc == nil {
			add("candidate-disappeared", "candidate %d is gone", c.id)
			continue
		}
		kind := "untouched"
		switch {
		case c.limitInGrace:
			kind = "limit-reached-in-grace"
		case c.limitHit:
			kind = "limit-exceeded"
		case c.byz > 0:
			kind = "evidence"
		case c.byzSkipped > 0:
			kind = "evidence-against-offline-or-non-validator"
		case c.missed:
			kind = "missed-below-limit"
		case c.switched != "":
			kind = "switched-" + c.switched
		}
		if c.missed {
			nontrivial = true
		}
		switch {
		case c.limitInGrace:
			c18Cov.inc("limit_reached_inside_grace")
		case c.limitHit:
			c18Cov.inc("limit_exceeded_jailed")
		case c.missed && c.count == c18MaxAbsent:
			c18Cov.inc("missed_with_exactly_12_in_window")
		case c.missed:
			c18Cov.inc("missed_below_limit")
		}
		if c.byz == 1 {
			c18Cov.inc("evidence_once_against_live_validator")
		} else if c.byz > 1 {
			c18Cov.inc("evidence_repeated_in_one_block")
		}
		if c.byzSkipped > 0 {
			c18Cov.inc("evidence_against_offline_or_non_validator")
		}
		if c.uncertain && !c.limitInGrace {
			continue // lost track of it in an earlier grace block
		}
		// jail: exactly h+354 when the limit is exceeded outside a grace period, unchanged otherwise
		// deviations that were already there before the block were reported when they arose (except in the first explored block)
		fresh := len(cur.Hist) == 1
		if qc := c18CandOf(pre, c.pub); qc != nil && qc.JailedUntil == c.wasJailed && (qc.Status == 2) == c.wasOnline {
			fresh = true
		}
		if !fresh && !m.ff {
			continue
		}
		if pc.JailedUntil != c.jailedUntil {
			add("jailed-until|"+kind, "candidate %d: jailed_until %d, expected %d (misses among the last 24 blocks: %d, grace %v)", c.id, pc.JailedUntil, c.jailedUntil, c.count, m.grace)
		}
		if c.limitInGrace {
			continue // status / membership inside a grace period: not regulated
		}
		if (pc.Status == 2) != c.online {
			add("status|"+kind, "candidate %d: status %d, expected online=%v (misses among the last 24 blocks: %d, limit 12)", c.id, pc.Status, c.online, c.count)
		}
		inPost := c18ValidatorOf(post, c.pub) != nil
		if inPost != c.inSet {
			add("validator-set|"+kind, "candidate %d: in the validator set after the block: %v, expected %v", c.id, inPost, c.inSet)
		}
		if c.wasInSet && !c.inSet && !m.ff {
			if p, ok := updates[c.pub]; !ok || p != 0 {
				add("validator-update-missing|"+kind, "candidate %d leaves the set but EndBlock does not report power 0 for it (reported: %v %d)", c.id, ok, p)
			}
		}
	}

	// (2) SetCandidateOn against the jail
	for i := range last.Txs {
		r := &last.Txs[i]
		d, ok := r.T.Data.(transaction.SetCandidateOnData)
		if !ok {
			continue
		}
		c := m.byPub[d.PubKey]
		if c == nil {
			continue
		}
		// the jail the transaction sees: set before the block, or by this block's BeginBlock
		j := c.wasJailed
		if c.limitHit && !c.limitInGrace {
			j = c.jailedUntil
		}
		if j == 0 {
			continue
		}
		nontrivial = true
		switch {
		case h < j:
			c18Cov.inc("switch_on_before_jail_end")
		case h == j:
			c18Cov.inc("switch_on_at_jailed_until")
		case r.Resp.Code == 0:
			c18Cov.inc("switch_on_accepted_after_jail")
		default:
			c18Cov.inc("switch_on_after_jail_refused_for_other_reason")
		}
		switch {
		case h < j && r.Resp.Code == 0:
			add("jailed-candidate-switched-on", "tx %q accepted at height %d although candidate %d is jailed until %d", r.T.Name, h, c.id, j)
		case h > j && r.Resp.Code == c18CodeJailed:
			add("switch-on-refused-after-jail", "tx %q refused as jailed at height %d although the jail of candidate %d ended at %d", r.T.Name, h, c.id, j)
		}
		// h == j: the node still refuses; "before the jail ends" leaves that block open
	}

	// (3) stakes: only a byzantine punishment takes stake away; (4) unbonding funds; (5) counters
	who := map[uint64]*c18Cand{}
	dup := false
	for _, c := range m.cands {
		if c.byz > 0 {
			who[c.id] = c
			if c.byz > 1 {
				dup = true
			}
		}
	}
	if m.ff {
		return out, nontrivial // several blocks in one step: the per-block bookkeeping below does not apply
	}
	for _, c := range m.cands {
		a, b := c18StakeSums(c18CandOf(pre, c.pub)), c18StakeSums(c18CandOf(post, c.pub))
		if c.byz > 0 {
			for k, v := range b {
				if v.Sign() != 0 {
					add("evidence|stake-left", "candidate %d keeps stake %s = %s after the punishment", c.id, k, v)
					break
				}
			}
			continue
		}
		var keys []string
		for k := range a {
			keys = append(keys, k)
		}
		sort.Strings(keys)
		for _, k := range keys {
			v := a[k]
			nv := b[k]
			if nv == nil {
				nv = new(big.Int)
			}
			bad := nv.Cmp(v) != 0
			if m.payout {
				bad = nv.Cmp(v) < 0 // payouts add to stakes (C19)
			}
			if bad {
				cause := "no-evidence"
				if c.byzSkipped > 0 {
					cause = "evidence-against-offline-or-non-validator"
				} else if c.limitHit {
					cause = "absence"
				} else if anyEvidence {
					cause = "evidence-against-others"
				}
				add("stake-changed|"+cause, "candidate %d: stake %s went from %s to %s", c.id, k, v, nv)
				break
			}
		}
	}
	if m.unknownEvidence > 0 {
		c18Cov.inc("evidence_unknown_address")
	}
	want := c18ExpectSlash(pre, h, who, false)
	for range want.coinSlash {
		c18Cov.inc("blocks_with_custom_coin_slash")
	}
	got := c18FundsOf(post)
	if k, ok := c18SameMulti(want.funds, got); !ok {
		sig := "unbonding-funds|"
		twice := c18ExpectSlash(pre, h, who, true)
		_, isTwice := c18SameMulti(twice.funds, got)
		switch {
		case dup && isTwice:
			sig = "duplicate-evidence-slashed-twice"
		case len(who) == 0 && anyEvidence:
			sig += "changed-by-evidence-against-offline-or-unknown"
		case len(who) == 0:
			sig += "changed-without-evidence"
		default:
			sig += c18FundClass(k, h, who)
		}
		if sig == "duplicate-evidence-slashed-twice" {
			add(sig, "the evidence list names the same validator more than once and every item slashes again: the unbonding funds equal the once-per-item pattern (existing funds cut repeatedly, the funds just made from the stakes cut again, empty funds added); base coin slashed %s instead of %s, custom coins %v instead of %v; first differing fund %s: expected %v, found %v",
				twice.baseSlash, want.baseSlash, twice.coinSlash, want.coinSlash, k, want.funds[k], got[k])
			return out, true // the counters below repeat the same defect
		}
		add(sig, "unbonding fund %s: expected values %v, found %v (each stake and each fund from a punished validator loses value-floor(value*95/100) once; the rest of a stake is frozen until %d)", k, want.funds[k], got[k], h+c18UnbondPeriod)
	}
	// funds that mature in this block: the owner is credited what is left after the punishment
	// (judged for owners that send nothing in this block and in blocks without a payout)
	if !m.payout {
		senders := map[string]bool{}
		for _, x := range last.Txs {
			senders[x.Sender.String()] = true
		}
		for k, wantCredit := range want.released {
			parts := strings.SplitN(k, "/", 2)
			if senders[parts[0]] {
				continue
			}
			key := "acct/" + parts[0] + "/bal/" + parts[1]
			d := new(big.Int).Sub(obs.Num(post.Flat[key]), obs.Num(pre.Flat[key]))
			if d.Cmp(wantCredit) != 0 {
				cls := "not-punished"
				if len(who) > 0 {
					cls = "evidence-in-the-block-of-maturity"
				}
				add("matured-fund-payout|"+cls, "funds of %s in coin %s mature in this block: the balance changed by %s, expected %s (a fund from a validator punished in this block is cut to 95 %% first)", parts[0], parts[1], d, wantCredit)
			}
		}
	}
	// coin volumes / reserves and the total-slashed counter
	custom := new(big.Int)
	for i := range pre.Export.Coins {
		pc := &pre.Export.Coins[i]
		if pc.Crr == 0 {
			continue
		}
		qc := coinByID(post, pc.ID)
		if qc == nil {
			continue
		}
		dVol := new(big.Int).Sub(obs.Num(pc.Volume), obs.Num(qc.Volume))
		dRes := new(big.Int).Sub(obs.Num(pc.Reserve), obs.Num(qc.Reserve))
		custom.Add(custom, dRes)
		w := want.coinSlash[pc.ID]
		if w == nil {
			w = new(big.Int)
		}
		if dVol.Cmp(w) != 0 {
			add("coin-volume|evidence", "coin %d: volume fell by %s, slashed coins %s", pc.ID, dVol, w)
			continue
		}
		if w.Sign() == 0 {
			if dRes.Sign() != 0 {
				add("coin-reserve|no-slash", "coin %d: reserve changed by %s without a slash", pc.ID, dRes)
			}
			continue
		}
		// one sale of all slashed coins (bancor arithmetic itself is C12's subject); the node sells item by item
		ref := formula.CalculateSaleReturn(obs.Num(pc.Volume), obs.Num(pc.Reserve), uint32(pc.Crr), w)
		tol := big.NewInt(int64(2*want.items[pc.ID] + 2))
		if d := new(big.Int).Sub(dRes, ref); d.CmpAbs(tol) > 0 {
			add("coin-reserve|evidence", "coin %d: reserve fell by %s, selling the %s slashed coins returns %s (tolerance %s pip)", pc.ID, dRes, w, ref, tol)
		}
	}
	if !m.payout {
		_, rem := c19AccrualModel(pre, m, last.Obs.Rewards)
		dSl := new(big.Int).Sub(obs.Num(post.Export.TotalSlashed), obs.Num(pre.Export.TotalSlashed))
		wantSl := new(big.Int).Add(rem, want.baseSlash)
		wantSl.Add(wantSl, custom)
		if dSl.Cmp(wantSl) != 0 {
			kind := "no-evidence"
			if len(who) > 0 {
				kind = "evidence"
			}
			add("total-slashed|"+kind, "total_slashed grew by %s; expected %s = reward remainder %s + slashed base coin %s + reserve released by slashed custom coins %s", dSl, wantSl, rem, want.baseSlash, custom)
		}
	}
	return out, nontrivial
}

// c18FundClass names the kind of unbonding fund a mismatch sits in.
func c18FundClass(key string, h uint64, who map[uint64]*c18Cand) string {
	parts := strings.Split(key, "/")
	var fh, id uint64
	fmt.Sscan(parts[0], &fh)
	fmt.Sscan(parts[3], &id)
	coin := "base"
	if parts[2] != "0" {
		coin = "custom"
	}
	switch {
	case who[id] == nil:
		return "fund-of-unpunished-validator|" + coin
	case fh == h+c18UnbondPeriod:
		return "fund-made-from-stake|" + coin
	default:
		return "existing-fund-of-punished-validator|" + coin
	}
}
