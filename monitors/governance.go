package monitors

import (
	"fmt"
	"math/big"
	"reflect"
	"strconv"
	"strings"
	"sync"

	"github.com/MinterTeam/minter-go-node/coreV2/transaction"
	"github.com/MinterTeam/minter-go-node/coreV2/types"

	"verif/explore"
	"verif/obs"
	"verif/worlds"
)

// ---------------------------------------------------------------- C20

// Governance: a commission-price change, a network-version update or a halt takes effect at
// the voted height iff the validators that voted for the same proposal hold STRICTLY more
// than two thirds of the voting power of the validators present in that block; of several
// proposals the one with the largest support wins; votes for past heights and duplicate
// votes of a candidate for a height are rejected.
//
// Reference (independent of the code under test): exact integer tally 3·voted > 2·total.
//   - present   = the validators of the block's LastCommitInfo that signed (the environment of the block);
//   - power     = total_bip_stake of the validator in the export BEFORE the block;
//   - votes     = the votes recorded in the export before the block for this height plus the votes
//     accepted (code 0) earlier in this block, in that order (the order defines "first" among proposals);
//   - effects   = price table of the export after the block / the version list / an exit in BeginBlock.
//
// Readings taken in favour of the code: a vote delivered in block h for height h is not "past" and is
// tallied in EndBlock(h); a halt vote for the current height is not judged (BeginBlock(h) is over);
// who may sign a vote is not part of the property (the code accepts only the owner key).
type Governance struct{}

func (Governance) Property() string { return "C20" }

var c20KnownBinaryVersions = map[string]bool{"v300": true, "v310": true, "v320": true, "v330": true}

// c20Stats counts the judged tallies by (kind, side of 2/3, margin class, proposals, observed decision).
var (
	c20StatsMu sync.Mutex
	c20Stats   = map[string]int64{}
)

func c20Count(kind string, nprops int, voted, total *big.Int, applied bool) {
	side, margin := c20MarginClass(voted, total)
	comp := "single"
	if nprops > 1 {
		comp = "competing"
	}
	k := fmt.Sprintf("%s|%s|%s|%s|applied=%v", kind, side, margin, comp, applied)
	c20StatsMu.Lock()
	c20Stats[k]++
	c20StatsMu.Unlock()
}

// C20Stats returns a copy of the tally counters.
func C20Stats() map[string]int64 {
	c20StatsMu.Lock()
	defer c20StatsMu.Unlock()
	out := map[string]int64{}
	for k, v := range c20Stats {
		out[k] = v
	}
	return out
}

type c20Proposal struct {
	key    string // identity of the proposal (price table / version name)
	voters []types.Pubkey
	table  types.Commission
}

// c20PresentPowers returns pubkey -> stake for the validators that signed, and the total.
func c20PresentPowers(t *explore.Transition, pre *explore.State, st *explore.Step) (map[types.Pubkey]*big.Int, *big.Int, bool) {
	es := t.W.Envs[st.Block.Env]
	if es.Dyn != nil {
		return nil, nil, false
	}
	signed := map[types.TmAddress]bool{}
	if es.Env.Votes != nil {
		for _, v := range es.Env.Votes {
			if v.Signed {
				signed[v.Addr] = true
			}
		}
	} else {
		for i, v := range pre.Export.Validators {
			abs := false
			for _, x := range es.Env.Absent {
				if x == i {
					abs = true
				}
			}
			if !abs {
				signed[worlds.TmAddr(v.PubKey)] = true
			}
		}
	}
	pw := map[types.Pubkey]*big.Int{}
	total := new(big.Int)
	for _, v := range pre.Export.Validators {
		if signed[worlds.TmAddr(v.PubKey)] {
			s := obs.Num(v.TotalBipStake)
			pw[v.PubKey] = s
			total.Add(total, s)
		}
	}
	return pw, total, true
}

// c20Support sums the power of the distinct present voters.
func c20Support(voters []types.Pubkey, pw map[types.Pubkey]*big.Int) *big.Int {
	sum := new(big.Int)
	seen := map[types.Pubkey]bool{}
	for _, p := range voters {
		if seen[p] {
			continue
		}
		seen[p] = true
		if s, ok := pw[p]; ok {
			sum.Add(sum, s)
		}
	}
	return sum
}

// c20MarginClass classifies the distance of voted/total from 2/3 (an input class for signatures).
func c20MarginClass(voted, total *big.Int) (side string, margin string) {
	d := new(big.Int).Sub(new(big.Int).Mul(voted, big.NewInt(3)), new(big.Int).Mul(total, big.NewInt(2)))
	switch d.Sign() {
	case 0:
		return "exact", "exact"
	case 1:
		side = "above"
	default:
		side = "below"
	}
	d.Abs(d)
	t3 := new(big.Int).Mul(total, big.NewInt(3))
	switch {
	case new(big.Int).Lsh(d, 60).Cmp(t3) < 0:
		margin = "hairline" // closer to 2/3 than 2^-60
	case new(big.Int).Lsh(d, 40).Cmp(t3) < 0:
		margin = "near" // closer than 2^-40
	default:
		margin = "clear"
	}
	return side, margin
}

func c20Passes(voted, total *big.Int) bool {
	return new(big.Int).Mul(voted, big.NewInt(3)).Cmp(new(big.Int).Mul(total, big.NewInt(2))) > 0
}

// c20VerdictSig builds the signature of a wrong decision.
func c20VerdictSig(accepted bool, kind string, voted, total *big.Int) string {
	side, margin := c20MarginClass(voted, total)
	if accepted {
		if side == "exact" {
			return "accepted-at-exactly-two-thirds|" + kind
		}
		return fmt.Sprintf("accepted-%s-two-thirds|%s|%s", side, kind, margin)
	}
	return fmt.Sprintf("rejected-%s-two-thirds|%s|%s", side, kind, margin)
}

// c20TableOfVote converts the data of a commission vote into the export form of a price table.
func c20TableOfVote(d *transaction.VoteCommissionDataV3) types.Commission {
	var c types.Commission
	c.Coin = uint64(d.Coin)
	src := reflect.ValueOf(*d)
	dst := reflect.ValueOf(&c).Elem()
	for i := 0; i < dst.NumField(); i++ {
		if dst.Field(i).Kind() != reflect.String {
			continue
		}
		name := dst.Type().Field(i).Name
		if name == "CreateTicker7_10" {
			name = "CreateTicker7to10"
		}
		f := src.FieldByName(name)
		if f.IsValid() {
			if b, ok := f.Interface().(*big.Int); ok && b != nil {
				dst.Field(i).SetString(b.String())
			}
		}
	}
	return c
}

type c20Vote struct {
	kind   string // commission | update | halt
	pub    types.Pubkey
	height uint64
	key    string
	table  types.Commission
}

func c20DecodeVote(r *explore.TxRec) (c20Vote, bool) {
	inf := Info(r)
	if !inf.OK {
		return c20Vote{}, false
	}
	switch d := inf.Tx.GetDecodedData().(type) {
	case *transaction.VoteCommissionDataV3:
		tb := c20TableOfVote(d)
		return c20Vote{kind: "commission", pub: d.PubKey, height: d.Height, key: fmt.Sprintf("%+v", tb), table: tb}, true
	case *transaction.VoteUpdateDataV230:
		return c20Vote{kind: "update", pub: d.PubKey, height: d.Height, key: d.Version}, true
	case *transaction.SetHaltBlockData:
		return c20Vote{kind: "halt", pub: d.PubKey, height: d.Height, key: "halt"}, true
	}
	return c20Vote{}, false
}

// c20Recorded lists the votes of one kind and height in an export, proposal by proposal.
func c20Recorded(s *explore.State, kind string, h uint64) []c20Proposal {
	var out []c20Proposal
	switch kind {
	case "commission":
		for _, v := range s.Export.CommissionVotes {
			if v.Height == h {
				out = append(out, c20Proposal{key: fmt.Sprintf("%+v", v.Commission), voters: append([]types.Pubkey{}, v.Votes...), table: v.Commission})
			}
		}
	case "update":
		for _, v := range s.Export.UpdateVotes {
			if v.Height == h {
				out = append(out, c20Proposal{key: v.Version, voters: append([]types.Pubkey{}, v.Votes...)})
			}
		}
	case "halt":
		var p c20Proposal
		p.key = "halt"
		for _, v := range s.Export.HaltBlocks {
			if v.Height == h {
				p.voters = append(p.voters, v.CandidateKey)
			}
		}
		if len(p.voters) > 0 {
			out = append(out, p)
		}
	}
	return out
}

func c20HasVoted(props []c20Proposal, pub types.Pubkey) bool {
	for _, p := range props {
		for _, v := range p.voters {
			if v == pub {
				return true
			}
		}
	}
	return false
}

func c20AddVote(props []c20Proposal, v c20Vote) []c20Proposal {
	for i := range props {
		if props[i].key == v.key {
			props[i].voters = append(props[i].voters, v.pub)
			return props
		}
	}
	return append(props, c20Proposal{key: v.key, voters: []types.Pubkey{v.pub}, table: v.table})
}

// c20VersionAt is the name of the version in force at a height according to a "name@height;" list.
func c20VersionAt(list string, h uint64) string {
	last := ""
	for _, e := range strings.Split(list, ";") {
		i := strings.LastIndex(e, "@")
		if i < 0 {
			continue
		}
		vh, err := strconv.ParseUint(e[i+1:], 10, 64)
		if err != nil {
			continue
		}
		if vh > h {
			return last
		}
		last = e[:i]
	}
	return last
}

// c20Winner returns the proposal with the largest support (the first among equals) and its support.
func c20Winner(props []c20Proposal, pw map[types.Pubkey]*big.Int) (*c20Proposal, *big.Int, bool) {
	var best *c20Proposal
	bestS := new(big.Int)
	tie := false
	for i := range props {
		s := c20Support(props[i].voters, pw)
		if best == nil || s.Cmp(bestS) > 0 {
			best, bestS, tie = &props[i], s, false
		} else if s.Cmp(bestS) == 0 {
			tie = true
		}
	}
	return best, bestS, tie
}

func (Governance) Check(t *explore.Transition) ([]V, bool) {
	cur := t.Cur
	st := cur.Last()
	pre := cur.Pre
	if st == nil || pre == nil {
		return nil, false
	}
	h := uint64(st.Height)
	pw, total, ok := c20PresentPowers(t, pre, st)
	if !ok {
		return nil, false
	}
	var out []V
	nontrivial := false

	// ---- halt: judged in BeginBlock(h) on the halt votes recorded before the block
	if vn := c20VersionAt(pre.Versions, h); !c20KnownBinaryVersions[vn] {
		return nil, false // BeginBlock asks for a new binary and exits: nothing of this property is observable
	}
	halts := c20Recorded(pre, "halt", h)
	haltVoted := new(big.Int)
	if len(halts) > 0 {
		haltVoted = c20Support(halts[0].voters, pw)
		nontrivial = true
	}
	wantHalt := len(halts) > 0 && c20Passes(haltVoted, total)
	gotHalt := cur.Fault != nil && cur.Fault.Kind == "exit" && cur.Fault.Call == "BeginBlock" && len(st.Txs) == 0
	if len(halts) > 0 {
		c20Count("halt", 1, haltVoted, total, gotHalt)
	}
	if wantHalt != gotHalt {
		det := fmt.Sprintf("height %d: halt votes hold %s of %s present voting power (3v-2t = %s): reference says halt=%v, the node %s", h, haltVoted, total,
			new(big.Int).Sub(new(big.Int).Mul(haltVoted, big.NewInt(3)), new(big.Int).Mul(total, big.NewInt(2))), wantHalt, map[bool]string{true: "exited in BeginBlock", false: "went on"}[gotHalt])
		if len(halts) == 0 {
			out = append(out, V{Signature: "halted-without-votes|halt", Detail: det})
		} else {
			out = append(out, V{Signature: c20VerdictSig(gotHalt, "halt", haltVoted, total), Detail: det})
		}
	}
	if cur.Fault != nil || st.Post == nil {
		return out, nontrivial
	}
	post := st.Post

	// ---- the transactions of the block: accepted votes, rejection rules for the last one
	props := map[string][]c20Proposal{"commission": c20Recorded(pre, "commission", h), "update": c20Recorded(pre, "update", h)}
	future := map[string]map[uint64][]c20Proposal{} // kind -> height -> recorded + accepted so far (for duplicates)
	getF := func(kind string, hh uint64) []c20Proposal {
		if future[kind] == nil {
			future[kind] = map[uint64][]c20Proposal{}
		}
		if _, ok := future[kind][hh]; !ok {
			future[kind][hh] = c20Recorded(pre, kind, hh)
		}
		return future[kind][hh]
	}
	lastRec := t.LastTx()
	for i := range st.Txs {
		r := &st.Txs[i]
		v, ok := c20DecodeVote(r)
		if !ok {
			continue
		}
		isLast := lastRec != nil && i == len(st.Txs)-1
		dup := c20HasVoted(getF(v.kind, v.height), v.pub)
		if isLast {
			nontrivial = true
			if v.height < h && r.Resp.Code == 0 {
				// input class: the very first block after InitChain (the executor is told "current block = 1"
				// there, because Blockchain.height is only set by the first EndBlock) vs. any later block
				where := "later-block"
				if len(cur.Hist) == 1 && t.W.Warmup == 0 {
					where = "first-block-after-genesis"
				}
				out = append(out, V{Signature: "past-height-vote-accepted|" + v.kind + "|" + where, Detail: fmt.Sprintf("tx %q: vote for height %d accepted in block %d", r.T.Name, v.height, h)})
			}
			if dup && r.Resp.Code == 0 {
				out = append(out, V{Signature: "duplicate-vote-accepted|" + v.kind, Detail: fmt.Sprintf("tx %q: second vote of the candidate for height %d accepted in block %d", r.T.Name, v.height, h)})
			}
		}
		if r.Resp.Code != 0 {
			continue
		}
		future[v.kind][v.height] = c20AddVote(getF(v.kind, v.height), v)
		if v.height == h && v.kind != "halt" {
			props[v.kind] = c20AddVote(props[v.kind], v)
		}
	}

	// ---- commission prices: tallied in EndBlock(h)
	{
		ps := props["commission"]
		best, voted, _ := c20Winner(ps, pw)
		changed := post.Export.Commission != pre.Export.Commission
		if len(ps) > 0 {
			nontrivial = true
			c20Count("commission", len(ps), voted, total, changed)
		}
		want := best != nil && c20Passes(voted, total)
		switch {
		case !want && changed:
			if best != nil && post.Export.Commission == best.table {
				out = append(out, V{Signature: c20VerdictSig(true, "commission", voted, total),
					Detail: fmt.Sprintf("height %d: the price table with the largest support holds %s of %s present voting power (3v-2t = %s), not more than 2/3, but it was applied (Send %s -> %s)", h, voted, total,
						new(big.Int).Sub(new(big.Int).Mul(voted, big.NewInt(3)), new(big.Int).Mul(total, big.NewInt(2))), pre.Export.Commission.Send, post.Export.Commission.Send)})
			} else {
				out = append(out, V{Signature: "prices-changed-without-winner|commission", Detail: fmt.Sprintf("height %d: the price table changed although no proposal had more than 2/3 (best %s of %s)", h, voted, total)})
			}
		case want && best.table != pre.Export.Commission && !changed:
			out = append(out, V{Signature: c20VerdictSig(false, "commission", voted, total),
				Detail: fmt.Sprintf("height %d: a price table holds %s of %s present voting power, more than 2/3, but the prices did not change (%d competing proposals)", h, voted, total, len(ps))})
		case want && changed && post.Export.Commission != best.table:
			out = append(out, V{Signature: "wrong-winner|commission", Detail: fmt.Sprintf("height %d: the applied price table is not the proposal with the largest support (%s of %s)", h, voted, total)})
		}
	}
	// ---- network version: tallied in EndBlock(h)
	{
		ps := props["update"]
		best, voted, _ := c20Winner(ps, pw)
		if len(ps) > 0 {
			nontrivial = true
		}
		want := best != nil && c20Passes(voted, total)
		changed := post.Versions != pre.Versions
		if len(ps) > 0 {
			c20Count("update", len(ps), voted, total, changed)
		}
		switch {
		case !want && changed:
			if best != nil && post.Versions == pre.Versions+fmt.Sprintf("%s@%d;", best.key, h) {
				out = append(out, V{Signature: c20VerdictSig(true, "update", voted, total),
					Detail: fmt.Sprintf("height %d: version %q holds %s of %s present voting power (3v-2t = %s), not more than 2/3, but it was activated (versions %q)", h, best.key, voted, total,
						new(big.Int).Sub(new(big.Int).Mul(voted, big.NewInt(3)), new(big.Int).Mul(total, big.NewInt(2))), post.Versions)})
			} else {
				out = append(out, V{Signature: "versions-changed-without-winner|update", Detail: fmt.Sprintf("height %d: versions %q -> %q although no proposal had more than 2/3", h, pre.Versions, post.Versions)})
			}
		case want && !changed:
			out = append(out, V{Signature: c20VerdictSig(false, "update", voted, total),
				Detail: fmt.Sprintf("height %d: version %q holds %s of %s present voting power, more than 2/3, but the version list did not change (%d competing proposals)", h, best.key, voted, total, len(ps))})
		case want && changed && post.Versions != pre.Versions+fmt.Sprintf("%s@%d;", best.key, h):
			out = append(out, V{Signature: "wrong-winner|update", Detail: fmt.Sprintf("height %d: versions %q -> %q, the proposal with the largest support is %q", h, pre.Versions, post.Versions, best.key)})
		}
	}
	return out, nontrivial
}
