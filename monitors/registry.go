package monitors

import (
	"fmt"
	"sort"
	"strings"

	"github.com/MinterTeam/minter-go-node/coreV2/transaction"
	"github.com/MinterTeam/minter-go-node/coreV2/types"

	"verif/explore"
	"verif/obs"
)

// ---------------------------------------------------------------- C22

// Registry: unique active tickers, fresh ids, owner-only control.
type Registry struct {
	// SkipFreshness disables the "next unused id" rule for worlds whose genesis has non-contiguous ids (USDT = 1993).
	SkipFreshness bool
}

func (Registry) Property() string { return "C22" }

func coinByID(s *explore.State, id uint64) *types.Coin {
	for i := range s.Export.Coins {
		if s.Export.Coins[i].ID == id {
			return &s.Export.Coins[i]
		}
	}
	return nil
}

func (m Registry) Check(t *explore.Transition) ([]V, bool) {
	post := t.Cur.Final()
	if post == nil {
		return nil, false
	}
	var out []V
	nontrivial := false
	// (0) the registry as the committed state holds it (owner, symbol, version, supply bounds: what a
	// restarted node or a query at this height decides "only the owner may ..." on) is the node's
	for _, d := range post.DiskDiff {
		if strings.HasPrefix(d.Key, "coin/") {
			out = append(out, V{Signature: "committed-registry-differs|" + obs.KeyClass(d.Key) + "|" + blockTypes(t.Cur), Detail: fmt.Sprintf("%s: the node holds %q, its committed state %q", d.Key, d.A, d.B)})
		}
	}
	// (1) active (version 0) symbols are unique
	seen := map[string]uint64{}
	for _, c := range post.Export.Coins {
		if c.Version != 0 {
			continue
		}
		if other, dup := seen[c.Symbol.String()]; dup {
			out = append(out, V{Signature: "duplicate-active-ticker|" + blockTypes(t.Cur), Detail: fmt.Sprintf("ticker %s is active for coins %d and %d", c.Symbol.String(), other, c.ID)})
		}
		seen[c.Symbol.String()] = c.ID
	}
	// (symbol, version) unique as well
	sv := map[string]uint64{}
	for _, c := range post.Export.Coins {
		k := fmt.Sprintf("%s-%d", c.Symbol.String(), c.Version)
		if other, dup := sv[k]; dup {
			out = append(out, V{Signature: "duplicate-symbol-version|" + blockTypes(t.Cur), Detail: fmt.Sprintf("%s used by coins %d and %d", k, other, c.ID)})
		}
		sv[k] = c.ID
	}
	// (2) ids: none disappears, new ones are max+1, max+2, ...
	if pre := t.Cur.Pre; pre != nil && len(t.Cur.Hist) > 0 {
		var maxPre uint64
		for _, c := range pre.Export.Coins {
			if c.ID > maxPre {
				maxPre = c.ID
			}
			if coinByID(post, c.ID) == nil {
				out = append(out, V{Signature: "coin-id-disappeared|" + blockTypes(t.Cur), Detail: fmt.Sprintf("coin id %d (%s) is gone", c.ID, c.Symbol.String())})
			}
		}
		var fresh []uint64
		for _, c := range post.Export.Coins {
			if coinByID(pre, c.ID) == nil {
				fresh = append(fresh, c.ID)
			}
		}
		sort.Slice(fresh, func(i, j int) bool { return fresh[i] < fresh[j] })
		if len(fresh) > 0 {
			nontrivial = true
		}
		if !m.SkipFreshness {
			for i, id := range fresh {
				if id != maxPre+uint64(i)+1 {
					out = append(out, V{Signature: "coin-id-not-fresh|" + blockTypes(t.Cur), Detail: fmt.Sprintf("new coin ids %v after maximum %d", fresh, maxPre)})
					break
				}
			}
		}
	}
	// (3) owner-only control, judged on the twin of the last transaction
	r := t.LastTx()
	if r == nil || t.Parent == nil || t.Parent.Final() == nil || t.Cur.Fault != nil {
		return out, nontrivial
	}
	inf := Info(r)
	if !inf.OK {
		return out, nontrivial
	}
	par := t.Parent.Final()
	liquidity := inf.Type == transaction.TypeAddLiquidity || inf.Type == transaction.TypeRemoveLiquidity || inf.Type == transaction.TypeCreateSwapPool
	for _, d := range twinDiff(t) {
		if !strings.HasPrefix(d.Key, "coin/") {
			continue
		}
		parts := strings.Split(d.Key, "/")
		var id uint64
		fmt.Sscan(parts[1], &id)
		old := coinByID(par, id)
		if old == nil {
			// a new coin: recreation must come from the owner of the old ticker (judged on the old coin's version change)
			continue
		}
		field := parts[2]
		owner := ""
		if old.OwnerAddress != nil {
			owner = old.OwnerAddress.String()
		}
		isLP := strings.HasPrefix(old.Symbol.String(), "LP-")
		switch field {
		case "owner", "version", "symbol":
			nontrivial = true
			if owner != inf.Sender.String() {
				out = append(out, V{Signature: fmt.Sprintf("non-owner-changed-coin-%s|%s", field, inf.Type), Detail: fmt.Sprintf("tx %q by %s changed %s of coin %d owned by %q: %s", r.T.Name, inf.Sender.String(), field, id, owner, d)})
			}
		case "volume":
			if old.Crr != 0 {
				continue // bancor volume moves with conversions
			}
			if isLP {
				nontrivial = true
				if !liquidity {
					out = append(out, V{Signature: "pool-token-volume-changed|" + inf.Type.String(), Detail: fmt.Sprintf("tx %q changed the volume of pool token %d: %s", r.T.Name, id, d)})
				}
				continue
			}
			if d.Delta().Sign() > 0 {
				nontrivial = true
				if owner != inf.Sender.String() {
					out = append(out, V{Signature: "non-owner-minted|" + inf.Type.String(), Detail: fmt.Sprintf("tx %q by %s raised the volume of token %d owned by %q: %s", r.T.Name, inf.Sender.String(), id, owner, d)})
				}
			}
		case "name", "crr", "max_supply", "mintable", "burnable":
			out = append(out, V{Signature: "coin-immutable-field-changed|" + field, Detail: fmt.Sprintf("tx %q changed %s", r.T.Name, d)})
		}
	}
	// recreate: the old coin keeps its id under version max+1, the new coin has version 0
	if r.Resp.Code == 0 && (inf.Type == transaction.TypeRecreateCoin || inf.Type == transaction.TypeRecreateToken) {
		nontrivial = true
		var symbol string
		switch d := inf.Tx.GetDecodedData().(type) {
		case *transaction.RecreateCoinData:
			symbol = d.Symbol.String()
		case *transaction.RecreateTokenData:
			symbol = d.Symbol.String()
		}
		var oldID uint64
		var maxVer uint64
		for _, c := range par.Export.Coins {
			if c.Symbol.String() == symbol {
				if c.Version == 0 {
					oldID = c.ID
				}
				if c.Version > maxVer {
					maxVer = c.Version
				}
			}
		}
		cur := t.Cur.Final()
		oc := coinByID(cur, oldID)
		if oc == nil || oc.Version != maxVer+1 || oc.Symbol.String() != symbol {
			out = append(out, V{Signature: "recreate-old-coin-version|" + inf.Type.String(), Detail: fmt.Sprintf("after recreating %s the old coin %d should carry version %d: %+v", symbol, oldID, maxVer+1, oc)})
		}
		n := 0
		for _, c := range cur.Export.Coins {
			if c.Symbol.String() == symbol && c.Version == 0 {
				n++
				if c.ID == oldID {
					out = append(out, V{Signature: "recreate-reused-id|" + inf.Type.String(), Detail: fmt.Sprintf("recreated %s kept id %d", symbol, oldID)})
				}
			}
		}
		if n != 1 {
			out = append(out, V{Signature: "recreate-active-count|" + inf.Type.String(), Detail: fmt.Sprintf("%d active coins with ticker %s after recreation", n, symbol)})
		}
	}
	_ = obs.Num
	return out, nontrivial
}
