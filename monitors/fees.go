package monitors

import (
	"fmt"
	"math/big"
	"reflect"

	"github.com/MinterTeam/minter-go-node/coreV2/transaction"
	"github.com/MinterTeam/minter-go-node/coreV2/types"
	"github.com/MinterTeam/minter-go-node/formula"

	"verif/explore"
	"verif/obs"
)

// ---------------------------------------------------------------- C27

// Fees: commission == gas price × (type price + bytes × byte price); cheaper route for
// custom gas coins; the base value reaches the reward pool, ticker fees are burned.
type Fees struct{}

func (Fees) Property() string { return "C27" }

func tableOf(c *types.Commission) map[string]*big.Int {
	m := map[string]*big.Int{}
	v := reflect.ValueOf(*c)
	for i := 0; i < v.NumField(); i++ {
		if v.Field(i).Kind() == reflect.String {
			m[v.Type().Field(i).Name] = obs.Num(v.Field(i).String())
		}
	}
	return m
}

func tickerPrice(tb map[string]*big.Int, symbol string) *big.Int {
	switch len(symbol) {
	case 3:
		return tb["CreateTicker3"]
	case 4:
		return tb["CreateTicker4"]
	case 5:
		return tb["CreateTicker5"]
	case 6:
		return tb["CreateTicker6"]
	}
	return tb["CreateTicker7_10"]
}

func mulAdd(base, delta *big.Int, n int) *big.Int {
	return new(big.Int).Add(base, new(big.Int).Mul(delta, big.NewInt(int64(n))))
}

// typePrice is the price-table entry of a transaction (without payload bytes); the second
// value is the part that is a ticker fee.
func typePrice(tb map[string]*big.Int, tx *transaction.Transaction) (*big.Int, *big.Int, bool) {
	zero := new(big.Int)
	switch d := tx.GetDecodedData().(type) {
	case *transaction.SendData:
		return tb["Send"], zero, true
	case *transaction.SellCoinData:
		return tb["SellBancor"], zero, true
	case *transaction.SellAllCoinData:
		return tb["SellAllBancor"], zero, true
	case *transaction.BuyCoinData:
		return tb["BuyBancor"], zero, true
	case *transaction.CreateCoinData:
		tp := tickerPrice(tb, d.Symbol.String())
		return new(big.Int).Add(tb["CreateCoin"], tp), tp, true
	case *transaction.CreateTokenData:
		tp := tickerPrice(tb, d.Symbol.String())
		return new(big.Int).Add(tb["CreateToken"], tp), tp, true
	case *transaction.DeclareCandidacyData:
		return tb["DeclareCandidacy"], zero, true
	case *transaction.DelegateDataV260:
		return tb["Delegate"], zero, true
	case *transaction.UnbondDataV3:
		return tb["Unbond"], zero, true
	case *transaction.RedeemCheckData:
		return tb["RedeemCheck"], zero, true
	case *transaction.SetCandidateOnData:
		return tb["SetCandidateOn"], zero, true
	case *transaction.SetCandidateOffData:
		return tb["SetCandidateOff"], zero, true
	case *transaction.CreateMultisigData:
		return tb["CreateMultisig"], zero, true
	case *transaction.MultisendData:
		return mulAdd(tb["MultisendBase"], tb["MultisendDelta"], len(d.List)-1), zero, true
	case *transaction.EditCandidateData:
		return tb["EditCandidate"], zero, true
	case *transaction.SetHaltBlockData:
		return tb["SetHaltBlock"], zero, true
	case *transaction.RecreateCoinData:
		return tb["RecreateCoin"], zero, true
	case *transaction.RecreateTokenData:
		return tb["RecreateToken"], zero, true
	case *transaction.EditCoinOwnerData:
		return tb["EditTickerOwner"], zero, true
	case *transaction.EditMultisigData:
		return tb["EditMultisig"], zero, true
	case *transaction.EditCandidatePublicKeyData:
		return tb["EditCandidatePublicKey"], zero, true
	case *transaction.AddLiquidityDataV260:
		return tb["AddLiquidity"], zero, true
	case *transaction.RemoveLiquidityV240:
		return tb["RemoveLiquidity"], zero, true
	case *transaction.SellSwapPoolDataV260:
		return mulAdd(tb["SellPoolBase"], tb["SellPoolDelta"], len(d.Coins)-2), zero, true
	case *transaction.BuySwapPoolDataV260:
		return mulAdd(tb["BuyPoolBase"], tb["BuyPoolDelta"], len(d.Coins)-2), zero, true
	case *transaction.SellAllSwapPoolDataV260:
		return mulAdd(tb["SellAllPoolBase"], tb["SellAllPoolDelta"], len(d.Coins)-2), zero, true
	case *transaction.EditCandidateCommission:
		return tb["EditCandidateCommission"], zero, true
	case *transaction.MoveStakeData:
		return tb["MoveStake"], zero, true
	case *transaction.MintTokenData:
		return tb["MintToken"], zero, true
	case *transaction.BurnTokenDataV260:
		return tb["BurnToken"], zero, true
	case *transaction.VoteCommissionDataV3:
		return tb["VoteCommission"], zero, true
	case *transaction.VoteUpdateDataV230:
		return tb["VoteUpdate"], zero, true
	case *transaction.CreateSwapPoolData:
		return tb["CreateSwapPool"], zero, true
	case *transaction.AddLimitOrderData:
		return tb["AddLimitOrder"], zero, true
	case *transaction.RemoveLimitOrderData:
		return tb["RemoveLimitOrder"], zero, true
	case *transaction.LockStakeData:
		return tb["LockStake"], zero, true
	case *transaction.LockData:
		return tb["Lock"], zero, true
	}
	return nil, nil, false
}

func tagOf(r *explore.TxRec, key string) (string, bool) {
	for _, e := range r.Resp.Events {
		for _, a := range e.Attributes {
			if string(a.Key) == key {
				return string(a.Value), true
			}
		}
	}
	return "", false
}

// minPoolInput is the least input x of the in-coin such that the constant-product rule with
// the 0.2 % fee allows `out` to leave: (rIn·1000 + x·998)·(rOut−out) >= rIn·rOut·1000.
func minPoolInput(rIn, rOut, out *big.Int) *big.Int {
	if out.Cmp(rOut) >= 0 {
		return nil
	}
	rem := new(big.Int).Sub(rOut, out)
	num := new(big.Int).Mul(new(big.Int).Mul(rIn, rOut), big.NewInt(1000))
	// x >= (num/rem − rIn·1000)/998, rounded up
	q, m := new(big.Int).QuoRem(num, rem, new(big.Int))
	if m.Sign() != 0 {
		q.Add(q, big.NewInt(1))
	}
	q.Sub(q, new(big.Int).Mul(rIn, big.NewInt(1000)))
	x, m2 := new(big.Int).QuoRem(q, big.NewInt(998), new(big.Int))
	if m2.Sign() != 0 {
		x.Add(x, big.NewInt(1))
	}
	return x
}

// poolSellQuote is the amount of the other coin that selling x into a pool yields:
// rOut − ⌊rIn·rOut·10^6 / (((x + rIn)·1000 − 2x)·1000)⌋ − 1 (0.2 % fee; nil when nothing comes out).
func poolSellQuote(rIn, rOut, x *big.Int) *big.Int {
	k := new(big.Int).Mul(new(big.Int).Mul(rIn, rOut), big.NewInt(1000000))
	adj := new(big.Int).Sub(new(big.Int).Mul(new(big.Int).Add(x, rIn), big.NewInt(1000)), new(big.Int).Mul(x, big.NewInt(2)))
	out := new(big.Int).Sub(rOut, new(big.Int).Quo(k, new(big.Int).Mul(adj, big.NewInt(1000))))
	out.Sub(out, big.NewInt(1))
	if out.Sign() != 1 {
		return nil
	}
	return out
}

func (Fees) Check(t *explore.Transition) ([]V, bool) {
	r := t.LastTx()
	if r == nil || r.Resp.Code != 0 || t.Parent == nil || t.Parent.Final() == nil || t.Cur.Final() == nil || t.Cur.Fault != nil {
		return nil, false
	}
	inf := Info(r)
	if !inf.OK {
		return nil, false
	}
	par := t.Parent.Final()
	tb := tableOf(&par.Export.Commission)
	tp, ticker, ok := typePrice(tb, inf.Tx)
	ty := inf.Type.String()
	if !ok {
		return []V{{Signature: "no-model-for-type|" + ty, Detail: "the fee model has no entry for " + r.T.Name}}, true
	}
	bytes := int64(len(inf.Tx.Payload) + len(inf.Tx.ServiceData))
	gp := big.NewInt(int64(inf.Tx.GasPrice))
	price := new(big.Int).Mul(gp, new(big.Int).Add(tp, new(big.Int).Mul(big.NewInt(bytes), tb["PayloadByte"])))
	burned := new(big.Int).Mul(gp, ticker)
	var out []V
	// (0) the price in table terms; later rules are judged against the price the node
	// reports, so that one wrong table entry is one finding and does not mask others
	if v, ok := tagOf(r, "tx.commission_price"); ok && v != price.String() {
		out = append(out, V{Signature: "price-table|" + ty, Detail: fmt.Sprintf("tx %q: the node prices it at %s, the table says %s = %s x (%s + %d bytes x %s)", r.T.Name, v, price, gp, tp, bytes, tb["PayloadByte"])})
		price = obs.Num(v)
	}
	// (0') a table denominated in a custom coin: the whole price (gas price included) is what
	// selling that many table coins into the coin's BIP pool yields
	if tc := par.Export.Commission.Coin; tc != 0 {
		if burned.Sign() != 0 {
			return out, true // ticker fees under a custom-coin table are not modelled
		}
		var base *big.Int
		for _, p := range par.Export.Pools {
			var rIn, rOut *big.Int
			if p.Coin0 == 0 && p.Coin1 == tc {
				rOut, rIn = obs.Num(p.Reserve0), obs.Num(p.Reserve1)
			} else if p.Coin1 == 0 && p.Coin0 == tc {
				rOut, rIn = obs.Num(p.Reserve1), obs.Num(p.Reserve0)
			} else {
				continue
			}
			if len(p.Orders) > 0 {
				return out, true // the conversion walks the order book: not modelled
			}
			// a sale through the pool first burns 0.1 % of the input, rounded up
			burn, m := new(big.Int).QuoRem(price, big.NewInt(1000), new(big.Int))
			if m.Sign() != 0 {
				burn.Add(burn, big.NewInt(1))
			}
			base = poolSellQuote(rIn, rOut, new(big.Int).Sub(price, burn))
		}
		if base == nil {
			out = append(out, V{Signature: "custom-table-without-pool|" + ty, Detail: fmt.Sprintf("tx %q accepted although the price table coin %d cannot be converted", r.T.Name, tc)})
			return out, true
		}
		ty = "custom-table|" + ty
		price = base
	}
	// (a) the reward pool receives the base value of the commission minus the ticker fee
	dRew := new(big.Int).Sub(r.RewardsAfter, r.RewardsBefore)
	want := new(big.Int).Sub(price, burned)
	// a commission swapped through a pool is the integer quote for buying `price` base coins;
	// selling that quote yields the price plus at most the rounding slack of the pair arithmetic
	slack := int64(0)
	if v, ok := tagOf(r, "tx.commission_conversion"); ok && v == "pool" {
		slack = 2
		// with limit orders in the commission pool the conversion walks the book with
		// floating-point prices (CalculateAddAmountsForPrice): the quote for buying `price`
		// and the sale of that quote differ by rounding noise; 10^-9 of the price is allowed
		gas := uint64(inf.GasCoin)
		for _, p := range par.Export.Pools {
			if !((p.Coin0 == 0 && p.Coin1 == gas) || (p.Coin1 == 0 && p.Coin0 == gas)) {
				continue
			}
			// the quote is an integer number of gas-coin pips (rounded up twice: pool input and
			// the 0.1 % burn); each of those pips is worth reserve(BIP)/reserve(gas) base pips
			rb, rg := obs.Num(p.Reserve0), obs.Num(p.Reserve1)
			if p.Coin1 == 0 {
				rb, rg = rg, rb
			}
			if rg.Sign() > 0 {
				slack += 2 * (new(big.Int).Div(rb, rg).Int64() + 1)
			}
			if len(p.Orders) > 0 {
				slack += new(big.Int).Div(price, big.NewInt(1000000000)).Int64()
			}
		}
	}
	over := new(big.Int).Sub(dRew, want)
	if over.Sign() < 0 || over.Cmp(big.NewInt(slack)) > 0 {
		out = append(out, V{Signature: "reward-pool-delta|" + ty, Detail: fmt.Sprintf("tx %q: reward pool grew by %s, model says %s (price %s, ticker fee %s)", r.T.Name, dRew, want, price, burned)})
	}
	// (b) the ticker fee lands on the zero address
	if burned.Sign() > 0 {
		k := "acct/" + (types.Address{}).String() + "/bal/0"
		d := new(big.Int).Sub(obs.Num(t.Cur.Final().Flat[k]), obs.Num(par.Flat[k]))
		if d.Cmp(burned) != 0 {
			out = append(out, V{Signature: "ticker-fee-burn|" + ty, Detail: fmt.Sprintf("tx %q: zero address received %s, ticker fee is %s", r.T.Name, d, burned)})
		}
	}
	// (c) reported base value
	if v, ok := tagOf(r, "tx.commission_in_base_coin"); ok && (obs.Num(v).Cmp(price) < 0 || new(big.Int).Sub(obs.Num(v), price).Cmp(big.NewInt(slack)) > 0) {
		out = append(out, V{Signature: "tag-commission-in-base|" + ty, Detail: fmt.Sprintf("tx %q: tag tx.commission_in_base_coin=%s, model %s", r.T.Name, v, price)})
	}
	// (d) amount charged in the gas coin
	gas := uint64(inf.GasCoin)
	amountTag, hasAmount := tagOf(r, "tx.commission_amount")
	if gas == 0 {
		if hasAmount && amountTag != price.String() {
			out = append(out, V{Signature: "commission-amount-base|" + ty, Detail: fmt.Sprintf("tx %q: charged %s BIP, model %s", r.T.Name, amountTag, price)})
		}
	} else if hasAmount {
		gc := coinByID(par, gas)
		var viaReserve, viaPool *big.Int
		if gc != nil && gc.Crr != 0 {
			res := obs.Num(gc.Reserve)
			// the reserve may not fall below the minimum (10000 BIP)
			if new(big.Int).Sub(res, price).Cmp(new(big.Int).Mul(big.NewInt(10000), big.NewInt(1e18))) >= 0 {
				viaReserve = formula.CalculateSaleAmount(obs.Num(gc.Volume), res, uint32(gc.Crr), price)
			}
		}
		hasOrders := false
		for _, p := range par.Export.Pools {
			var rIn, rOut *big.Int
			if p.Coin0 == 0 && p.Coin1 == gas {
				rOut, rIn = obs.Num(p.Reserve0), obs.Num(p.Reserve1)
			} else if p.Coin1 == 0 && p.Coin0 == gas {
				rOut, rIn = obs.Num(p.Reserve1), obs.Num(p.Reserve0)
			} else {
				continue
			}
			hasOrders = len(p.Orders) > 0
			if x := minPoolInput(rIn, rOut, price); x != nil {
				// the pool route also burns 0.1 % of the input: quote = x + ceil(x/999)
				q, m := new(big.Int).QuoRem(x, big.NewInt(999), new(big.Int))
				if m.Sign() != 0 {
					q.Add(q, big.NewInt(1))
				}
				viaPool = new(big.Int).Add(x, q)
			}
		}
		got := obs.Num(amountTag)
		if !hasOrders {
			switch {
			case viaReserve == nil && viaPool == nil:
				out = append(out, V{Signature: "commission-without-route|" + ty, Detail: fmt.Sprintf("tx %q accepted with gas coin %d that has neither route", r.T.Name, gas)})
			default:
				// the cheaper route, pool quote within the rounding slack of the pair arithmetic (+2)
				best := viaReserve
				slack := int64(0)
				if viaPool != nil && (best == nil || viaPool.Cmp(best) <= 0) {
					best, slack = viaPool, 3
				}
				lo, hi := best, new(big.Int).Add(best, big.NewInt(slack))
				// if both routes are within the slack of each other either may have been taken
				if viaReserve != nil && viaPool != nil {
					diff := new(big.Int).Sub(viaReserve, viaPool)
					if diff.Sign() >= 0 && diff.Cmp(big.NewInt(3)) <= 0 {
						hi = new(big.Int).Add(viaPool, big.NewInt(3))
						if viaReserve.Cmp(hi) > 0 {
							hi = viaReserve
						}
					}
				}
				if got.Cmp(lo) < 0 || got.Cmp(hi) > 0 {
					out = append(out, V{Signature: "commission-not-cheaper-route|" + ty, Detail: fmt.Sprintf("tx %q: charged %s of coin %d; reserve route %v, pool route %v (cheaper one expected)", r.T.Name, got, gas, viaReserve, viaPool)})
				}
			}
		}
	}
	return out, true
}
