package monitors

import (
	"fmt"
	"strings"

	"verif/explore"
	"verif/obs"
)

// Committed wraps a monitor: besides the inner rules it demands that the part of the state the
// property speaks about (export keys with the given prefixes) is the same in the node's live
// objects and in a state object freshly loaded from the committed databases. What a property says
// about balances, orders, votes … holds for the committed height only if the committed state is
// that state; a restarted node, a query at the height and an export read exactly this.
// (C09 makes the same comparison for the whole state; here it is judged per property.)
func Committed(inner explore.Monitor, prefixes ...string) explore.Monitor {
	return committedMon{inner, prefixes}
}

type committedMon struct {
	m        explore.Monitor
	prefixes []string
}

func (c committedMon) Property() string { return c.m.Property() }

func (c committedMon) Check(t *explore.Transition) ([]V, bool) {
	vs, n := c.m.Check(t)
	post := t.Cur.Final()
	if post == nil || t.Cur.Fault != nil {
		return vs, n
	}
	seen := map[string]bool{}
	for _, d := range post.DiskDiff {
		for _, p := range c.prefixes {
			if strings.HasPrefix(d.Key, p) {
				cl := obs.KeyClass(d.Key)
				if !seen[cl] {
					seen[cl] = true
					vs = append(vs, V{Signature: "committed-state-differs|" + cl, Detail: fmt.Sprintf("%s: the node holds %q, its committed state %q", d.Key, d.A, d.B)})
				}
				break
			}
		}
	}
	return vs, n
}
