package monitors

// C19 — rewards are distributed proportionally and never over-paid.
//
// Per block: the pool (block reward + fees + accruals of validators dropped in this block)
// is split among the validators that signed and stay, floor(pool*stake/sum of their stakes)
// each, the remainder goes to total_slashed. Per payout block: every validator's accrual is
// split 10 % DAO, 10 % developers, commission % of the rest, delegators floor(rest*bip/total);
// what is credited to stakes equals what the reward events say; everything paid beyond the
// accruals is the increase for locked stakes and is exactly what the emission grew by on
// top of the block reward. The arithmetic is redone here with big integers from the exports.

import (
	"encoding/json"
	"fmt"
	"math/big"
	"strings"

	"github.com/MinterTeam/minter-go-node/coreV2/types"

	"verif/explore"
	"verif/obs"
)

const (
	c19DaoAddress  = "Mx7f0fc21d932f38ca9444f61703174569066cfa50" // coreV2/dao
	c19DevAddress  = "Mx688568d9d70c57e71d0b9de6480afb0d317f885c" // coreV2/developers
	c19DaoPercent  = 10
	c19DevPercent  = 10
	c19EvRewardTag = "minter/RewardEvent"
)

// c19AccrualModel splits the pool of the last block of the model among the validators of `pre`.
// It returns the increments per validator and the remainder that belongs to total_slashed.
func c19AccrualModel(pre *explore.State, m *c18Model, fees *big.Int) (map[types.Pubkey]*big.Int, *big.Int) {
	pool := new(big.Int).Set(m.reward)
	if fees != nil {
		pool.Add(pool, fees)
	}
	sum := new(big.Int)
	type share struct {
		pub   types.Pubkey
		stake *big.Int
	}
	var shares []share
	for i := range pre.Export.Validators {
		v := &pre.Export.Validators[i]
		c := m.byPub[v.PubKey]
		if c != nil && c.toDrop {
			pool.Add(pool, obs.Num(v.AccumReward)) // the accrual of a dropped validator returns to the pool
			continue
		}
		if c == nil || !m.signed[c.addr] {
			continue
		}
		st := obs.Num(v.TotalBipStake)
		sum.Add(sum, st)
		shares = append(shares, share{v.PubKey, st})
	}
	out := map[types.Pubkey]*big.Int{}
	rem := new(big.Int).Set(pool)
	if sum.Sign() > 0 {
		for _, s := range shares {
			d := new(big.Int).Div(new(big.Int).Mul(pool, s.stake), sum)
			out[s.pub] = d
			rem.Sub(rem, d)
		}
	}
	return out, rem
}

type c19RewardEvent struct {
	Role    string `json:"role"`
	Address string `json:"address"`
	Amount  string `json:"amount"`
	Pub     string `json:"validator_pub_key"`
	ForCoin uint64 `json:"for_coin"`
}

func c19RewardEvents(events string) ([]c19RewardEvent, error) {
	var out []c19RewardEvent
	for _, item := range strings.Split(events, ";") {
		if !strings.HasPrefix(item, c19EvRewardTag+":") {
			continue
		}
		var e c19RewardEvent
		if err := json.Unmarshal([]byte(item[len(c19EvRewardTag)+1:]), &e); err != nil {
			return nil, err
		}
		out = append(out, e)
	}
	return out, nil
}

func c19Pct(v *big.Int, p int64) *big.Int {
	return new(big.Int).Div(new(big.Int).Mul(v, big.NewInt(p)), big.NewInt(100))
}

var c19Cov c18Counter

// C19Coverage reports how often each guarded mechanism was met by the C19 monitor in this process.
func C19Coverage() map[string]int64 { return c19Cov.snapshot() }

// Rewards is the C19 monitor.
type Rewards struct{}

func (Rewards) Property() string { return "C19" }

func (Rewards) Check(t *explore.Transition) ([]V, bool) {
	cur := t.Cur
	if len(cur.Hist) == 0 || !c18IsValWorld(cur.W) {
		return nil, false
	}
	if f := cur.Fault; f != nil {
		// a distribution that does not add up ends the node in EndBlock (negative remainder) or in
		// Commit (the coin checker): the reward of this block is never paid. Other faults are C07's.
		if (f.Call == "EndBlock" || f.Call == "Commit") && f.Kind != "crash" && f.Kind != "hang" && len(cur.Steps) == len(cur.Hist) {
			return []V{{Signature: fmt.Sprintf("distribution-ends-the-node|%s|%s", f.Call, f.Top), Detail: fmt.Sprintf("block %d of %s: %s", len(cur.Hist), cur.Hist.String(), f.String())}}, true
		}
		return nil, false
	}
	pre, post, last := cur.Pre, cur.Final(), cur.Last()
	if pre == nil || post == nil || last == nil || cur.W.Envs[last.Block.Env].FF > 0 {
		return nil, false // a fast-forward step spans several blocks
	}
	if last.Obs.Time.Hour() >= 12 {
		return nil, false // the reward may be re-priced from noon on (C28); the model assumes the genesis reward
	}
	m := c18RunModel(cur)
	if m.err != "" {
		return []V{{Signature: "harness|model-cannot-follow", Detail: m.err}}, false
	}
	var out []V
	add := func(sig, format string, a ...interface{}) {
		out = append(out, V{Signature: sig, Detail: fmt.Sprintf("height %d (%s): ", m.h, cur.W.Envs[last.Block.Env].Name) + fmt.Sprintf(format, a...)})
	}
	// the accrued amounts as the committed state records them (what a restarted node, an export
	// or a snapshot pays out at the next payout) must be the node's
	for _, d := range post.DiskDiff {
		if obs.KeyClass(d.Key) == "val/*/accum_reward" {
			kind := "ordinary-block"
			if m.payout {
				kind = "payout-block"
			}
			add("accrual|committed-record-differs|"+kind, "%s: the node holds %q, its committed state %q", d.Key, d.A, d.B)
		}
	}
	fees := last.Obs.Rewards
	delta, blockRem := c19AccrualModel(pre, m, fees)
	nontrivial := m.payout || (fees != nil && fees.Sign() > 0)
	anyByz := false
	for _, c := range m.cands {
		if c.byz > 0 {
			anyByz = true
		}
		if c.wasInSet && (c.toDrop || !m.signed[c.addr]) {
			nontrivial = true
		}
	}
	dEm := new(big.Int).Sub(post.Emission, pre.Emission)
	dSl := new(big.Int).Sub(obs.Num(post.Export.TotalSlashed), obs.Num(pre.Export.TotalSlashed))

	// accruals after this block
	accrued := map[types.Pubkey]*big.Int{}
	class := map[types.Pubkey]string{}
	for i := range pre.Export.Validators {
		v := &pre.Export.Validators[i]
		c := m.byPub[v.PubKey]
		a := obs.Num(v.AccumReward)
		switch {
		case c != nil && c.toDrop:
			a = new(big.Int)
			class[v.PubKey] = "dropped"
		case delta[v.PubKey] != nil:
			a = new(big.Int).Add(a, delta[v.PubKey])
			class[v.PubKey] = "signed"
		default:
			class[v.PubKey] = "did-not-sign"
		}
		accrued[v.PubKey] = a
	}

	if fees != nil && fees.Sign() > 0 {
		c19Cov.inc("blocks_with_fees")
	}
	for _, c := range m.cands {
		if c.wasInSet && c.toDrop {
			c19Cov.inc("validator_dropped_accrual_back_to_pool")
		} else if c.wasInSet && !m.signed[c.addr] {
			c19Cov.inc("validator_did_not_sign")
		}
	}
	if !m.payout {
		c19Cov.inc("ordinary_blocks")
		for i := range post.Export.Validators {
			v := &post.Export.Validators[i]
			want, ok := accrued[v.PubKey]
			if !ok {
				want = new(big.Int) // joined in this block
			}
			if obs.Num(v.AccumReward).Cmp(want) != 0 {
				add("accrual|"+class[v.PubKey], "validator %s: accum_reward %s, expected %s (pool = reward %s + fees %s + accruals of dropped validators, split by stake among the validators that signed and stay)",
					v.PubKey.String()[:10], v.AccumReward, want, m.reward, fees)
			}
		}
		if dEm.Cmp(m.reward) != 0 {
			add("emission|ordinary-block", "the emission grew by %s, the block reward is %s", dEm, m.reward)
		}
		if !anyByz {
			if dSl.Cmp(blockRem) != 0 {
				add("remainder-to-total-slashed|ordinary-block", "total_slashed grew by %s, the undistributed remainder of the pool is %s", dSl, blockRem)
			}
		}
		return out, nontrivial
	}

	// ---- payout block
	evs, err := c19RewardEvents(post.Events)
	if err != nil {
		return []V{{Signature: "harness|reward-events-unreadable", Detail: err.Error()}}, false
	}
	lockUntil := map[string]uint64{}
	for _, a := range pre.Export.Accounts {
		lockUntil[a.Address.String()] = a.LockStakeUntilBlock
	}
	byVal := map[string][]c19RewardEvent{}
	paid := new(big.Int)
	for _, e := range evs {
		byVal[e.Pub] = append(byVal[e.Pub], e)
		paid.Add(paid, obs.Num(e.Amount))
	}
	plainPaid, accruedSum := new(big.Int), new(big.Int)
	anyLocked := false
	for i := range pre.Export.Validators {
		v := &pre.Export.Validators[i]
		pc := c18CandOf(pre, v.PubKey)
		if pc == nil {
			continue
		}
		A := accrued[v.PubKey]
		accruedSum.Add(accruedSum, A)
		total := obs.Num(v.TotalBipStake)
		dao, dev := c19Pct(A, c19DaoPercent), c19Pct(A, c19DevPercent)
		rest := new(big.Int).Sub(new(big.Int).Sub(A, dao), dev)
		val := c19Pct(rest, int64(pc.Commission))
		rest2 := new(big.Int).Sub(rest, val)
		plainPaid.Add(plainPaid, dao).Add(plainPaid, dev).Add(plainPaid, val)
		// delegators
		type want struct {
			plain  *big.Int
			locked bool
			seen   bool
		}
		wants := map[string]*want{}
		lockedV := false
		for _, s := range pc.Stakes {
			bip := obs.Num(s.BipValue)
			if bip.Sign() == 0 || total.Sign() == 0 {
				continue
			}
			p := new(big.Int).Div(new(big.Int).Mul(rest2, bip), total)
			plainPaid.Add(plainPaid, p)
			lk := uint64(m.h) < lockUntil[s.Owner.String()]
			if lk {
				lockedV, anyLocked = true, true
			}
			wants[fmt.Sprintf("%s/%d", s.Owner.String(), s.Coin)] = &want{plain: p, locked: lk}
		}
		lockTag := "no-locked-stake"
		if lockedV {
			lockTag = "with-locked-stake"
		}
		got := map[string]*big.Int{"DAO": nil, "Developers": nil, "Validator": nil}
		credit := map[string]*big.Int{} // owner -> base coin credited according to the events
		for _, e := range byVal[v.PubKey.String()] {
			amt := obs.Num(e.Amount)
			if credit[e.Address] == nil {
				credit[e.Address] = new(big.Int)
			}
			credit[e.Address].Add(credit[e.Address], amt)
			switch e.Role {
			case "DAO", "Developers", "Validator":
				if got[e.Role] != nil {
					add("payout|role-paid-twice|"+e.Role, "validator %s: second %s event", e.Pub[:10], e.Role)
				}
				got[e.Role] = amt
				wantAddr := map[string]string{"DAO": c19DaoAddress, "Developers": c19DevAddress, "Validator": pc.RewardAddress.String()}[e.Role]
				if e.Address != wantAddr {
					add("payout|wrong-recipient|"+e.Role, "validator %s: %s share goes to %s, expected %s", e.Pub[:10], e.Role, e.Address, wantAddr)
				}
			case "Delegator":
				w := wants[fmt.Sprintf("%s/%d", e.Address, e.ForCoin)]
				switch {
				case w == nil:
					add("payout|delegator-event-without-stake", "validator %s: %s is paid %s for coin %d but has no such stake", e.Pub[:10], e.Address, amt, e.ForCoin)
				case w.seen:
					add("payout|delegator-paid-twice", "validator %s: %s is paid twice for coin %d", e.Pub[:10], e.Address, e.ForCoin)
				case !w.locked && amt.Cmp(w.plain) != 0:
					add("payout|delegator-share|unlocked", "validator %s: %s gets %s for coin %d, expected floor(%s*bip/%s) = %s", e.Pub[:10], e.Address, amt, e.ForCoin, rest2, total, w.plain)
				case w.locked && amt.Cmp(w.plain) < 0:
					add("payout|delegator-share|locked-below-plain-share", "validator %s: locked %s gets %s for coin %d, less than the plain share %s", e.Pub[:10], e.Address, amt, e.ForCoin, w.plain)
				}
				if w != nil {
					w.seen = true
					if w.locked {
						c19Cov.inc("delegator_shares_locked")
					} else {
						c19Cov.inc("delegator_shares_exact")
					}
				}
			default:
				add("payout|unknown-role", "role %q", e.Role)
			}
		}
		for k, w := range wants {
			if !w.seen && w.plain.Sign() > 0 {
				add("payout|delegator-not-paid", "validator %s: stake %s is owed %s and got nothing", v.PubKey.String()[:10], k, w.plain)
			}
		}
		chk := func(role string, amt, plain *big.Int, exact bool) {
			if amt == nil {
				if A.Sign() == 0 {
					return // nothing accrued (validator dropped in this block): no event is owed
				}
				add("payout|role-not-paid|"+role, "validator %s: no %s event (accrued %s)", v.PubKey.String()[:10], role, A)
				return
			}
			if (exact && amt.Cmp(plain) != 0) || (!exact && amt.Cmp(plain) < 0) {
				add(fmt.Sprintf("payout|%s-share|%s", role, lockTag), "validator %s: %s gets %s, expected %s of accrued %s (commission %d %%)", v.PubKey.String()[:10], role, amt, plain, A, pc.Commission)
			}
		}
		chk("DAO", got["DAO"], dao, !lockedV)
		chk("Developers", got["Developers"], dev, !lockedV)
		chk("Validator", got["Validator"], val, true)
		// what the events say is what the stakes receive (rewards are credited to base-coin stakes)
		if c := m.byPub[v.PubKey]; c != nil && c.byz == 0 {
			a, b := c18StakeSums(pc), c18StakeSums(c18CandOf(post, v.PubKey))
			seen := map[string]bool{}
			for owner, cr := range credit {
				k := owner + "/0"
				seen[k] = true
				old, nw := a[k], b[k]
				if old == nil {
					old = new(big.Int)
				}
				if nw == nil {
					nw = new(big.Int)
				}
				if d := new(big.Int).Sub(nw, old); d.Cmp(cr) != 0 {
					add("payout|stake-credit-differs-from-events", "validator %s: base stake of %s grew by %s, the reward events add up to %s", v.PubKey.String()[:10], owner, d, cr)
				}
			}
			for k, nw := range b {
				if seen[k] {
					continue
				}
				old := a[k]
				if old == nil {
					old = new(big.Int)
				}
				if nw.Cmp(old) != 0 {
					add("payout|stake-changed-without-event", "validator %s: stake %s went from %s to %s without a reward event", v.PubKey.String()[:10], k, old, nw)
				}
			}
		}
	}
	c19Cov.inc("payout_blocks")
	if anyLocked {
		c19Cov.inc("payout_blocks_with_locked_stake")
	}
	if accruedSum.Sign() == 0 {
		c19Cov.inc("payout_blocks_with_nothing_accrued")
	}
	for pub := range byVal {
		found := false
		for i := range pre.Export.Validators {
			if pre.Export.Validators[i].PubKey.String() == pub {
				found = true
			}
		}
		if !found {
			add("payout|events-for-non-validator", "reward events for %s which was not a validator", pub[:10])
		}
	}
	for i := range post.Export.Validators {
		if v := &post.Export.Validators[i]; obs.Num(v.AccumReward).Sign() != 0 {
			add("payout|accrual-not-cleared", "validator %s keeps accum_reward %s after the payout", v.PubKey.String()[:10], v.AccumReward)
		}
	}
	// never over-paid: paid - plain shares == emission beyond the block reward; remainder exact
	extra := new(big.Int).Sub(dEm, m.reward)
	over := new(big.Int).Sub(paid, plainPaid)
	lk := "no-locked-stake"
	if anyLocked {
		lk = "with-locked-stake"
	}
	if over.Cmp(extra) != 0 {
		add("payout|paid-beyond-accrued-differs-from-extra-emission|"+lk, "paid %s, plain shares of the accrued %s add up to %s: %s paid on top, but the emission grew by %s beyond the block reward %s", paid, accruedSum, plainPaid, over, extra, m.reward)
	}
	if !anyLocked && extra.Sign() != 0 {
		add("payout|extra-emission-without-locked-stake", "the emission grew by %s beyond the block reward although no stake is locked", extra)
	}
	if !anyByz {
		payRem := new(big.Int).Sub(dSl, blockRem)
		wantRem := new(big.Int).Sub(accruedSum, plainPaid)
		if payRem.Cmp(wantRem) != 0 {
			add("payout|remainder-to-total-slashed", "total_slashed grew by %s = pool remainder %s + %s; the accrued %s minus the plain shares %s leave %s", dSl, blockRem, payRem, accruedSum, plainPaid, wantRem)
		}
		if payRem.Sign() < 0 {
			add("payout|negative-remainder", "payout remainder %s", payRem)
		}
	}
	return out, true
}
