package monitors

import (
	"bytes"
	"encoding/hex"
	"fmt"
	"math/big"

	"github.com/MinterTeam/minter-go-node/coreV2/transaction"
	"github.com/MinterTeam/minter-go-node/coreV2/types"
	"github.com/MinterTeam/minter-go-node/crypto"
	"github.com/MinterTeam/minter-go-node/rlp"

	"verif/explore"
	"verif/obs"
)

// ---------------------------------------------------------------- C21

// Checks: a check pays out at most once, only before its due block, on its network, only to
// the holder of its password, exactly value + fee from the issuer.
type Checks struct{}

func (Checks) Property() string { return "C21" }

// proofValid recomputes independently whether the proof was made with the check's password
// for the redeemer's address (secp256k1 recovery from the repo's crypto package is a trusted primitive).
func proofValid(inf *TxInfo, d *transaction.RedeemCheckData) bool {
	lockPub, err := inf.Check.LockPubKey()
	if err != nil {
		return false
	}
	b, err := rlp.EncodeToBytes([]interface{}{inf.Sender})
	if err != nil {
		return false
	}
	pub, err := crypto.Ecrecover(crypto.Keccak256(b), d.Proof[:])
	if err != nil {
		return false
	}
	return bytes.Equal(lockPub, pub)
}

func checkHash(raw []byte) string {
	// the used-check set is keyed by the hash of the raw check bytes' RLP content: take it from the export diff instead
	return hex.EncodeToString(crypto.Keccak256(raw))
}

func (Checks) Check(t *explore.Transition) ([]V, bool) {
	r := t.LastTx()
	if r == nil || t.Parent == nil || t.Parent.Final() == nil || t.Cur.Last() == nil {
		return nil, false
	}
	inf := Info(r)
	if !inf.OK || inf.Type != transaction.TypeRedeemCheck || inf.Check == nil {
		return nil, false
	}
	d, ok := inf.Tx.GetDecodedData().(*transaction.RedeemCheckData)
	if !ok {
		return nil, false
	}
	par := t.Parent.Final()
	height := uint64(t.Cur.Last().Height)
	c := inf.Check
	var out []V
	bad := func(rule, text string) {
		out = append(out, V{Signature: "check|" + rule, Detail: fmt.Sprintf("tx %q at height %d: %s", r.T.Name, height, text)})
	}
	// an accepted redemption is paid from what the issuer holds before it (judged on the state
	// before the transaction, so that it is seen even when the block later fails to commit)
	if r.Resp.Code == 0 && t.Parent.Fault == nil {
		have := func(coin types.CoinID) *big.Int {
			return obs.Num(par.Flat[fmt.Sprintf("acct/%s/bal/%d", inf.Payer.String(), uint64(coin))])
		}
		fee := new(big.Int)
		if v, ok := tagOf(r, "tx.commission_amount"); ok {
			fee = obs.Num(v)
		}
		need := new(big.Int).Set(c.Value)
		if c.GasCoin == c.Coin {
			need.Add(need, fee)
		} else if have(c.GasCoin).Cmp(fee) < 0 {
			bad("accepted-without-issuer-funds", fmt.Sprintf("the issuer holds %s of gas coin %d, the fee is %s", have(c.GasCoin), c.GasCoin, fee))
		}
		if have(c.Coin).Cmp(need) < 0 {
			bad("accepted-without-issuer-funds", fmt.Sprintf("the issuer holds %s of coin %d, value + fee is %s", have(c.Coin), c.Coin, need))
		}
	}
	if t.Cur.Final() == nil || t.Cur.Fault != nil {
		return out, len(out) > 0
	}
	cur := t.Cur.Final()
	// which used-check entries appeared
	var added []string
	for k := range cur.Flat {
		if len(k) > 6 && k[:6] == "check/" {
			if _, was := par.Flat[k]; !was {
				added = append(added, k)
			}
		}
	}
	usedBefore := func() bool {
		// a check counts as used if an earlier delivery of a transaction carrying the same raw check succeeded
		for _, st := range t.Cur.Steps {
			for i := range st.Txs {
				x := &st.Txs[i]
				if x == r {
					return false
				}
				if x.Resp.Code != 0 {
					continue
				}
				xi := Info(x)
				if xi.OK && xi.Type == transaction.TypeRedeemCheck {
					if xd, ok := xi.Tx.GetDecodedData().(*transaction.RedeemCheckData); ok && bytes.Equal(xd.RawCheck, d.RawCheck) {
						return true
					}
				}
			}
		}
		return false
	}()
	if r.Resp.Code != 0 {
		if len(added) > 0 {
			bad("rejected-but-marked-used", fmt.Sprintf("rejected (code %d) but %v was added to the used set", r.Resp.Code, added))
		}
		return out, true
	}
	// accepted: every condition of the property must hold
	if usedBefore {
		bad("redeemed-twice", "a check that was already redeemed in this history was redeemed again")
	}
	if height > c.DueBlock {
		bad("redeemed-after-due-block", fmt.Sprintf("due block %d", c.DueBlock))
	}
	if c.ChainID != types.CurrentChainID {
		bad("redeemed-on-other-network", fmt.Sprintf("check issued for chain %d", c.ChainID))
	}
	if !proofValid(&inf, d) {
		bad("redeemed-without-valid-proof", "the proof does not match the check's password for the redeemer's address")
	}
	if len(added) != 1 {
		bad("used-set", fmt.Sprintf("%d entries were added to the used-check set", len(added)))
	}
	// exact payout
	issuer, redeemer := inf.Payer.String(), inf.Sender.String()
	bal := func(s *explore.State, who string, coin types.CoinID) *big.Int {
		return obs.Num(s.Flat[fmt.Sprintf("acct/%s/bal/%d", who, uint64(coin))])
	}
	fee := new(big.Int)
	if v, ok := tagOf(r, "tx.commission_amount"); ok {
		fee = obs.Num(v)
	}
	if inf.Tx.GasCoin != c.GasCoin {
		bad("gas-coin-mismatch-accepted", fmt.Sprintf("transaction gas coin %d, check gas coin %d", inf.Tx.GasCoin, c.GasCoin))
	}
	if issuer != redeemer {
		wantIssuer := new(big.Int).Neg(c.Value)
		if c.GasCoin == c.Coin {
			wantIssuer.Sub(wantIssuer, fee)
		}
		if d := new(big.Int).Sub(bal(cur, issuer, c.Coin), bal(par, issuer, c.Coin)); d.Cmp(wantIssuer) != 0 {
			bad("issuer-debit", fmt.Sprintf("issuer's balance of coin %d changed by %s, expected %s (value %s, fee %s)", c.Coin, d, wantIssuer, c.Value, fee))
		}
		if d := new(big.Int).Sub(bal(cur, redeemer, c.Coin), bal(par, redeemer, c.Coin)); d.Cmp(c.Value) != 0 {
			bad("redeemer-credit", fmt.Sprintf("redeemer's balance of coin %d changed by %s, expected +%s", c.Coin, d, c.Value))
		}
		if c.GasCoin != c.Coin {
			if d := new(big.Int).Sub(bal(cur, issuer, c.GasCoin), bal(par, issuer, c.GasCoin)); d.Cmp(new(big.Int).Neg(fee)) != 0 {
				bad("fee-not-from-issuer", fmt.Sprintf("issuer's balance of gas coin %d changed by %s, fee %s", c.GasCoin, d, fee))
			}
		}
		// the redeemer pays nothing
		for _, e := range twinDiff(t) {
			pre := "acct/" + redeemer + "/bal/"
			if len(e.Key) > len(pre) && e.Key[:len(pre)] == pre && e.Delta().Sign() < 0 {
				bad("redeemer-charged", e.String())
			}
		}
	}
	_ = checkHash
	return out, true
}
