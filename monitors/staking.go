package monitors

import (
	"fmt"
	"math/big"
	"sort"
	"strings"

	"github.com/MinterTeam/minter-go-node/coreV2/transaction"
	"github.com/MinterTeam/minter-go-node/coreV2/types"
	abci "github.com/tendermint/tendermint/abci/types"

	"verif/explore"
	"verif/obs"
	"verif/worlds"
)

// Reference constants of the staking rules (testnet flavour used by all worlds, see
// worlds.StakeUnbond / StakeMove). They are written down here independently of the
// repository's types.Get*Period functions, which are the code under test.
const (
	c16RefUnbondPeriod = 531
	c16RefMovePeriod   = 177
	c16RefMaxVals      = 64
	c16RefMaxCands     = 100
	c16RefSlots        = 1000
)

var c16RefMinValStake = new(big.Int).Mul(big.NewInt(1000), new(big.Int).Exp(big.NewInt(10), big.NewInt(18), nil))

// ---------------------------------------------------------------- shared views of an export

type c16Fund struct {
	Height uint64
	Addr   types.Address
	Coin   uint64
	CandID uint64
	Key    string // "-" when there is no candidate key (Lock)
	MoveTo uint64
	Value  *big.Int
}

func (f c16Fund) id() string {
	return fmt.Sprintf("%d/%s/%d/%d/%s/%d=%s", f.Height, f.Addr.String(), f.Coin, f.CandID, f.Key, f.MoveTo, f.Value)
}

func (f c16Fund) kind() string {
	switch {
	case f.MoveTo != 0:
		return "move"
	case f.Key == "-":
		return "lock"
	}
	return "unbond"
}

func c16FundsOf(s *types.AppState) []c16Fund {
	var out []c16Fund
	for _, f := range s.FrozenFunds {
		k := "-"
		if f.CandidateKey != nil {
			k = f.CandidateKey.String()
		}
		out = append(out, c16Fund{f.Height, f.Address, f.Coin, f.CandidateID, k, f.MoveToCandidateID, obs.Num(f.Value)})
	}
	return out
}

func c16Multiset(fs []c16Fund) map[string]int {
	m := map[string]int{}
	for _, f := range fs {
		m[f.id()]++
	}
	return m
}

// fundDiff returns the funds of b that are not in a (added) and those of a that are not in b (removed), as multisets.
func c16FundDiff(a, b []c16Fund) (added, removed []c16Fund) {
	ma, mb := c16Multiset(a), c16Multiset(b)
	for _, f := range b {
		if ma[f.id()] > 0 {
			ma[f.id()]--
			continue
		}
		added = append(added, f)
	}
	for _, f := range a {
		if mb[f.id()] > 0 {
			mb[f.id()]--
			continue
		}
		removed = append(removed, f)
	}
	return
}

func c16CandByPub(s *types.AppState, p types.Pubkey) *types.Candidate {
	for i := range s.Candidates {
		if s.Candidates[i].PubKey == p {
			return &s.Candidates[i]
		}
	}
	return nil
}

func c16CandByID(s *types.AppState, id uint64) *types.Candidate {
	for i := range s.Candidates {
		if s.Candidates[i].ID == id {
			return &s.Candidates[i]
		}
	}
	return nil
}

type c16OcKey struct {
	Owner types.Address
	Coin  uint64
}

// staked returns, per (owner, coin), what a candidate holds: stakes + pending updates + wait-listed value.
func c16Staked(s *types.AppState, c *types.Candidate) map[c16OcKey]*big.Int {
	m := map[c16OcKey]*big.Int{}
	add := func(o types.Address, coin uint64, v string) {
		k := c16OcKey{o, coin}
		if m[k] == nil {
			m[k] = new(big.Int)
		}
		m[k].Add(m[k], obs.Num(v))
	}
	if c == nil {
		return m
	}
	for _, st := range c.Stakes {
		add(st.Owner, st.Coin, st.Value)
	}
	for _, st := range c.Updates {
		add(st.Owner, st.Coin, st.Value)
	}
	for _, w := range s.Waitlist {
		if w.CandidateID == c.ID {
			add(w.Owner, w.Coin, w.Value)
		}
	}
	return m
}

func c16StakedOf(s *types.AppState, c *types.Candidate, o types.Address, coin uint64) *big.Int {
	if v := c16Staked(s, c)[c16OcKey{o, coin}]; v != nil {
		return v
	}
	return new(big.Int)
}

func c16BalanceOf(s *explore.State, a types.Address, coin uint64) *big.Int {
	return obs.Num(s.Flat[fmt.Sprintf("acct/%s/bal/%d", a.String(), coin)])
}

func c16LockUntil(s *explore.State, a types.Address) uint64 {
	var v uint64
	fmt.Sscan(s.Flat["acct/"+a.String()+"/lock_stake_until"], &v)
	return v
}

// boundaryIn reports whether a payout / update boundary lies in (from, to].
func c16BoundaryIn(from, to int64, period uint64) bool {
	if period == 0 {
		return false
	}
	for h := from + 1; h <= to; h++ {
		if uint64(h)%period == 0 {
			return true
		}
	}
	return false
}

// removedCandidates lists candidate ids that exist in a but not in b.
func c16RemovedCandidates(a, b *types.AppState) map[uint64]bool {
	m := map[uint64]bool{}
	for _, c := range a.Candidates {
		if c16CandByID(b, c.ID) == nil {
			m[c.ID] = true
		}
	}
	return m
}

func c16DeletedIDs(s *types.AppState) map[uint64]bool {
	m := map[uint64]bool{}
	for _, d := range s.DeletedCandidates {
		m[d.ID] = true
	}
	return m
}

// c16Cut95 is what a byzantine punishment leaves of a value: floor(v*95/100).
func c16Cut95(v *big.Int) *big.Int {
	r := new(big.Int).Mul(v, big.NewInt(95))
	return r.Quo(r, big.NewInt(100))
}

// c16Byzantine lists the candidates (ids) punished by the evidence of the step's block: online candidates
// that are validators (others are skipped by the node "to prevent double punishing").
func c16Byzantine(t *explore.Transition) map[uint64]bool {
	m := map[uint64]bool{}
	last, pre := t.Cur.Last(), t.Cur.Pre
	if last == nil || pre == nil {
		return m
	}
	es := t.W.Envs[last.Block.Env]
	if es.FF > 0 || es.Dyn != nil {
		return m
	}
	for _, a := range es.Env.Evidence {
		for i := range pre.Export.Candidates {
			c := &pre.Export.Candidates[i]
			if worlds.TmAddr(c.PubKey) != a || c.Status != 2 {
				continue
			}
			for _, v := range pre.Export.Validators {
				if v.PubKey == c.PubKey {
					m[c.ID] = true
				}
			}
		}
	}
	return m
}

// ---------------------------------------------------------------- C16

// StakeSchedule: staked coins leave staking only on schedule (reference schedule model over
// export differences: the block before/after pair for maturities, the parent/cur twin for transactions).
type StakeSchedule struct{}

func (StakeSchedule) Property() string { return "C16" }

// movesOfHistory lists the funds created by accepted MoveStake transactions of the executed history.
type c16MoveRec struct {
	Due    uint64
	Sender types.Address
	Coin   uint64
	Value  *big.Int
	From   types.Pubkey
	To     types.Pubkey
}

func c16MovesOfHistory(tr *explore.Trace) []c16MoveRec {
	var out []c16MoveRec
	for i := range tr.Steps {
		st := &tr.Steps[i]
		for j := range st.Txs {
			r := &st.Txs[j]
			if r.Resp.Code != 0 {
				continue
			}
			inf := Info(r)
			if !inf.OK || inf.Type != transaction.TypeMoveStake {
				continue
			}
			d, ok := inf.Tx.GetDecodedData().(*transaction.MoveStakeData)
			if !ok {
				continue
			}
			out = append(out, c16MoveRec{uint64(st.Height) + c16RefMovePeriod, inf.Sender, uint64(d.Coin), d.Value, d.FromPubKey, d.ToPubKey})
		}
	}
	return out
}

func (m StakeSchedule) Check(t *explore.Transition) ([]V, bool) {
	var out []V
	nontrivial := false
	v1, n1 := m.checkBlock(t)
	v2, n2 := m.checkTx(t)
	out = append(append(out, v1...), v2...)
	nontrivial = n1 || n2
	return out, nontrivial
}

// checkBlock judges the whole last block (with its fast-forwarded predecessors) on the pair (Pre, Post).
func (StakeSchedule) checkBlock(t *explore.Transition) ([]V, bool) {
	last := t.Cur.Last()
	pre := t.Cur.Pre
	if last == nil || pre == nil {
		return nil, false
	}
	preF := c16FundsOf(&pre.Export)
	if t.Cur.Fault != nil {
		// a crash while a matured move is handed to its target: the coins reach nobody
		if t.Cur.Fault.Call == "BeginBlock" {
			for _, f := range preF {
				if f.MoveTo != 0 && f.Height == uint64(last.Height) && c16CandByID(&pre.Export, f.MoveTo) == nil {
					return []V{{Signature: "move-maturity-fault|target-not-live", Detail: fmt.Sprintf("BeginBlock of height %d faulted while the move %s was due and its target candidate %d no longer exists: %s", last.Height, f.id(), f.MoveTo, t.Cur.Fault.String())}}, true
				}
			}
		}
		return nil, false
	}
	post := t.Cur.Final()
	if post == nil {
		return nil, false
	}
	var out []V
	h0, h := uint64(pre.Height), uint64(post.Height)
	period := t.W.P.StakePeriod
	// byzantine unbonding: every stake of the punished candidate leaves for one unbond period with 95 % of its
	// value, and 5 % are cut from the funds of that candidate that are frozen until then (the cut itself is C18's subject)
	byz := c16Byzantine(t)
	var due, future []c16Fund
	for _, f := range preF {
		if byz[f.CandID] && f.Height >= h && f.Height <= h+c16RefUnbondPeriod {
			f.Value = c16Cut95(f.Value)
		}
		switch {
		case f.Height > h:
			future = append(future, f)
		case f.Height > h0:
			due = append(due, f)
		}
	}
	postF := c16FundsOf(&post.Export)
	// (1) nothing due stays frozen
	for _, f := range postF {
		if f.Height <= h {
			out = append(out, V{Signature: "fund-overdue-still-frozen|" + f.kind(), Detail: fmt.Sprintf("after height %d the fund %s is still frozen", h, f.id())})
		}
	}
	// (2) nothing leaves before its due block
	ms := c16Multiset(postF)
	for _, f := range future {
		if ms[f.id()] == 0 {
			out = append(out, V{Signature: "fund-left-before-due|" + f.kind(), Detail: fmt.Sprintf("the fund %s (due at %d) is gone after height %d (blocks %d..%d executed)", f.id(), f.Height, h, h0+1, h)})
			continue
		}
		ms[f.id()]--
	}
	// (3) every new fund belongs to an accepted Unbond / MoveStake / Lock of this block or to a candidate removal
	type want struct {
		height uint64
		addr   types.Address
		coin   uint64
		value  *big.Int
		what   string
		used   bool
	}
	var wants []*want
	for i := range last.Txs {
		r := &last.Txs[i]
		if r.Resp.Code != 0 {
			continue
		}
		inf := Info(r)
		if !inf.OK {
			continue
		}
		switch d := inf.Tx.GetDecodedData().(type) {
		case *transaction.UnbondDataV3:
			wants = append(wants, &want{h + c16RefUnbondPeriod, inf.Sender, uint64(d.Coin), d.Value, "Unbond", false})
		case *transaction.MoveStakeData:
			wants = append(wants, &want{h + c16RefMovePeriod, inf.Sender, uint64(d.Coin), d.Value, "MoveStake", false})
		case *transaction.LockData:
			wants = append(wants, &want{uint64(d.DueBlock), inf.Sender, uint64(d.Coin), d.Value, "Lock", false})
		}
	}
	for id := range byz {
		if c := c16CandByID(&pre.Export, id); c != nil {
			for _, st := range c.Stakes {
				if v := obs.Num(st.Value); v.Sign() > 0 {
					wants = append(wants, &want{h + c16RefUnbondPeriod, st.Owner, st.Coin, c16Cut95(v), "byzantine", false})
				}
			}
		}
	}
	gone := c16RemovedCandidates(&pre.Export, &post.Export)
	delPost, delPre := c16DeletedIDs(&post.Export), c16DeletedIDs(&pre.Export)
	for _, f := range postF {
		if ms[f.id()] == 0 {
			continue
		}
		ms[f.id()]--
		matched := false
		for _, w := range wants {
			if !w.used && w.height == f.Height && w.addr == f.Addr && w.coin == f.Coin && w.value.Cmp(f.Value) == 0 {
				w.used, matched = true, true
				break
			}
		}
		if matched {
			continue
		}
		// funds of a removed candidate: due one unbond period after a block of this step
		if f.MoveTo == 0 && f.Key != "-" && f.Height > c16RefUnbondPeriod && f.Height-c16RefUnbondPeriod > h0 && f.Height-c16RefUnbondPeriod <= h &&
			(gone[f.CandID] || (delPost[f.CandID] && !delPre[f.CandID])) {
			continue
		}
		// (an accepted transaction whose fund has the wrong height/value is reported by the transaction rule with a sharper signature)
		if len(wants) == 0 {
			out = append(out, V{Signature: "unexplained-new-fund|" + f.kind(), Detail: fmt.Sprintf("height %d: new frozen fund %s without an accepted Unbond/MoveStake/Lock or a candidate removal", h, f.id())})
		}
	}
	for _, w := range wants {
		if w.what == "byzantine" && !w.used {
			out = append(out, V{Signature: "byzantine-stake-not-frozen-for-unbond-period", Detail: fmt.Sprintf("height %d: evidence against a validator; the stake of %s (coin %d) should leave with %s until %d, no such fund", h, w.addr.String(), w.coin, w.value, w.height)})
		}
	}
	// (4) maturities: exact effect of an empty step on balances and on move targets
	nontrivial := len(due) > 0 || len(byz) > 0
	if len(last.Txs) == 0 {
		moves := c16MovesOfHistory(t.Cur)
		credit := map[c16OcKey]*big.Int{}
		// The one exception to "a move never reaches the owner's balance": the target candidate of the move is
		// no longer a candidate at the due block (it was removed meanwhile) — then the full value returns to
		// the owner at the due block. A target that is present before the step and gone after a fast-forward
		// that crossed an update boundary before the due block may have been removed before or after the
		// maturity: both outcomes are possible, such (owner, coin) pairs are not judged.
		ambiguous := map[c16OcKey]bool{}
		for _, f := range due {
			if f.MoveTo != 0 {
				inPre, inPost := c16CandByID(&pre.Export, f.MoveTo) != nil, c16CandByID(&post.Export, f.MoveTo) != nil
				switch {
				case !inPre: // removed before this step: returns to the owner
				case !inPost && c16BoundaryIn(pre.Height, int64(f.Height)-1, period):
					ambiguous[c16OcKey{f.Addr, f.Coin}] = true
					continue
				default: // live at the due block: goes to the target (judged below)
					continue
				}
			}
			k := c16OcKey{f.Addr, f.Coin}
			if credit[k] == nil {
				credit[k] = new(big.Int)
			}
			credit[k].Add(credit[k], f.Value)
			// provenance: a fund made by MoveStake with target id 0 (no target candidate at all) must never reach a balance
			for _, mv := range moves {
				if f.MoveTo == 0 && f.Key != "-" && mv.Due == f.Height && mv.Sender == f.Addr && mv.Coin == f.Coin && mv.Value.Cmp(f.Value) == 0 && mv.From.String() == f.Key {
					if d := new(big.Int).Sub(c16BalanceOf(post, f.Addr, f.Coin), c16BalanceOf(pre, f.Addr, f.Coin)); d.Sign() > 0 {
						out = append(out, V{Signature: "move-matured-to-owner-balance", Detail: fmt.Sprintf("the MoveStake of %s (coin %d) from %s to %s accepted at height %d matured at height %d into the OWNER'S BALANCE (%s rose by %s); target id stored in the fund: 0", f.Value, f.Coin, f.Key, mv.To.String(), mv.Due-c16RefMovePeriod, f.Height, f.Addr.String(), d)})
					}
					break
				}
			}
		}
		keys := map[c16OcKey]bool{}
		scan := func(s *explore.State) {
			for _, a := range s.Export.Accounts {
				for _, b := range a.Balance {
					keys[c16OcKey{a.Address, b.Coin}] = true
				}
			}
		}
		scan(pre)
		scan(post)
		for k := range credit {
			keys[k] = true
		}
		var ks []c16OcKey
		for k := range keys {
			ks = append(ks, k)
		}
		sort.Slice(ks, func(i, j int) bool {
			if ks[i].Owner != ks[j].Owner {
				return ks[i].Owner.String() < ks[j].Owner.String()
			}
			return ks[i].Coin < ks[j].Coin
		})
		for _, k := range ks {
			if k.Owner == (types.Address{}) && k.Coin == 0 {
				continue // block-reward rounding goes to the zero address
			}
			if ambiguous[k] {
				continue
			}
			want := credit[k]
			if want == nil {
				want = new(big.Int)
			}
			got := new(big.Int).Sub(c16BalanceOf(post, k.Owner, k.Coin), c16BalanceOf(pre, k.Owner, k.Coin))
			if got.Cmp(want) == 0 {
				continue
			}
			sig := "matured-fund-not-credited-exactly"
			if got.Cmp(want) > 0 {
				sig = "balance-rose-without-due-fund"
				// is the surplus a move that was due for a live target?
				for _, f := range due {
					if f.MoveTo != 0 && f.Addr == k.Owner && f.Coin == k.Coin {
						sig = "move-matured-to-owner-balance"
					}
				}
			}
			out = append(out, V{Signature: sig, Detail: fmt.Sprintf("empty blocks %d..%d: balance of %s in coin %d changed by %s, funds due in these blocks for it sum to %s", h0+1, h, k.Owner.String(), k.Coin, got, want)})
		}
		// moves reach their target candidate
		inc := map[string]*big.Int{}
		for _, f := range due {
			if f.MoveTo == 0 {
				continue
			}
			k := fmt.Sprintf("%d|%s|%d", f.MoveTo, f.Addr.String(), f.Coin)
			if inc[k] == nil {
				inc[k] = new(big.Int)
			}
			inc[k].Add(inc[k], f.Value)
		}
		for _, f := range due {
			if f.MoveTo == 0 {
				continue
			}
			k := fmt.Sprintf("%d|%s|%d", f.MoveTo, f.Addr.String(), f.Coin)
			want := inc[k]
			if want == nil {
				continue
			}
			delete(inc, k)
			tp, tq := c16CandByID(&pre.Export, f.MoveTo), c16CandByID(&post.Export, f.MoveTo)
			if tp == nil || tq == nil {
				continue // the target vanished: the property speaks about existing targets only
			}
			got := new(big.Int).Sub(c16StakedOf(&post.Export, tq, f.Addr, f.Coin), c16StakedOf(&pre.Export, tp, f.Addr, f.Coin))
			// rewards are restaked into validators' candidates at payout boundaries (base coin only)
			loose := f.Coin == 0 && c16BoundaryIn(pre.Height, post.Height, period)
			if got.Cmp(want) == 0 || (loose && got.Cmp(want) > 0) {
				continue
			}
			out = append(out, V{Signature: "move-not-delegated-to-target", Detail: fmt.Sprintf("empty blocks %d..%d: moves of %s (coin %d) by %s were due for candidate %d, but what it holds for the owner changed by %s", h0+1, h, want, f.Coin, f.Addr.String(), f.MoveTo, got)})
		}
	}
	return out, nontrivial
}

// checkTx judges the last transaction on the twin (Parent, Cur).
func (StakeSchedule) checkTx(t *explore.Transition) ([]V, bool) {
	r := t.LastTx()
	if r == nil || t.Parent == nil || t.Cur.Fault != nil || t.Parent.Fault != nil {
		return nil, false
	}
	par, cur := t.Parent.Final(), t.Cur.Final()
	if par == nil || cur == nil {
		return nil, false
	}
	inf := Info(r)
	if !inf.OK {
		return nil, false
	}
	h := uint64(t.Cur.Last().Height)
	period := t.W.P.StakePeriod
	boundary := period != 0 && h%period == 0
	var out []V
	ty := c16TxTypeName(inf.Type)
	locked := c16LockUntil(par, inf.Sender) > h
	if r.Resp.Code != 0 {
		// a rejected Unbond of a locked account is the lock gate at work
		return nil, inf.Type == transaction.TypeUnbond && locked
	}
	added, removed := c16FundDiff(c16FundsOf(&par.Export), c16FundsOf(&cur.Export))
	gone := c16RemovedCandidates(&par.Export, &cur.Export)
	// removals of candidates at an update triggered by this very transaction (public key change, set-off) create funds too
	var own []c16Fund
	for _, f := range added {
		if f.MoveTo == 0 && f.Key != "-" && f.Height == h+c16RefUnbondPeriod && (gone[f.CandID] || (c16DeletedIDs(&cur.Export)[f.CandID] && !c16DeletedIDs(&par.Export)[f.CandID])) {
			continue
		}
		own = append(own, f)
	}
	describe := func(fs []c16Fund) string {
		var s []string
		for _, f := range fs {
			s = append(s, f.id())
		}
		return "[" + strings.Join(s, " ") + "]"
	}
	balRule := func(coin uint64) {
		if d := new(big.Int).Sub(c16BalanceOf(cur, inf.Sender, coin), c16BalanceOf(par, inf.Sender, coin)); d.Sign() > 0 {
			out = append(out, V{Signature: "sender-balance-rose|" + ty, Detail: fmt.Sprintf("tx %q: the sender's balance of coin %d is %s higher than without the transaction", r.T.Name, coin, d)})
		}
	}
	// expectFund: exactly one new fund with the given content
	expectFund := func(height uint64, coin uint64, value *big.Int, candID uint64, key string, moveTo int64) {
		if len(removed) > 0 {
			out = append(out, V{Signature: "fund-removed-by|" + ty, Detail: fmt.Sprintf("tx %q removed frozen funds %s", r.T.Name, describe(removed))})
		}
		if len(own) != 1 {
			out = append(out, V{Signature: "fund-count|" + ty, Detail: fmt.Sprintf("tx %q accepted at height %d: %d new frozen funds (due after this height) instead of exactly one: %s; response tag tx.unlock_block_id=%q, expected due height %d", r.T.Name, h, len(own), describe(own), c16TagOf(r, "tx.unlock_block_id"), height)})
			return
		}
		f := own[0]
		switch {
		case f.Height != height:
			out = append(out, V{Signature: "fund-due-height|" + ty, Detail: fmt.Sprintf("tx %q accepted at height %d: fund due at %d (= +%d) instead of %d (= +%d): %s", r.T.Name, h, f.Height, int64(f.Height)-int64(h), height, int64(height)-int64(h), f.id())})
		case f.Value.Cmp(value) != 0 || f.Coin != coin:
			out = append(out, V{Signature: "fund-value|" + ty, Detail: fmt.Sprintf("tx %q: fund %s instead of %s of coin %d", r.T.Name, f.id(), value, coin)})
		case f.Addr != inf.Sender:
			out = append(out, V{Signature: "fund-owner|" + ty, Detail: fmt.Sprintf("tx %q by %s: fund %s", r.T.Name, inf.Sender.String(), f.id())})
		case f.CandID != candID || f.Key != key:
			out = append(out, V{Signature: "fund-source|" + ty, Detail: fmt.Sprintf("tx %q: fund %s, expected source candidate %d %s", r.T.Name, f.id(), candID, key)})
		case moveTo >= 0 && f.MoveTo != uint64(moveTo):
			out = append(out, V{Signature: "fund-target|" + ty, Detail: fmt.Sprintf("tx %q: fund %s, expected target id %d", r.T.Name, f.id(), moveTo)})
		}
	}
	// stakeRule: what candidate `pub` holds for the sender changed by exactly delta
	stakeRule := func(pub types.Pubkey, coin uint64, delta *big.Int, what string) {
		cp, cc := c16CandByPub(&par.Export, pub), c16CandByPub(&cur.Export, pub)
		if cp == nil || cc == nil {
			return // removed in this very block: its holdings are frozen altogether
		}
		if boundary && coin == 0 {
			return // rewards are restaked at the boundary and depend on the fee of this transaction
		}
		got := new(big.Int).Sub(c16StakedOf(&cur.Export, cc, inf.Sender, coin), c16StakedOf(&par.Export, cp, inf.Sender, coin))
		if got.Cmp(delta) != 0 {
			out = append(out, V{Signature: "stake-delta|" + ty + "|" + what, Detail: fmt.Sprintf("tx %q: stake+updates+waitlist of the sender at %s in coin %d changed by %s instead of %s", r.T.Name, pub.String(), coin, got, delta)})
		}
	}

	switch d := inf.Tx.GetDecodedData().(type) {
	case *transaction.UnbondDataV3:
		if locked {
			out = append(out, V{Signature: "unbond-accepted-while-locked", Detail: fmt.Sprintf("tx %q accepted at height %d although the sender's stake is locked until block %d", r.T.Name, h, c16LockUntil(par, inf.Sender))})
		}
		c := c16CandByPub(&par.Export, d.PubKey)
		if c != nil {
			expectFund(h+c16RefUnbondPeriod, uint64(d.Coin), d.Value, c.ID, d.PubKey.String(), 0)
		}
		stakeRule(d.PubKey, uint64(d.Coin), new(big.Int).Neg(d.Value), "source")
		balRule(uint64(d.Coin))
		return out, true
	case *transaction.MoveStakeData:
		to := c16CandByPub(&par.Export, d.ToPubKey)
		if to == nil {
			// keep this signature narrow: it is the acceptance itself that breaks the rule
			out = append(out, V{Signature: "move-accepted-to-non-candidate", Detail: fmt.Sprintf("tx %q accepted at height %d: target key %s is not a candidate; resulting funds %s (target id 0 ⇒ it will mature into the owner's balance after the move period)", r.T.Name, h, d.ToPubKey.String(), describe(own))})
		}
		if c := c16CandByPub(&par.Export, d.FromPubKey); c != nil {
			mt := int64(-1)
			if to != nil {
				mt = int64(to.ID)
			}
			expectFund(h+c16RefMovePeriod, uint64(d.Coin), d.Value, c.ID, d.FromPubKey.String(), mt)
		}
		stakeRule(d.FromPubKey, uint64(d.Coin), new(big.Int).Neg(d.Value), "source")
		if to != nil {
			stakeRule(d.ToPubKey, uint64(d.Coin), new(big.Int), "target-before-maturity")
		}
		balRule(uint64(d.Coin))
		return out, true
	case *transaction.LockData:
		if uint64(d.DueBlock) <= h {
			out = append(out, V{Signature: "lock-due-not-in-future", Detail: fmt.Sprintf("tx %q accepted at height %d with due block %d", r.T.Name, h, d.DueBlock)})
		}
		expectFund(uint64(d.DueBlock), uint64(d.Coin), d.Value, 0, "-", 0)
		if dd := new(big.Int).Sub(c16BalanceOf(par, inf.Sender, uint64(d.Coin)), c16BalanceOf(cur, inf.Sender, uint64(d.Coin))); dd.Cmp(d.Value) < 0 {
			out = append(out, V{Signature: "lock-not-debited", Detail: fmt.Sprintf("tx %q: balance of coin %d fell by %s only", r.T.Name, d.Coin, dd)})
		}
		return out, true
	default:
		// no other transaction creates or removes a frozen fund
		if len(own) > 0 || len(removed) > 0 {
			out = append(out, V{Signature: "fund-changed-by|" + ty, Detail: fmt.Sprintf("tx %q (height %d): new funds %s, removed funds %s", r.T.Name, h, describe(own), describe(removed))})
		}
		return out, inf.Type == transaction.TypeLockStake
	}
}

func c16TagOf(r *explore.TxRec, key string) string {
	for _, e := range r.Resp.Events {
		for _, a := range e.Attributes {
			if string(a.Key) == key {
				return string(a.Value)
			}
		}
	}
	return ""
}

func c16TxTypeName(t transaction.TxType) string {
	switch t {
	case transaction.TypeSend:
		return "Send"
	case transaction.TypeDeclareCandidacy:
		return "DeclareCandidacy"
	case transaction.TypeDelegate:
		return "Delegate"
	case transaction.TypeUnbond:
		return "Unbond"
	case transaction.TypeSetCandidateOnline:
		return "SetCandidateOn"
	case transaction.TypeSetCandidateOffline:
		return "SetCandidateOff"
	case transaction.TypeEditCandidate:
		return "EditCandidate"
	case transaction.TypeEditCandidatePublicKey:
		return "EditCandidatePublicKey"
	case transaction.TypeEditCandidateCommission:
		return "EditCandidateCommission"
	case transaction.TypeMoveStake:
		return "MoveStake"
	case transaction.TypeLockStake:
		return "LockStake"
	case transaction.TypeLock:
		return "Lock"
	}
	return t.String()
}

// ---------------------------------------------------------------- C17

// ValidatorRanking: after every validator-set update the set, the powers, the removal of
// candidates beyond rank 100 and the slot-replacement rule follow the reference model.
type ValidatorRanking struct{}

func (ValidatorRanking) Property() string { return "C17" }

type c16RankIn struct {
	pre, post *types.AppState
	end       *abci.ResponseEndBlock // nil: not observable (InitChain)
	height    uint64                 // height whose unbond period the removals start from
	exactPre  bool                   // pre is the state right before the update block
	touched   map[uint64]bool        // candidate ids named by accepted transactions of the block
	dueMoves  []c16Fund              // moves maturing in the block (they become incoming delegations)
	prefix    string
}

func (ValidatorRanking) Check(t *explore.Transition) ([]V, bool) {
	last := t.Cur.Last()
	pre, post := t.Cur.Pre, t.Cur.Final()
	if last == nil || pre == nil || post == nil || t.Cur.Fault != nil {
		return nil, false
	}
	var out []V
	nontrivial := false
	period := t.W.P.StakePeriod
	ff := t.W.Envs[last.Block.Env].FF > 0
	updated := len(last.Obs.End.ValidatorUpdates) > 0 || (period != 0 && uint64(last.Height)%period == 0)
	if updated {
		nontrivial = true
		in := c16RankIn{pre: &pre.Export, post: &post.Export, end: &last.Obs.End, height: uint64(last.Height), exactPre: !ff, touched: map[uint64]bool{}}
		touch := func(p types.Pubkey) {
			if c := c16CandByPub(&pre.Export, p); c != nil {
				in.touched[c.ID] = true
			}
			if c := c16CandByPub(&post.Export, p); c != nil {
				in.touched[c.ID] = true
			}
			for _, d := range post.Export.DeletedCandidates {
				if d.PubKey == p {
					in.touched[d.ID] = true
				}
			}
		}
		for i := range last.Txs {
			r := &last.Txs[i]
			if r.Resp.Code != 0 {
				continue
			}
			inf := Info(r)
			if !inf.OK {
				continue
			}
			switch d := inf.Tx.GetDecodedData().(type) {
			case *transaction.DelegateDataV260:
				touch(d.PubKey)
			case *transaction.UnbondDataV3:
				touch(d.PubKey)
			case *transaction.MoveStakeData:
				touch(d.FromPubKey)
				touch(d.ToPubKey)
			case *transaction.DeclareCandidacyData:
				touch(d.PubKey)
			case *transaction.EditCandidatePublicKeyData:
				touch(d.PubKey)
				touch(d.NewPubKey)
			}
		}
		for _, f := range c16FundsOf(&pre.Export) {
			if f.MoveTo != 0 && f.Height > uint64(pre.Height) && f.Height <= uint64(post.Height) {
				in.dueMoves = append(in.dueMoves, f)
			}
		}
		out = append(out, c16RankingOracle(in)...)
	}
	// the genesis "transition": InitChain imports the genesis and updates the validator set once
	if len(t.Cur.Hist) == 1 && len(last.Block.Txs) == 0 && last.Block.Env == 0 && t.Parent == nil {
		g := t.W.Genesis()
		out = append(out, c16RankingOracle(c16RankIn{pre: g, post: &pre.Export, height: uint64(t.W.P.InitialHeight - 1), exactPre: true, touched: map[uint64]bool{}, prefix: "initchain:"})...)
		nontrivial = true
	}
	return out, nontrivial
}

type c16CandRank struct {
	c     *types.Candidate
	total *big.Int
}

func c16RankingOracle(in c16RankIn) []V {
	var out []V
	add := func(sig, format string, a ...interface{}) {
		out = append(out, V{Signature: in.prefix + sig, Detail: fmt.Sprintf("update at height %d: ", in.height) + fmt.Sprintf(format, a...)})
	}
	post, pre := in.post, in.pre
	// ---- totals are the sums of the stakes' base-coin values
	var all []c16CandRank
	for i := range post.Candidates {
		c := &post.Candidates[i]
		sum := new(big.Int)
		for _, s := range c.Stakes {
			sum.Add(sum, obs.Num(s.BipValue))
			if s.Coin == 0 && s.Value != s.BipValue {
				add("bip-value-of-base-stake", "candidate %d: base-coin stake of %s has value %s but bip value %s", c.ID, s.Owner.String(), s.Value, s.BipValue)
			}
		}
		if sum.Cmp(obs.Num(c.TotalBipStake)) != 0 {
			add("total-stake-sum", "candidate %d: total stake %s but stakes sum to %s", c.ID, c.TotalBipStake, sum)
		}
		if len(c.Stakes) > c16RefSlots {
			add("more-than-1000-stakes", "candidate %d has %d stakes", c.ID, len(c.Stakes))
		}
		if len(c.Updates) > 0 {
			add("updates-left-after-update", "candidate %d still has %d pending updates", c.ID, len(c.Updates))
		}
		all = append(all, c16CandRank{c, obs.Num(c.TotalBipStake)})
	}
	// ---- validator set: the top-64 online candidates with at least 1000 BIP
	var q []c16CandRank
	for _, cr := range all {
		if cr.c.Status == 2 && cr.total.Cmp(c16RefMinValStake) >= 0 {
			q = append(q, cr)
		}
	}
	sort.SliceStable(q, func(i, j int) bool { return q[i].total.Cmp(q[j].total) > 0 })
	must, may := map[string]*big.Int{}, map[string]*big.Int{}
	wantN := len(q)
	if wantN > c16RefMaxVals {
		wantN = c16RefMaxVals
		cut := q[c16RefMaxVals-1].total
		for _, cr := range q {
			if cr.total.Cmp(cut) > 0 {
				must[cr.c.PubKey.String()] = cr.total
			} else if cr.total.Cmp(cut) == 0 {
				may[cr.c.PubKey.String()] = cr.total // ties at the cut are asserted as a set only
			}
		}
	} else {
		for _, cr := range q {
			must[cr.c.PubKey.String()] = cr.total
		}
	}
	vals := map[string]*big.Int{}
	sumVals := new(big.Int)
	for _, v := range post.Validators {
		k := v.PubKey.String()
		vals[k] = obs.Num(v.TotalBipStake)
		tot, ok := must[k]
		if !ok {
			tot, ok = may[k]
		}
		if !ok {
			c := c16CandByPub(post, v.PubKey)
			why := "is not a candidate"
			if c != nil {
				why = fmt.Sprintf("has status %d and total stake %s (minimum %s, %d candidates qualify)", c.Status, c.TotalBipStake, c16RefMinValStake, len(q))
			}
			add("validator-not-in-top", "validator %s %s", k, why)
			continue
		}
		if tot.Cmp(vals[k]) != 0 {
			add("validator-stake-differs", "validator %s carries stake %s, its candidate %s", k, vals[k], tot)
		}
		sumVals.Add(sumVals, tot)
	}
	for k, tot := range must {
		if _, ok := vals[k]; !ok {
			add("top-candidate-not-validator", "online candidate %s with total stake %s is among the top %d of %d qualifying candidates but is not a validator", k, tot, wantN, len(q))
		}
	}
	if len(post.Validators) != wantN {
		add("validator-count", "%d validators, %d expected (%d candidates qualify)", len(post.Validators), wantN, len(q))
	}
	// ---- powers in the validator updates
	preVals := map[string]bool{}
	preValIDs := map[uint64]bool{}
	for _, v := range pre.Validators {
		preVals[v.PubKey.String()] = true
		if c := c16CandByPub(pre, v.PubKey); c != nil {
			preValIDs[c.ID] = true
		}
	}
	if in.end != nil {
		ups := map[string]int64{}
		for _, u := range in.end.ValidatorUpdates {
			var p types.Pubkey
			copy(p[:], u.PubKey.GetEd25519())
			if _, dup := ups[p.String()]; dup {
				add("duplicate-validator-update", "two updates for %s", p.String())
			}
			ups[p.String()] = u.Power
		}
		for k, st := range vals {
			want := int64(1)
			if sumVals.Sign() > 0 {
				w := new(big.Int).Mul(st, big.NewInt(100000000))
				w.Quo(w, sumVals)
				if w.Sign() > 0 {
					want = w.Int64()
				}
			}
			got, ok := ups[k]
			if !ok {
				add("validator-update-missing", "no update for validator %s", k)
			} else if got != want {
				add("validator-power", "validator %s: power %d, expected max(1, floor(%s*10^8/%s)) = %d", k, got, st, sumVals, want)
			}
		}
		for k, p := range ups {
			if _, ok := vals[k]; ok {
				continue
			}
			if p != 0 {
				add("power-for-non-validator", "update gives power %d to %s which is not in the new set", p, k)
			} else if in.exactPre && !preVals[k] {
				add("removal-of-non-validator", "update removes %s which was not a validator", k)
			}
		}
		if in.exactPre {
			for k := range preVals {
				if _, ok := vals[k]; ok {
					continue
				}
				if p, ok := ups[k]; !ok || p != 0 {
					// a validator whose key was changed in this block is announced under... its old key with power 0 as well
					add("dropped-validator-not-announced", "validator %s left the set but the updates do not carry power 0 for it", k)
				}
			}
		}
	}
	if !in.exactPre {
		return out
	}
	// ---- candidates beyond the first 100
	sort.SliceStable(all, func(i, j int) bool {
		if c := all[i].total.Cmp(all[j].total); c != 0 {
			return c > 0
		}
		return all[i].c.ID < all[j].c.ID
	})
	for i := c16RefMaxCands; i < len(all); i++ {
		if preValIDs[all[i].c.ID] {
			continue // a current validator is never removed
		}
		if all[i].total.Cmp(all[c16RefMaxCands-1].total) == 0 {
			continue // tie with rank 100
		}
		add("candidate-beyond-100-kept", "candidate %d (total %s) ranks %d of %d, is not a current validator and was not removed", all[i].c.ID, all[i].total, i+1, len(all))
	}
	gone := c16RemovedCandidates(pre, post)
	delPost := map[uint64]types.Pubkey{}
	for _, d := range post.DeletedCandidates {
		delPost[d.ID] = d.PubKey
	}
	preF, postF := c16FundsOf(pre), c16FundsOf(post)
	var goneIDs []uint64
	for id := range gone {
		goneIDs = append(goneIDs, id)
	}
	sort.Slice(goneIDs, func(i, j int) bool { return goneIDs[i] < goneIDs[j] })
	for _, id := range goneIDs {
		c := c16CandByID(pre, id)
		if preValIDs[id] {
			add("current-validator-removed", "candidate %d (%s) was a validator when the update started and was removed", id, c.PubKey.String())
		}
		if pk, ok := delPost[id]; !ok || pk != c.PubKey {
			add("removed-candidate-not-listed", "candidate %d disappeared without an entry in the deleted list", id)
		}
		if len(all) < c16RefMaxCands {
			add("candidate-removed-within-100", "candidate %d was removed although only %d candidates remain", id, len(all))
		}
		if in.touched[id] {
			continue
		}
		// all it held is frozen for one unbond period (compared per owner and coin)
		ent, _ := c16EntriesOf(pre, c, in.dueMoves)
		have := map[c16OcKey]*big.Int{}
		for _, f := range postF {
			if f.CandID == id && f.MoveTo == 0 && f.Height == in.height+c16RefUnbondPeriod {
				k := c16OcKey{f.Addr, f.Coin}
				if have[k] == nil {
					have[k] = new(big.Int)
				}
				have[k].Add(have[k], f.Value)
			}
		}
		for _, f := range preF {
			if f.CandID == id && f.MoveTo == 0 && f.Height == in.height+c16RefUnbondPeriod {
				k := c16OcKey{f.Addr, f.Coin}
				if have[k] == nil {
					have[k] = new(big.Int)
				}
				have[k].Sub(have[k], f.Value)
			}
		}
		allBase := true
		tot := new(big.Int)
		for k, e := range ent {
			if k.Coin != 0 {
				allBase = false
			}
			tot.Add(tot, e.value)
			hv := have[k]
			if hv == nil {
				hv = new(big.Int)
			}
			if hv.Cmp(e.value) != 0 {
				add("removed-candidate-stake-not-unbonded", "candidate %d was removed; %s held %s of coin %d there, funds frozen until %d for it sum to %s", id, k.Owner.String(), e.value, k.Coin, in.height+c16RefUnbondPeriod, hv)
			}
		}
		if allBase && len(ent) <= c16RefSlots && len(all) >= c16RefMaxCands && tot.Cmp(all[c16RefMaxCands-1].total) > 0 {
			add("removed-candidate-ranked-within-100", "candidate %d with total stake %s was removed although rank 100 has only %s", id, tot, all[c16RefMaxCands-1].total)
		}
	}
	// ---- slot rule / application of incoming delegations, for candidates that received no rewards and no transaction in this block
	for i := range pre.Candidates {
		c := &pre.Candidates[i]
		if gone[c.ID] || in.touched[c.ID] || preValIDs[c.ID] {
			continue
		}
		pc := c16CandByID(post, c.ID)
		ent, incoming := c16EntriesOf(pre, c, in.dueMoves)
		if incoming == 0 && len(ent) <= c16RefSlots {
			continue
		}
		base := true
		for k := range ent {
			if k.Coin != 0 {
				base = false
			}
		}
		if !base {
			// custom-coin values need the bancor formula (C12) to be ranked; what needs no price: every
			// entry is afterwards either in a slot or on the wait list, with its full value in its coin
			if pc != nil {
				for k, e := range ent {
					after := new(big.Int)
					for _, st := range pc.Stakes {
						if st.Owner == k.Owner && st.Coin == k.Coin {
							after.Add(after, obs.Num(st.Value))
						}
					}
					dw := new(big.Int)
					for _, w := range in.post.Waitlist {
						if w.CandidateID == c.ID && w.Owner == k.Owner && w.Coin == k.Coin {
							dw.Add(dw, obs.Num(w.Value))
						}
					}
					for _, w := range in.pre.Waitlist {
						if w.CandidateID == c.ID && w.Owner == k.Owner && w.Coin == k.Coin {
							dw.Sub(dw, obs.Num(w.Value))
						}
					}
					if got := new(big.Int).Add(after, dw); got.Cmp(e.value) != 0 {
						out = append(out, V{Signature: in.prefix + "slot-rule|entry-value-not-kept|custom-coin-candidate", Detail: fmt.Sprintf("update at height %d, candidate %d: %s held %s of coin %d (stake + pending + matured moves); afterwards slot %s + wait-list growth %s", in.height, c.ID, k.Owner.String(), e.value, k.Coin, after, dw)})
					}
				}
			}
			continue
		}
		out = append(out, c16SlotRule(in, c, pc, ent)...)
	}
	return out
}

type c16Entry struct {
	value    *big.Int
	incoming bool // not (only) an existing stake: a pending update or a matured move
	existing bool
}

// entriesOf merges, per (owner, coin), the stakes of a candidate with everything that is
// waiting to be applied to it at the update (pending updates, moves maturing in this block).
func c16EntriesOf(s *types.AppState, c *types.Candidate, dueMoves []c16Fund) (map[c16OcKey]*c16Entry, int) {
	m := map[c16OcKey]*c16Entry{}
	n := 0
	for _, st := range c.Stakes {
		k := c16OcKey{st.Owner, st.Coin}
		if m[k] == nil {
			m[k] = &c16Entry{value: new(big.Int)}
		}
		m[k].value.Add(m[k].value, obs.Num(st.Value))
		m[k].existing = true
	}
	inc := func(o types.Address, coin uint64, v *big.Int) {
		if v.Sign() == 0 {
			return
		}
		n++
		k := c16OcKey{o, coin}
		if m[k] == nil {
			m[k] = &c16Entry{value: new(big.Int)}
		}
		m[k].value.Add(m[k].value, v)
		if !m[k].existing {
			m[k].incoming = true
		}
	}
	for _, st := range c.Updates {
		inc(st.Owner, st.Coin, obs.Num(st.Value))
	}
	for _, f := range dueMoves {
		if f.MoveTo == c.ID {
			inc(f.Addr, f.Coin, f.Value)
		}
	}
	return m, n
}

// slotRule: the 1000 slots hold the 1000 largest entries; an incoming delegation wins a tie
// against existing stakes; every loser is wait-listed with its full value.
func c16SlotRule(in c16RankIn, c, pc *types.Candidate, ent map[c16OcKey]*c16Entry) []V {
	var out []V
	add := func(sig, format string, a ...interface{}) {
		out = append(out, V{Signature: in.prefix + "slot-rule|" + sig, Detail: fmt.Sprintf("update at height %d, candidate %d: ", in.height, c.ID) + fmt.Sprintf(format, a...)})
	}
	if pc == nil {
		return nil
	}
	type kv struct {
		k c16OcKey
		e *c16Entry
	}
	var list []kv
	for k, e := range ent {
		list = append(list, kv{k, e})
	}
	sort.Slice(list, func(i, j int) bool {
		if c := list[i].e.value.Cmp(list[j].e.value); c != 0 {
			return c > 0
		}
		return list[i].k.Owner.String() < list[j].k.Owner.String()
	})
	// decide who certainly stays / certainly loses
	stay, lose := map[c16OcKey]bool{}, map[c16OcKey]bool{}
	if len(list) <= c16RefSlots {
		for _, x := range list {
			stay[x.k] = true
		}
	} else {
		cut := list[c16RefSlots-1].e.value
		greater, eqIn, eqEx := 0, 0, 0
		for _, x := range list {
			switch c := x.e.value.Cmp(cut); {
			case c > 0:
				greater++
			case c == 0 && x.e.incoming:
				eqIn++
			case c == 0:
				eqEx++
			}
		}
		free := c16RefSlots - greater
		for _, x := range list {
			switch c := x.e.value.Cmp(cut); {
			case c > 0:
				stay[x.k] = true
			case c < 0:
				lose[x.k] = true
			case x.e.incoming && eqIn <= free:
				stay[x.k] = true // "replaces the smallest stake if it is not smaller"
			case !x.e.incoming && eqIn >= free:
				lose[x.k] = true
			case !x.e.incoming && eqEx <= free-eqIn:
				stay[x.k] = true
			}
		}
	}
	postStake := map[c16OcKey]*big.Int{}
	for _, st := range pc.Stakes {
		postStake[c16OcKey{st.Owner, st.Coin}] = obs.Num(st.Value)
	}
	wl := func(s *types.AppState, k c16OcKey) *big.Int {
		t := new(big.Int)
		for _, w := range s.Waitlist {
			if w.CandidateID == c.ID && w.Owner == k.Owner && w.Coin == k.Coin {
				t.Add(t, obs.Num(w.Value))
			}
		}
		return t
	}
	if len(list) <= c16RefSlots && len(pc.Stakes) != len(list) {
		add("stake-count", "%d stakes after the update, %d expected", len(pc.Stakes), len(list))
	}
	if len(list) > c16RefSlots && len(pc.Stakes) != c16RefSlots {
		add("stake-count", "%d stakes after the update although %d entries compete for %d slots", len(pc.Stakes), len(list), c16RefSlots)
	}
	keys := make([]c16OcKey, 0, len(ent))
	for _, x := range list {
		keys = append(keys, x.k)
	}
	for _, k := range keys {
		e := ent[k]
		who := "existing stake"
		if e.incoming {
			who = "incoming delegation"
		}
		got, in1 := postStake[k]
		dw := new(big.Int).Sub(wl(in.post, k), wl(in.pre, k))
		switch {
		case stay[k]:
			if !in1 {
				add("not-smaller-entry-lost|"+strings.ReplaceAll(who, " ", "-"), "%s of %s (%s) is among the %d largest of %d entries but holds no slot (wait-listed: %s)", who, k.Owner.String(), e.value, c16RefSlots, len(list), dw)
			} else if got.Cmp(e.value) != 0 {
				add("slot-value", "%s of %s: slot holds %s, expected %s", who, k.Owner.String(), got, e.value)
			} else if dw.Sign() != 0 {
				add("waitlist-changed-for-winner", "%s of %s kept its slot but its waitlist changed by %s", who, k.Owner.String(), dw)
			}
		case lose[k]:
			if in1 {
				add("smaller-entry-holds-slot|"+strings.ReplaceAll(who, " ", "-"), "%s of %s (%s) is smaller than the %d largest of %d entries but holds a slot", who, k.Owner.String(), e.value, c16RefSlots, len(list))
			} else if dw.Cmp(e.value) != 0 {
				add("waitlist-value", "%s of %s (%s) lost its slot; its waitlist grew by %s instead of the full value", who, k.Owner.String(), e.value, dw)
			}
		default: // tie that may go either way: in a slot with its value, or wait-listed with its full value
			if in1 && got.Cmp(e.value) != 0 {
				add("slot-value", "%s of %s: slot holds %s, expected %s", who, k.Owner.String(), got, e.value)
			}
			if !in1 && dw.Cmp(e.value) != 0 {
				add("waitlist-value", "%s of %s (%s) lost its slot; its waitlist grew by %s instead of the full value", who, k.Owner.String(), e.value, dw)
			}
		}
	}
	return out
}
