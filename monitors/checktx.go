package monitors

import (
	"fmt"

	"verif/explore"
)

// CheckEqDeliver: CheckTx (without the two mempool-only rules) accepts exactly what
// DeliverTx, applied immediately afterwards to the same state, accepts.
type CheckEqDeliver struct{}

func (CheckEqDeliver) Property() string { return "C06" }

func (CheckEqDeliver) Check(t *explore.Transition) ([]V, bool) {
	l := t.Cur.Last()
	if l == nil || len(l.Txs) == 0 {
		return nil, false
	}
	// only the last transaction: earlier ones were judged in the parent transition
	r := &l.Txs[len(l.Txs)-1]
	if r.Check == nil {
		return nil, false
	}
	// a fault in DeliverTx right after an accepting CheckTx is "not accepted"
	delivered := t.Cur.Fault == nil || t.Cur.Fault.Call != "DeliverTx"
	dOK := delivered && r.Resp.Code == 0
	cOK := r.Check.Code == 0
	if cOK == dOK {
		return nil, true
	}
	inf := Info(r)
	ty := "undecodable"
	if inf.OK {
		ty = inf.Type.String()
	}
	pos := "first-in-block"
	if len(l.Txs) > 1 {
		pos = "mid-block"
	}
	dir := "check-accepts-deliver-rejects"
	if dOK {
		dir = "check-rejects-deliver-accepts"
	}
	return []V{{Signature: fmt.Sprintf("%s|%s|check%d|deliver%d|%s", dir, ty, r.Check.Code, r.Resp.Code, pos),
		Detail: fmt.Sprintf("tx %q: CheckTx code %d (%s) but DeliverTx code %d (%s)", r.T.Name, r.Check.Code, r.Check.Log, r.Resp.Code, r.Resp.Log)}}, true
}
