package monitors

import (
	"encoding/json"
	"fmt"
	"math/big"
	"os"
	"sort"
	"strings"
	"sync"
	"sync/atomic"

	"github.com/MinterTeam/minter-go-node/coreV2/transaction"

	"verif/explore"
	"verif/obs"
)

// ---------------------------------------------------------------- C14
//
// Orders judges limit orders: fill price, priority, price kept by partial fills,
// closing of remainders below the minimum, exact refunds of cancel / expiry.
//
// Reference: a plain list of orders (id, side, two volumes, owner, height) with exact
// rational prices, read from the exports. For the last transaction of a block the
// list BEFORE the transaction ("T0") is the book of the twin execution without that
// transaction (plus, on an expiry boundary, the orders the twin expired untouched at
// the end of the block). What the transaction did to each order is derived from
//   - the tx.pools tag (per order: what the maker received, what it gave up),
//   - the request itself for AddLimitOrder / RemoveLimitOrder,
//
// and is then tied to the observables the property names: every order of T0 must be
// found in the book after the transaction with exactly the volumes that follow from it
// (or be gone, with or without an OrderExpiredEvent, as the rules say), and the
// balance change of every maker in both pool coins must equal exactly
// (what its fills paid) + (refunds reported by OrderExpiredEvents of this execution)
// - (refunds reported by OrderExpiredEvents of the twin). A fill the tags do not
// report shows as an unexpected book change, a wrong report as a mismatch.
//
// Readings (documented choices, each the one under which the code is allowed):
//   - What a maker is entitled to. The 0.1 % + 0.1 % commissions of a fill are paid by
//     the taker on top (calcCommission1000 of both legs goes to the pool reserves), the
//     maker receives the full WantBuy share. So rule (a) is: received >= ceil(price x sold) - 1
//     with price = want/give of the order as it stood before the trade (exact rational).
//   - "Strictly better" for priority = strictly better at 53 bits of Volume1/Volume0
//     (the sort price the code documents in CalcPriceSell / Precision = 53; rounding is
//     monotone, so this implies strictly better as rationals). Sale orders (taker sells
//     coin0): higher Volume1/Volume0 first. Buy orders: lower first. Equal at 53 bits:
//     lower id first.
//   - "Remained non-empty": an order that stands before a touched one must have given
//     up its whole volume in this trade.
//   - "Keeps its price" (c): after a partial fill |want' x give - give' x want| <= max(give, want),
//     i.e. the ratio is the old one up to one unit of one of the two volumes.
//   - A remainder is below the minimum when either volume is < 10^10 (updateOrders).
//   - Fees are not judged here (C26/C27): for AddLimitOrder / RemoveLimitOrder the fee in
//     the gas coin is taken from the tx.commission_amount tag.
//   - Which orders the boundary block expires (older than OrdersPeriod) is not stated by the property and
//     not demanded: on a boundary an order either rests unchanged or is gone with an exact refund + event.
//     Off the boundary an order must not disappear except by fill, cancel or small remainder.
//   - Blocks on the expiry boundary: an order that was partly filled by an EARLIER
//     transaction of the same block and is reported expired by the twin cannot be placed
//     (closed as a small remainder then, or still resting): such transitions are skipped
//     (counted in C14SkippedAmbiguous), never guessed.
type Orders struct{}

func (Orders) Property() string { return "C14" }

var c14MinOrderVolume = big.NewInt(10000000000)

// C14Stats counts how often each guarded mechanism was actually observed (evidence only).
var (
	c14StatsMu sync.Mutex
	c14Stats   = map[string]int64{}
)

func c14Count(k string) {
	c14StatsMu.Lock()
	c14Stats[k]++
	c14StatsMu.Unlock()
}

// C14StatsCopy returns the counters.
func C14StatsCopy() map[string]int64 {
	c14StatsMu.Lock()
	defer c14StatsMu.Unlock()
	out := map[string]int64{}
	for k, v := range c14Stats {
		out[k] = v
	}
	return out
}

// C14SkippedAmbiguous counts transitions left unjudged (see above); read by the check for the evidence.
var C14SkippedAmbiguous int64

type c14Ord struct {
	ID           uint64
	Pool         uint64
	Coin0, Coin1 uint64
	Sale         bool
	V0, V1       *big.Int
	Owner        string
	Height       uint64
}

func (o *c14Ord) give() *big.Int {
	if o.Sale {
		return o.V1
	}
	return o.V0
}
func (o *c14Ord) want() *big.Int {
	if o.Sale {
		return o.V0
	}
	return o.V1
}
func (o *c14Ord) giveCoin() uint64 {
	if o.Sale {
		return o.Coin1
	}
	return o.Coin0
}
func (o *c14Ord) wantCoin() uint64 {
	if o.Sale {
		return o.Coin0
	}
	return o.Coin1
}

// sort53 is Volume1/Volume0 rounded to 53 bits (own computation with math/big).
func (o *c14Ord) sort53() *big.Float {
	return new(big.Float).SetPrec(53).SetRat(new(big.Rat).SetFrac(o.V1, o.V0))
}

func (o *c14Ord) String() string {
	side := "buy"
	if o.Sale {
		side = "sale"
	}
	return fmt.Sprintf("#%d %s v0=%s v1=%s owner=%s.. h=%d", o.ID, side, o.V0, o.V1, o.Owner[:8], o.Height)
}

// c14Precedes: x must be consumed before y (same pool, same side). strict = by price, else by id.
func c14Precedes(x, y *c14Ord) (bool, bool) {
	c := x.sort53().Cmp(y.sort53())
	if !x.Sale {
		c = -c
	}
	if c > 0 {
		return true, true
	}
	if c == 0 && x.ID < y.ID {
		return true, false
	}
	return false, false
}

func c14BookOf(s *explore.State) (map[uint64]*c14Ord, []string) {
	m := map[uint64]*c14Ord{}
	var bad []string
	for _, p := range s.Export.Pools {
		for _, o := range p.Orders {
			x := &c14Ord{ID: o.ID, Pool: p.ID, Coin0: p.Coin0, Coin1: p.Coin1, Sale: o.IsSale, V0: obs.Num(o.Volume0), V1: obs.Num(o.Volume1), Owner: o.Owner.String(), Height: o.Height}
			if _, dup := m[o.ID]; dup {
				bad = append(bad, fmt.Sprintf("order id %d is exported twice", o.ID))
			}
			m[o.ID] = x
			if x.V0.Sign() <= 0 || x.V1.Sign() <= 0 {
				bad = append(bad, fmt.Sprintf("order %s has a non-positive volume", x))
			} else if x.V0.Cmp(c14MinOrderVolume) < 0 || x.V1.Cmp(c14MinOrderVolume) < 0 {
				bad = append(bad, fmt.Sprintf("order %s rests below the minimum volume", x))
			}
			if s.Export.NextOrderID != 0 && o.ID >= s.Export.NextOrderID {
				bad = append(bad, fmt.Sprintf("order %s has an id >= next order id %d", x, s.Export.NextOrderID))
			}
		}
	}
	return m, bad
}

type c14ExpEv struct {
	ID     uint64 `json:"id"`
	Addr   string `json:"address"`
	Coin   uint64 `json:"coin"`
	Amount string `json:"amount"`
}

// c14ExpiredEvents parses the OrderExpiredEvents stored for the height of s.
func c14ExpiredEvents(s *explore.State) (map[uint64]c14ExpEv, []string) {
	m := map[uint64]c14ExpEv{}
	var bad []string
	for _, part := range strings.Split(s.Events, ";") {
		const pre = "minter/OrderExpiredEvent:"
		if !strings.HasPrefix(part, pre) {
			continue
		}
		var e c14ExpEv
		if err := json.Unmarshal([]byte(part[len(pre):]), &e); err != nil {
			bad = append(bad, "unparsable OrderExpiredEvent "+part)
			continue
		}
		if _, dup := m[e.ID]; dup {
			bad = append(bad, fmt.Sprintf("order %d is reported expired twice in one block", e.ID))
		}
		m[e.ID] = e
	}
	return m, bad
}

func c14BalOf(s *explore.State, addr string, coin uint64) *big.Int {
	return obs.Num(s.Flat[fmt.Sprintf("acct/%s/bal/%d", addr, coin)])
}

type c14Fill struct {
	ID              uint64
	B, S            *big.Int // maker received B of CoinIn, gave S of CoinOut
	Seller          string
	CoinIn, CoinOut uint64
}

func c14JSONUint(r json.RawMessage) uint64 {
	s := strings.Trim(string(r), `"`)
	var v uint64
	fmt.Sscan(s, &v)
	return v
}

type c14TagPool struct {
	CoinIn  json.RawMessage `json:"coin_in"`
	CoinOut json.RawMessage `json:"coin_out"`
	Details *struct {
		Orders []struct {
			Buy    string          `json:"buy"`
			Sell   string          `json:"sell"`
			Seller string          `json:"seller"`
			ID     json.RawMessage `json:"id"`
		} `json:"orders"`
	} `json:"details"`
}

func (tp *c14TagPool) fills() []c14Fill {
	var out []c14Fill
	if tp.Details == nil {
		return nil
	}
	for _, o := range tp.Details.Orders {
		out = append(out, c14Fill{ID: c14JSONUint(o.ID), B: obs.Num(o.Buy), S: obs.Num(o.Sell), Seller: o.Seller, CoinIn: c14JSONUint(tp.CoinIn), CoinOut: c14JSONUint(tp.CoinOut)})
	}
	return out
}

// tagsOf returns the tags of a delivered transaction.
func c14TagMap(r *explore.TxRec) map[string]string {
	m := map[string]string{}
	for _, e := range r.Resp.Events {
		for _, a := range e.Attributes {
			m[string(a.Key)] = string(a.Value)
		}
	}
	return m
}

// fillsOf reads the per-order fill reports of tx.pools and tx.commission_details.
func c14FillsOf(tags map[string]string) ([]c14Fill, error) {
	var out []c14Fill
	if s := tags["tx.pools"]; s != "" {
		var pools []*c14TagPool
		if err := json.Unmarshal([]byte(s), &pools); err != nil {
			return nil, fmt.Errorf("tx.pools: %v", err)
		}
		for _, p := range pools {
			if p != nil {
				out = append(out, p.fills()...)
			}
		}
	}
	if s := tags["tx.commission_details"]; strings.HasPrefix(s, "{") {
		var p c14TagPool
		if err := json.Unmarshal([]byte(s), &p); err != nil {
			return nil, fmt.Errorf("tx.commission_details: %v", err)
		}
		out = append(out, p.fills()...)
	}
	return out, nil
}

func c14PreOf(m map[uint64]*c14Ord, o *c14Ord) *c14Ord {
	if x := m[o.ID]; x != nil {
		return x
	}
	return o
}

func c14IsLittle(g, w *big.Int) bool {
	return g.Cmp(c14MinOrderVolume) < 0 || w.Cmp(c14MinOrderVolume) < 0
}

type c14Vol struct{ g, w *big.Int }

// c14Ctx is the context of one judged transition.
type c14Ctx struct {
	t         *explore.Transition
	H         uint64
	expiry    bool
	cutoff    uint64
	t0        map[uint64]*c14Ord
	bookC     map[uint64]*c14Ord
	evP, evC  map[uint64]c14ExpEv
	post      map[uint64]c14Vol              // volumes after the transaction, before the end of the block
	credit    map[string]map[uint64]*big.Int // what the transaction itself pays to / takes from an account
	skipBal   map[string]bool
	via       string
	balRule   string
	out       []V
	concerned *c14Ord
}

func (c *c14Ctx) addCredit(addr string, coin uint64, v *big.Int) {
	if c.credit[addr] == nil {
		c.credit[addr] = map[uint64]*big.Int{}
	}
	if c.credit[addr][coin] == nil {
		c.credit[addr][coin] = new(big.Int)
	}
	c.credit[addr][coin].Add(c.credit[addr][coin], v)
}

// shape classifies the side of the book an order stands on.
func (c *c14Ctx) shape(o *c14Ord) string {
	if o == nil {
		return "-"
	}
	n, tieQ, tie53 := 0, false, false
	var side []*c14Ord
	for _, x := range c.t0 {
		if x.Pool == o.Pool && x.Sale == o.Sale {
			side = append(side, x)
		}
	}
	n = len(side)
	for i := range side {
		for j := i + 1; j < len(side); j++ {
			a, b := side[i], side[j]
			if new(big.Int).Mul(a.V1, b.V0).Cmp(new(big.Int).Mul(b.V1, a.V0)) == 0 {
				tieQ = true
			} else if a.sort53().Cmp(b.sort53()) == 0 {
				tie53 = true
			}
		}
	}
	switch {
	case n <= 1:
		return "single"
	case tie53:
		return "tie53"
	case tieQ:
		return "tie"
	}
	return "distinct"
}

func (c *c14Ctx) viol(rule string, o *c14Ord, format string, a ...interface{}) {
	via := c.via
	if via == "" {
		via = "mem"
		if o != nil && o.Height < c.H {
			via = "commit"
		}
	}
	c.out = append(c.out, V{Signature: fmt.Sprintf("%s|%s|%s", rule, c.shape(o), via), Detail: fmt.Sprintf(format, a...) + c.describe()})
}

func c14SortedIDs(m map[uint64]*c14Ord) []uint64 {
	var ids []uint64
	for id := range m {
		ids = append(ids, id)
	}
	sort.Slice(ids, func(i, j int) bool { return ids[i] < ids[j] })
	return ids
}

func (c *c14Ctx) describe() string {
	s := fmt.Sprintf("\n  height %d expiry-boundary=%v\n  book before the transaction:", c.H, c.expiry)
	for _, id := range c14SortedIDs(c.t0) {
		s += "\n    " + c.t0[id].String()
	}
	s += "\n  book after the block:"
	for _, id := range c14SortedIDs(c.bookC) {
		s += "\n    " + c.bookC[id].String()
	}
	var ev []string
	for _, e := range c.evC {
		ev = append(ev, fmt.Sprintf("#%d %s coin %d to %s..", e.ID, e.Amount, e.Coin, e.Addr[:8]))
	}
	sort.Strings(ev)
	s += "\n  OrderExpiredEvents of the block: " + strings.Join(ev, "; ")
	if r := c.t.LastTx(); r != nil {
		tg := c14TagMap(r)
		s += fmt.Sprintf("\n  last tx %q code %d tx.pools=%s", r.T.Name, r.Resp.Code, tg["tx.pools"])
	}
	return s
}

func c14IsExpiryHeight(t *explore.Transition, h uint64) bool {
	p := t.W.P
	sp, op := p.StakePeriod, p.OrdersPeriod
	if sp == 0 {
		sp = 720
	}
	if op == 0 {
		return false // default period unknown to this monitor: worlds of C14 set it
	}
	return h > op && h%sp == sp/2
}

// settle checks the book after the block against the volumes every order of T0 has after the transaction.
func (c *c14Ctx) settle() {
	for _, id := range c14SortedIDs(c.t0) {
		o := c.t0[id]
		p, ok := c.post[id]
		if !ok {
			p = c14Vol{o.give(), o.want()}
		}
		after := c.bookC[id]
		ev, hasEv := c.evC[id]
		wantEvent := func(rule string) {
			if after != nil {
				c.viol(rule+"-still-in-book", o, "order %s should have been closed (remainder give=%s want=%s) but is still exported as %s", o, p.g, p.w, after)
				return
			}
			if !hasEv {
				c.viol(rule+"-no-event", o, "order %s was closed with remainder %s but there is no OrderExpiredEvent for it", o, p.g)
				return
			}
			if ev.Amount != p.g.String() || ev.Addr != o.Owner || ev.Coin != o.giveCoin() {
				c.viol(rule+"-refund-not-exact", o, "order %s was closed with unfilled amount %s of coin %d, the event says %s of coin %d to %s", o, p.g, o.giveCoin(), ev.Amount, ev.Coin, ev.Addr)
			}
		}
		switch {
		case p.g.Sign() < 0 || p.w.Sign() < 0:
			c.viol("overfill", o, "order %s was filled beyond its volumes: remainder give=%s want=%s", o, p.g, p.w)
		case p.g.Sign() == 0 && p.w.Sign() == 0:
			if after != nil {
				c.viol("emptied-still-in-book", o, "order %s was emptied / cancelled but is still exported as %s", o, after)
			}
			if hasEv {
				if pe, same := c.evP[id]; !same || pe != ev {
					c.viol("emptied-but-expired-event", o, "order %s was emptied / cancelled and yet an OrderExpiredEvent pays %s for it", o, ev.Amount)
				}
			}
		case p.g.Sign() == 0 || p.w.Sign() == 0:
			c.viol("one-sided-remainder", o, "order %s is left with give=%s want=%s", o, p.g, p.w)
		case c14IsLittle(p.g, p.w):
			c14Count("small remainder closed and refunded")
			wantEvent("d-small-remainder")
		case c.expiry && after == nil:
			// On the boundary the end of the block may expire the order. WHICH orders it expires (age rule)
			// is not part of the property: an order either rests unchanged or is expired with an exact refund.
			if _, touched := c.post[id]; touched {
				c14Count("order filled and expired in the same block")
			} else {
				c14Count("order expired")
			}
			wantEvent("f-expiry")
		default:
			if after == nil {
				c.viol("order-vanished", o, "order %s (remainder give=%s want=%s) disappeared", o, p.g, p.w)
			} else if after.give().Cmp(p.g) != 0 || after.want().Cmp(p.w) != 0 || after.Owner != o.Owner || after.Sale != o.Sale || after.Height != o.Height {
				c.viol("book-mismatch", o, "order %s should read give=%s want=%s after the transaction, the export says %s", o, p.g, p.w, after)
			}
			if hasEv {
				c.viol("expired-event-for-resting-order", o, "order %s still rests but an OrderExpiredEvent pays %s for it", o, ev.Amount)
			}
		}
	}
	// events for orders outside T0 must be the twin's (closures by earlier transactions of the block)
	for id, e := range c.evC {
		if _, in := c.t0[id]; in {
			continue
		}
		if pe, ok := c.evP[id]; !ok || pe != e {
			c.viol("unexpected-expired-event", nil, "OrderExpiredEvent for order %d (%s) which was not in the book", id, e.Amount)
		}
	}
	for id, e := range c.evP {
		if _, in := c.t0[id]; in {
			continue
		}
		if ce, ok := c.evC[id]; !ok || ce != e {
			c.viol("expired-event-lost", nil, "the twin's OrderExpiredEvent for order %d (%s) is missing or different", id, e.Amount)
		}
	}
}

// balances checks the balance changes twin -> cur of every maker in the coins of the pools.
func (c *c14Ctx) balances(p, q *explore.State) {
	accounts := map[string]bool{}
	coins := map[uint64]bool{}
	for _, o := range c.t0 {
		accounts[o.Owner] = true
		coins[o.Coin0], coins[o.Coin1] = true, true
	}
	for _, o := range c.bookC {
		accounts[o.Owner] = true
		coins[o.Coin0], coins[o.Coin1] = true, true
	}
	for _, e := range c.evC {
		accounts[e.Addr] = true
		coins[e.Coin] = true
	}
	for _, e := range c.evP {
		accounts[e.Addr] = true
		coins[e.Coin] = true
	}
	for a := range c.credit {
		accounts[a] = true
	}
	var as []string
	for a := range accounts {
		as = append(as, a)
	}
	sort.Strings(as)
	var cs []uint64
	for k := range coins {
		cs = append(cs, k)
	}
	sort.Slice(cs, func(i, j int) bool { return cs[i] < cs[j] })
	for _, a := range as {
		if c.skipBal[a] {
			continue
		}
		for _, coin := range cs {
			exp := new(big.Int)
			if v := c.credit[a][coin]; v != nil {
				exp.Add(exp, v)
			}
			for _, e := range c.evC {
				if e.Addr == a && e.Coin == coin {
					exp.Add(exp, obs.Num(e.Amount))
				}
			}
			for _, e := range c.evP {
				if e.Addr == a && e.Coin == coin {
					exp.Sub(exp, obs.Num(e.Amount))
				}
			}
			got := new(big.Int).Sub(c14BalOf(q, a, coin), c14BalOf(p, a, coin))
			if got.Cmp(exp) != 0 {
				var own *c14Ord
				for _, id := range c14SortedIDs(c.t0) {
					if c.t0[id].Owner == a {
						own = c.t0[id]
						break
					}
				}
				rule := "maker-balance"
				if c.balRule != "" {
					rule = c.balRule
				}
				if c.concerned != nil {
					own = c.concerned
				}
				c.viol(rule, own, "balance of %s in coin %d changed by %s, but fills, cancels and reported refunds add up to %s (difference %s)", a, coin, got, exp, new(big.Int).Sub(got, exp))
			}
		}
	}
}

func (m Orders) Check(t *explore.Transition) ([]V, bool) {
	cur := t.Cur.Final()
	if cur == nil || t.Cur.Fault != nil || len(t.Cur.Hist) == 0 || t.Cur.Pre == nil {
		return nil, false
	}
	pre := t.Cur.Pre
	c := &c14Ctx{t: t, H: uint64(cur.Height), post: map[uint64]c14Vol{}, credit: map[string]map[uint64]*big.Int{}, skipBal: map[string]bool{}}
	for _, b := range t.Cur.Hist {
		if b.Restart {
			c.via = "restart"
		}
	}
	if t.W.Warmup > 0 {
		c.via = "restart"
	}
	var bad []string
	c.bookC, bad = c14BookOf(cur)
	c.t0 = map[uint64]*c14Ord{}
	for _, b := range bad {
		c.viol("export-inconsistent", nil, "%s", b)
	}
	if len(bad) > 0 {
		return c.out, true
	}
	// hidden (fast-forwarded) blocks must not contain an expiry boundary
	for h := uint64(pre.Height) + 1; h < c.H; h++ {
		if c14IsExpiryHeight(t, h) {
			return nil, false
		}
	}
	c.expiry = c14IsExpiryHeight(t, c.H)
	if c.expiry {
		c.cutoff = c.H - t.W.P.OrdersPeriod
	}
	var evBad []string
	c.evC, evBad = c14ExpiredEvents(cur)
	for _, b := range evBad {
		c.viol("f-expired-twice", nil, "%s", b)
	}
	preBook, _ := c14BookOf(pre)

	r := t.LastTx()
	if t.Parent == nil || r == nil {
		// ---- a block without transactions: only expiry may touch the book
		if len(t.Cur.Last().Txs) > 0 {
			return c.out, false
		}
		c.t0 = preBook
		c.evP = map[uint64]c14ExpEv{}
		c.balRule = "f-expiry-refund-not-exact"
		c.settle()
		c.balances(pre, cur)
		nt := c.expiry && len(c.evC) > 0
		c14Trace(c, "empty")
		return c.out, nt
	}
	par := t.Parent.Final()
	if par == nil || t.Parent.Fault != nil {
		return c.out, false
	}
	bookP, _ := c14BookOf(par)
	c.evP, _ = c14ExpiredEvents(par)
	for id, o := range bookP {
		c.t0[id] = o
	}
	ambiguous := false
	if c.expiry {
		for id, e := range c.evP {
			o := preBook[id]
			if o == nil || o.Height > c.cutoff {
				continue // closed as a small remainder by an earlier transaction of this block
			}
			if e.Amount == o.give().String() {
				c.t0[id] = o // untouched in the twin until the end of the block
			} else {
				ambiguous = true
			}
		}
	}
	if ambiguous {
		atomic.AddInt64(&C14SkippedAmbiguous, 1)
		return c.out, false
	}
	inf := Info(r)
	if !inf.OK {
		return c.out, false
	}
	sender := inf.Sender.String()
	tags := c14TagMap(r)
	ok := r.Resp.Code == 0
	nontrivial := false
	fee := obs.Num(tags["tx.commission_amount"])
	gas := uint64(inf.GasCoin)

	switch d := inf.Tx.GetDecodedData().(type) {
	case *transaction.AddLimitOrderData:
		if !ok {
			c.skipBal[sender] = true // a rejected transaction pays its fee only (C03)
			break
		}
		nontrivial = true
		// the new order: the one order of the book that was not there before
		var fresh []*c14Ord
		for _, id := range c14SortedIDs(c.bookC) {
			if _, old := c.t0[id]; !old {
				fresh = append(fresh, c.bookC[id])
			}
		}
		if d.ValueToSell.Cmp(c14MinOrderVolume) < 0 || d.ValueToBuy.Cmp(c14MinOrderVolume) < 0 {
			c.viol("add-below-minimum-accepted", nil, "AddLimitOrder sell=%s buy=%s below the minimum volume was accepted", d.ValueToSell, d.ValueToBuy)
		}
		if len(fresh) != 1 {
			c.viol("add-not-one-new-order", nil, "accepted AddLimitOrder produced %d new orders", len(fresh))
			for _, f := range fresh {
				c.t0[f.ID] = f
			}
			break
		}
		n := fresh[0]
		c.concerned = n
		c14Count("order added")
		sellV, buyV, sellCoin := n.give(), n.want(), n.giveCoin()
		if sellV.Cmp(d.ValueToSell) != 0 || buyV.Cmp(d.ValueToBuy) != 0 || sellCoin != uint64(d.CoinToSell) || n.wantCoin() != uint64(d.CoinToBuy) || n.Owner != sender {
			c.viol("add-order-differs", n, "AddLimitOrder sell %s of coin %d for %s of coin %d by %s at height %d is exported as %s", d.ValueToSell, d.CoinToSell, d.ValueToBuy, d.CoinToBuy, sender, c.H, n)
		}
		if _, reused := preBook[n.ID]; reused {
			c.viol("add-id-reused", n, "new order reuses id %d", n.ID)
		}
		if tid := tags["tx.order_id"]; tid != fmt.Sprint(n.ID) {
			c.viol("add-id-tag", n, "tx.order_id=%s but the new order has id %d", tid, n.ID)
		}
		c.addCredit(sender, uint64(d.CoinToSell), new(big.Int).Neg(d.ValueToSell))
		c.addCredit(sender, gas, new(big.Int).Neg(fee))
		// the new order itself is part of the expected book
		c.t0[n.ID] = n

	case *transaction.RemoveLimitOrderData:
		o := c.t0[uint64(d.ID)]
		c.concerned = o
		if !ok {
			c.skipBal[sender] = true
			nontrivial = o == nil || o.Owner != sender // a guarded rejection
			switch {
			case o == nil && preBook[uint64(d.ID)] != nil:
				c14Count("cancel rejected: order closed earlier in this block")
			case o == nil && uint64(d.ID) < pre.Export.NextOrderID:
				c14Count("cancel rejected: order already cancelled / filled / expired")
			case o == nil:
				c14Count("cancel rejected: id never issued")
			case o.Owner != sender:
				c14Count("cancel rejected: foreign order")
			default:
				c14Count("cancel of an open own order rejected (other reason)")
			}
			break
		}
		nontrivial = true
		if o != nil && (o.give().Cmp(c14PreOf(preBook, o).give()) != 0 || o.Height < c.H) {
			if o.Height < c.H {
				c14Count("cancel accepted: order of an earlier block")
			}
		}
		if o != nil {
			c14Count("cancel accepted")
		}
		if o == nil {
			c.viol("e-cancel-of-absent-order-accepted", nil, "RemoveLimitOrder %d was accepted but no such order is open (cancelled, filled or expired before)", d.ID)
			c.skipBal[sender] = true
			break
		}
		if o.Owner != sender {
			c.viol("e-foreign-cancel-accepted", o, "RemoveLimitOrder %d by %s was accepted, the owner is %s", d.ID, sender, o.Owner)
		}
		c.post[o.ID] = c14Vol{new(big.Int), new(big.Int)}
		c.balRule = "e-cancel-refund-not-exact"
		c.addCredit(sender, o.giveCoin(), o.give())
		c.addCredit(sender, gas, new(big.Int).Neg(fee))

	case *transaction.SellSwapPoolDataV260, *transaction.BuySwapPoolDataV260, *transaction.SellAllSwapPoolDataV260:
		c.skipBal[sender] = true // the taker's own amounts are C15's business
		if !ok {
			break
		}
		fills, err := c14FillsOf(tags)
		if err != nil {
			c.viol("tags-unreadable", nil, "%v", err)
			break
		}
		type agg struct{ b, s *big.Int }
		per := map[uint64]*agg{}
		var order []uint64
		for _, f := range fills {
			o := c.t0[f.ID]
			if o == nil {
				c.viol("fill-of-absent-order", nil, "tx.pools reports a fill of order %d (gave %s, received %s) which is not open", f.ID, f.S, f.B)
				continue
			}
			if o.Owner != f.Seller || o.giveCoin() != f.CoinOut || o.wantCoin() != f.CoinIn {
				c.viol("fill-wrong-side", o, "tx.pools reports order %d of %s filled with coin %d against coin %d; the order is %s", f.ID, f.Seller, f.CoinIn, f.CoinOut, o)
				continue
			}
			if per[f.ID] == nil {
				per[f.ID] = &agg{new(big.Int), new(big.Int)}
				order = append(order, f.ID)
			}
			per[f.ID].b.Add(per[f.ID].b, f.B)
			per[f.ID].s.Add(per[f.ID].s, f.S)
			c.addCredit(o.Owner, o.wantCoin(), f.B)
			// (a) own price or better, one unit of rounding per c14Fill: B >= ceil(want/give * S) - 1
			lhs := new(big.Int).Mul(new(big.Int).Add(f.B, big.NewInt(1)), o.give())
			rhs := new(big.Int).Mul(o.want(), f.S)
			if lhs.Cmp(rhs) < 0 {
				c.concerned = o
				c.viol("a-filled-below-own-price", o, "order %s gave up %s and its owner received %s; at its price want/give the owner is entitled to at least ceil(%s*%s/%s)-1", o, f.S, f.B, o.want(), f.S, o.give())
			}
		}
		for _, id := range order {
			o, a := c.t0[id], per[id]
			g, w := new(big.Int).Sub(o.give(), a.s), new(big.Int).Sub(o.want(), a.b)
			c.post[id] = c14Vol{g, w}
			switch {
			case g.Sign() == 0 && w.Sign() == 0:
				c14Count("fill: order emptied")
			case a.s.Sign() > 0 || a.b.Sign() > 0:
				c14Count("fill: partial")
			}
			if a.s.Sign() > 0 || a.b.Sign() > 0 {
				nontrivial = true
			}
			// (c) a partial fill keeps the price
			if g.Sign() > 0 && w.Sign() > 0 && !c14IsLittle(g, w) {
				d1 := new(big.Int).Sub(new(big.Int).Mul(w, o.give()), new(big.Int).Mul(g, o.want()))
				d1.Abs(d1)
				lim := o.give()
				if o.want().Cmp(lim) > 0 {
					lim = o.want()
				}
				if d1.Cmp(lim) > 0 {
					c.concerned = o
					c.viol("c-partial-fill-changed-price", o, "order %s keeps give=%s want=%s: the ratio moved by more than one unit", o, g, w)
				}
			}
		}
		// (b) priority
		for _, id := range order {
			y, a := c.t0[id], per[id]
			if a.s.Sign() == 0 && a.b.Sign() == 0 {
				continue
			}
			for _, xid := range c14SortedIDs(c.t0) {
				x := c.t0[xid]
				if x.ID == y.ID || x.Pool != y.Pool || x.Sale != y.Sale {
					continue
				}
				before, strict := c14Precedes(x, y)
				if !before {
					continue
				}
				if strict {
					c14Count("priority pair judged: better price first")
				} else if new(big.Int).Mul(x.V1, y.V0).Cmp(new(big.Int).Mul(y.V1, x.V0)) == 0 {
					c14Count("priority pair judged: equal price, lower id first")
				} else {
					c14Count("priority pair judged: equal at 53 bits only, lower id first")
				}
				left := x.give()
				if p, touched := c.post[x.ID]; touched {
					left = p.g
				}
				if left.Sign() > 0 {
					kind := "lower-id-at-equal-price"
					if strict {
						kind = "better-price"
					}
					c.concerned = y
					c.viol("b-priority-"+kind, y, "order %s was touched (gave %s) while order %s, which stands before it (%s), still had %s unfilled", y, a.s, x, kind, left)
				}
			}
		}

	default:
		// other transaction types must not touch the book; makers' balances are not judged
		c.skipBal[sender] = true
		c.settle()
		return c.out, false
	}
	c.settle()
	c.balances(par, cur)
	c14Trace(c, "tx")
	return c.out, nontrivial
}

// c14Trace prints the judged transition when VERIF_C14_TRACE is set (debugging aid).
func c14Trace(c *c14Ctx, kind string) {
	if os.Getenv("VERIF_C14_TRACE") == "" {
		return
	}
	fmt.Printf("C14 %s %s violations=%d%s\n", kind, c.t.Cur.Hist.String(), len(c.out), c.describe())
}
