package monitors

import (
	"fmt"
	"math/big"
	"strings"

	"github.com/MinterTeam/minter-go-node/coreV2/types"

	"verif/explore"
	"verif/obs"
)

var burnAddress = types.HexToAddress("Mx00cedde786b34d733d1dc96559253081572df2c6")

// ---------------------------------------------------------------- C03

// FailedTxOnlyFee: a rejected DeliverTx changes nothing but the failure fee;
// an accepted one increments the sender's nonce by exactly one.
type FailedTxOnlyFee struct{}

func (FailedTxOnlyFee) Property() string { return "C03" }

func poolOf(s *explore.State, a, b uint64) (id uint64, ok bool) {
	for _, p := range s.Export.Pools {
		if (p.Coin0 == a && p.Coin1 == b) || (p.Coin0 == b && p.Coin1 == a) {
			return p.ID, true
		}
	}
	return 0, false
}

func orderOwners(s *explore.State, pool uint64) map[string]bool {
	m := map[string]bool{}
	for _, p := range s.Export.Pools {
		if p.ID != pool {
			continue
		}
		for _, o := range p.Orders {
			m[o.Owner.String()] = true
		}
	}
	return m
}

// c03EarlyCode: response codes that the executor (also) returns before a transaction's own Run,
// i.e. before the failure-fee branch; for these it is not known whether a fee is due.
var c03EarlyCode = map[uint32]bool{101: true, 102: true, 106: true, 109: true, 110: true, 113: true, 114: true, 115: true, 119: true, 124: true, 603: true, 604: true, 606: true, 609: true}

func (FailedTxOnlyFee) Check(t *explore.Transition) ([]V, bool) {
	r := t.LastTx()
	if r == nil || t.Parent == nil || t.Cur.Fault != nil || t.Parent.Final() == nil || t.Cur.Final() == nil {
		return nil, false
	}
	inf := Info(r)
	var out []V
	if r.Resp.Code == 0 {
		if !inf.OK {
			return []V{{Signature: "accepted-undecodable", Detail: fmt.Sprintf("tx %q accepted but does not decode", r.T.Name)}}, true
		}
		if r.NonceAfter != r.NonceBefore+1 {
			out = append(out, V{Signature: fmt.Sprintf("accepted-nonce|%s", inf.Type), Detail: fmt.Sprintf("tx %q accepted: sender nonce %d -> %d", r.T.Name, r.NonceBefore, r.NonceAfter)})
		}
		return out, false
	}
	// rejected
	diff := twinDiff(t)
	// on a payout block the fee is paid out to delegators' stakes within the same block: the
	// twin difference is then spread over stakes and is not judged (the nonce rule still is)
	payoutBlock := false
	if sp := int64(t.W.P.StakePeriod); sp > 0 && t.Cur.Last().Height%sp == 0 {
		diff = nil
		payoutBlock = true
	}
	rewardSum := new(big.Int)
	par := t.Parent.Final()
	gas := uint64(inf.GasCoin)
	payerBal := fmt.Sprintf("acct/%s/bal/%d", inf.Payer.String(), gas)
	poolID, hasPool := poolOf(par, gas, 0)
	owners := map[string]bool{}
	if hasPool {
		owners = orderOwners(par, poolID)
	}
	ty := "undecodable"
	if inf.OK {
		ty = inf.Type.String()
	}
	for _, d := range diff {
		k := d.Key
		bad := ""
		switch {
		case !inf.OK:
			bad = "undecodable transaction changed state"
		case k == payerBal:
			if d.Delta().Sign() > 0 || obs.Num(d.B).Sign() < 0 {
				bad = "payer balance rose or went negative"
			}
		case strings.HasPrefix(k, "val/") && strings.HasSuffix(k, "/accum_reward"), k == "total_slashed":
			// the fee joins the block's reward pool: every validator's floor share can only grow, the
			// rounding remainder (total slashed) may move either way; together they must not shrink
			rewardSum.Add(rewardSum, d.Delta())
			if d.Delta().Sign() < 0 && k != "total_slashed" {
				bad = "reward pool share decreased"
			}
		case gas != 0 && (k == fmt.Sprintf("coin/%d/volume", gas) || k == fmt.Sprintf("coin/%d/reserve", gas)):
			if d.Delta().Sign() > 0 {
				bad = "gas coin volume/reserve rose"
			}
		case gas != 0 && hasPool && strings.HasPrefix(k, fmt.Sprintf("pool/%d/reserve", poolID)):
		case gas != 0 && hasPool && strings.HasPrefix(k, "order/"):
			// only orders of the commission pool may change
			oid := strings.Split(k, "/")[1]
			if par.Flat["order/"+oid+"/pool"] != fmt.Sprint(poolID) {
				bad = "order of another pool changed"
			}
		case gas != 0 && hasPool && strings.HasPrefix(k, "acct/") && strings.Contains(k, "/bal/"):
			parts := strings.Split(k, "/")
			who, coin := parts[1], parts[3]
			isOwner := owners[who]
			isBurn := who == burnAddress.String() && coin == fmt.Sprint(gas)
			if !(isOwner || isBurn) || (coin != fmt.Sprint(gas) && coin != "0") || d.Delta().Sign() < 0 {
				bad = "balance of an unrelated account/coin changed"
			}
		case gas != 0 && hasPool && strings.HasPrefix(k, "acct/") && strings.HasSuffix(k, "/nonce") && zeroish(d.A) && zeroish(d.B):
		default:
			bad = "not part of the failure fee"
		}
		if bad != "" {
			out = append(out, V{Signature: fmt.Sprintf("rejected|%s|code%d|%s", ty, r.Resp.Code, obs.KeyClass(k)),
				Detail: fmt.Sprintf("tx %q rejected with code %d (%s) but %s [%s]", r.T.Name, r.Resp.Code, r.Resp.Log, d, bad)})
			break
		}
	}
	// the fee itself: a transaction that got as far as its own Run (codes that only Run returns)
	// pays a positive fee from a payer who holds the commission coin: the amount of tag tx.fail_fee,
	// at most the balance; in base coin it is exactly min(balance, gas price x (FailedTx + bytes x byte price))
	if inf.OK && !payoutBlock && !c03EarlyCode[r.Resp.Code] {
		have := obs.Num(par.Flat[payerBal])
		if have.Sign() > 0 {
			feeTag, hasFee := tagOf(r, "tx.fail_fee")
			fee := obs.Num(feeTag)
			delta := new(big.Int).Sub(obs.Num(t.Cur.Final().Flat[payerBal]), obs.Num(par.Flat[payerBal]))
			// the payer may also be a maker of the commission pool and receive coins back: only judged otherwise
			maker := owners[inf.Payer.String()]
			switch {
			case !hasFee || fee.Sign() <= 0:
				out = append(out, V{Signature: fmt.Sprintf("rejected-without-fee|%s|code%d", ty, r.Resp.Code), Detail: fmt.Sprintf("tx %q rejected by its Run (code %d) and the payer holds %s of the commission coin %d, but no failure fee was charged", r.T.Name, r.Resp.Code, have, gas)})
			case fee.Cmp(have) > 0:
				out = append(out, V{Signature: fmt.Sprintf("failure-fee-above-balance|%s|code%d", ty, r.Resp.Code), Detail: fmt.Sprintf("tx %q: failure fee %s, the payer holds %s of coin %d", r.T.Name, fee, have, gas)})
			case !maker && new(big.Int).Neg(delta).Cmp(fee) != 0:
				out = append(out, V{Signature: fmt.Sprintf("failure-fee-not-what-was-debited|%s|code%d", ty, r.Resp.Code), Detail: fmt.Sprintf("tx %q: tag tx.fail_fee=%s, the payer's balance of coin %d changed by %s", r.T.Name, fee, gas, delta)})
			case gas == 0 && par.Export.Commission.Coin == 0:
				tb := tableOf(&par.Export.Commission)
				bytes := int64(len(inf.Tx.Payload) + len(inf.Tx.ServiceData))
				want := new(big.Int).Mul(big.NewInt(int64(inf.Tx.GasPrice)), new(big.Int).Add(tb["FailedTx"], new(big.Int).Mul(big.NewInt(bytes), tb["PayloadByte"])))
				if want.Cmp(have) > 0 {
					want = have
				}
				if fee.Cmp(want) != 0 {
					out = append(out, V{Signature: fmt.Sprintf("failure-fee-amount|%s|code%d", ty, r.Resp.Code), Detail: fmt.Sprintf("tx %q: failure fee %s BIP, expected min(balance %s, price) = %s", r.T.Name, fee, have, want)})
				}
			}
		}
	}
	if len(out) == 0 && rewardSum.Sign() < 0 {
		out = append(out, V{Signature: fmt.Sprintf("rejected|%s|code%d|reward-pool-shrank", ty, r.Resp.Code), Detail: fmt.Sprintf("tx %q rejected (code %d): validators' accrued rewards plus the remainder changed by %s", r.T.Name, r.Resp.Code, rewardSum)})
	}
	if r.NonceAfter != r.NonceBefore {
		out = append(out, V{Signature: fmt.Sprintf("rejected-nonce|%s|code%d", ty, r.Resp.Code), Detail: fmt.Sprintf("tx %q rejected (code %d) but sender nonce %d -> %d", r.T.Name, r.Resp.Code, r.NonceBefore, r.NonceAfter)})
	}
	return out, true
}

// ---------------------------------------------------------------- C04

// OnceInOrder: accepted => nonce == last+1 and chain id ok; replays of accepted bytes are rejected.
type OnceInOrder struct{}

func (OnceInOrder) Property() string { return "C04" }

func (OnceInOrder) Check(t *explore.Transition) ([]V, bool) {
	r := t.LastTx()
	if r == nil || t.Cur.Fault != nil {
		return nil, false
	}
	// state rule: an accepted transaction advances the nonce of its sender by one, and nothing
	// else ever changes a nonce (block twin: the block with and without this transaction)
	var out []V
	if r.T.Replay == 0 && r.T.FixedBytes == nil {
		if r.Resp.Code == 0 && r.NonceAfter != r.NonceBefore+1 {
			out = append(out, V{Signature: "accepted-nonce-not-advanced", Detail: fmt.Sprintf("tx %q accepted: the sender's nonce went from %d to %d", r.T.Name, r.NonceBefore, r.NonceAfter)})
		}
		if r.Resp.Code != 0 && r.NonceAfter != r.NonceBefore {
			out = append(out, V{Signature: "rejected-changed-nonce", Detail: fmt.Sprintf("tx %q rejected (code %d): the sender's nonce went from %d to %d", r.T.Name, r.Resp.Code, r.NonceBefore, r.NonceAfter)})
		}
	}
	if t.Parent != nil && t.Parent.Fault == nil && t.Parent.Final() != nil && t.Cur.Final() != nil {
		own := "acct/" + r.Sender.String() + "/nonce"
		for _, d := range twinDiff(t) {
			if strings.HasPrefix(d.Key, "acct/") && strings.HasSuffix(d.Key, "/nonce") && (d.Key != own || r.Resp.Code != 0) {
				out = append(out, V{Signature: "foreign-nonce-changed", Detail: fmt.Sprintf("tx %q (code %d) of sender %s changed %s", r.T.Name, r.Resp.Code, r.Sender.String(), d)})
			}
		}
	}
	if r.Resp.Code != 0 {
		return out, r.IsReplay || r.T.NonceOff != 0 || r.T.ChainID != 0
	}
	inf := Info(r)
	if !inf.OK {
		return []V{{Signature: "accepted-undecodable", Detail: r.T.Name}}, true
	}
	if inf.Tx.Nonce != r.NonceBefore+1 {
		out = append(out, V{Signature: "accepted-wrong-nonce", Detail: fmt.Sprintf("tx %q with nonce %d accepted while the sender's nonce was %d", r.T.Name, inf.Tx.Nonce, r.NonceBefore)})
	}
	if inf.Tx.ChainID != types.CurrentChainID {
		out = append(out, V{Signature: "accepted-wrong-chain", Detail: fmt.Sprintf("tx %q for chain %d accepted on chain %d", r.T.Name, inf.Tx.ChainID, types.CurrentChainID)})
	}
	if r.IsReplay && r.FirstResp != nil && r.FirstResp.Code == 0 {
		out = append(out, V{Signature: "replay-accepted", Detail: fmt.Sprintf("bytes of %q were accepted a second time", r.T.Name)})
	}
	return out, r.IsReplay || r.T.NonceOff != 0 || r.T.ChainID != 0
}

// ---------------------------------------------------------------- C26

// ChargedOnce: a later delivery of already delivered bytes costs the payer nothing and is rejected.
type ChargedOnce struct{}

func (ChargedOnce) Property() string { return "C26" }

func (ChargedOnce) Check(t *explore.Transition) ([]V, bool) {
	r := t.LastTx()
	if r == nil || !r.IsReplay || t.Parent == nil || t.Cur.Fault != nil || t.Parent.Final() == nil || t.Cur.Final() == nil {
		return nil, false
	}
	inf := Info(r)
	if !inf.OK {
		return nil, false
	}
	var out []V
	first := "succeeded"
	if r.FirstResp.Code != 0 {
		first = fmt.Sprintf("failed(code %d)", r.FirstResp.Code)
	}
	if r.Resp.Code == 0 {
		out = append(out, V{Signature: "replay-accepted|first-" + firstClass(r), Detail: fmt.Sprintf("second delivery of %q accepted (first %s)", r.T.Name, first)})
	}
	prefix := "acct/" + inf.Payer.String() + "/bal/"
	for _, d := range twinDiff(t) {
		if strings.HasPrefix(d.Key, prefix) && d.Delta().Sign() < 0 {
			out = append(out, V{Signature: "replay-charged|first-" + firstClass(r),
				Detail: fmt.Sprintf("second delivery of the bytes of %q (first delivery %s) charged the payer again: %s", r.T.Name, first, d)})
			break
		}
	}
	return out, true
}

// firstClass classifies how the first delivery ended: ok | failed-in-run (a fee
// was due) | rejected-early (before the fee branch).
func firstClass(r *explore.TxRec) string {
	if r.FirstResp.Code == 0 {
		return "ok"
	}
	for _, ev := range r.FirstResp.Events {
		for _, a := range ev.Attributes {
			if string(a.Key) == "tx.fail_fee" {
				return "failed-charged"
			}
		}
	}
	return "failed-free"
}

// C03EarlyCode tells whether a response code is (also) returned before a transaction's own Run.
func C03EarlyCode(code uint32) bool { return c03EarlyCode[code] }
