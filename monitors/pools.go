package monitors

import (
	"fmt"
	"math/big"
	"strings"

	"github.com/MinterTeam/minter-go-node/coreV2/transaction"
	"github.com/MinterTeam/minter-go-node/coreV2/types"

	"verif/explore"
	"verif/obs"
)

// ---------------------------------------------------------------- C13 (explorer part)

// PoolsNeverLose: on every accepted transaction the product of the reserves of every pool
// does not fall unless liquidity was removed; liquidity changes respect the proportional
// share; the minimum liquidity stays on the zero address.
type PoolsNeverLose struct{}

func (PoolsNeverLose) Property() string { return "C13" }

func lpCoinOfPool(s *explore.State, poolID uint64) *types.Coin {
	sym := fmt.Sprintf("LP-%d", poolID)
	for i := range s.Export.Coins {
		if s.Export.Coins[i].Symbol.String() == sym && s.Export.Coins[i].Version == 0 {
			return &s.Export.Coins[i]
		}
	}
	return nil
}

func poolByID(s *explore.State, id uint64) *types.Pool {
	for i := range s.Export.Pools {
		if s.Export.Pools[i].ID == id {
			return &s.Export.Pools[i]
		}
	}
	return nil
}

func (PoolsNeverLose) Check(t *explore.Transition) ([]V, bool) {
	post := t.Cur.Final()
	if post == nil {
		return nil, false
	}
	var out []V
	// the minimum liquidity of every pool stays on the zero address
	zero := (types.Address{}).String()
	for _, p := range post.Export.Pools {
		lp := lpCoinOfPool(post, p.ID)
		if lp == nil {
			out = append(out, V{Signature: "pool-without-token", Detail: fmt.Sprintf("pool %d has no LP-%d coin", p.ID, p.ID)})
			continue
		}
		if obs.Num(post.Flat[fmt.Sprintf("acct/%s/bal/%d", zero, lp.ID)]).Cmp(big.NewInt(1000)) < 0 {
			out = append(out, V{Signature: "locked-minimum-liquidity|" + blockTypes(t.Cur), Detail: fmt.Sprintf("zero address holds %s of %s (< 1000)", post.Flat[fmt.Sprintf("acct/%s/bal/%d", zero, lp.ID)], lp.Symbol.String())})
		}
	}
	r := t.LastTx()
	if r == nil || r.Resp.Code != 0 || t.Parent == nil || t.Parent.Final() == nil || t.Cur.Fault != nil {
		return out, false
	}
	par := t.Parent.Final()
	inf := Info(r)
	ty := "?"
	if inf.OK {
		ty = inf.Type.String()
	}
	nontrivial := false
	for _, p := range post.Export.Pools {
		q := poolByID(par, p.ID)
		if q == nil {
			continue // created by this transaction
		}
		r0a, r1a := obs.Num(q.Reserve0), obs.Num(q.Reserve1)
		r0b, r1b := obs.Num(p.Reserve0), obs.Num(p.Reserve1)
		if r0a.Cmp(r0b) == 0 && r1a.Cmp(r1b) == 0 {
			continue
		}
		nontrivial = true
		lpa, lpb := lpCoinOfPool(par, p.ID), lpCoinOfPool(post, p.ID)
		if lpa == nil || lpb == nil {
			continue
		}
		sa, sb := obs.Num(lpa.Volume), obs.Num(lpb.Volume)
		ka, kb := new(big.Int).Mul(r0a, r1a), new(big.Int).Mul(r0b, r1b)
		withOrders := "no-fills"
		if len(q.Orders) != len(p.Orders) {
			withOrders = "with-fills"
		} else {
			for i := range q.Orders {
				if q.Orders[i] != p.Orders[i] {
					withOrders = "with-fills"
				}
			}
		}
		// the fee of this very transaction may have been converted through this pool before the
		// liquidity change: the exact share rules below do not see the intermediate reserves, so the
		// invariant "product of the reserves per squared pool-token supply never falls" is used instead
		feeHere := false
		if v, ok := tagOf(r, "tx.commission_conversion"); ok && v == "pool" && inf.OK && inf.GasCoin != 0 {
			g := uint64(inf.GasCoin)
			feeHere = (p.Coin0 == 0 && p.Coin1 == g) || (p.Coin1 == 0 && p.Coin0 == g)
		}
		if feeHere && sb.Cmp(sa) != 0 {
			lhs := new(big.Int).Mul(kb, new(big.Int).Mul(sa, sa))
			rhs := new(big.Int).Mul(ka, new(big.Int).Mul(sb, sb))
			if lhs.Cmp(rhs) < 0 {
				out = append(out, V{Signature: "product-per-share-fell|" + ty, Detail: fmt.Sprintf("tx %q (fee converted through the same pool): reserves %s/%s supply %s -> %s/%s supply %s", r.T.Name, r0a, r1a, sa, r0b, r1b, sb)})
			}
			continue
		}
		switch sb.Cmp(sa) {
		case 0: // a trade (or a commission swap)
			if kb.Cmp(ka) < 0 {
				out = append(out, V{Signature: fmt.Sprintf("product-fell|%s|%s", ty, withOrders), Detail: fmt.Sprintf("tx %q: pool %d reserves %s/%s -> %s/%s, product fell", r.T.Name, p.ID, r0a, r1a, r0b, r1b)})
			}
		case -1: // liquidity removed: returned amounts within the proportional share
			burned := new(big.Int).Sub(sa, sb)
			d0, d1 := new(big.Int).Sub(r0a, r0b), new(big.Int).Sub(r1a, r1b)
			if new(big.Int).Mul(d0, sa).Cmp(new(big.Int).Mul(burned, r0a)) > 0 || new(big.Int).Mul(d1, sa).Cmp(new(big.Int).Mul(burned, r1a)) > 0 {
				out = append(out, V{Signature: "remove-more-than-share|" + ty, Detail: fmt.Sprintf("tx %q: burned %s of %s pool tokens, reserves fell by %s/%s of %s/%s", r.T.Name, burned, sa, d0, d1, r0a, r1a)})
			}
		case 1: // liquidity added: minted share not larger than the deposited share of either coin
			minted := new(big.Int).Sub(sb, sa)
			a0, a1 := new(big.Int).Sub(r0b, r0a), new(big.Int).Sub(r1b, r1a)
			// removing the minted tokens right away returns floor(minted·reserve'/supply') of each coin
			back0 := new(big.Int).Div(new(big.Int).Mul(minted, r0b), sb)
			back1 := new(big.Int).Div(new(big.Int).Mul(minted, r1b), sb)
			if back0.Cmp(a0) > 0 || back1.Cmp(a1) > 0 {
				out = append(out, V{Signature: "add-then-remove-gains|" + ty, Detail: fmt.Sprintf("tx %q: minted %s pool tokens (supply %s) for deposits %s/%s into reserves %s/%s", r.T.Name, minted, sa, a0, a1, r0a, r1a)})
			}
		}
	}
	return out, nontrivial
}

// ---------------------------------------------------------------- C15

// Slippage: min/max limits, sell-all, and result tags equal to the balance changes.
type Slippage struct{}

func (Slippage) Property() string { return "C15" }

func ownsOrder(s *explore.State, who string) bool {
	for _, p := range s.Export.Pools {
		for _, o := range p.Orders {
			if o.Owner.String() == who {
				return true
			}
		}
	}
	return false
}

func (Slippage) Check(t *explore.Transition) ([]V, bool) {
	r := t.LastTx()
	if r == nil || r.Resp.Code != 0 || t.Parent == nil || t.Parent.Final() == nil || t.Cur.Final() == nil || t.Cur.Fault != nil {
		return nil, false
	}
	inf := Info(r)
	if !inf.OK {
		return nil, false
	}
	var sellCoin, buyCoin types.CoinID
	var valueToSell, valueToBuy, minBuy, maxSell *big.Int
	kind := ""
	switch d := inf.Tx.GetDecodedData().(type) {
	case *transaction.SellCoinData:
		kind, sellCoin, buyCoin, valueToSell, minBuy = "sell", d.CoinToSell, d.CoinToBuy, d.ValueToSell, d.MinimumValueToBuy
	case *transaction.BuyCoinData:
		kind, sellCoin, buyCoin, valueToBuy, maxSell = "buy", d.CoinToSell, d.CoinToBuy, d.ValueToBuy, d.MaximumValueToSell
	case *transaction.SellAllCoinData:
		kind, sellCoin, buyCoin, minBuy = "sellall", d.CoinToSell, d.CoinToBuy, d.MinimumValueToBuy
	case *transaction.SellSwapPoolDataV260:
		kind, sellCoin, buyCoin, valueToSell, minBuy = "sell", d.Coins[0], d.Coins[len(d.Coins)-1], d.ValueToSell, d.MinimumValueToBuy
	case *transaction.BuySwapPoolDataV260:
		kind, sellCoin, buyCoin, valueToBuy, maxSell = "buy", d.Coins[0], d.Coins[len(d.Coins)-1], d.ValueToBuy, d.MaximumValueToSell
	case *transaction.SellAllSwapPoolDataV260:
		kind, sellCoin, buyCoin, minBuy = "sellall", d.Coins[0], d.Coins[len(d.Coins)-1], d.MinimumValueToBuy
	default:
		return nil, false
	}
	par, cur := t.Parent.Final(), t.Cur.Final()
	who := inf.Sender.String()
	if ownsOrder(par, who) {
		return nil, false // the sender's own orders may be filled by its own trade: deltas are not attributable
	}
	bal := func(s *explore.State, c types.CoinID) *big.Int {
		return obs.Num(s.Flat[fmt.Sprintf("acct/%s/bal/%d", who, uint64(c))])
	}
	ty := inf.Type.String()
	gas := inf.GasCoin
	fee := new(big.Int)
	if v, ok := tagOf(r, "tx.commission_amount"); ok {
		fee = obs.Num(v)
	}
	debit := new(big.Int).Sub(bal(par, sellCoin), bal(cur, sellCoin)) // what left the sender in the sold coin
	credit := new(big.Int).Sub(bal(cur, buyCoin), bal(par, buyCoin))  // what arrived in the bought coin
	if gas == sellCoin {
		debit.Sub(debit, fee)
	}
	if gas == buyCoin {
		credit.Add(credit, fee)
	}
	var out []V
	bad := func(rule, text string) {
		out = append(out, V{Signature: fmt.Sprintf("%s|%s|%s", rule, kind, ty), Detail: fmt.Sprintf("tx %q: %s", r.T.Name, text)})
	}
	ret, hasRet := tagOf(r, "tx.return")
	switch kind {
	case "sell":
		if credit.Cmp(minBuy) < 0 {
			bad("credited-below-minimum", fmt.Sprintf("credited %s < minimum to buy %s", credit, minBuy))
		}
		if debit.Cmp(valueToSell) != 0 {
			bad("debit-differs-from-value-to-sell", fmt.Sprintf("debited %s, value to sell %s", debit, valueToSell))
		}
		if hasRet && obs.Num(ret).Cmp(credit) != 0 {
			bad("tag-return-differs", fmt.Sprintf("tx.return=%s, credited %s", ret, credit))
		}
	case "buy":
		if debit.Cmp(maxSell) > 0 {
			bad("debited-above-maximum", fmt.Sprintf("debited %s > maximum to sell %s", debit, maxSell))
		}
		if credit.Cmp(valueToBuy) != 0 {
			bad("credit-differs-from-value-to-buy", fmt.Sprintf("credited %s, value to buy %s", credit, valueToBuy))
		}
		if hasRet && obs.Num(ret).Cmp(debit) != 0 {
			bad("tag-return-differs", fmt.Sprintf("tx.return=%s, debited %s", ret, debit))
		}
	case "sellall":
		if bal(cur, sellCoin).Sign() != 0 {
			bad("sell-all-leaves-balance", fmt.Sprintf("balance of the sold coin afterwards %s", bal(cur, sellCoin)))
		}
		// sold = balance − fee (the fee of a sell-all is always paid in the sold coin)
		sold := new(big.Int).Sub(bal(par, sellCoin), fee)
		// tx.sell_amount records the whole debit of the sold coin (sold amount + fee) or the sold amount
		if v, ok := tagOf(r, "tx.sell_amount"); ok && obs.Num(v).Cmp(sold) != 0 && obs.Num(v).Cmp(bal(par, sellCoin)) != 0 {
			bad("tag-sell-amount-differs", fmt.Sprintf("tx.sell_amount=%s, balance-fee %s", v, sold))
		}
		if credit.Cmp(minBuy) < 0 {
			bad("credited-below-minimum", fmt.Sprintf("credited %s < minimum to buy %s", credit, minBuy))
		}
		if hasRet && obs.Num(ret).Cmp(credit) != 0 {
			bad("tag-return-differs", fmt.Sprintf("tx.return=%s, credited %s", ret, credit))
		}
	}
	_ = strings.Join
	return out, true
}
