// Package monitors holds the per-property oracles evaluated on transitions.
package monitors

import (
	"fmt"
	"math/big"
	"regexp"
	"strings"

	"github.com/MinterTeam/minter-go-node/coreV2/check"
	"github.com/MinterTeam/minter-go-node/coreV2/transaction"
	"github.com/MinterTeam/minter-go-node/coreV2/types"

	"verif/explore"
	"verif/lab"
	"verif/obs"
)

type V = explore.Violation

var digits = regexp.MustCompile(`[0-9]+`)
var hexes = regexp.MustCompile(`M[xp][0-9a-fA-F]{8,}|0x[0-9a-fA-F]+`)

// classOf abbreviates a panic value for signatures.
func classOf(s string) string {
	s = hexes.ReplaceAllString(s, "#")
	s = digits.ReplaceAllString(s, "N")
	if len(s) > 60 {
		s = s[:60]
	}
	return s
}

// ---------------------------------------------------------------- C07

// NoCrash reports every panic / exit of an ABCI call.
type NoCrash struct {
	// AllowExit lets a world declare expected exits (halt votes): func(trace) bool
	AllowExit func(t *explore.Trace) bool
}

func (NoCrash) Property() string { return "C07" }

func (m NoCrash) Check(t *explore.Transition) ([]V, bool) {
	f := t.Cur.Fault
	if f == nil {
		return nil, len(t.Cur.Hist) > 0 && (len(t.Cur.Last().Txs) > 0)
	}
	if f.Kind == "crash" {
		return nil, false
	}
	if f.Kind == "exit" && m.AllowExit != nil && m.AllowExit(t.Cur) {
		return nil, true
	}
	return []V{{Signature: fmt.Sprintf("%s|%s|%s|%s", f.Call, f.Kind, f.Top, classOf(f.Value)), Detail: f.String() + "\n" + f.Stack}}, true
}

// ---------------------------------------------------------------- C01

// Conservation recomputes the ledger from the exports before and after a block.
type Conservation struct{}

func (Conservation) Property() string { return "C01" }

func coinClass(s *explore.State, id uint64) string {
	for _, c := range s.Export.Coins {
		if c.ID == id {
			if c.Crr != 0 {
				return "bancor"
			}
			if strings.HasPrefix(c.Symbol.String(), "LP-") {
				return "pooltoken"
			}
			return "token"
		}
	}
	return "unknown"
}

func blockTypes(t *explore.Trace) string {
	l := t.Last()
	if l == nil {
		return "init"
	}
	var s []string
	for _, x := range l.Txs {
		ty := "?"
		if d, err := lab.Decode(x.Bytes); err == nil {
			ty = d.Type.String()
		}
		s = append(s, fmt.Sprintf("%s/%d", ty, x.Resp.Code))
	}
	if len(s) == 0 {
		return "empty-block"
	}
	return strings.Join(s, ",")
}

func (Conservation) Check(t *explore.Transition) ([]V, bool) {
	post := t.Cur.Final()
	if post == nil {
		return nil, false
	}
	var out []V
	for _, c := range post.Export.Coins {
		vol := obs.Num(c.Volume)
		if h := post.Ledger.Of(c.ID); h.Cmp(vol) != 0 {
			out = append(out, V{Signature: fmt.Sprintf("custom:%s|%s", coinClass(post, c.ID), blockTypes(t.Cur)),
				Detail: fmt.Sprintf("coin %d (%s): volume %s but holdings %s (diff %s) at height %d", c.ID, c.Symbol.String(), vol, h, new(big.Int).Sub(h, vol), post.Height)})
		}
	}
	// a holding in a coin that does not exist
	for id, h := range post.Ledger.Hold {
		if id == 0 || h.Sign() == 0 {
			continue
		}
		found := false
		for _, c := range post.Export.Coins {
			if c.ID == id {
				found = true
			}
		}
		if !found {
			out = append(out, V{Signature: "holding-of-missing-coin|" + blockTypes(t.Cur), Detail: fmt.Sprintf("holdings %s of coin %d which is not in the registry", h, id)})
		}
	}
	pre := t.Cur.Pre
	if pre != nil && len(t.Cur.Hist) > 0 {
		dL := new(big.Int).Sub(post.Ledger.BaseTotal(), pre.Ledger.BaseTotal())
		dE := new(big.Int).Sub(post.Emission, pre.Emission)
		if dL.Cmp(dE) != 0 {
			// attribute the break: if the same block without its last transaction conserves, that transaction is the culprit
			culprit := blockTypes(t.Cur)
			if r := t.LastTx(); r != nil && t.Parent != nil && t.Parent.Final() != nil && t.Parent.Pre != nil {
				pL := new(big.Int).Sub(t.Parent.Final().Ledger.BaseTotal(), t.Parent.Pre.Ledger.BaseTotal())
				pE := new(big.Int).Sub(t.Parent.Final().Emission, t.Parent.Pre.Emission)
				if pL.Cmp(pE) == 0 {
					ty := "?"
					if d, err := lab.Decode(r.Bytes); err == nil {
						ty = d.Type.String()
					}
					culprit = fmt.Sprintf("tx:%s/%d", ty, r.Resp.Code)
				}
			}
			out = append(out, V{Signature: "base|" + culprit,
				Detail: fmt.Sprintf("base-coin total changed by %s but the emission counter by %s (height %d)", dL, dE, post.Height)})
		}
	}
	return out, len(t.Cur.Hist) > 0 && len(t.Cur.Last().Txs) > 0
}

// ---------------------------------------------------------------- C02

// NonNegative checks signs, max supply and pool reserves on every committed state.
type NonNegative struct{}

func (NonNegative) Property() string { return "C02" }

func (NonNegative) Check(t *explore.Transition) ([]V, bool) {
	post := t.Cur.Final()
	if post == nil {
		return nil, false
	}
	var out []V
	for _, n := range post.Ledger.Neg {
		out = append(out, V{Signature: "negative|" + classOf(n), Detail: n})
	}
	for _, c := range post.Export.Coins {
		if obs.Num(c.Volume).Cmp(obs.Num(c.MaxSupply)) > 0 {
			out = append(out, V{Signature: "volume>max|" + coinClass(post, c.ID), Detail: fmt.Sprintf("coin %d volume %s > max supply %s", c.ID, c.Volume, c.MaxSupply)})
		}
	}
	for _, p := range post.Export.Pools {
		if obs.Num(p.Reserve0).Sign() <= 0 || obs.Num(p.Reserve1).Sign() <= 0 {
			out = append(out, V{Signature: "pool-reserve<=0", Detail: fmt.Sprintf("pool %d reserves %s / %s", p.ID, p.Reserve0, p.Reserve1)})
		}
	}
	return out, len(t.Cur.Hist) > 0 && len(t.Cur.Last().Txs) > 0
}

// ---------------------------------------------------------------- C09 (cache part)

// LiveEqDisk compares the export through live caches with a fresh-from-disk export.
type LiveEqDisk struct{}

func (LiveEqDisk) Property() string { return "C09" }

func (LiveEqDisk) Check(t *explore.Transition) ([]V, bool) {
	post := t.Cur.Final()
	if post == nil {
		return nil, false
	}
	if post.LiveEqDisk {
		return nil, len(t.Cur.Last().Txs) > 0
	}
	sig, det := "live!=disk|err", post.DiskErr
	if len(post.DiskDiff) > 0 {
		sig = "live!=disk|" + obs.KeyClass(post.DiskDiff[0].Key)
		det = fmt.Sprintf("%d keys differ, first: %s", len(post.DiskDiff), post.DiskDiff[0])
	}
	return []V{{Signature: sig, Detail: det}}, true
}

// ---------------------------------------------------------------- helpers for twins

// TxInfo is the decoded view of a delivered byte string.
type TxInfo struct {
	OK      bool
	Tx      *transaction.Transaction
	Sender  types.Address
	Payer   types.Address // sender, or the check issuer for RedeemCheck
	GasCoin types.CoinID
	Type    transaction.TxType
	Check   *check.Check
}

// Info decodes the bytes of a record.
func Info(r *explore.TxRec) TxInfo {
	var i TxInfo
	tx, err := lab.Decode(r.Bytes)
	if err != nil {
		return i
	}
	s, err := tx.Sender()
	if err != nil {
		return i
	}
	i.OK, i.Tx, i.Sender, i.Payer, i.GasCoin, i.Type = true, tx, s, s, tx.CommissionCoin(), tx.Type
	if tx.Type == transaction.TypeRedeemCheck {
		if d, ok := tx.GetDecodedData().(*transaction.RedeemCheckData); ok {
			if c, err := check.DecodeFromBytes(d.RawCheck); err == nil {
				i.Check = c
				if cs, err := c.Sender(); err == nil {
					i.Payer = cs
				}
			}
		}
	}
	return i
}

func zeroish(s string) bool { return s == "" || s == "0" }

// twinDiff is the difference of the committed exports of parent and cur, without no-op entries.
func twinDiff(t *explore.Transition) []obs.DiffEntry {
	a, b := t.Parent.Final(), t.Cur.Final()
	if a == nil || b == nil {
		return nil
	}
	var out []obs.DiffEntry
	for _, d := range obs.Diff(a.Flat, b.Flat) {
		if zeroish(d.A) && zeroish(d.B) {
			continue
		}
		out = append(out, d)
	}
	return out
}
