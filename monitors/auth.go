package monitors

import (
	"fmt"
	"math/big"
	"strings"

	"github.com/MinterTeam/minter-go-node/coreV2/transaction"
	"github.com/MinterTeam/minter-go-node/coreV2/types"
	"github.com/MinterTeam/minter-go-node/rlp"

	"verif/explore"
	"verif/obs"
)

// ---------------------------------------------------------------- C05

// Authorization: value leaves an account (balance, stake, waitlist entry, order, frozen fund)
// and candidate settings change only through a transaction authorised by the owner.
type Authorization struct{}

func (Authorization) Property() string { return "C05" }

// multisigOK recomputes the multisig rule from the parent state: distinct listed owners whose weights reach the threshold.
func multisigOK(par *explore.State, tx *transaction.Transaction, wallet types.Address) (bool, string) {
	var ms *types.Multisig
	for i := range par.Export.Accounts {
		if par.Export.Accounts[i].Address == wallet {
			ms = par.Export.Accounts[i].MultisigData
		}
	}
	if ms == nil {
		return false, "sender is not a multisig account"
	}
	var sm transaction.SignatureMulti
	if err := rlp.DecodeBytes(tx.SignatureData, &sm); err != nil {
		return false, "signature data does not decode"
	}
	seen := map[types.Address]bool{}
	var weight uint64
	h := tx.Hash()
	for _, s := range sm.Signatures {
		a, err := transaction.RecoverPlain(h, s.R, s.S, s.V)
		if err != nil {
			return false, "a member signature does not recover"
		}
		if seen[a] {
			return false, "a signer appears twice"
		}
		seen[a] = true
		for i, o := range ms.Addresses {
			if o == a {
				weight += ms.Weights[i]
			}
		}
	}
	if weight < ms.Threshold {
		return false, fmt.Sprintf("weights of listed signers %d below the threshold %d", weight, ms.Threshold)
	}
	return true, ""
}

func (Authorization) Check(t *explore.Transition) ([]V, bool) {
	r := t.LastTx()
	if r == nil || t.Parent == nil || t.Parent.Final() == nil || t.Cur.Final() == nil || t.Cur.Fault != nil {
		return nil, false
	}
	inf := Info(r)
	if !inf.OK {
		return nil, false
	}
	par := t.Parent.Final()
	// on a payout block the block itself moves value (rewards follow the candidate's current
	// settings), so the twin difference is not attributable to the transaction alone
	if sp := int64(t.W.P.StakePeriod); sp > 0 && t.Cur.Last().Height%sp == 0 {
		return nil, false
	}
	ty := inf.Type.String()
	var out []V
	bad := func(rule, text string) {
		out = append(out, V{Signature: fmt.Sprintf("%s|%s", rule, ty), Detail: fmt.Sprintf("tx %q (code %d) signed for %s: %s", r.T.Name, r.Resp.Code, inf.Sender.String(), text)})
	}
	// who authorised the bytes: recovered here from the signed hash and the signature values,
	// not taken from Transaction.Sender() (a cache or shortcut there is exactly what could break)
	auth := map[string]bool{}
	if inf.Tx.SignatureType == transaction.SigTypeSingle {
		if a, ok := independentSigner(inf.Tx); ok {
			auth[a.String()] = true
		}
		if r.Resp.Code == 0 && !auth[inf.Sender.String()] {
			bad("accepted-with-foreign-signature", fmt.Sprintf("the node treats %s as the sender, the signature over this body recovers to %v", inf.Sender.String(), auth))
		}
	} else {
		auth[inf.Sender.String()] = true
	}
	if inf.Type == transaction.TypeRedeemCheck {
		auth[inf.Payer.String()] = true
	}
	if inf.Tx.SignatureType == transaction.SigTypeMulti && r.Resp.Code == 0 {
		if ok, why := multisigOK(par, inf.Tx, inf.Sender); !ok {
			bad("multisig-accepted-without-authorisation", why)
		}
	}
	// an accepted EditMultisig makes the wallet exactly what the owners signed: threshold, owners and
	// the weight of each owner (who may authorise the wallet from now on is the subject of this property)
	if inf.Type == transaction.TypeEditMultisig && r.Resp.Code == 0 {
		if d, ok := inf.Tx.GetDecodedData().(*transaction.EditMultisigData); ok {
			want := fmt.Sprintf("%d", d.Threshold)
			for i := range d.Addresses {
				want += fmt.Sprintf(" %s=%d", d.Addresses[i].String(), d.Weights[i])
			}
			got := "none"
			for _, a := range t.Cur.Final().Export.Accounts {
				if a.Address == inf.Sender && a.MultisigData != nil {
					got = fmt.Sprintf("%d", a.MultisigData.Threshold)
					for i := range a.MultisigData.Addresses {
						got += fmt.Sprintf(" %s=%d", a.MultisigData.Addresses[i].String(), a.MultisigData.Weights[i])
					}
				}
			}
			if got != want {
				bad("edit-multisig-accepted-but-wallet-differs", fmt.Sprintf("signed: %s; wallet afterwards: %s", want, got))
			}
		}
	}
	isTrade := false
	switch inf.Type {
	case transaction.TypeSellSwapPool, transaction.TypeBuySwapPool, transaction.TypeSellAllSwapPool:
		isTrade = true
	}
	feeViaPool := inf.GasCoin != 0
	candOwner := func(pub string) (owner, control string) {
		return par.Flat["cand/"+pub+"/owner"], par.Flat["cand/"+pub+"/control"]
	}
	// staked value per (candidate id, owner, coin): stakes + pending updates, keyed by the
	// candidate id so that a public-key change is not mistaken for a withdrawal
	staked := func(st *explore.State) map[string]*big.Int {
		m := map[string]*big.Int{}
		for _, c := range st.Export.Candidates {
			for _, list := range [][]types.Stake{c.Stakes, c.Updates} {
				for _, x := range list {
					k := fmt.Sprintf("%d/%s/%d", c.ID, x.Owner.String(), x.Coin)
					if m[k] == nil {
						m[k] = new(big.Int)
					}
					m[k].Add(m[k], obs.Num(x.Value))
				}
			}
		}
		return m
	}
	sa, sb := staked(par), staked(t.Cur.Final())
	for k, va := range sa {
		vb := sb[k]
		if vb == nil {
			vb = new(big.Int)
		}
		if vb.Cmp(va) >= 0 {
			continue
		}
		parts := strings.Split(k, "/")
		owner := parts[1]
		if auth[owner] {
			continue
		}
		// a kick to the waitlist with the full value is a protocol action
		lost := new(big.Int).Sub(va, vb)
		wk := fmt.Sprintf("wait/%s/%s/%s", parts[0], owner, parts[2])
		gain := new(big.Int).Sub(obs.Num(t.Cur.Final().Flat[wk]), obs.Num(par.Flat[wk]))
		if gain.Cmp(lost) == 0 {
			continue
		}
		bad("stake-reduced-without-authorisation", fmt.Sprintf("stake %s of candidate/owner/coin fell from %s to %s", k, va, vb))
	}
	for _, d := range twinDiff(t) {
		k := d.Key
		p := strings.Split(k, "/")
		switch {
		case p[0] == "acct" && len(p) == 4 && p[2] == "bal":
			if d.Delta().Sign() < 0 && !auth[p[1]] {
				bad("balance-decreased-without-authorisation", d.String())
			}
		case p[0] == "acct" && len(p) == 3 && (p[2] == "multisig" || p[2] == "lock_stake_until"):
			// creating a new multisig wallet sets the data of a fresh address; only a change of existing data counts
			if !auth[p[1]] && !(p[2] == "multisig" && d.A == "") {
				bad("account-setting-changed-by-other|"+p[2], d.String())
			}
		case p[0] == "wait" && len(p) >= 4:
			if d.Delta().Sign() < 0 && !auth[p[2]] {
				bad("waitlist-reduced-without-authorisation", d.String())
			}
		case p[0] == "frozen" && len(p) >= 4:
			if d.Delta().Sign() < 0 && !auth[p[2]] {
				bad("frozen-fund-reduced-without-authorisation", d.String())
			}
		case p[0] == "order" && len(p) == 3:
			owner := par.Flat["order/"+p[1]+"/owner"]
			if owner == "" || auth[owner] {
				continue
			}
			// an order of somebody else changed: only a fill (taker trade or commission swap) may do that
			if !(isTrade || feeViaPool) {
				bad("order-changed-without-authorisation", d.String())
			}
		case p[0] == "cand" && len(p) == 3:
			owner, control := candOwner(p[1])
			if owner == "" {
				continue // a new candidate
			}
			switch p[2] {
			case "status":
				if !(auth[owner] || auth[control]) {
					bad("candidate-status-changed-by-stranger", d.String())
				}
			case "reward", "owner", "control", "commission", "last_edit_commission_height", "id", "jailed_until":
				if !auth[owner] {
					bad("candidate-setting-changed-by-non-owner|"+p[2], d.String())
				}
			}
		}
	}
	return out, len(auth) > 0 && (r.T.Multisig != nil || inf.Type == transaction.TypeRedeemCheck || r.Resp.Code != 0)
}
